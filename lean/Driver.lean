import QbeeModel.Model.Util
import QbeeModel.Model.Print
import QbeeModel.Model.NumFmt
import QbeeModel.Model.Data
import QbeeModel.Model.Input
import QbeeModel.Model.Using
import QbeeModel.Model.Instr
import QbeeModel.Model.Module
import QbeeModel.Model.Layout
import QbeeModel.Model.ExprC
import QbeeModel.Model.FloatInst
import QbeeModel.Model.ExprSem
import QbeeModel.Model.Fold
import QbeeModel.Model.Asm
import QbeeModel.Model.DebugMap
import QbeeModel.Model.Tick
import QbeeModel.Model.Dbg
import QbeeModel.Model.DbgEval
import QbeeModel.Model.Blocks
import QbeeModel.Model.Lex
import QbeeModel.Model.Src
import QbeeModel.Model.StmtDepth
/-
  Line-protocol driver for the executable models.  One request per line, one
  answer per line.  Unknown or malformed requests answer `bad-op`; the models
  never default.
-/
open Qbee

namespace Drv

/-- parse PRINT items: `N <cp>` | `S <cp>` | `;` | `,` -/
def parseItems : List String → Option (List Print.Item)
  | [] => some []
  | "N" :: t :: r => do let s ← decStr t; let rest ← parseItems r; pure (.num s :: rest)
  | "I" :: t :: r => do let n ← t.toInt?; let rest ← parseItems r; pure (.num (NumFmt.fmtInt n) :: rest)
  | "S" :: t :: r => do let s ← decStr t; let rest ← parseItems r; pure (.str s :: rest)
  | ";" :: r => (parseItems r).map (.semi :: ·)
  | "," :: r => (parseItems r).map (.comma :: ·)
  | _ => none

/-- parse PRINT argument cells: `I <int>` | `N <cp>` | `S <cp>` -/
def parseArgs : List String → Option (List Print.Arg)
  | [] => some []
  | "I" :: t :: r => do let n ← t.toInt?; let rest ← parseArgs r; pure (.int n :: rest)
  | "N" :: t :: r => do let s ← decStr t; let rest ← parseArgs r; pure (.val (.num s) :: rest)
  | "S" :: t :: r => do let s ← decStr t; let rest ← parseArgs r; pure (.val (.str s) :: rest)
  | _ => none

/-- DATA items: `E` | `S <cp>` -/
def takeDItems : Nat → List String → Option (List Data.DItem × List String)
  | 0, r => some ([], r)
  | n + 1, "E" :: r => do let (its, r') ← takeDItems n r; pure (.empty :: its, r')
  | n + 1, "S" :: t :: r => do let s ← decStr t; let (its, r') ← takeDItems n r; pure (.str s :: its, r')
  | _, _ => none

def encDItems (its : List Data.DItem) : String :=
  " ".intercalate (toString its.length :: its.map fun
    | .empty => "E"
    | .str s => "S " ++ encStr s)

/-- events: `L <cp>` | `D <n> items…` -/
partial def parseEvs : List String → Option (List Data.Ev)
  | [] => some []
  | "L" :: t :: r => do let s ← decStr t; let rest ← parseEvs r; pure (.label s.toStr :: rest)
  | "D" :: n :: r => do
      let n ← n.toNat?
      let (its, r') ← takeDItems n r
      let rest ← parseEvs r'
      pure (.data its :: rest)
  | _ => none

def takeParts : Nat → List String → Option (List (List Data.DItem) × List String)
  | 0, r => some ([], r)
  | n + 1, k :: r => do
      let k ← k.toNat?
      let (its, r') ← takeDItems k r
      let (ps, r'') ← takeParts n r'
      pure (its :: ps, r'')
  | _, _ => none

/-- READ/RESTORE ops on a data section: `R <ty>` | `T <int>` -/
def runReads (data : List (List Data.DItem)) : Data.Cur → List String → Option (List String)
  | _, [] => some []
  | c, "R" :: ty :: r => do
      let ty ← ty.toNat?
      match Data.readRaw data c with
      | none => do let rest ← runReads data c r; pure ("out" :: rest)
      | some (it, c') =>
        match Data.convert ty it with
        | .badType => do let rest ← runReads data c r; pure ("bad" :: rest)
        | .range => do let rest ← runReads data c r; pure ("range" :: rest)
        | .gray => do let rest ← runReads data c' r; pure ("gray" :: rest)
        | .int v => do let rest ← runReads data c' r; pure (s!"I{v}" :: rest)
        | .str s => do let rest ← runReads data c' r; pure (("S" ++ encStr s) :: rest)
        | .flt s => do let rest ← runReads data c' r; pure (("F" ++ encStr s) :: rest)
  | _, "T" :: i :: r => do
      let i ← i.toInt?
      let rest ← runReads data (Data.restore i) r
      pure ("ok" :: rest)
  | _, _ => none

def encCell : Input.Cell → String
  | .int ty v => s!"I{ty}:{v}"
  | .flt ty tok => s!"F{ty}:" ++ encStr tok
  | .str s => "S" ++ encStr s

def encCalls (cs : List Input.Call) : String :=
  " ".intercalate (cs.map fun
    | .print s => "P" ++ encStr s
    | .input => "IN")

def takeNats : Nat → List String → Option (List Nat × List String)
  | 0, r => some ([], r)
  | n + 1, t :: r => do let v ← t.toNat?; let (vs, r') ← takeNats n r; pure (v :: vs, r')
  | _, _ => none

def takeStrs : Nat → List String → Option (List Str × List String)
  | 0, r => some ([], r)
  | n + 1, t :: r => do let v ← decStr t; let (vs, r') ← takeStrs n r; pure (v :: vs, r')
  | _, _ => none

def handleInput (r : List String) : Option String := do
  match r with
  | q :: p :: n :: rest =>
    let p ← decStr p
    let n ← n.toNat?
    let (tys, rest) ← takeNats n rest
    match rest with
    | k :: rest =>
      let k ← k.toNat?
      let (lines, rest) ← takeStrs k rest
      if !rest.isEmpty || (q ≠ "0" && q ≠ "1") then none else
      let req : Input.Req := { prompt := p, question := q = "1", tys := tys }
      pure <| match Input.run req lines with
        | .done c pushed left => s!"done {left.length} | " ++ encCalls c ++ " | " ++ " ".intercalate (pushed.map encCell)
        | .starved c left => s!"starved {left.length} | " ++ encCalls c
        | .gray _ => "gray"
        | .devErr c => "deverr | " ++ encCalls c
    | _ => none
  | _ => none

def encSpec (sp : Using.NumSpec) : String :=
  s!"num:{sp.width}:{if sp.signEnd then "e" else "b"}:" ++
  (match sp.signChar with | some c => toString c.toNat | none => "-") ++
  s!":{if sp.comma then 1 else 0}:" ++
  (match sp.decimalPoint with | some d => toString d | none => "-") ++ s!":{sp.realSharps}:{sp.decimalsN}"

def encParts (ps : List Using.Part) : String :=
  " ".intercalate (ps.map fun
    | .non s => "non:" ++ encStr s
    | .str c => s!"str:{c.toNat}"
    | .num sp => encSpec sp)

/-- values: `S <cp>` | `N <neg 0/1> <body-cp>` -/
def parseVals : List String → Option (List Using.Val)
  | [] => some []
  | "S" :: t :: r => do let s ← decStr t; let rest ← parseVals r; pure (.str s :: rest)
  | "N" :: n :: b :: r => do
      let b ← decStr b
      if n ≠ "0" && n ≠ "1" then none else
      let rest ← parseVals r
      pure (.num (n = "1") b :: rest)
  | _ => none

def hexVal (c : Char) : Option Nat :=
  if '0' ≤ c ∧ c ≤ '9' then some (c.toNat - 48)
  else if 'a' ≤ c ∧ c ≤ 'f' then some (c.toNat - 87) else none

def hexBytes : List Char → Option (List Nat)
  | [] => some []
  | a :: b :: r => do let x ← hexVal a; let y ← hexVal b; let rest ← hexBytes r; pure ((x * 16 + y) :: rest)
  | _ => none

def toHex (bs : List Nat) : String :=
  let d (n : Nat) : Char := if n < 10 then Char.ofNat (48 + n) else Char.ofNat (87 + n)
  String.ofList (bs.flatMap fun b => [d (b / 16), d (b % 16)])

/-- split a module image into (section id, payload) -/
def sections : Nat → List Nat → Option (List (Nat × List Nat))
  | _, [] => some []
  | 0, _ => none
  | f + 1, id :: r =>
    match Module.takeN 4 r with
    | none => none
    | some (h, r') =>
      match Module.takeN (Bytes.val h) r' with
      | none => none
      | some (p, r'') => (sections f r'').map ((id, p) :: ·)

def encOperandTxt : Instr.Operand → String
  | .u8 n => s!"{n}" | .i16 i => s!"{i}" | .u16 n => s!"{n}" | .i32 i => s!"{i}"
  | .label n => s!"@{n}" | .f32 b => s!"f{b}" | .f64 b => s!"d{b}" | .lit i => s!"${i}"

def encInstr (i : Instr.Instr) : String :=
  (match Instr.lookupName Gen.instrTable i.opcode with | some n => n | none => "?") ++
  (if i.ops.isEmpty then "" else ":" ++ ",".intercalate (i.ops.map encOperandTxt))

def encItem : Module.Item → String
  | none => "E"
  | some s => "S" ++ toHex s

def handleModule (hex : String) : String :=
  match hexBytes hex.toList with
  | none => "bad-op"
  | some bs =>
    match sections (bs.length + 1) bs with
    | none => "bad-sections"
    | some secs =>
      let get (id : Nat) := (secs.find? (·.1 = id)).map (·.2)
      let lits := match get 1 with
        | some p => (match Module.parseLiterals (p.length + 1) p with
          | some ls => "L " ++ " ".intercalate (toString ls.length :: ls.map toHex)
          | none => "L bad")
        | none => "L -"
      let data := match get 2 with
        | some p => (match Module.parseData p with
          | some d => "D " ++ " ".intercalate (toString d.length :: d.map fun part =>
              " ".intercalate (toString part.length :: part.map encItem))
          | none => "D bad")
        | none => "D -"
      let glob := match get 3 with
        | some p => if p.length = 4 then s!"G {Bytes.val p}" else "G bad"
        | none => "G -"
      let code := match get 4 with
        | some p => (match Instr.decodeAll (p.length + 1) p with
          | some is => "C " ++ " ".intercalate (toString is.length :: is.map encInstr) ++
              " | " ++ " ".intercalate ((Instr.starts 0 is).map toString) ++
              (if Instr.encodeAll is = p then " | same" else " | differ")
          | none => "C bad")
        | none => "C -"
      lits ++ " ; " ++ data ++ " ; " ++ glob ++ " ; " ++ code ++ " ; ids " ++ " ".intercalate (secs.map (toString ·.1))

/-- FType in prefix form: `C` | `R n t1 … tn` -/
partial def parseFType : List String → Option (Layout.FType × List String)
  | "C" :: r => some (.cell, r)
  | "R" :: n :: r => do
      let n ← n.toNat?
      let rec go : Nat → List String → Option (List Layout.FType × List String)
        | 0, r => some ([], r)
        | k + 1, r => do let (t, r') ← parseFType r; let (ts, r'') ← go k r'; pure (t :: ts, r'')
      let (fs, r') ← go n r
      pure (.record fs, r')
  | _ => none

def takeDims : Nat → List String → Option (List (Int × Int) × List String)
  | 0, r => some ([], r)
  | n + 1, lo :: hi :: r => do
      let lo ← lo.toInt?; let hi ← hi.toInt?
      let (ds, r') ← takeDims n r
      pure ((lo, hi) :: ds, r')
  | _, _ => none

def takeInts : Nat → List String → Option (List Int × List String)
  | 0, r => some ([], r)
  | n + 1, t :: r => do let v ← t.toInt?; let (vs, r') ← takeInts n r; pure (v :: vs, r')
  | _, _ => none

/-- VType: `V ftype` | `A ftype k lo hi …` | `Y` -/
def parseVType : List String → Option (Layout.VType × List String)
  | "V" :: r => do let (t, r') ← parseFType r; pure (.val t, r')
  | "A" :: r => do
      let (t, r') ← parseFType r
      match r' with
      | k :: r'' => do
          let k ← k.toNat?
          let (ds, r3) ← takeDims k r''
          pure (.sarr t ds, r3)
      | [] => none
  | "Y" :: r => some (.dyn, r)
  | _ => none

partial def parseDecls : List String → Option (List (String × Layout.VType))
  | [] => some []
  | n :: r => do let (t, r') ← parseVType r; let rest ← parseDecls r'; pure ((n, t) :: rest)

def optNat : Option Nat → String
  | some n => toString n
  | none => "none"

def handleLayout : List String → Option String
  | "vidx" :: v :: r => do
      let ds ← parseDecls r
      pure (optNat (Layout.varIdx ds v) ++ " " ++ toString (Layout.frameSize ds))
  | "ridx" :: v :: n :: r => do
      -- a routine's frame: the first n declarations are parameters
      let n ← n.toNat?
      let ds ← parseDecls r
      let fr := Layout.routineFrame (ds.take n) (ds.drop n)
      pure (optNat (Layout.varIdx fr v) ++ " " ++ toString (Layout.frameSize fr))
  | "foff" :: r => do
      let (t, r') ← parseFType r
      let path ← r'.mapM String.toNat?
      pure (optNat (Layout.fieldOffset t path) ++ " " ++ toString t.size)
  | "eidx" :: e :: k :: r => do
      let e ← e.toNat?; let k ← k.toNat?
      let (ds, r') ← takeDims k r
      match r' with
      | m :: r'' => do
          let m ← m.toNat?
          let (is, r3) ← takeInts m r''
          if !r3.isEmpty then none else
          pure (optNat (Layout.elemIndex e ds is))
      | [] => none
  | _ => none

def parseTy : String → Option Gen.Ty
  | "i" => some .i | "l" => some .l | "s" => some .s | "d" => some .d | "str" => some .str | _ => none

/-- expression trees in prefix form: `A ty` | `B op a b` | `U op a` -/
partial def parseE : List String → Option (ExprC.E × List String)
  | "A" :: t :: r => do let t ← parseTy t; pure (.atom t, r)
  | "B" :: op :: r => do
      let op ← op.toNat?
      let (a, r1) ← parseE r
      let (b, r2) ← parseE r1
      pure (.bin op a b, r2)
  | "U" :: op :: r => do
      let op ← op.toNat?
      let (a, r1) ← parseE r
      pure (.un op a, r1)
  | _ => none

def tyTxt : Gen.Ty → String
  | .i => "i" | .l => "l" | .s => "s" | .d => "d" | .str => "str"

def handleCExpr (r : List String) : String :=
  match parseE r with
  | some (e, []) =>
    match ExprC.ty e, ExprC.compileE e with
    | some t, some code => "ok " ++ tyTxt t ++ " " ++ " ".intercalate (code.map toString)
    | none, _ => "reject"
    | some t, none => "nocode " ++ tyTxt t
  | _ => "bad-op"

def parseCell (t : String) : Option (Arith.Cell Float) :=
  match t.toList with
  | 'i' :: r => (String.ofList r).toInt?.map (Arith.Cell.int .i)
  | 'l' :: r => (String.ofList r).toInt?.map (Arith.Cell.int .l)
  | 's' :: r => (String.ofList r).toNat?.map fun b => Arith.Cell.flt .s (Float.ofBits b.toUInt64)
  | 'd' :: r => (String.ofList r).toNat?.map fun b => Arith.Cell.flt .d (Float.ofBits b.toUInt64)
  | 't' :: r => (decStr (String.ofList r)).map Arith.Cell.str
  | _ => none

def encCellA : Arith.Cell Float → String
  | .int .i n => s!"i{n}"
  | .int _ n => s!"l{n}"
  | .flt .s x => s!"s{x.toBits.toNat}"
  | .flt _ x => s!"d{x.toBits.toNat}"
  | .str s => "t" ++ encStr s

def encRes : Arith.Res (Arith.Cell Float) → String
  | .ok c => "ok " ++ encCellA c
  | .trap c => "trap " ++ c
  | .host c => "host " ++ c

def parseBinOp : String → Option Arith.BinOp
  | "add" => some .add | "sub" => some .sub | "mul" => some .mul | "div" => some .div | "idiv" => some .idiv
  | "mod" => some .mod | "exp" => some .exp | "and" => some .and | "or" => some .or | "xor" => some .xor
  | "eqv" => some .eqv | "imp" => some .imp | "cmp" => some .cmp | _ => none

def parseUnOp : String → Option Arith.UnOp
  | "neg" => some .neg | "not" => some .not | "eq" => some .eq | "ne" => some .ne | "lt" => some .lt
  | "gt" => some .gt | "le" => some .le | "ge" => some .ge | "abs" => some .abs | "sign" => some .sign
  | "cint" => some .cint | "clng" => some .clng | "int" => some .int | _ => none

def handleArith : List String → Option String
  | ["b", op, a, b] => do
      let op ← parseBinOp op; let a ← parseCell a; let b ← parseCell b
      pure (encRes (Arith.binop Arith.floatOps op a b))
  | ["u", op, a] => do
      let op ← parseUnOp op; let a ← parseCell a
      pure (encRes (Arith.unop Arith.floatOps op a))
  | ["c", src, dst, a] => do
      let src ← parseTy src; let dst ← parseTy dst; let a ← parseCell a
      pure (encRes (Arith.conv Arith.floatOps src dst a))
  | ["mk", t, "I", n] => do
      let t ← parseTy t; let n ← n.toInt?
      pure (encRes (Arith.mk Arith.floatOps t (.int n)))
  | ["mk", t, "F", b] => do
      let t ← parseTy t; let b ← b.toNat?
      pure (encRes (Arith.mk Arith.floatOps t (.flt (Float.ofBits b.toUInt64))))
  | _ => none

/-- concrete trees: `A <cell>` | `B op a b` | `U op a` -/
partial def parseCE : List String → Option (ExprSem.CE Float × List String)
  | "A" :: c :: r => do let c ← parseCell c; pure (.leaf c, r)
  | "B" :: op :: r => do
      let op ← op.toNat?
      let (a, r1) ← parseCE r
      let (b, r2) ← parseCE r1
      pure (.bin op a b, r2)
  | "U" :: op :: r => do
      let op ← op.toNat?
      let (a, r1) ← parseCE r
      pure (.un op a, r1)
  | _ => none

def handleRefEval (r : List String) : String :=
  match parseCE r with
  | some (e, []) =>
    match ExprC.ty e.erase with
    | none => "reject"
    | some _ =>
      let ref := ExprSem.refEval Arith.floatOps e
      let viaCode := match ExprSem.compileC e with
        | some code => (match ExprSem.runC Arith.floatOps code [] with
          | .ok [v] => encRes (.ok v)
          | .ok _ => "host stack"
          | .trap c => "trap " ++ c
          | .host c => "host " ++ c)
        | none => "nocode"
      encRes ref ++ " | " ++ viaCode
  | _ => "bad-op"

def encFold : Fold.FoldRes → String
  | .lit t n => s!"lit {tyTxt t} {n}"
  | .unfolded => "unfolded"
  | .host c => "host " ++ c

def handleFold : List String → Option String
  | ["b", op, t, a, b] => do
      let op ← parseBinOp op; let t ← parseTy t; let a ← a.toInt?; let b ← b.toInt?
      pure (encFold (Fold.foldInt op t a b))
  | ["u", k, t, a] => do
      let t ← parseTy t; let a ← a.toInt?
      if k ≠ "neg" && k ≠ "not" then none else
      pure (encFold (Fold.foldUnInt (k = "neg") t a))
  | ["conv", d, a] => do
      let d ← parseTy d; let a ← a.toInt?
      pure (match Fold.phConvInt d a with | some n => s!"some {n}" | none => "none")
  | ["opconv", t, bits] => do
      let t ← parseTy t; let b ← bits.toNat?
      pure (match Fold.foldOperandFromFloat Arith.floatOps t (Float.ofBits b.toUInt64) with | some n => s!"some {n}" | none => "none")
  | _ => none

/-- symbolic stream: `I <opcode> <nargs> (B <hex> | L <cp>)…` | `K <cp>` | `M <kind>` -/
partial def parseStream : List String → Option (List Asm.SI)
  | [] => some []
  | "K" :: n :: r => do let n ← decStr n; let rest ← parseStream r; pure (.label n.toStr :: rest)
  | "M" :: k :: r => do let k ← k.toNat?; let rest ← parseStream r; pure (.marker k :: rest)
  | "I" :: op :: n :: r => do
      let op ← op.toNat?; let n ← n.toNat?
      let rec takeArgs : Nat → List String → Option (List Asm.Arg × List String)
        | 0, r => some ([], r)
        | k + 1, "B" :: h :: r => do
            let bs ← hexBytes (if h = "-" then [] else h.toList)
            let (as, r') ← takeArgs k r
            pure (.bytes bs :: as, r')
        | k + 1, "L" :: l :: r => do
            let l ← decStr l
            let (as, r') ← takeArgs k r
            pure (.lbl l.toStr :: as, r')
        | _, _ => none
      let (args, r') ← takeArgs n r
      let rest ← parseStream r'
      pure (.ins op args :: rest)
  | _ => none

def handleAsm (r : List String) : String :=
  match parseStream r with
  | none => "bad-op"
  | some s =>
    let code := match Asm.assemble s with | some bs => toHex bs | none => "keyerror"
    let erased := match Asm.assemble (Asm.erase s) with | some bs => toHex bs | none => "keyerror"
    code ++ " " ++ erased ++ " | " ++ " ".intercalate ((Asm.markerOffsets s 0).map fun (k, o) => s!"{k}:{o}")

partial def parseEvs2 : List String → Option (List DebugMap.Ev)
  | [] => some []
  | "S" :: i :: o :: r => do let i ← i.toNat?; let o ← o.toNat?; let rest ← parseEvs2 r; pure (.start i o :: rest)
  | "E" :: i :: o :: r => do let i ← i.toNat?; let o ← o.toNat?; let rest ← parseEvs2 r; pure (.stop i o :: rest)
  | _ => none

partial def parseRecs : List String → Option (List DebugMap.Rec)
  | [] => some []
  | i :: s :: e :: r => do let i ← i.toNat?; let s ← s.toNat?; let e ← e.toNat?; let rest ← parseRecs r; pure (⟨i, s, e⟩ :: rest)
  | _ => none

def handleDbgMap : List String → Option String
  | "collect" :: r => do
      let evs ← parseEvs2 r
      pure (match DebugMap.collect evs [] [] with
        | some rs => "ok " ++ " ".intercalate (rs.map fun x => s!"{x.id}:{x.s}:{x.e}")
        | none => "assert")
  | "find" :: n :: r => do
      let n ← n.toNat?
      -- addresses first (n of them), then the records
      let addrs ← (r.take n).mapM String.toNat?
      let recs ← parseRecs (r.drop n)
      pure (" ".intercalate (addrs.map fun a => match DebugMap.findStmt recs a with | some x => toString x.id | none => "-"))
  | _ => none

def encTarget : Tick.Target → String
  | .off => "off" | .next => "next" | .addr a => s!"a{a}"

def encSt (s : Tick.St) : String :=
  s!"{s.pc} {if s.halted then 1 else 0} " ++
  (match s.reason with | .none => "none" | .instruction => "instr" | .trap => "trap" | .endOfCode => "end") ++
  s!" {encTarget s.target} {if s.active then 1 else 0} {s.trappedAddr} " ++
  (match s.lastTrap with | some c => toString c | none => "-") ++ s!" {if s.interrupt then 1 else 0} {s.prevPc}"

def parseTarget (t : String) : Option Tick.Target :=
  if t = "off" then some .off else if t = "next" then some .next
  else match t.toList with
    | 'a' :: r => (String.ofList r).toNat?.map .addr
    | _ => none

def parseSt : List String → Option (Tick.St × List String)
  | pc :: h :: rs :: tg :: ac :: ta :: lt :: it :: pp :: r => do
      let pc ← pc.toNat?; let pp ← pp.toNat?; let ta ← ta.toNat?; let tg ← parseTarget tg
      let reason : Tick.Halt := if rs = "instr" then .instruction else if rs = "trap" then .trap else if rs = "end" then .endOfCode else .none
      let lt := if lt = "-" then none else lt.toNat?
      pure ({ pc := pc, halted := h = "1", reason := reason, target := tg, active := ac = "1", trappedAddr := ta,
              lastTrap := lt, interrupt := it = "1", prevPc := pp }, r)
  | _ => none

def parseIK : List String → Option (Tick.IK × List String)
  | "plain" :: n :: r => do let n ← n.toNat?; pure (.plain n, r)
  | "traps" :: c :: sz :: r => do let c ← c.toNat?; let sz ← sz.toNat?; pure (.traps c sz, r)
  | "host" :: c :: sz :: r => do let sz ← sz.toNat?; pure (.host c sz, r)
  | "halt" :: r => some (.halt, r)
  | "errhand" :: t :: sz :: r => do let t ← t.toNat?; let sz ← sz.toNat?; pure (.errhand t sz, r)
  | "errres" :: sz :: r => do let sz ← sz.toNat?; pure (.errres sz, r)
  | "errresn" :: sz :: r => do let sz ← sz.toNat?; pure (.errresn sz, r)
  | "invalid" :: r => some (.invalidOp, r)
  | _ => none

/-- `tick <codeLen> <state 9 fields> <ik…> <stmt: - | s e>` -/
def handleTick : List String → Option String
  | cl :: r => do
      let cl ← cl.toNat?
      let (s, r1) ← parseSt r
      let (ik, r2) ← parseIK r1
      let (unwind, r3) ← match r2 with
        | "u-" :: r => some (none, r)
        | u :: r => if u.startsWith "u" then (u.drop 1).toString.toNat?.map (fun n => (some n, r)) else none
        | [] => none
      let stmt ← match r3 with
        | ["-"] => some none
        | [a, b] => do let a ← a.toNat?; let b ← b.toNat?; pure (some (a, b))
        | _ => none
      pure (match Tick.tick cl s ik stmt unwind with
        | .st s' => "st " ++ encSt s'
        | .host c s' => s!"host {c} " ++ encSt s')
  | _ => none


/-! ### debugger sessions (C12): the machine is the recorded free run, a state is an index into it -/

def triples : List Nat → List (Nat × Nat × Nat)
  | a :: b :: c :: r => (a, b, c) :: triples r
  | _ => []

def quads : List Nat → List (Nat × Nat × Nat × Nat)
  | a :: b :: c :: d :: r => (a, b, c, d) :: quads r
  | _ => []

def parseDbgCmds (recs : List Dbg.SRec) : List String → Option (List Dbg.Cmd)
  | [] => some []
  | "step" :: r => (parseDbgCmds recs r).map (.step :: ·)
  | "next" :: r => (parseDbgCmds recs r).map (.next :: ·)
  | "stepi" :: r => (parseDbgCmds recs r).map (.stepi :: ·)
  | "nexti" :: r => (parseDbgCmds recs r).map (.nexti :: ·)
  | "cont" :: r => (parseDbgCmds recs r).map (.cont :: ·)
  | "bl" :: l :: r => do let l ← l.toNat?; let cs ← parseDbgCmds recs r; pure (.brk (Dbg.resolveLine recs l) :: cs)
  | "dl" :: l :: r => do let l ← l.toNat?; let cs ← parseDbgCmds recs r; pure (.del (Dbg.resolveLine recs l) :: cs)
  | "ba" :: a :: r => do let a ← a.toNat?; let cs ← parseDbgCmds recs r; pure (.brk (some (.exact a)) :: cs)
  | "da" :: a :: r => do let a ← a.toNat?; let cs ← parseDbgCmds recs r; pure (.del (some (.exact a)) :: cs)
  | "br" :: a :: b :: r => do let a ← a.toNat?; let b ← b.toNat?; let cs ← parseDbgCmds recs r; pure (.brk (some (.range a b)) :: cs)
  | "dr" :: a :: b :: r => do let a ← a.toNat?; let b ← b.toNat?; let cs ← parseDbgCmds recs r; pure (.del (some (.range a b)) :: cs)
  | "bx" :: r => (parseDbgCmds recs r).map (.brk none :: ·)
  | "dx" :: r => (parseDbgCmds recs r).map (.del none :: ·)
  | _ => none

def encBp : Dbg.Bp → String
  | .exact a => s!"e{a}"
  | .range a b => s!"r{a}-{b}"

/-- `dbg <codeLen> <entry|-> <haltIdx> T <n> (pc frame callsz)*n R <m> (s e line srcoff)*m C cmds…` -/
def handleDbg : List String → Option String
  | cl :: entry :: hi :: "T" :: n :: r => do
      let cl ← cl.toNat?; let hi ← hi.toNat?; let n ← n.toNat?
      let entry ← if entry = "-" then some none else entry.toNat?.map some
      let (tv, r1) ← takeNats (3 * n) r
      let tr := (triples tv).toArray
      match r1 with
      | "R" :: m :: r2 => do
          let m ← m.toNat?
          let (rv, r3) ← takeNats (4 * m) r2
          let srecs := (quads rv).map fun (s, e, l, o) => ({ s := s, e := e, line := l, srcOff := o } : Dbg.SRec)
          let recs : List DebugMap.Rec := (srecs.zipIdx).map fun (x, i) => ⟨i, x.s, x.e⟩
          match r3 with
          | "C" :: cs => do
              let cmds ← parseDbgCmds srecs cs
              let find := fun (a : Nat) => (DebugMap.findStmt recs a).map (·.id)
              let M : Dbg.Mach Nat :=
                { tick := fun i => i + 1,
                  pc := fun i => (tr.getD i (0, 0, 0)).1,
                  halted := fun i => decide (i ≥ hi),
                  frame := fun i => (tr.getD i (0, 0, 0)).2.1,
                  callSize := fun i => let c := (tr.getD i (0, 0, 0)).2.2; if c = 0 then none else some c,
                  codeLen := cl,
                  stmt := fun a => if a = 0 then entry.bind find else find a }
              let fuel := n + 2
              let s0 := Dbg.start M fuel 0
              let (_, outs) := cmds.foldl (fun (acc : Dbg.DS Nat × List String) c =>
                  let d' := Dbg.exec M fuel acc.1 c
                  (d', acc.2 ++ [s!"{d'.s}:{d'.bps.length}"])) (({ s := s0, bps := [] } : Dbg.DS Nat), [])
              let final := cmds.foldl (Dbg.exec M fuel) ({ s := s0, bps := [] } : Dbg.DS Nat)
              pure (s!"{s0} | " ++ " ".intercalate outs ++ " | " ++ " ".intercalate (final.bps.map encBp))
          | _ => none
      | _ => none
  | _ => none


/-! ### the debugger's evaluator on integral trees (C13): `dbgeval <tree>`, tree = L <t> <n> | U <op> tree | B <op> tree tree -/

partial def parseCEL : List String → Option (ExprSem.CE Float × List String)
  | "L" :: t :: n :: r => do
      let n ← n.toInt?
      let ty ← (if t = "i" then some Gen.Ty.i else if t = "l" then some Gen.Ty.l else none)
      pure (.leaf (.int ty n), r)
  | "U" :: op :: r => do
      let op ← op.toNat?
      let (a, r1) ← parseCEL r
      pure (.un op a, r1)
  | "B" :: op :: r => do
      let op ← op.toNat?
      let (a, r1) ← parseCEL r
      let (b, r2) ← parseCEL r1
      pure (.bin op a b, r2)
  | _ => none

def handleDbgEval (r : List String) : Option String := do
  let (e, rest) ← parseCEL r
  if !rest.isEmpty then none
  pure (match DbgEval.dbgEval e with
    | .val t n => s!"val {if t = .i then "i" else "l"} {n}"
    | .err => "err"
    | .unsupported => "unsupported")


/-! ### block assembly (C05): `blocks <tok>…`, tok = S<k> | E<k> | M<sub> | F | P ; the position of a token is its index + 1 -/

def parseBlockToks : List String → Nat → Option (List Blocks.Tok)
  | [], _ => some []
  | t :: r, i => do
      let rest ← parseBlockToks r (i + 1)
      let tok ← match t.toList with
        | ['F'] => some (Blocks.Tok.field i)
        | ['P'] => some (Blocks.Tok.plain i)
        | 'S' :: d => (String.ofList d).toNat?.map (Blocks.Tok.start · i)
        | 'E' :: d => (String.ofList d).toNat?.map (Blocks.Tok.stop · i)
        | 'M' :: d => (String.ofList d).toNat?.map (Blocks.Tok.mid · i)
        | _ => none
      pure (tok :: rest)

def handleBlocks (r : List String) : Option String := do
  let toks ← parseBlockToks r 1
  pure (match Blocks.assemble toks with
    | .ok _ => "ok"
    | .error (.endWithoutStart k l) => s!"err without {k} {l}"
    | .error (.expected k l) => s!"err expected {k} {l}"
    | .error (.midWithout sub l) => s!"err midwithout {sub} {l}"
    | .error (.notClosed k l) => s!"err notclosed {k} {l}"
    | .error (.elseAfterElse l) => s!"err elseafter 0 {l}"
    | .error (.beforeCase l) => s!"err beforecase 0 {l}"
    | .error (.illegalInType l) => s!"err intype 0 {l}"
    | .error (.fieldOutside l) => s!"err fieldoutside 0 {l}")


/-! ### the lexical layer (C14): `lex <text>` -> the token stream, one item per token -/

def encLexTok : Lex.Tok → String
  | .word w => "W" ++ encStr w
  | .str s => "S" ++ encStr s
  | .raw kw t => "R" ++ encStr kw ++ "," ++ encStr t
  | .sym c => s!"Y{c.toNat}"
  | .sym2 c d => s!"Z{c.toNat},{d.toNat}"
  | .nl => "N"

def handleLex (t : String) : Option String := do
  let s ← decStr t
  pure (" ".intercalate ((Lex.lex s).map encLexTok))


/-! ### statement-level reference semantics (C01): `src <fuel> <nvars> <n> stmt…` -/

def srcOp (t : String) : Option Src.BOp :=
  match t with
  | "add" => some .add | "sub" => some .sub | "mul" => some .mul | "idiv" => some .idiv | "mod" => some .mod
  | "eq" => some .eq | "ne" => some .ne | "lt" => some .lt | "gt" => some .gt | "le" => some .le | "ge" => some .ge
  | "and" => some .and | "or" => some .or | "xor" => some .xor | _ => none

partial def parseSrcExpr : List String → Option (Src.Expr × List String)
  | "N" :: n :: r => do let n ← n.toInt?; pure (.lit n, r)
  | "V" :: i :: r => do let i ← i.toNat?; pure (.var i, r)
  | "B" :: op :: r => do
      let op ← srcOp op
      let (a, r1) ← parseSrcExpr r
      let (b, r2) ← parseSrcExpr r1
      pure (.bin op a b, r2)
  | "X" :: b :: lo :: hi :: r => do
      let b ← b.toNat?; let lo ← lo.toInt?; let hi ← hi.toInt?
      let (i, r1) ← parseSrcExpr r
      pure (.idx b lo hi i, r1)
  | "G" :: r => do let (a, r1) ← parseSrcExpr r; pure (.neg a, r1)
  | "T" :: r => do let (a, r1) ← parseSrcExpr r; pure (.not a, r1)
  | _ => none

partial def parseSrcClauses : Nat → List String → Option (List Src.Clause × List String)
  | 0, r => some ([], r)
  | n + 1, "Q" :: r => do let (e, r1) ← parseSrcExpr r; let (cs, r2) ← parseSrcClauses n r1; pure (.eq e :: cs, r2)
  | n + 1, "R" :: r => do
      let (a, r1) ← parseSrcExpr r; let (b, r2) ← parseSrcExpr r1; let (cs, r3) ← parseSrcClauses n r2; pure (.range a b :: cs, r3)
  | n + 1, "L" :: r => do let (e, r1) ← parseSrcExpr r; let (cs, r2) ← parseSrcClauses n r1; pure (.isLt e :: cs, r2)
  | n + 1, "H" :: r => do let (e, r1) ← parseSrcExpr r; let (cs, r2) ← parseSrcClauses n r1; pure (.isGt e :: cs, r2)
  | _, _ => none

mutual
partial def parseSrcStmts : Nat → List String → Option (List Src.Stmt × List String)
  | 0, r => some ([], r)
  | n + 1, r => do
      let (s, r1) ← parseSrcStmt r
      let (ss, r2) ← parseSrcStmts n r1
      pure (s :: ss, r2)

partial def parseSrcBlock : List String → Option (List Src.Stmt × List String)
  | n :: r => do let n ← n.toNat?; parseSrcStmts n r
  | [] => none

partial def parseSrcCases : Nat → List String → Option (List (List Src.Clause × List Src.Stmt) × List String)
  | 0, r => some ([], r)
  | k + 1, nc :: r => do
      let nc ← nc.toNat?
      let (cl, r1) ← parseSrcClauses nc r
      let (body, r2) ← parseSrcBlock r1
      let (rest, r3) ← parseSrcCases k r2
      pure ((cl, body) :: rest, r3)
  | _, [] => none

partial def parseSrcStmt : List String → Option (Src.Stmt × List String)
  | "A" :: i :: r => do let i ← i.toNat?; let (e, r1) ← parseSrcExpr r; pure (.assign i e, r1)
  | "P" :: r => do let (e, r1) ← parseSrcExpr r; pure (.print e, r1)
  | "I" :: r => do
      let (c, r1) ← parseSrcExpr r
      let (t, r2) ← parseSrcBlock r1
      let (e, r3) ← parseSrcBlock r2
      pure (.ifElse c t e, r3)
  | "W" :: r => do let (c, r1) ← parseSrcExpr r; let (b, r2) ← parseSrcBlock r1; pure (.while c b, r2)
  | "D" :: pk :: r => do
      let pk ← pk.toNat?
      let (pre, r1) ← parseSrcExpr r
      match r1 with
      | qk :: r2 => do
          let qk ← qk.toNat?
          let (post, r3) ← parseSrcExpr r2
          let (b, r4) ← parseSrcBlock r3
          pure (.doLoop pk pre qk post b, r4)
      | [] => none
  | "F" :: i :: r => do
      let i ← i.toNat?
      let (a, r1) ← parseSrcExpr r
      let (b, r2) ← parseSrcExpr r1
      let (st, r3) ← parseSrcExpr r2
      let (body, r4) ← parseSrcBlock r3
      pure (.for i a b st body, r4)
  | "S" :: r => do
      let (e, r1) ← parseSrcExpr r
      match r1 with
      | k :: r2 => do
          let k ← k.toNat?
          let (cases, r3) ← parseSrcCases k r2
          let (d, r4) ← parseSrcBlock r3
          pure (.select e cases d, r4)
      | [] => none
  | "XD" :: r => some (.exitDo, r)
  | "XF" :: r => some (.exitFor, r)
  | "XS" :: r => some (.exitSub, r)
  | "AI" :: b :: lo :: hi :: r => do
      let b ← b.toNat?; let lo ← lo.toInt?; let hi ← hi.toInt?
      let (i, r1) ← parseSrcExpr r
      let (e, r2) ← parseSrcExpr r1
      pure (.assignIdx b lo hi i e, r2)
  | "E" :: r => some (.end_, r)
  | "C" :: p :: n :: r => do
      let p ← p.toNat?; let n ← n.toNat?
      let (args, r1) ← parseSrcArgs n r
      pure (.call p args, r1)
  | _ => none

partial def parseSrcArgs : Nat → List String → Option (List Src.Arg × List String)
  | 0, r => some ([], r)
  | n + 1, "R" :: v :: r => do let v ← v.toNat?; let (as, r1) ← parseSrcArgs n r; pure (.ref v :: as, r1)
  | n + 1, "X" :: r => do let (e, r1) ← parseSrcExpr r; let (as, r2) ← parseSrcArgs n r1; pure (.val e :: as, r2)
  | _, _ => none
end

partial def parseSrcProcs : Nat → List String → Option (List Src.Proc × List String)
  | 0, r => some ([], r)
  | n + 1, np :: nl :: r => do
      let np ← np.toNat?; let nl ← nl.toNat?
      let (body, r1) ← parseSrcBlock r
      let (ps, r2) ← parseSrcProcs n r1
      pure (⟨np, nl, body⟩ :: ps, r2)
  | _, _ => none

def handleSrc : List String → Option String
  | fuel :: nv :: np :: r => do
      let fuel ← fuel.toNat?; let nv ← nv.toNat?; let np ← np.toNat?
      let (procs, r0) ← parseSrcProcs np r
      let (prog, rest) ← parseSrcBlock r0
      if !rest.isEmpty then none
      pure (match Src.run procs fuel nv prog with
        | none => "fuel"
        | some res =>
          " ".intercalate (res.out.map toString) ++ " | " ++
          (match res.sig with
            | .normal => "end" | .ended => "end" | .exitDo => "exitdo" | .exitFor => "exitfor" | .exitSub => "exitsub"
            | .trap c => "trap " ++ c))
  | _ => none

/-- sdepth <d0> <ev>... : the depths after every handled trap, then the number of frames -/
def parseSDEv (t : String) : Option StmtDepth.Ev :=
  match t.splitOn ":" with
  | ["i", p, q] => do pure (StmtDepth.Ev.instr (← p.toNat?) (← q.toNat?))
  | ["s"] => some .gosub
  | ["e", p] => p.toNat?.map StmtDepth.Ev.enter
  | ["l", p, q] => do pure (StmtDepth.Ev.leave (← p.toNat?) (← q.toNat?))
  | ["n"] => some .handledNext
  | ["g"] => some .handledGoto
  | _ => none

def handleSDepth (d0 : String) (r : List String) : Option String := do
  let d ← d0.toNat?
  let evs ← r.mapM parseSDEv
  let (s, ds) := evs.foldl (fun (acc : StmtDepth.St × List Nat) e =>
      let s' := StmtDepth.step acc.1 e
      match e with
      | .handledNext | .handledGoto => (s', acc.2 ++ [s'.depth])
      | _ => (s', acc.2)) (({ depth := d, frames := [] } : StmtDepth.St), [])
  pure (",".intercalate (ds.map toString) ++ " " ++ toString s.frames.length ++ " " ++ toString s.depth)

def handle (toks : List String) : String :=
  match toks with
  | "print" :: r =>
    match parseItems r with
    | some items => encStr (Print.layout items)
    | none => "bad-op"
  | "pargs" :: r =>
    match parseArgs r with
    | some args =>
      match Print.decodeArgs args with
      | some items => "ok " ++ encStr (Print.layout items)
      | none => "reject"
    | none => "bad-op"
  | "pencode" :: r =>
    match parseItems r with
    | some items =>
      let cells := Print.encodeItems items
      " ".intercalate (cells.map fun
        | .int n => s!"I {n}"
        | .val (.num t) => s!"N {encStr t}"
        | .val (.str t) => s!"S {encStr t}"
        | .val _ => "?") ++ s!" I {Print.nargs items}"
    | none => "bad-op"
  | ["fmtint", t] =>
    match t.toInt? with
    | some n => encStr (NumFmt.fmtInt n)
    | none => "bad-op"
  | ["fmtflt", ty, nn, r1, r2, t] =>
    match decStr r1, decStr r2, decStr t with
    | some r1, some r2, some t =>
      if (ty ≠ "S" ∧ ty ≠ "D") ∨ (nn ≠ "0" ∧ nn ≠ "1") then "bad-op" else
      let isD := ty = "D"
      let k := if isD then none else NumFmt.singleRoundDigits r1
      (match k with | some k => toString k | none => "-") ++ " " ++
        encStr (if isD then NumFmt.fmtFloat true (NumFmt.chooseDouble r1 r2 t) (nn = "1") else NumFmt.fmtSingle r1 r2 t (nn = "1"))
    | _, _, _ => "bad-op"
  | ["pyint", t] =>
    match decStr t with
    | some s => match NumFmt.pyInt s with
      | .ok v => s!"ok {v}"
      | .err => "err"
      | .gray => "gray"
    | none => "bad-op"
  | ["val", t] =>
    match decStr t with
    | some s => match NumFmt.valParse s with
      | .zero => "zero"
      | .int v => s!"int {v}"
      | .flt tok => "flt " ++ encStr tok
      | .gray => "gray"
    | none => "bad-op"
  | ["pdata", t] =>
    match decStr t with
    | some s => match Data.parseData s with
      | none => "none"
      | some its => encDItems its
    | none => "bad-op"
  | "group" :: r =>
    match parseEvs r with
    | some evs =>
      let g := Data.groupData evs
      " ".intercalate (toString g.length :: g.map fun (k, its) =>
        (match k with | none => "*" | some l => encStr l.toList) ++ " " ++ encDItems its)
    | none => "bad-op"
  | "lidx" :: l :: r =>
    match decStr l, parseEvs r with
    | some l, some evs =>
      match Data.labelIndex (Data.groupData evs) l.toStr with
      | some i => toString i
      | none => "none"
    | _, _ => "bad-op"
  | "ltgt" :: l :: r =>
    match decStr l, parseEvs r with
    | some l, some evs => toString (Data.labelTarget (Data.groupData evs) (Data.labelOrder evs) l.toStr)
    | _, _ => "bad-op"
  | "reads" :: n :: r =>
    match n.toNat? with
    | some n =>
      match takeParts n r with
      | some (data, ops) =>
        match runReads data ⟨0, 0⟩ ops with
        | some out => " ".intercalate out
        | none => "bad-op"
      | none => "bad-op"
    | none => "bad-op"
  | "input" :: r => (handleInput r).getD "bad-op"
  | ["module", hex] => handleModule hex
  | "layout" :: r => (handleLayout r).getD "bad-op"
  | "cexpr" :: r => handleCExpr r
  | "arith" :: r => (handleArith r).getD "bad-op"
  | "refeval" :: r => handleRefEval r
  | "fold" :: r => (handleFold r).getD "bad-op"
  | "asm" :: r => handleAsm r
  | "dbgmap" :: r => (handleDbgMap r).getD "bad-op"
  | "tick" :: r => (handleTick r).getD "bad-op"
  | "sdepth" :: d0 :: r => (handleSDepth d0 r).getD "bad-op"
  | "dbg" :: r => (handleDbg r).getD "bad-op"
  | "dbgeval" :: r => (handleDbgEval r).getD "bad-op"
  | "blocks" :: r => (handleBlocks r).getD "bad-op"
  | ["lex", t] => (handleLex t).getD "bad-op"
  | "src" :: r => (handleSrc r).getD "bad-op"
  | ["uscan", f] =>
    match decStr f with
    | some f => match Using.scanFmt f with
      | .ok ps => "ok " ++ encParts ps
      | .indexError => "host IndexError"
      | .fuel => "fuel"
    | none => "bad-op"
  | "using" :: f :: r =>
    match decStr f, parseVals r with
    | some f, some vals => match Using.scanFmt f with
      | .ok ps => match Using.format ps vals with
        | .ok out => "ok " ++ encStr out
        | .host c => "host " ++ c
      | .indexError => "host IndexError"
      | .fuel => "fuel"
    | _, _ => "bad-op"
  | _ => "bad-op"

end Drv

partial def loop (h : IO.FS.Stream) (out : IO.FS.Stream) : IO Unit := do
  let line ← h.getLine
  if line.isEmpty then return ()
  out.putStrLn (Drv.handle (tokens line))
  loop h out

def main : IO Unit := do
  let stdin ← IO.getStdin
  let stdout ← IO.getStdout
  loop stdin stdout
