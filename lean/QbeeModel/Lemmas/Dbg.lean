import QbeeModel.Model.Dbg
/-
  Helper lemmas for Props/C12.lean: iteration, reachability along the free run, and the exact specification of
  QvmCpu.run (first state after at least one instruction at which a breakpoint matches).
-/
namespace Qbee.Dbg

variable {σ : Type}

theorem iter_succ (M : Mach σ) (n : Nat) (s : σ) : iter M (n + 1) s = iter M n (M.tick s) := rfl

theorem iter_add (M : Mach σ) (a b : Nat) (s : σ) : iter M (a + b) s = iter M b (iter M a s) := by
  induction a generalizing s with
  | zero => simp [iter]
  | succ a ih =>
    have : a + 1 + b = (a + b) + 1 := by omega
    rw [this, iter_succ, ih, iter_succ]

theorem Reach.refl (M : Mach σ) (s : σ) : Reach M s s := ⟨0, rfl, by intro j hj; omega⟩

theorem Reach.tick (M : Mach σ) (s : σ) (h : M.halted s = false) : Reach M s (M.tick s) :=
  ⟨1, rfl, by intro j hj; have : j = 0 := by omega
              subst this; simpa [iter] using h⟩

theorem Reach.trans (M : Mach σ) {s t u : σ} (h1 : Reach M s t) (h2 : Reach M t u) : Reach M s u := by
  obtain ⟨a, ha, hal⟩ := h1
  obtain ⟨b, hb, hbl⟩ := h2
  refine ⟨a + b, ?_, ?_⟩
  · rw [iter_add, ← ha, hb]
  · intro j hj
    by_cases hja : j < a
    · exact hal j hja
    · have : j = a + (j - a) := by omega
      rw [this, iter_add, ← ha]
      exact hbl (j - a) (by omega)

/-- the exact behaviour of run: it executes k instructions of the free run; no instruction runs on a halted machine;
    at no state strictly in between did the machine halt, a user breakpoint match or the temporary predicate hold -/
theorem run_spec (M : Mach σ) (bps : List Bp) (temp : σ → Bool) (n : Nat) (s : σ) :
    ∃ k, (run M bps temp n s).1 = iter M k s ∧
      (∀ j, j < k → M.halted (iter M j s) = false) ∧
      (∀ j, 0 < j → j < k → M.halted (iter M j s) = false ∧ firstHit bps (M.pc (iter M j s)) = none ∧ temp (iter M j s) = false) ∧
      (∀ i, (run M bps temp n s).2 = .user i →
          1 ≤ k ∧ firstHit bps (M.pc (run M bps temp n s).1) = some i ∧ M.halted (run M bps temp n s).1 = false) ∧
      ((run M bps temp n s).2 = .temp →
          1 ≤ k ∧ temp (run M bps temp n s).1 = true ∧ firstHit bps (M.pc (run M bps temp n s).1) = none ∧
          M.halted (run M bps temp n s).1 = false) ∧
      ((run M bps temp n s).2 = .finished →
          M.halted (run M bps temp n s).1 = true ∨ M.pc (run M bps temp n s).1 ≥ M.codeLen) := by
  induction n generalizing s with
  | zero =>
    refine ⟨0, rfl, by intro j hj; omega, by intro j h0 hj; omega, ?_, ?_, ?_⟩ <;> simp [run]
  | succ n ih =>
    by_cases hstop : (M.halted s || decide (M.pc s ≥ M.codeLen)) = true
    · refine ⟨0, by simp [run, hstop, iter], by intro j hj; omega, by intro j h0 hj; omega, ?_, ?_, ?_⟩
      · simp [run, hstop]
      · simp [run, hstop]
      · intro _
        simp only [run, hstop, if_true]
        simp only [Bool.or_eq_true, decide_eq_true_eq] at hstop
        exact hstop
    · have hstop' : (M.halted s || decide (M.pc s ≥ M.codeLen)) = false := by simpa using hstop
      have hs : M.halted s = false := by
        cases h : M.halted s <;> simp [h] at hstop' ⊢
      by_cases hh : M.halted (M.tick s) = true
      · refine ⟨1, by simp [run, hstop', hh, iter], ?_, by intro j h0 hj; omega, ?_, ?_, ?_⟩
        · intro j hj
          have : j = 0 := by omega
          subst this; simpa [iter] using hs
        · simp [run, hstop', hh]
        · simp [run, hstop', hh]
        · intro _; left; simp [run, hstop', hh]
      · have hh' : M.halted (M.tick s) = false := by simpa using hh
        cases hf : firstHit bps (M.pc (M.tick s)) with
        | some i =>
          have hrun : run M bps temp (n + 1) s = (M.tick s, .user i) := by simp [run, hstop', hh', hf]
          rw [hrun]
          refine ⟨1, by simp [iter], ?_, by intro j h0 hj; omega, ?_, ?_, ?_⟩
          · intro j hj
            have : j = 0 := by omega
            subst this; simpa [iter] using hs
          · intro i' hi'
            simp only [Why.user.injEq] at hi'
            subst hi'
            exact ⟨by omega, hf, hh'⟩
          · intro h; simp at h
          · intro h; simp at h
        | none =>
          by_cases ht : temp (M.tick s) = true
          · have hrun : run M bps temp (n + 1) s = (M.tick s, .temp) := by simp [run, hstop', hh', hf, ht]
            rw [hrun]
            refine ⟨1, by simp [iter], ?_, by intro j h0 hj; omega, ?_, ?_, ?_⟩
            · intro j hj
              have : j = 0 := by omega
              subst this; simpa [iter] using hs
            · intro i h; simp at h
            · intro _
              exact ⟨by omega, ht, hf, hh'⟩
            · intro h; simp at h
          · have ht' : temp (M.tick s) = false := by simpa using ht
            obtain ⟨k, hk, hall, hmid, huser, htemp, hfin⟩ := ih (M.tick s)
            have hrun : run M bps temp (n + 1) s = run M bps temp n (M.tick s) := by
              simp [run, hstop', hh', hf, ht']
            rw [hrun]
            refine ⟨k + 1, by rw [hk, iter_succ], ?_, ?_, ?_, ?_, hfin⟩
            · intro j hj
              cases j with
              | zero => simpa [iter] using hs
              | succ j => rw [iter_succ]; exact hall j (by omega)
            · intro j h0 hj
              cases j with
              | zero => omega
              | succ j =>
                rw [iter_succ]
                cases j with
                | zero => simp only [iter]; exact ⟨hh', hf, ht'⟩
                | succ j => exact hmid (j + 1) (by omega) (by omega)
            · intro i hi
              obtain ⟨h1, h2, h3⟩ := huser i hi
              exact ⟨by omega, h2, h3⟩
            · intro hi
              obtain ⟨h1, h2, h3, h4⟩ := htemp hi
              exact ⟨by omega, h2, h3, h4⟩

theorem run_reach (M : Mach σ) (bps : List Bp) (temp : σ → Bool) (n : Nat) (s : σ) :
    Reach M s (run M bps temp n s).1 := by
  obtain ⟨k, hk, hall, _⟩ := run_spec M bps temp n s
  exact ⟨k, hk, hall⟩

theorem nexti_reach (M : Mach σ) (bps : List Bp) (fuel : Nat) (s : σ) (h : M.halted s = false) :
    Reach M s (nexti M bps fuel s).1 := by
  unfold nexti
  cases M.callSize s with
  | some sz => exact run_reach M bps _ fuel s
  | none => exact Reach.tick M s h

theorem nextLoop_reach (M : Mach σ) (bps : List Bp) (fuel : Nat) (s0 : σ) (n : Nat) (s : σ) :
    Reach M s (nextLoop M bps fuel s0 n s).1 := by
  induction n generalizing s with
  | zero => exact Reach.refl M s
  | succ n ih =>
    unfold nextLoop
    by_cases hh : M.halted s = true
    · simp [hh]; exact Reach.refl M s
    · have hh' : M.halted s = false := by simpa using hh
      simp only [hh', Bool.false_eq_true, if_false]
      have hr := nexti_reach M bps fuel s hh'
      rcases hres : nexti M bps fuel s with ⟨s', w⟩
      rw [hres] at hr
      cases w with
      | user i => exact hr
      | fuel => exact hr
      | finished => exact hr
      | temp =>
        simp only
        split
        · exact hr
        · exact Reach.trans M hr (ih s')

theorem start_reach (M : Mach σ) (n : Nat) (s : σ) : Reach M s (start M n s) := by
  induction n generalizing s with
  | zero => exact Reach.refl M s
  | succ n ih =>
    unfold start
    split
    · exact Reach.refl M s
    · rename_i h
      have hs : M.halted s = false := by
        cases hh : M.halted s <;> simp [hh] at h ⊢
      exact Reach.trans M (Reach.tick M s hs) (ih (M.tick s))

end Qbee.Dbg
