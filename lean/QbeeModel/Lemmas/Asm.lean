import QbeeModel.Model.Asm
namespace Qbee.Asm

@[simp] theorem erase_ins (op : Nat) (a : List Arg) (r : List SI) : erase (.ins op a :: r) = .ins op a :: erase r := rfl
@[simp] theorem erase_label (n : String) (r : List SI) : erase (.label n :: r) = .label n :: erase r := rfl
@[simp] theorem erase_marker (k : Nat) (r : List SI) : erase (.marker k :: r) = erase r := rfl
@[simp] theorem erase_nil : erase [] = [] := rfl

theorem labelTable_erase : ∀ (s : List SI) (off : Nat), labelTable (erase s) off = labelTable s off
  | [], _ => rfl
  | .label n :: r, off => by simp [labelTable, labelTable_erase r off]
  | .marker k :: r, off => by simp [labelTable, size, labelTable_erase r off]
  | .ins op a :: r, off => by simp [labelTable, labelTable_erase r]

theorem emit_erase (tbl : List (String × Nat)) : ∀ (s : List SI), emit tbl (erase s) = emit tbl s
  | [] => rfl
  | .label n :: r => by simp [emit, emit_erase tbl r]
  | .marker k :: r => by simp [emit, emit_erase tbl r]
  | .ins op a :: r => by simp [emit, emit_erase tbl r]

theorem starts_erase : ∀ (s : List SI) (off : Nat), starts (erase s) off = starts s off
  | [], _ => rfl
  | .label n :: r, off => by simp [starts, starts_erase r off]
  | .marker k :: r, off => by simp [starts, starts_erase r off]
  | .ins op a :: r, off => by simp [starts, starts_erase r]

theorem boundary_here : ∀ (s : List SI) (off : Nat), off ∈ starts s off ∨ off = off + totalSize s
  | [], off => by right; simp [totalSize]
  | .ins op a :: r, off => by left; simp [starts]
  | .label n :: r, off => by
    rcases boundary_here r off with h | h
    · left; simpa [starts] using h
    · right; simpa [totalSize, size] using h
  | .marker k :: r, off => by
    rcases boundary_here r off with h | h
    · left; simpa [starts] using h
    · right; simpa [totalSize, size] using h


end Qbee.Asm
