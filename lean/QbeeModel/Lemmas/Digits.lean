import QbeeModel.Model.NumFmt
/- helper lemmas about decimal digit strings -/
namespace Qbee.NumFmt

theorem dropWhile_eq_self_of_all_false {p : Char → Bool} :
    ∀ {l : List Char}, (∀ c ∈ l, p c = false) → l.dropWhile p = l
  | [], _ => rfl
  | c :: r, h => by
    have : p c = false := h c (by simp)
    simp [List.dropWhile, this]

theorem takeWhile_eq_self_of_all {p : Char → Bool} :
    ∀ {l : List Char}, (∀ c ∈ l, p c = true) → l.takeWhile p = l
  | [], _ => rfl
  | c :: r, h => by
    have hc : p c = true := h c (by simp)
    have := takeWhile_eq_self_of_all (p := p) (l := r) (fun c hc => h c (by simp [hc]))
    simp [List.takeWhile, hc, this]

theorem dropWhile_eq_nil_of_all {p : Char → Bool} :
    ∀ {l : List Char}, (∀ c ∈ l, p c = true) → l.dropWhile p = []
  | [], _ => rfl
  | c :: r, h => by
    have hc : p c = true := h c (by simp)
    have := dropWhile_eq_nil_of_all (p := p) (l := r) (fun c hc => h c (by simp [hc]))
    simp [List.dropWhile, hc, this]

theorem strip_eq_self {s : Str} (h : ∀ c ∈ s, isPyWs c = false) : strip s = s := by
  unfold strip lstrip
  rw [dropWhile_eq_self_of_all_false h,
      dropWhile_eq_self_of_all_false (l := s.reverse) (by simpa using h)]
  simp

theorem strip_blank_cons (s : Str) : strip (' ' :: s) = strip s := by
  simp [strip, lstrip, List.dropWhile, isPyWs]

theorem natText_digits {n : Nat} {c : Char} (h : c ∈ natText n) : c.isDigit = true :=
  Nat.isDigit_of_mem_toDigits (by decide) (by decide) h

theorem natText_ne_nil (n : Nat) : natText n ≠ [] := Nat.toDigits_ne_nil

theorem digitsVal_natText (n : Nat) : digitsVal (natText n) = n := Nat.ofDigitChars_ten_toDigits

theorem isDigit_range {c : Char} (h : c.isDigit = true) : 48 ≤ c.toNat ∧ c.toNat ≤ 57 := by
  simp [Char.isDigit] at h
  have h1 := h.1; have h2 := h.2
  constructor
  · exact h1
  · exact h2

theorem digit_not_ws {c : Char} (h : c.isDigit = true) : isPyWs c = false := by
  have ⟨h1, h2⟩ := isDigit_range h
  simp only [isPyWs, Bool.or_eq_false_iff, decide_eq_false_iff_not]
  refine ⟨⟨⟨⟨⟨?_, ?_⟩, ?_⟩, ?_⟩, ?_⟩, ?_⟩ <;> (try (intro hc; subst hc; revert h1 h2; decide)) <;> omega

theorem digit_not_gray {c : Char} (h : c.isDigit = true) : isGrayChar c = false := by
  have ⟨h1, h2⟩ := isDigit_range h
  simp only [isGrayChar, Bool.or_eq_false_iff, decide_eq_false_iff_not]
  refine ⟨⟨?_, ?_⟩, ?_⟩ <;> (try (intro hc; subst hc; revert h1 h2; decide)) <;> omega

theorem digit_not_ppws {c : Char} (h : c.isDigit = true) : isPPWs c = false := by
  have ⟨h1, h2⟩ := isDigit_range h
  simp only [isPPWs, Bool.or_eq_false_iff, decide_eq_false_iff_not]
  refine ⟨⟨⟨?_, ?_⟩, ?_⟩, ?_⟩ <;> (intro hc; subst hc; revert h1 h2; decide)

theorem digit_ne {c : Char} (h : c.isDigit = true) (d : Char) (hd : d.isDigit = false) : c ≠ d := by
  intro e; subst e; simp [h] at hd

theorem allDigits_natText (n : Nat) : allDigits (natText n) = true := by
  simp only [allDigits, Bool.and_eq_true, Bool.not_eq_true', List.all_eq_true]
  refine ⟨?_, fun c hc => natText_digits hc⟩
  cases h : natText n with
  | nil => exact absurd h (natText_ne_nil n)
  | cons _ _ => rfl

theorem takeDigits_natText (n : Nat) : takeDigits (natText n) = (natText n, []) := by
  have hall : ∀ c ∈ natText n, c.isDigit = true := fun c hc => natText_digits hc
  simp [takeDigits, takeWhile_eq_self_of_all hall, dropWhile_eq_nil_of_all hall]

theorem scanMantissa_natText (n : Nat) : scanMantissa (natText n) = some (natText n, []) := by
  have hne := natText_ne_nil n
  simp [scanMantissa, takeDigits_natText, hne]

theorem not_mem_natText (n : Nat) (d : Char) (hd : d.isDigit = false) : d ∉ natText n := by
  intro hm; have := natText_digits hm; simp [this] at hd

theorem head_natText (n : Nat) : ∃ c r, natText n = c :: r ∧ c.isDigit = true := by
  cases h : natText n with
  | nil => exact absurd h (natText_ne_nil n)
  | cons c r => exact ⟨c, r, rfl, natText_digits (by rw [h]; simp)⟩

theorem splitSign_digit {c : Char} (r : Str) (hc : c.isDigit = true) : splitSign (c :: r) = ([], c :: r) := by
  have h1 : c ≠ '+' := digit_ne hc '+' (by decide)
  have h2 : c ≠ '-' := digit_ne hc '-' (by decide)
  unfold splitSign
  split
  · next heq => simp at heq; exact absurd heq.1 h1
  · next heq => simp at heq; exact absurd heq.1 h2
  · rfl

theorem signedVal_digit {c : Char} (r : Str) (hc : c.isDigit = true) : signedVal (c :: r) = digitsVal (c :: r) := by
  have h1 : c ≠ '+' := digit_ne hc '+' (by decide)
  have h2 : c ≠ '-' := digit_ne hc '-' (by decide)
  unfold signedVal
  split
  · next heq => simp at heq; exact absurd heq.1 h2
  · next heq => simp at heq; exact absurd heq.1 h1
  · rfl

theorem scanNumLit_natText (n : Nat) : scanNumLit (natText n) = some (natText n, none) := by
  obtain ⟨c, r, h, hc⟩ := head_natText n
  have hm := scanMantissa_natText n
  rw [h] at hm ⊢
  simp [scanNumLit, splitSign_digit r hc, hm, scanExp, typeChar?]

theorem scanNumLit_neg_natText (n : Nat) : scanNumLit ('-' :: natText n) = some ('-' :: natText n, none) := by
  have hm := scanMantissa_natText n
  simp [scanNumLit, splitSign, hm, scanExp, typeChar?]

theorem lower_digit {c : Char} (hc : c.isDigit = true) : lower c = c := by
  have ⟨h1, h2⟩ := isDigit_range hc
  simp only [lower]
  split
  · next hh => omega
  · rfl

theorem lower_natText (n : Nat) : (natText n).map lower = natText n := by
  conv => rhs; rw [← List.map_id (natText n)]
  apply List.map_congr_left
  intro c hc
  exact lower_digit (natText_digits hc)


end Qbee.NumFmt
