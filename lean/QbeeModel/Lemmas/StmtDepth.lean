import QbeeModel.Model.StmtDepth
/-
  Helper lemmas for Model/StmtDepth.lean.
-/
namespace Qbee.StmtDepth

theorem run_append (s : St) (a b : List Ev) : run s (a ++ b) = run (run s a) b := by
  simp [run, List.foldl_append]

theorem run_cons (s : St) (e : Ev) (r : List Ev) : run s (e :: r) = run (step s e) r := rfl

theorem run_nil (s : St) : run s [] = s := rfl

theorem consec_lt (base : Nat) : ∀ (n i : Nat), i ∈ consec base n → i < base + n + 1
  | 0, i, h => by simp [consec] at h
  | n + 1, i, h => by
    simp only [consec, List.mem_cons] at h
    rcases h with rfl | h
    · omega
    · have := consec_lt base n i h; omega

/-- marks that all lie below the cut survive it -/
theorem prune_all (d : Nat) (ms : List Nat) (h : ∀ i ∈ ms, i < d) : prune d ms = ms := by
  simp only [prune, List.filter_eq_self]
  intro i hi
  simpa using h i hi

theorem prune_consec_ge (base n d : Nat) (h : base + n + 1 ≤ d) : prune d (consec base n) = consec base n :=
  prune_all d _ (fun i hi => by have := consec_lt base n i hi; omega)

/-- RETURN pops the innermost GOSUB address: its mark goes, the others stay -/
theorem prune_consec_succ (base n : Nat) : prune (base + n + 1) (consec base (n + 1)) = consec base n := by
  simp only [consec, prune, List.filter_cons]
  simp only [Nat.lt_irrefl, decide_false, Bool.false_eq_true, if_false]
  exact prune_consec_ge base n (base + n + 1) (Nat.le_refl _)

theorem stmtDepth_consec (f : Frame) (n : Nat) (h : f.marks = consec f.base n) : stmtDepth f = f.base + 1 + n := by
  cases n with
  | zero => simp [stmtDepth, h, consec]
  | succ k => simp [stmtDepth, h, consec]; omega

/-- unwinding never lets the stack grow and ends with the module-level frame alone -/
theorem unwind_le : ∀ (fs : List Frame) (d : Nat), (unwind d fs).1 ≤ d
  | [], d => by simp [unwind]
  | [_], d => by simp [unwind]
  | f :: g :: rest, d => by
    have := unwind_le (g :: rest) (min d f.base)
    simp only [unwind]
    omega

theorem unwind_frames : ∀ (pre : List Frame) (m : Frame) (d : Nat), (unwind d (pre ++ [m])).2 = [m]
  | [], m, d => by simp [unwind]
  | [f], m, d => by simp [unwind]
  | f :: g :: rest, m, d => by
    have := unwind_frames (g :: rest) m (min d f.base)
    simpa [unwind] using this

/-- ... and not below a level every frame that is left lies above -/
theorem unwind_ge (L : Nat) : ∀ (pre : List Frame) (m : Frame) (d : Nat), L ≤ d → (∀ f ∈ pre, L ≤ f.base) →
    L ≤ (unwind d (pre ++ [m])).1
  | [], m, d, hd, _ => by simpa [unwind] using hd
  | [f], m, d, hd, hb => by
    have := hb f (by simp)
    simp only [List.cons_append, List.nil_append, unwind]
    omega
  | f :: g :: rest, m, d, hd, hb => by
    have hf := hb f (by simp)
    have := unwind_ge L (g :: rest) m (min d f.base) (by omega) (fun x hx => hb x (by simp [hx]))
    simpa [unwind] using this

end Qbee.StmtDepth
