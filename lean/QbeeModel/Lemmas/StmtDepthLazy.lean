import QbeeModel.Model.StmtDepthLazy
import QbeeModel.Lemmas.StmtDepth
/-
  Helper lemmas for Model/StmtDepthLazy.lean: the validity of a mark after each kind of step.
-/
namespace Qbee.StmtDepth.Lazy
theorem fresh_length (n : Nat) : ∀ k, (fresh n k).length = k
  | 0 => rfl
  | k + 1 => by simp [fresh, fresh_length (n + 1) k]

theorem fresh_ge (c : Nat) : ∀ (k n : Nat), c ∈ fresh n k → n ≤ c
  | 0, n, h => by simp [fresh] at h
  | k + 1, n, h => by
    simp only [fresh, List.mem_cons] at h
    rcases h with rfl | h
    · exact Nat.le_refl _
    · have := fresh_ge c k (n + 1) h; omega

theorem fresh_lt (c : Nat) : ∀ (k n : Nat), c ∈ fresh n k → c < n + k
  | 0, n, h => by simp [fresh] at h
  | k + 1, n, h => by
    simp only [fresh, List.mem_cons] at h
    rcases h with rfl | h
    · omega
    · have := fresh_lt c k (n + 1) h; omega

/-- validating from the innermost end finds the mark that keeping only the valid ones puts first -/
theorem depthOf_validated (base : Nat) (stack : List Nat) : ∀ marks : List (Nat × Nat),
    depthOf base (validated stack marks) = stmtDepth { base := base, marks := (marks.filter (valid stack)).map (·.1) }
  | [] => rfl
  | m :: r => by
    cases hv : valid stack m with
    | true => simp [validated, List.dropWhile, hv, depthOf, stmtDepth, List.filter]
    | false =>
      have := depthOf_validated base stack r
      simp only [validated] at this
      simp [validated, List.dropWhile, hv, List.filter, this]

/-- after popping down to depth `d` and pushing fresh cells, a mark is valid iff it was valid and lies below `d` -/
theorem valid_after_instr (stack : List Nat) (next d q : Nat) (hd : d ≤ stack.length) (m : Nat × Nat) (hm : m.2 < next) :
    valid (stack.take d ++ fresh next q) m = (decide (m.1 < d) && valid stack m) := by
  unfold valid
  by_cases h : m.1 < d
  · have h1 : m.1 < (stack.take d).length := by simp [List.length_take]; omega
    rw [List.getElem?_append_left h1, List.getElem?_take]
    simp [h]
  · have h1 : (stack.take d).length ≤ m.1 := by simp [List.length_take]; omega
    rw [List.getElem?_append_right h1]
    simp only [h, decide_false, Bool.false_and]
    cases hg : (fresh next q)[m.1 - (stack.take d).length]? with
    | none => simp
    | some c =>
      have hc : c ∈ fresh next q := List.mem_of_getElem? hg
      have := fresh_ge c q next hc
      simp
      omega


theorem prune_map_fst (d : Nat) (l : List (Nat × Nat)) :
    prune d (l.map (·.1)) = (l.filter fun m => decide (m.1 < d)).map (·.1) := by
  induction l with
  | nil => rfl
  | cons m r ih =>
    simp only [prune, List.map_cons, List.filter_cons] at ih ⊢
    by_cases h : m.1 < d <;> simp [h, ih]

/-- an ordinary instruction: the code's state, seen through `abs`, moves as the eager model says -/
theorem instr_refines (s : LSt) (hf : Fresh s) (p q : Nat) : abs (lstep s (.instr p q)) = step (abs s) (.instr p q) := by
  have hd : s.stack.length - p ≤ s.stack.length := Nat.sub_le _ _
  have hfil : s.marks.filter (valid (s.stack.take (s.stack.length - p) ++ fresh s.next q)) =
      (s.marks.filter (valid s.stack)).filter (fun m => decide (m.1 < s.stack.length - p)) := by
    rw [List.filter_filter]
    apply List.filter_congr
    intro m hm
    rw [valid_after_instr s.stack s.next _ q hd m (hf.2 m hm)]
  simp only [abs, lstep, step, pruneHead, Frame.pruned, St.mk.injEq, List.cons.injEq, and_true, Frame.mk.injEq, true_and]
  refine ⟨?_, ?_⟩
  · simp [List.length_take, fresh_length]
  · rw [hfil, prune_map_fst]

theorem instr_fresh (s : LSt) (hf : Fresh s) (p q : Nat) : Fresh (lstep s (.instr p q)) := by
  refine ⟨?_, ?_⟩
  · intro c hc
    simp only [lstep, List.mem_append] at hc
    rcases hc with hc | hc
    · have := hf.1 c (List.mem_of_mem_take hc)
      simp only [lstep]; omega
    · have := fresh_lt c q s.next hc
      simpa [lstep] using this
  · intro m hm
    have := hf.2 m (by simpa [lstep] using hm)
    simp only [lstep]; omega

/-- GOSUB: the return address is a fresh cell on top; its mark is valid, the validity of the others is unchanged -/
theorem gosub_refines (s : LSt) (hf : Fresh s) : abs (lstep s .gosub) = step (abs s) .gosub := by
  have hv : ∀ m ∈ s.marks, valid (s.stack ++ [s.next]) m = valid s.stack m := by
    intro m hm
    have hlt := hf.2 m hm
    unfold valid
    by_cases h : m.1 < s.stack.length
    · rw [List.getElem?_append_left h]
    · rw [List.getElem?_append_right (by omega)]
      have hn : s.stack[m.1]? = none := by simp; omega
      rw [hn]
      cases hg : [s.next][m.1 - s.stack.length]? with
      | none => rfl
      | some c =>
        have hc : c ∈ [s.next] := List.mem_of_getElem? hg
        simp only [List.mem_singleton] at hc
        subst hc
        simp
        omega
  have hnew : valid (s.stack ++ [s.next]) (s.stack.length, s.next) = true := by
    simp [valid]
  simp only [abs, lstep, step, St.mk.injEq, List.cons.injEq, and_true, Frame.mk.injEq, true_and]
  refine ⟨by simp, ?_⟩
  rw [List.filter_cons, hnew]
  simp only [if_true, List.map_cons, List.cons.injEq, true_and]
  congr 1
  exact List.filter_congr hv

theorem gosub_fresh (s : LSt) (hf : Fresh s) : Fresh (lstep s .gosub) := by
  refine ⟨?_, ?_⟩
  · intro c hc
    simp only [lstep, List.mem_append, List.mem_singleton] at hc
    rcases hc with hc | rfl
    · have := hf.1 c hc; simp only [lstep]; omega
    · simp [lstep]
  · intro m hm
    simp only [lstep, List.mem_cons] at hm
    rcases hm with rfl | hm
    · simp [lstep]
    · have := hf.2 m hm; simp only [lstep]; omega

/-- a handled error: the depth the code cuts the stack back to is the depth the eager model cuts it back to -/
theorem handled_refines_depth (s : LSt) :
    (abs (lstep s .handledNext)).depth = (step (abs s) .handledNext).depth := by
  simp only [abs, lstep, step, List.length_take]
  rw [depthOf_validated]
  omega

def lrun (s : LSt) (evs : List LEv) : LSt := evs.foldl lstep s

theorem step_refines (s : LSt) (hf : Fresh s) (e : LEv) (he : e ≠ .handledNext) :
    abs (lstep s e) = step (abs s) (toEv e) ∧ Fresh (lstep s e) := by
  cases e with
  | instr p q => exact ⟨instr_refines s hf p q, instr_fresh s hf p q⟩
  | gosub => exact ⟨gosub_refines s hf, gosub_fresh s hf⟩
  | handledNext => exact absurd rfl he

end Qbee.StmtDepth.Lazy
