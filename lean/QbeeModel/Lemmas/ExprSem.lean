import QbeeModel.Model.ExprSem
import QbeeModel.Lemmas.ExprC
namespace Qbee.ExprSem
open Qbee.Gen Qbee.ExprC Qbee.Arith

theorem allSpecOk_lem : allSpecOk = true := by decide +kernel
theorem decodeTableOk_lem : decodeTableOk = true := by decide +kernel

@[simp] theorem bind_ok {α β} (a : α) (f : α → Res β) : Res.bind (.ok a) f = f a := rfl
@[simp] theorem bind_trap {α β} (c : String) (f : α → Res β) : Res.bind (.trap c : Res α) f = .trap c := rfl
@[simp] theorem bind_host {α β} (c : String) (f : α → Res β) : Res.bind (.host c : Res α) f = .host c := rfl

theorem bind_assoc {α β γ} (r : Res α) (f : α → Res β) (g : β → Res γ) :
    Res.bind (Res.bind r f) g = Res.bind r (fun a => Res.bind (f a) g) := by
  cases r <;> rfl

/-- stack effect bookkeeping: does a stack of n cells suffice for the sequence? -/
def enough : List Op3 → Nat → Bool
  | [], _ => true
  | o :: r, n => decide (arity o ≤ n) && enough r (n + 1 - arity o)

theorem applyOp3_frame {F} (ops : FOps F) (o : Op3) (s st : List (Cell F)) (h : arity o ≤ s.length) :
    applyOp3 ops o (s ++ st) = Res.bind (applyOp3 ops o s) (fun s' => .ok (s' ++ st)) := by
  cases o with
  | conv a b =>
    cases s with
    | nil => simp [arity] at h
    | cons x r => simp only [List.cons_append, applyOp3]; cases conv ops a b x <;> rfl
  | un u =>
    cases s with
    | nil => simp [arity] at h
    | cons x r => simp only [List.cons_append, applyOp3]; cases unop ops u x <;> rfl
  | bin b =>
    cases s with
    | nil => simp [arity] at h
    | cons y r =>
      cases r with
      | nil => simp [arity] at h
      | cons x r' => simp only [List.cons_append, applyOp3]; cases binop ops b x y <;> rfl

theorem applyOp3_length {F} (ops : FOps F) (o : Op3) (s s' : List (Cell F)) (h : applyOp3 ops o s = .ok s') :
    s'.length = s.length + 1 - arity o := by
  cases o with
  | conv a b =>
    cases s with
    | nil => simp [applyOp3] at h
    | cons x r =>
      simp only [applyOp3] at h
      cases hc : conv ops a b x <;> simp [hc] at h
      subst h; simp [arity]
  | un u =>
    cases s with
    | nil => simp [applyOp3] at h
    | cons x r =>
      simp only [applyOp3] at h
      cases hc : unop ops u x <;> simp [hc] at h
      subst h; simp [arity]
  | bin b =>
    cases s with
    | nil => simp [applyOp3] at h
    | cons y r =>
      cases r with
      | nil => simp [applyOp3] at h
      | cons x r' =>
        simp only [applyOp3] at h
        cases hc : binop ops b x y <;> simp [hc] at h
        subst h; simp [arity]

theorem applyAll_length {F} (ops : FOps F) : ∀ (os : List Op3) (s s' : List (Cell F)),
    applyAll ops os s = .ok s' → s'.length = outLen os s.length
  | [], s, s', h => by simp [applyAll] at h; subst h; rfl
  | o :: r, s, s', h => by
    simp only [applyAll] at h
    cases hs : applyOp3 ops o s with
    | ok s1 =>
      simp only [hs, bind_ok] at h
      have := applyAll_length ops r s1 s' h
      rw [this, applyOp3_length ops o s s1 hs]; rfl
    | trap c => simp [hs] at h
    | host c => simp [hs] at h

theorem applyAll_frame {F} (ops : FOps F) : ∀ (os : List Op3) (s st : List (Cell F)), enough os s.length = true →
    applyAll ops os (s ++ st) = Res.bind (applyAll ops os s) (fun s' => .ok (s' ++ st))
  | [], s, st, _ => rfl
  | o :: r, s, st, h => by
    simp only [enough, Bool.and_eq_true, decide_eq_true_eq] at h
    simp only [applyAll]
    rw [applyOp3_frame ops o s st h.1]
    cases hs : applyOp3 ops o s with
    | ok s1 =>
      simp only [bind_ok]
      have hl := applyOp3_length ops o s s1 hs
      exact applyAll_frame ops r s1 st (by rw [hl]; exact h.2)
    | trap c => rfl
    | host c => rfl

theorem runC_append {F} (ops : FOps F) (c1 c2 : List (CI F)) (st : List (Cell F)) :
    runC ops (c1 ++ c2) st = Res.bind (runC ops c1 st) (runC ops c2) := by
  induction c1 generalizing st with
  | nil => rfl
  | cons i r ih =>
    cases i with
    | push c => simp only [List.cons_append, runC]; exact ih _
    | op code =>
      simp only [List.cons_append, runC]
      cases decodeOp code with
      | none => rfl
      | some o =>
        simp only
        cases applyOp3 ops o st with
        | ok s1 => simp only [bind_ok]; exact ih _
        | trap c => rfl
        | host c => rfl

/-- running opcodes that decode to `os` is applying `os` -/
theorem runC_ops {F} (ops : FOps F) : ∀ (cs : List Nat) (os : List Op3) (st : List (Cell F)),
    decodeAll cs = some os → runC ops (cs.map CI.op) st = applyAll ops os st
  | [], os, st, h => by simp [decodeAll] at h; subst h; rfl
  | c :: r, os, st, h => by
    simp only [decodeAll, List.mapM_cons] at h
    cases hd : decodeOp c with
    | none => simp [hd] at h
    | some o =>
      cases hr : List.mapM decodeOp r with
      | none => simp [hd, hr] at h
      | some os' =>
        simp [hd, hr] at h; subst h
        simp only [List.map_cons, runC, hd, applyAll]
        cases applyOp3 ops o st with
        | ok s1 => simp only [bind_ok]; exact runC_ops ops r os' s1 (by simpa [decodeAll] using hr)
        | trap c => rfl
        | host c => rfl

theorem enough_convIf (a b : Ty) (n : Nat) (h : 1 ≤ n) : enough (convIf a b) n = true := by
  unfold convIf; split <;> simp [enough, arity, h]

theorem enough_conv_ops (a b : Ty) (op : Nat) : enough (convIf a b ++ specOps op) 2 = true := by
  unfold convIf specOps
  split <;> split <;> simp [enough, arity]

theorem enough_specUn (op : Nat) (a : Ty) : enough (specUn op a) 1 = true := by
  unfold specUn convIf
  by_cases h14 : op = 14
  · simp [h14, enough, arity]
  · by_cases h15 : op = 15
    · simp [h15, enough]
    · by_cases ha : a = .i
      · simp [h14, h15, ha, enough, arity]
      · simp [h14, h15, ha, enough, arity]
        split <;> simp [enough, arity]

theorem binRow_spec (op : Nat) (l r : Ty) (op' : Nat) (l' r' : Ty) (res : Option Ty) (code : List Nat)
    (h : binRow op l r = some (op', l', r', true, res, code)) :
    op' = op ∧ specOkRow op l r res code = true := by
  have hm := lookupN_mem _ _ _ h
  have hk := binRow_ok op l r op' l' r' res code h
  obtain ⟨hl, hr, _⟩ := hk
  subst hl; subst hr
  -- key consistency gives op' = op
  have hall := allBinOk_lem
  unfold allBinOk at hall
  rw [List.all_eq_true] at hall
  have h1 := hall _ hm
  simp only [Bool.and_eq_true] at h1
  have hkey := Nat.eq_of_beq_eq_true h1.1
  have hl := tyIdx_lt l'; have hr := tyIdx_lt r'
  have hop : op' = op := by omega
  subst hop
  have hs := allSpecOk_lem
  unfold allSpecOk at hs
  simp only [Bool.and_eq_true] at hs
  have := (List.all_eq_true.mp hs.1) _ hm
  simpa using this

theorem unRow_spec (op : Nat) (a : Ty) (op' : Nat) (a' : Ty) (res : Option Ty) (code : List Nat)
    (h : unRow op a = some (op', a', true, res, code)) :
    specOkUnRow op a code = true := by
  have hm := lookupN_mem _ _ _ h
  obtain ⟨ha, _⟩ := unRow_ok op a op' a' res code h
  subst ha
  have hall := allUnOk_lem
  unfold allUnOk at hall
  rw [List.all_eq_true] at hall
  have h1 := hall _ hm
  simp only [Bool.and_eq_true] at h1
  have hkey := Nat.eq_of_beq_eq_true h1.1
  have hl := tyIdx_lt a'
  have hop : op' = op := by omega
  subst hop
  have hs := allSpecOk_lem
  unfold allSpecOk at hs
  simp only [Bool.and_eq_true] at hs
  have := (List.all_eq_true.mp hs.2) _ hm
  simpa using this

theorem top1_of_len {F} (s : List (Cell F)) (h : s.length = 1) : ∃ v, s = [v] ∧ top1 s = .ok v := by
  match s, h with
  | [v], _ => exact ⟨v, rfl, rfl⟩

/-- the operand-conversion step keeps exactly one cell -/
theorem convIf_one {F} (ops : FOps F) (a b : Ty) (v : Cell F) (s : List (Cell F))
    (h : applyAll ops (convIf a b) [v] = .ok s) : ∃ v', s = [v'] := by
  have := applyAll_length ops _ _ _ h
  have hl : s.length = 1 := by
    rw [this]; unfold convIf; split <;> simp [outLen, arity]
  obtain ⟨v', hv, _⟩ := top1_of_len s hl
  exact ⟨v', hv⟩


end Qbee.ExprSem
