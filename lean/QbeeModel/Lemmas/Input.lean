import QbeeModel.Model.Input
/- helper lemmas for C18 -/
namespace Qbee.Input
open Qbee.NumFmt

def callsOf : RunRes → List Call
  | .done c _ _ => c
  | .starved c _ => c
  | .gray c => c
  | .devErr c => c

def leftOf : RunRes → List Cell
  | .done _ _ l => l
  | .starved _ l => l
  | _ => []

theorem convAll_rejected_nil : ∀ (ps : List (Str × Nat)) (acc l : List Cell),
    convAll ps acc = .rejected l → l = []
  | [], acc, l, h => by simp [convAll] at h
  | (f, ty) :: r, acc, l, h => by
    simp only [convAll] at h
    split at h
    · exact convAll_rejected_nil r _ l h
    · injection h with h; exact h.symm
    · cases h
    · cases h

theorem convAll_accepted : ∀ (ps : List (Str × Nat)) (acc p : List Cell),
    convAll ps acc = .accepted p →
    ∃ cs, p = acc ++ cs ∧ ps.map (fun x => convField x.2 x.1) = cs.map FieldRes.ok
  | [], acc, p, h => by
    simp [convAll] at h; exact ⟨[], by simp [h]⟩
  | (f, ty) :: r, acc, p, h => by
    simp only [convAll] at h
    split at h
    · next c hc =>
      obtain ⟨cs, h1, h2⟩ := convAll_accepted r _ p h
      exact ⟨c :: cs, by simp [h1], by simp [hc, h2]⟩
    · cases h
    · cases h
    · cases h

theorem convAll_all_ok : ∀ (ps : List (Str × Nat)) (acc : List Cell),
    (∀ x ∈ ps, ∃ c, convField x.2 x.1 = .ok c) → ∃ p, convAll ps acc = .accepted p
  | [], acc, _ => ⟨acc, rfl⟩
  | (f, ty) :: r, acc, h => by
    obtain ⟨c, hc⟩ := h (f, ty) (by simp)
    obtain ⟨p, hp⟩ := convAll_all_ok r (acc ++ [c]) (fun x hx => h x (by simp [hx]))
    exact ⟨p, by simp [convAll, hc, hp]⟩

theorem convAll_reject_at : ∀ (pre : List (Str × Nat)) (f : Str) (ty : Nat) (post : List (Str × Nat)) (acc : List Cell),
    (∀ x ∈ pre, ∃ c, convField x.2 x.1 = .ok c) → convField ty f = .reject →
    convAll (pre ++ (f, ty) :: post) acc = .rejected []
  | [], f, ty, post, acc, _, h => by simp [convAll, h]
  | (g, t) :: pre, f, ty, post, acc, hpre, h => by
    obtain ⟨c, hc⟩ := hpre (g, t) (by simp)
    simp only [List.cons_append, convAll, hc]
    exact convAll_reject_at pre f ty post _ (fun x hx => hpre x (by simp [hx])) h

theorem runWith_calls_prefix (t : List Nat → Str → LineRes) (r : Req) :
    ∀ (lines : List Str) (calls : List Call) (left : List Cell),
    ∃ more, callsOf (runWith t r lines calls left) = calls ++ promptCalls r ++ more
  | [], calls, left => ⟨[], by simp [runWith, callsOf]⟩
  | line :: rest, calls, left => by
    simp only [runWith]
    split
    · exact ⟨[], by simp [callsOf]⟩
    · obtain ⟨more, h⟩ := runWith_calls_prefix t r rest (calls ++ promptCalls r ++ [.print redo]) (left ++ _)
      exact ⟨.print redo :: promptCalls r ++ more, by rw [h]; simp⟩
    · exact ⟨[], by simp [callsOf]⟩
    · exact ⟨[], by simp [callsOf]⟩

def retryCalls (r : Req) : Nat → List Call
  | 0 => []
  | n + 1 => promptCalls r ++ [.print redo] ++ retryCalls r n

theorem tryLine_rejected_nil (tys : List Nat) (line : Str) (l : List Cell)
    (h : tryLine tys line = .rejected l) : l = [] := by
  simp only [tryLine] at h
  split at h
  · injection h with h; exact h.symm
  · exact convAll_rejected_nil _ _ l h

theorem runWith_retries (r : Req) (good : Str) (p : List Cell) (hg : tryLine r.tys good = .accepted p) :
    ∀ (bad : List Str) (rest : List Str) (calls : List Call),
    (∀ b ∈ bad, ∃ l, tryLine r.tys b = .rejected l) →
    runWith tryLine r (bad ++ good :: rest) calls [] =
      .done (calls ++ retryCalls r bad.length ++ promptCalls r) p []
  | [], rest, calls, _ => by simp [runWith, hg, retryCalls]
  | b :: bs, rest, calls, hb => by
    obtain ⟨l, hl⟩ := hb b (by simp)
    have hnil := tryLine_rejected_nil _ _ _ hl
    subst hnil
    simp only [List.cons_append, runWith, hl, List.append_nil]
    rw [runWith_retries r good p hg bs rest _ (fun x hx => hb x (by simp [hx]))]
    simp [retryCalls, List.append_assoc]

theorem takeInts_map (tys : List Nat) (rest : List Arg) :
    takeInts tys.length (tys.map (fun (t : Nat) => Arg.int (t : Int)) ++ rest) = some (tys, rest) := by
  induction tys with
  | nil => simp [takeInts]
  | cons t r ih =>
    simp only [List.length_cons, List.map_cons, List.cons_append, takeInts]
    have : ¬ ((t : Int) < 0) := by omega
    simp [this, ih]

end Qbee.Input
