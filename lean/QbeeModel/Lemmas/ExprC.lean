import QbeeModel.Model.ExprC
namespace Qbee.ExprC
open Qbee.Gen

theorem allBinOk_lem : allBinOk = true := by decide +kernel
theorem allUnOk_lem : allUnOk = true := by decide +kernel

theorem absRun_append (c1 c2 : List Nat) (st : List Ty) :
    absRun (c1 ++ c2) st = (absRun c1 st).bind (absRun c2) := by
  induction c1 generalizing st with
  | nil => simp [absRun]
  | cons i r ih =>
    simp only [List.cons_append, absRun]
    cases absStep i st with
    | none => simp
    | some st' => simp [ih]

theorem absStep_frame (ins : Nat) (s s' rest : List Ty) (h : absStep ins s = some s') :
    absStep ins (s ++ rest) = some (s' ++ rest) := by
  unfold absStep at h ⊢
  by_cases h0 : ins = 2000
  · simp [h0] at h ⊢; subst h; rfl
  by_cases h1 : ins = 2001
  · simp [h1] at h ⊢; subst h; rfl
  by_cases h2 : ins = 2002
  · simp [h2] at h ⊢; subst h; rfl
  by_cases h3 : ins = 2003
  · simp [h3] at h ⊢; subst h; rfl
  by_cases h4 : ins = 2004
  · simp [h4] at h ⊢; subst h; rfl
  simp only [h0, h1, h2, h3, h4, if_false] at h ⊢
  cases s with
  | nil => simp at h
  | cons b r =>
    simp only [List.cons_append]
    simp only at h
    cases hu : lookupN vmTypeN (ins * 36 + tyIdx b + 1) with
    | some v =>
      simp only [hu] at h ⊢
      cases v with
      | ok t => simp at h; subst h; simp
      | trap c => simp at h
      | host c => simp at h
    | none =>
      simp only [hu] at h ⊢
      cases r with
      | nil => simp at h
      | cons a r' =>
        simp only [List.cons_append]
        simp only at h
        cases hb : lookupN vmTypeN (ins * 36 + (tyIdx a + 1) * 6 + tyIdx b + 1) with
        | none => simp [hb] at h
        | some v =>
          simp only [hb] at h ⊢
          cases v with
          | ok t => simp at h; subst h; simp
          | trap c => simp at h
          | host c => simp at h

theorem absRun_frame (c : List Nat) (s s' rest : List Ty) (h : absRun c s = some s') :
    absRun c (s ++ rest) = some (s' ++ rest) := by
  induction c generalizing s with
  | nil => simp [absRun] at h ⊢; exact h
  | cons i r ih =>
    simp only [absRun] at h ⊢
    cases hs : absStep i s with
    | none => simp [hs] at h
    | some s1 =>
      simp only [hs] at h
      rw [absStep_frame i s s1 rest hs]
      exact ih s1 h

theorem lookupN_mem {β} (tbl : List (Nat × β)) (k : Nat) (v : β) (h : lookupN tbl k = some v) :
    (k, v) ∈ tbl := by
  induction tbl with
  | nil => simp [lookupN] at h
  | cons e r ih =>
    obtain ⟨a, b⟩ := e
    simp only [lookupN] at h
    by_cases hk : Nat.beq a k = true
    · simp [hk] at h
      have : a = k := Nat.eq_of_beq_eq_true hk
      subst this; subst h; simp
    · simp [hk] at h
      exact List.mem_cons_of_mem _ (ih h)

theorem tyIdx_lt (t : Ty) : tyIdx t < 5 := by cases t <;> simp [tyIdx]
theorem tyIdx_inj (a b : Ty) (h : tyIdx a = tyIdx b) : a = b := by
  cases a <;> cases b <;> simp [tyIdx] at h <;> rfl

theorem binRow_ok (op : Nat) (l r : Ty) (op' : Nat) (l' r' : Ty) (res : Option Ty) (code : List Nat)
    (h : binRow op l r = some (op', l', r', true, res, code)) :
    l' = l ∧ r' = r ∧ binOkRow l r res code = true := by
  have hm := lookupN_mem _ _ _ h
  have hall := allBinOk_lem
  unfold allBinOk at hall
  rw [List.all_eq_true] at hall
  have := hall _ hm
  simp only [Bool.and_eq_true, Bool.not_true, Bool.false_or] at this
  obtain ⟨hk, hok⟩ := this
  have hk' := Nat.eq_of_beq_eq_true hk
  have hl := tyIdx_lt l; have hr := tyIdx_lt r; have hl' := tyIdx_lt l'; have hr' := tyIdx_lt r'
  have e1 : tyIdx l' = tyIdx l := by omega
  have e2 : tyIdx r' = tyIdx r := by omega
  have := tyIdx_inj _ _ e1; subst this
  have := tyIdx_inj _ _ e2; subst this
  exact ⟨rfl, rfl, hok⟩

theorem unRow_ok (op : Nat) (a : Ty) (op' : Nat) (a' : Ty) (res : Option Ty) (code : List Nat)
    (h : unRow op a = some (op', a', true, res, code)) :
    a' = a ∧ unOkRow a res code = true := by
  have hm := lookupN_mem _ _ _ h
  have hall := allUnOk_lem
  unfold allUnOk at hall
  rw [List.all_eq_true] at hall
  have := hall _ hm
  simp only [Bool.and_eq_true, Bool.not_true, Bool.false_or] at this
  obtain ⟨hk, hok⟩ := this
  have hk' := Nat.eq_of_beq_eq_true hk
  have ha := tyIdx_lt a; have ha' := tyIdx_lt a'
  have e1 : tyIdx a' = tyIdx a := by omega
  have := tyIdx_inj _ _ e1; subst this
  exact ⟨rfl, hok⟩

theorem absStep_mark (t : Ty) (st : List Ty) : absStep (tyMark t) st = some (t :: st) := by
  cases t <;> simp [absStep, tyMark]

end Qbee.ExprC
