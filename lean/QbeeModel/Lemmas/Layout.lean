import QbeeModel.Model.Layout
namespace Qbee.Layout

theorem varIdx_split (a : List (String × VType)) (v : String) (t : VType) (b : List (String × VType))
    (h : ∀ x ∈ a, x.1 ≠ v) : varIdx (a ++ (v, t) :: b) v = some (frameSize a) := by
  induction a with
  | nil => simp [varIdx, frameSize]
  | cons x r ih =>
    obtain ⟨n, tn⟩ := x
    have hn : n ≠ v := h (n, tn) (by simp)
    have := ih (fun y hy => h y (by simp [hy]))
    simp [varIdx, hn, this, frameSize]; omega

theorem frameSize_append (a b : List (String × VType)) : frameSize (a ++ b) = frameSize a + frameSize b := by
  induction a with
  | nil => simp [frameSize]
  | cons x r ih => obtain ⟨n, t⟩ := x; simp [frameSize, ih]; omega

theorem frameSize_params (ps : List (String × VType)) :
    frameSize (ps.map (fun p => (p.1, paramSlot p.2))) = ps.length := by
  induction ps with
  | nil => rfl
  | cons p r ih =>
    simp only [List.map_cons, frameSize, List.length_cons]
    rw [ih]
    simp only [paramSlot, VType.size]
    omega

theorem varIdx_append_left (a b : List (String × VType)) (v : String) (k : Nat) (h : varIdx a v = some k) :
    varIdx (a ++ b) v = some k := by
  induction a generalizing k with
  | nil => simp [varIdx] at h
  | cons p r ih =>
    obtain ⟨n, t⟩ := p
    simp only [List.cons_append, varIdx] at h ⊢
    by_cases hn : n = v
    · simpa [hn] using h
    · simp only [hn, if_false] at h ⊢
      cases hr : varIdx r v with
      | none => simp [hr] at h
      | some k' =>
        rw [hr] at h
        rw [ih k' hr]
        exact h

/-- a name that is not declared in the first list is found in the second, after the storage of the first -/
theorem varIdx_append_right (a b : List (String × VType)) (v : String) (h : ∀ p ∈ a, p.1 ≠ v) :
    varIdx (a ++ b) v = (varIdx b v).map (· + frameSize a) := by
  induction a with
  | nil => simp [frameSize]
  | cons p r ih =>
    obtain ⟨n, t⟩ := p
    have hn : n ≠ v := h (n, t) (by simp)
    simp only [List.cons_append, varIdx, hn, if_false, frameSize]
    rw [ih (fun q hq => h q (by simp [hq]))]
    cases varIdx b v with
    | none => rfl
    | some x => simp only [Option.map_some]; congr 1; omega

/-- with distinct parameter names the k-th parameter sits in cell k -/
theorem varIdx_param_pos (ps : List (String × VType)) (k : Nat) (hk : k < ps.length)
    (hnd : (ps.map (·.1)).Nodup) :
    varIdx (ps.map (fun p => (p.1, paramSlot p.2))) (ps[k]).1 = some k := by
  induction ps generalizing k with
  | nil => simp at hk
  | cons p r ih =>
    cases k with
    | zero => simp [varIdx]
    | succ k =>
      have hk' : k < r.length := by simpa using hk
      simp only [List.map_cons, List.nodup_cons] at hnd
      have hne : p.1 ≠ (r[k]).1 := by
        intro h
        apply hnd.1
        rw [h]
        exact List.mem_map.mpr ⟨r[k], List.getElem_mem _, rfl⟩
      have ih' := ih k hk' hnd.2
      simp only [List.map_cons, List.getElem_cons_succ, varIdx, hne, if_false]
      rw [ih']
      simp [paramSlot, VType.size]

theorem nodup_before (l1 : List (String × VType)) (x : String × VType) (l2 : List (String × VType))
    (h : ((l1 ++ x :: l2).map (·.1)).Nodup) : ∀ y ∈ l1, y.1 ≠ x.1 := by
  induction l1 with
  | nil => intro y hy; simp at hy
  | cons z r ih =>
    simp only [List.cons_append, List.map_cons, List.nodup_cons] at h
    intro y hy
    simp at hy
    rcases hy with rfl | hy
    · intro e
      apply h.1
      rw [e]
      simp
    · exact ih h.2 y hy

theorem sizeL_take_le : ∀ (fs : List FType) (i : Nat) (f : FType), fs[i]? = some f →
    sizeL (fs.take i) + f.size ≤ sizeL fs
  | [], i, f, h => by simp at h
  | g :: r, 0, f, h => by simp at h; subst h; simp [sizeL]
  | g :: r, i + 1, f, h => by
    have := sizeL_take_le r i f (by simpa using h)
    simp [sizeL]; omega

theorem sizeL_take_mono : ∀ (fs : List FType) (i j : Nat) (f : FType), i < j → fs[i]? = some f →
    sizeL (fs.take i) + f.size ≤ sizeL (fs.take j)
  | [], i, j, f, _, h => by simp at h
  | g :: r, 0, j + 1, f, _, h => by simp at h; subst h; simp [sizeL]
  | g :: r, i + 1, j + 1, f, hij, h => by
    have := sizeL_take_mono r i j f (by omega) (by simpa using h)
    simp [sizeL]; omega

theorem elemOffset_bound (e : Nat) : ∀ (ds : List (Int × Int)) (is : List Int) (o : Nat),
    elemOffset e ds is = some o → o + e ≤ prodExt ds * e
  | [], [], o, h => by simp [elemOffset] at h; subst h; simp [prodExt]
  | [], _ :: _, o, h => by simp [elemOffset] at h
  | _ :: _, [], o, h => by simp [elemOffset] at h
  | d :: ds, i :: is, o, h => by
    simp only [elemOffset] at h
    split at h
    · cases h
    · next hb =>
      cases h' : elemOffset e ds is with
      | none => simp [h'] at h
      | some o' =>
        simp [h'] at h
        have ih := elemOffset_bound e ds is o' h'
        have hk : (i - d.1).toNat + 1 ≤ extent d := by unfold extent; omega
        have : prodExt ds * e * ((i - d.1).toNat + 1) ≤ prodExt ds * e * extent d := Nat.mul_le_mul_left _ hk
        simp only [prodExt]
        have e1 : extent d * prodExt ds * e = prodExt ds * e * extent d := by
          rw [Nat.mul_comm (extent d), Nat.mul_assoc, Nat.mul_comm (extent d), ← Nat.mul_assoc]
        rw [e1]
        have e2 : prodExt ds * e * ((i - d.1).toNat + 1) = prodExt ds * e * (i - d.1).toNat + prodExt ds * e := by
          rw [Nat.mul_add, Nat.mul_one]
        omega

theorem add_mul_inj (S a b k l : Nat) (ha : a < S) (hb : b < S) (h : a + S * k = b + S * l) : a = b ∧ k = l := by
  have h1 : (a + S * k) % S = a := by rw [Nat.add_mul_mod_self_left, Nat.mod_eq_of_lt ha]
  have h2 : (b + S * l) % S = b := by rw [Nat.add_mul_mod_self_left, Nat.mod_eq_of_lt hb]
  have hab : a = b := by rw [← h1, ← h2, h]
  subst hab
  have hS : 0 < S := by omega
  have : S * k = S * l := by omega
  exact ⟨rfl, Nat.eq_of_mul_eq_mul_left hS this⟩

theorem bindGo_length {V} (next : Nat) (args : List (Arg V)) :
    (bindGo next args).1.length = args.length ∧ (bindGo next args).2.length = nVals args := by
  induction args with
  | nil => simp [bindGo, nVals]
  | cons a r ih => cases a <;> simp [bindGo, nVals, ih]

theorem bindGo_ref {V} (next : Nat) : ∀ (args : List (Arg V)) (i s k : Nat),
    args[i]? = some (.ref s k) → (bindGo next args).1[i]? = some (.ref s k)
  | [], i, s, k, h => by simp at h
  | a :: r, 0, s, k, h => by simp at h; subst h; simp [bindGo]
  | a :: r, i + 1, s, k, h => by
    have := bindGo_ref next r i s k (by simpa using h)
    cases a <;> simp [bindGo, this]

theorem bindGo_val {V} (next : Nat) : ∀ (args : List (Arg V)) (i : Nat) (v : V),
    args[i]? = some (.val v) →
    (bindGo next args).1[i]? = some (.ref 0 (next + nVals (args.drop (i + 1)))) ∧
    (bindGo next args).2[nVals (args.drop (i + 1))]? = some (.val v)
  | [], i, v, h => by simp at h
  | a :: r, 0, v, h => by
    simp at h; subst h
    have hl := (bindGo_length next r).2
    simp [bindGo, hl]
  | a :: r, i + 1, v, h => by
    have ih := bindGo_val next r i v (by simpa using h)
    have hl := (bindGo_length next r).2
    have hlt : nVals (r.drop (i + 1)) < (bindGo next r).2.length := by
      have := ih.2
      exact (List.getElem?_eq_some_iff.mp this).1
    cases a with
    | ref s k => simpa [bindGo] using ih
    | val w =>
      refine ⟨by simpa [bindGo] using ih.1, ?_⟩
      simp only [bindGo, List.drop_succ_cons]
      rw [List.getElem?_append_left hlt]
      exact ih.2

theorem nVals_after_lt {V} : ∀ (r : List (Arg V)) (j : Nat) (v : V), r[j]? = some (.val v) →
    nVals (r.drop (j + 1)) < nVals r
  | [], j, v, h => by simp at h
  | b :: r, 0, v, h => by simp at h; subst h; simp [nVals]
  | b :: r, j + 1, v, h => by
    have := nVals_after_lt r j v (by simpa using h)
    cases b <;> simp [nVals] <;> omega

theorem nVals_drop_lt {V} : ∀ (args : List (Arg V)) (i j : Nat) (v : V), i < j → args[j]? = some (.val v) →
    nVals (args.drop (j + 1)) < nVals (args.drop (i + 1))
  | [], i, j, v, _, h => by simp at h
  | a :: r, 0, j + 1, v, _, h => by
    simp only [List.drop_succ_cons, List.drop_zero]
    exact nVals_after_lt r j v (by simpa using h)
  | a :: r, i + 1, j + 1, v, hij, h => by
    simpa using nVals_drop_lt r i j v (by omega) (by simpa using h)

end Qbee.Layout
