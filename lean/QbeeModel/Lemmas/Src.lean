import QbeeModel.Model.Src
/-
  Helper lemmas for the procedure part of Props/C01.lean: variables and copy-out.
-/
namespace Qbee.Src

theorem setVar_length (env : Env) (w : Nat) (x : Int) : (setVar env w x).length = env.length := by
  unfold setVar; split <;> simp

theorem getVar_setVar_ne (env : Env) (w v : Nat) (x : Int) (h : v ≠ w) : getVar (setVar env w x) v = getVar env v := by
  unfold getVar setVar
  split
  · simp [List.getD_eq_getElem?_getD, List.getElem?_set_ne (Ne.symm h)]
  · rfl

theorem getVar_setVar_eq (env : Env) (v : Nat) (x : Int) (h : v < env.length) : getVar (setVar env v x) v = x := by
  unfold getVar setVar
  simp [h, List.getD_eq_getElem?_getD]

theorem copyOut_no_refs : ∀ (env : Env) (args : List Arg) (cenv : Env) (i : Nat), refsOf args = [] → copyOut env args cenv i = env
  | _, [], _, _, _ => rfl
  | env, .ref v :: r, cenv, i, h => by simp [refsOf] at h
  | env, .val e :: r, cenv, i, h => by
    simp only [refsOf] at h
    simp only [copyOut]
    exact copyOut_no_refs env r cenv (i + 1) h

theorem copyOut_other : ∀ (env : Env) (args : List Arg) (cenv : Env) (i v : Nat), v ∉ refsOf args →
    getVar (copyOut env args cenv i) v = getVar env v
  | _, [], _, _, _, _ => rfl
  | env, .ref w :: r, cenv, i, v, h => by
    simp only [refsOf, List.mem_cons, not_or] at h
    simp only [copyOut]
    rw [copyOut_other _ r cenv (i + 1) v h.2, getVar_setVar_ne _ _ _ _ h.1]
  | env, .val e :: r, cenv, i, v, h => by
    simp only [refsOf] at h
    simp only [copyOut]
    exact copyOut_other env r cenv (i + 1) v h

theorem copyOut_length : ∀ (env : Env) (args : List Arg) (cenv : Env) (i : Nat), (copyOut env args cenv i).length = env.length
  | _, [], _, _ => rfl
  | env, .ref w :: r, cenv, i => by simp only [copyOut]; rw [copyOut_length, setVar_length]
  | env, .val e :: r, cenv, i => by simp only [copyOut]; exact copyOut_length env r cenv (i + 1)

theorem copyOut_ref : ∀ (env cenv : Env) (args : List Arg) (i k v : Nat), args[k]? = some (.ref v) → NoAlias args →
    v < env.length → getVar (copyOut env args cenv i) v = getVar cenv (i + k)
  | _, _, [], _, k, _, h, _, _ => by simp at h
  | env, cenv, .ref w :: r, i, 0, v, h, hna, hv => by
    simp only [List.getElem?_cons_zero, Option.some.injEq, Arg.ref.injEq] at h
    subst h
    simp only [NoAlias, refsOf, List.nodup_cons] at hna
    simp only [copyOut]
    rw [copyOut_other _ r cenv (i + 1) w hna.1, getVar_setVar_eq _ _ _ hv]
    rfl
  | env, cenv, .ref w :: r, i, k + 1, v, h, hna, hv => by
    simp only [List.getElem?_cons_succ] at h
    simp only [NoAlias, refsOf, List.nodup_cons] at hna
    simp only [copyOut]
    rw [copyOut_ref (setVar env w (getVar cenv i)) cenv r (i + 1) k v h hna.2 (by rw [setVar_length]; exact hv)]
    congr 1; omega
  | env, cenv, .val e :: r, i, 0, v, h, _, _ => by simp at h
  | env, cenv, .val e :: r, i, k + 1, v, h, hna, hv => by
    simp only [List.getElem?_cons_succ] at h
    simp only [NoAlias, refsOf] at hna
    simp only [copyOut]
    rw [copyOut_ref env cenv r (i + 1) k v h hna hv]
    congr 1; omega

end Qbee.Src
