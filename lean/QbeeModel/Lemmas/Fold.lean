import QbeeModel.Model.Fold
import QbeeModel.Model.ExprSem
namespace Qbee.Fold
open Qbee.Gen Qbee.Arith Qbee.ExprSem

theorem wrap_eq_iff (t : Ty) (ht : t = .i ∨ t = .l) (x : Int) : wrap t x = x ↔ inRange t x = true := by
  rcases ht with rfl | rfl <;> simp only [wrap, inRange, Bool.and_eq_true, decide_eq_true_eq] <;> omega

theorem limit_lit {F} (ops : FOps F) (t : Ty) (ht : t = .i ∨ t = .l) (x n : Int) (t' : Ty)
    (h : limit t x = .lit t' n) : t' = t ∧ n = x ∧ mk ops t (.int x) = .ok (.int t x) := by
  unfold limit at h
  split at h
  · next hw =>
    injection h with h1 h2
    have hr := (wrap_eq_iff t ht x).mp hw
    refine ⟨h1.symm, h2.symm, ?_⟩
    rcases ht with rfl | rfl <;> simp [mk, hr]
  · cases h

theorem limit_unfolded {F} (ops : FOps F) (t : Ty) (ht : t = .i ∨ t = .l) (x : Int)
    (h : limit t x = .unfolded) : mk ops t (.int x) = .trap "INVALID_CELL_VALUE" := by
  unfold limit at h
  split at h
  · cases h
  · next hw =>
    have hr : inRange t x = false := by
      cases hi : inRange t x with
      | false => rfl
      | true => exact absurd ((wrap_eq_iff t ht x).mpr hi) hw
    rcases ht with rfl | rfl <;> simp [mk, hr]

def IntOp (op : BinOp) : Prop :=
  op = .add ∨ op = .sub ∨ op = .mul ∨ op = .idiv ∨ op = .mod ∨ op = .and ∨ op = .or ∨ op = .xor ∨ op = .eqv ∨ op = .imp

end Qbee.Fold
