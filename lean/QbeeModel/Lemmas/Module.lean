import QbeeModel.Model.Module
import QbeeModel.Lemmas.Bytes
namespace Qbee.Module
open Qbee.Bytes

theorem takeN_append (a rest : List Nat) : takeN a.length (a ++ rest) = some (a, rest) := by
  simp [takeN]

theorem takeN_be (k n : Nat) (rest : List Nat) : takeN k (be k n ++ rest) = some (be k n, rest) := by
  have := takeN_append (be k n) rest
  rwa [be_length] at this

theorem serLiterals_length_ge (ls : List (List Nat)) : ls.length ≤ (serLiterals ls).length := by
  induction ls with
  | nil => simp [serLiterals]
  | cons l r ih => simp [serLiterals, be_length]; omega

theorem parseLiterals_ser : ∀ (ls : List (List Nat)) (f : Nat), WFLiterals ls → (serLiterals ls).length ≤ f →
    parseLiterals f (serLiterals ls) = some ls
  | [], f, _, _ => by cases f <;> simp [serLiterals, parseLiterals]
  | l :: r, f, h, hf => by
    obtain ⟨hl, _⟩ := h l (by simp)
    cases f with
    | zero => simp [serLiterals, be_length] at hf
    | succ f =>
      have ih := parseLiterals_ser r f (fun x hx => h x (by simp [hx]))
        (by simp [serLiterals, be_length] at hf; omega)
      have hne : ∃ b bs, serLiterals (l :: r) = b :: bs := by
        simp only [serLiterals]
        cases hb : be 2 l.length with
        | nil => have := be_length 2 l.length; simp [hb] at this
        | cons b bs => exact ⟨b, bs ++ (l ++ serLiterals r), by simp⟩
      obtain ⟨b, bs, hb⟩ := hne
      rw [hb]; simp only [parseLiterals]; rw [← hb]
      simp only [serLiterals, List.append_assoc, takeN_be, val_be 2 l.length (by simpa using hl),
        takeN_append, ih]
      rfl

theorem parseItems_ser : ∀ (p : List Item) (rest : List Nat), (∀ i ∈ p, WFItem i) →
    parseItems p.length (serItems p ++ rest) = some (p, rest)
  | [], rest, _ => by simp [parseItems, serItems]
  | i :: r, rest, h => by
    have ih := parseItems_ser r rest (fun x hx => h x (by simp [hx]))
    have hi := h i (by simp)
    cases i with
    | none =>
      have hm1 : InS 2 (-1) := by unfold InS; omega
      have hlt := ofSigned_lt 2 (-1) (by decide) hm1
      simp only [List.length_cons, parseItems, serItems, serItem, List.append_assoc, takeN_be,
        val_be 2 _ hlt, toSigned_ofSigned 2 (-1) (by decide) hm1]
      simp [ih]
    | some s =>
      obtain ⟨hs, _⟩ := hi
      have hin : InS 2 (s.length : Int) := by unfold InS; omega
      have hlt := ofSigned_lt 2 _ (by decide) hin
      simp only [List.length_cons, parseItems, serItems, serItem, List.append_assoc, takeN_be,
        val_be 2 _ hlt, toSigned_ofSigned 2 _ (by decide) hin]
      have : ¬ ((s.length : Int) < 0) := by omega
      simp [this, takeN_append, ih]

theorem parseParts_ser : ∀ (d : List (List Item)) (rest : List Nat),
    (∀ p ∈ d, p.length < 32768 ∧ ∀ i ∈ p, WFItem i) →
    parseParts d.length (serParts d ++ rest) = some (d, rest)
  | [], rest, _ => by simp [parseParts, serParts]
  | p :: r, rest, h => by
    have ih := parseParts_ser r rest (fun x hx => h x (by simp [hx]))
    obtain ⟨hp, hi⟩ := h p (by simp)
    have hin : InS 2 (p.length : Int) := by unfold InS; omega
    have hlt := ofSigned_lt 2 _ (by decide) hin
    have hv : val (be 2 (ofSigned 2 (p.length : Int))) = p.length := by
      rw [val_be 2 _ hlt]
      unfold ofSigned; simp
    simp only [List.length_cons, parseParts, serParts, serPart, List.append_assoc, takeN_be, hv,
      parseItems_ser p _ hi]
    simp [ih]

end Qbee.Module
