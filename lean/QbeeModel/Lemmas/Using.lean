import QbeeModel.Model.Using
/- definitions used to state C19 and helper lemmas -/
namespace Qbee.Using

/-- the sign character format_number puts at the sign position -/
def signOf (sp : NumSpec) (neg : Bool) : Char :=
  if neg then '-' else if sp.signChar = some '+' then '+' else ' '

/-- a value fits its field: digits (with point and separators) plus the sign position -/
def Fits (sp : NumSpec) (body : Str) : Prop := body.length + 1 ≤ sp.width

def isSpecial (c : Char) : Bool := c = '#' || c = '+' || c = '-' || c = '&' || c = '!' || c = '_'

theorem scan_literal : ∀ (s : Str) (f : Nat) (lit : Bool) (non : Str),
    s.length < f → (∀ c ∈ s, isSpecial c = false) → scan f lit s non = .ok (flush (non ++ s))
  | [], f, lit, non, hf, _ => by
    cases f with
    | zero => omega
    | succ f => simp [scan]
  | c :: r, f, lit, non, hf, h => by
    cases f with
    | zero => simp at hf
    | succ f =>
      have hc := h c (by simp)
      simp [isSpecial] at hc
      have ih := scan_literal r f false (non ++ [c]) (by simp at hf; omega) (fun x hx => h x (by simp [hx]))
      have hr : r.head? ≠ some '#' := by
        intro hh
        cases r with
        | nil => simp at hh
        | cons d r' =>
          simp at hh
          subst hh
          have := h '#' (by simp)
          simp [isSpecial] at this
      have hsf : startsField c r = false := by
        simp [startsField, hc, hr]
      simp [scan, hsf, hc, ih]

def isField : Part → Bool
  | .non _ => false
  | _ => true

def nFields (ps : List Part) : Nat := (ps.filter isField).length

@[simp] theorem nFields_non (s : Str) (ps : List Part) : nFields (.non s :: ps) = nFields ps := by
  simp [nFields, isField]
@[simp] theorem nFields_str (c : Char) (ps : List Part) : nFields (.str c :: ps) = nFields ps + 1 := by
  simp [nFields, List.filter, isField]
@[simp] theorem nFields_num (sp : NumSpec) (ps : List Part) : nFields (.num sp :: ps) = nFields ps + 1 := by
  simp [nFields, List.filter, isField]

/-- the text one part contributes given the value it meets (`none` for a literal) -/
def partText : Part → Option Val → Option Str
  | .non s, _ => some s
  | .str c, some (.str (h :: t)) => some (if c = '!' then [h] else h :: t)
  | .str c, some (.str []) => if c = '!' then none else some []
  | .num sp, some (.num neg b) => some (renderNum sp neg b)
  | _, _ => none

/-- expected output: walk the parts, handing the next unused value to each field -/
def expected : List Part → List Val → Option Str
  | [], [] => some []
  | [], _ :: _ => none
  | .non s :: ps, vs => (expected ps vs).map (s ++ ·)
  | p :: ps, v :: vs => do let t ← partText p (some v); let r ← expected ps vs; pure (t ++ r)
  | _ :: _, [] => none

theorem fmtLoop_expected (n : Nat) (vals : List Val) : ∀ (ps : List Part) (i : Nat) (out : Str) (txt : Str),
    i + nFields ps ≤ n → expected ps (vals.drop i) = some txt →
    fmtLoop n vals ps i out = .ok (out ++ txt)
  | [], i, out, txt, _, h => by
    cases hd : vals.drop i with
    | nil =>
      rw [hd] at h; simp [expected] at h; subst h
      have : ¬ (i < vals.length) := by
        intro hlt; have := List.drop_eq_nil_iff.mp hd; omega
      simp [fmtLoop, this]
    | cons v vs => rw [hd] at h; simp [expected] at h
  | .non s :: ps, i, out, txt, hn, h => by
    simp only [expected, Option.map_eq_some_iff] at h
    obtain ⟨t, ht, rfl⟩ := h
    have := fmtLoop_expected n vals ps i (out ++ s) t (by simpa using hn) ht
    simp [fmtLoop, this]
  | .str c :: ps, i, out, txt, hn, h => by
    have hn' : i + 1 + nFields ps ≤ n := by simp at hn; omega
    have hi : ¬ (i ≥ n) := by omega
    cases hd : vals.drop i with
    | nil => rw [hd] at h; simp [expected] at h
    | cons v vs =>
      rw [hd] at h
      have hv : vals[i]? = some v := by
        have := congrArg List.head? hd; simpa [List.head?_drop] using this
      have hvs : vals.drop (i + 1) = vs := by
        rw [← List.drop_drop, hd]; rfl
      cases v with
      | num neg b => simp [expected, partText] at h
      | str s =>
        cases s with
        | nil =>
          by_cases hc : c = '!'
          · simp [expected, partText, hc] at h
          · cases hE : expected ps vs with
            | none => simp [expected, partText, hc, hE] at h
            | some r =>
              simp [expected, partText, hc, hE] at h
              subst h
              have := fmtLoop_expected n vals ps (i + 1) (out ++ []) r hn' (by rw [hvs]; exact hE)
              simp only [List.append_nil] at this
              simp [fmtLoop, hi, hv, hc, this]
        | cons h0 t0 =>
          cases hE : expected ps vs with
          | none => simp [expected, partText, hE] at h
          | some r =>
            simp [expected, partText, hE] at h
            subst h
            by_cases hc : c = '!'
            · have := fmtLoop_expected n vals ps (i + 1) (out ++ [h0]) r hn' (by rw [hvs]; exact hE)
              simp [fmtLoop, hi, hv, hc, this]
            · have := fmtLoop_expected n vals ps (i + 1) (out ++ h0 :: t0) r hn' (by rw [hvs]; exact hE)
              simp [fmtLoop, hi, hv, hc, this]
  | .num sp :: ps, i, out, txt, hn, h => by
    have hn' : i + 1 + nFields ps ≤ n := by simp at hn; omega
    have hi : ¬ (i ≥ n) := by omega
    cases hd : vals.drop i with
    | nil => rw [hd] at h; simp [expected] at h
    | cons v vs =>
      rw [hd] at h
      have hv : vals[i]? = some v := by
        have := congrArg List.head? hd; simpa [List.head?_drop] using this
      have hvs : vals.drop (i + 1) = vs := by
        rw [← List.drop_drop, hd]; rfl
      cases v with
      | str s => simp [expected, partText] at h
      | num neg b =>
        cases hE : expected ps vs with
        | none => simp [expected, partText, hE] at h
        | some r =>
          simp [expected, partText, hE] at h
          subst h
          have := fmtLoop_expected n vals ps (i + 1) (out ++ renderNum sp neg b) r hn' (by rw [hvs]; exact hE)
          simp [fmtLoop, hi, hv, this]

end Qbee.Using
