import QbeeModel.Model.Src
/-
  The reference semantics of Model/Src.lean does not depend on its fuel: a run that ends with some fuel ends the same way with
  more.  (`none` therefore means "out of fuel" and nothing else; the correspondence of C01 discards such runs.)
-/
namespace Qbee.Src

/-- "one more unit of fuel changes no result", for the six mutually recursive functions at one level -/
structure Mono (procs : List Proc) (fuel : Nat) : Prop where
  list : ∀ env out l res, execList procs fuel env out l = some res → execList procs (fuel + 1) env out l = some res
  stmt : ∀ env out s res, exec procs fuel env out s = some res → exec procs (fuel + 1) env out s = some res
  sel : ∀ env out v cs d res, selectRun procs fuel env out v cs d = some res → selectRun procs (fuel + 1) env out v cs d = some res
  whl : ∀ env out c b res, loopWhile procs fuel env out c b = some res → loopWhile procs (fuel + 1) env out c b = some res
  dol : ∀ env out pk pre qk post b res, loopDo procs fuel env out pk pre qk post b = some res →
    loopDo procs (fuel + 1) env out pk pre qk post b = some res
  forl : ∀ env out v lim st b res, loopFor procs fuel env out v lim st b = some res →
    loopFor procs (fuel + 1) env out v lim st b = some res

/-- `exec` at a level, given the other five at the same level -/
theorem stmt_of (procs : List Proc) (fuel : Nat)
    (hl : ∀ env out l res, execList procs fuel env out l = some res → execList procs (fuel + 1) env out l = some res)
    (hs : ∀ env out v cs d res, selectRun procs fuel env out v cs d = some res → selectRun procs (fuel + 1) env out v cs d = some res)
    (hw : ∀ env out c b res, loopWhile procs fuel env out c b = some res → loopWhile procs (fuel + 1) env out c b = some res)
    (hd : ∀ env out pk pre qk post b res, loopDo procs fuel env out pk pre qk post b = some res →
      loopDo procs (fuel + 1) env out pk pre qk post b = some res)
    (hf : ∀ env out v lim st b res, loopFor procs fuel env out v lim st b = some res →
      loopFor procs (fuel + 1) env out v lim st b = some res) :
    ∀ env out s res, exec procs fuel env out s = some res → exec procs (fuel + 1) env out s = some res := by
  intro env out s res h
  cases s with
  | assign v e => simpa [exec] using h
  | print e => simpa [exec] using h
  | ifElse c t e =>
    cases hx : eval env c with
    | error c' => simpa [exec, hx] using h
    | ok x =>
      simp only [exec, hx] at h ⊢
      by_cases hne : x = 0
      · simp [hne] at h ⊢; exact hl _ _ _ _ h
      · simp [hne] at h ⊢; exact hl _ _ _ _ h
  | «while» c body => simp only [exec] at h ⊢; exact hw _ _ _ _ _ h
  | doLoop pk pre qk post body => simp only [exec] at h ⊢; exact hd _ _ _ _ _ _ _ _ h
  | «for» v a b st body =>
    cases h1 : eval env st with
    | error c1 => simpa [exec, h1] using h
    | ok x1 =>
      cases h2 : eval env a with
      | error c2 => simpa [exec, h1, h2] using h
      | ok x2 =>
        cases h3 : eval env b with
        | error c3 => simpa [exec, h1, h2, h3] using h
        | ok x3 =>
          simp only [exec, h1, h2, h3] at h ⊢
          exact hf _ _ _ _ _ _ _ h
  | select e cases dflt =>
    cases hv : eval env e with
    | error c' => simpa [exec, hv] using h
    | ok v =>
      simp only [exec, hv] at h ⊢
      exact hs _ _ _ _ _ _ h
  | exitDo => simpa [exec] using h
  | exitFor => simpa [exec] using h
  | end_ => simpa [exec] using h
  | exitSub => simpa [exec] using h
  | assignIdx base lo hi i e => simpa [exec] using h
  | call p args =>
    cases hp : procs[p]? with
    | none => simpa [exec, hp] using h
    | some pr =>
      by_cases ha : args.length ≠ pr.nparams
      · simpa [exec, hp, ha] using h
      · cases hv : evalArgs env args with
        | error c' => simpa [exec, hp, ha, hv] using h
        | ok vals =>
          simp only [exec, hp, ha, hv, if_false] at h ⊢
          cases hb : execList procs fuel (vals ++ List.replicate pr.nlocals 0) out pr.body with
          | none => simp [hb] at h
          | some r1 =>
            simp only [hb] at h
            simp only [hl _ _ _ _ hb]
            exact h


/-- `execList` one level up -/
theorem list_step (procs : List Proc) (n : Nat)
    (hs : ∀ env out s res, exec procs n env out s = some res → exec procs (n + 1) env out s = some res)
    (hl : ∀ env out l res, execList procs n env out l = some res → execList procs (n + 1) env out l = some res) :
    ∀ env out l res, execList procs (n + 1) env out l = some res → execList procs (n + 2) env out l = some res := by
  intro env out l res h
  cases l with
  | nil => simpa [execList] using h
  | cons s r =>
    simp only [execList] at h ⊢
    cases hx : exec procs n env out s with
    | none => simp [hx] at h
    | some r1 =>
      simp only [hx] at h
      simp only [hs _ _ _ _ hx]
      by_cases hn : r1.sig = .normal
      · simp only [hn, if_true] at h ⊢; exact hl _ _ _ _ h
      · simp only [hn, if_false] at h ⊢; exact h

theorem list_zero (procs : List Proc) :
    ∀ env out l res, execList procs 0 env out l = some res → execList procs 1 env out l = some res := by
  intro env out l res h
  cases l with
  | nil => simpa [execList] using h
  | cons s r => simp [execList] at h

theorem while_step (procs : List Proc) (n : Nat)
    (hl : ∀ env out l res, execList procs n env out l = some res → execList procs (n + 1) env out l = some res)
    (hw : ∀ env out c b res, loopWhile procs n env out c b = some res → loopWhile procs (n + 1) env out c b = some res) :
    ∀ env out c b res, loopWhile procs (n + 1) env out c b = some res → loopWhile procs (n + 2) env out c b = some res := by
  intro env out c b res h
  cases hc : eval env c with
  | error e => unfold loopWhile at h ⊢; simpa [hc] using h
  | ok x =>
    unfold loopWhile at h ⊢
    simp only [hc] at h ⊢
    by_cases hx : x = 0
    · simpa [hx] using h
    · simp only [hx, if_false] at h ⊢
      cases hb : execList procs n env out b with
      | none => simp [hb] at h
      | some r1 =>
        simp only [hb] at h
        simp only [hl _ _ _ _ hb]
        by_cases hn : r1.sig = .normal
        · simp only [hn, if_true] at h ⊢; exact hw _ _ _ _ _ h
        · simp only [hn, if_false] at h ⊢; exact h

theorem do_step (procs : List Proc) (n : Nat)
    (hl : ∀ env out l res, execList procs n env out l = some res → execList procs (n + 1) env out l = some res)
    (hd : ∀ env out pk pre qk post b res, loopDo procs n env out pk pre qk post b = some res →
      loopDo procs (n + 1) env out pk pre qk post b = some res) :
    ∀ env out pk pre qk post b res, loopDo procs (n + 1) env out pk pre qk post b = some res →
      loopDo procs (n + 2) env out pk pre qk post b = some res := by
  intro env out pk pre qk post b res h
  unfold loopDo at h ⊢
  simp only at h ⊢
  cases he : (if pk = 0 then (Except.ok true : Except String Bool) else (eval env pre).map (condHolds pk)) with
  | error e => simpa [he] using h
  | ok go =>
    simp only [he] at h ⊢
    cases go with
    | false => simpa using h
    | true =>
      simp only at h ⊢
      cases hb : execList procs n env out b with
      | none => simp [hb] at h
      | some r1 =>
        simp only [hb] at h
        simp only [hl _ _ _ _ hb]
        by_cases h1 : r1.sig = .exitDo
        · simpa [h1] using h
        · simp only [h1, if_false] at h ⊢
          by_cases h2 : r1.sig ≠ .normal
          · simpa [h2] using h
          · simp only [h2, if_false] at h ⊢
            cases ha : (if qk = 0 then (Except.ok true : Except String Bool) else (eval r1.env post).map (condHolds qk)) with
            | error e => simpa [ha] using h
            | ok again =>
              simp only [ha] at h ⊢
              cases again with
              | false => simpa using h
              | true => simp only at h ⊢; exact hd _ _ _ _ _ _ _ _ h

theorem for_step (procs : List Proc) (n : Nat)
    (hl : ∀ env out l res, execList procs n env out l = some res → execList procs (n + 1) env out l = some res)
    (hf : ∀ env out v lim st b res, loopFor procs n env out v lim st b = some res →
      loopFor procs (n + 1) env out v lim st b = some res) :
    ∀ env out v lim st b res, loopFor procs (n + 1) env out v lim st b = some res →
      loopFor procs (n + 2) env out v lim st b = some res := by
  intro env out v lim st b res h
  unfold loopFor at h ⊢
  simp only at h ⊢
  by_cases hdone : ((decide (st ≥ 0) && decide (getVar env v > lim)) || (decide (st < 0) && decide (getVar env v < lim))) = true
  · simpa [hdone] using h
  · simp only [hdone, if_false] at h ⊢
    cases hb : execList procs n env out b with
    | none => simp [hb] at h
    | some r1 =>
      simp only [hb] at h
      simp only [hl _ _ _ _ hb]
      by_cases h1 : r1.sig = .exitFor
      · simpa [h1] using h
      · simp only [h1, if_false] at h ⊢
        by_cases h2 : r1.sig ≠ .normal
        · simpa [h2] using h
        · simp only [h2, if_false] at h ⊢
          by_cases h3 : inInt (getVar r1.env v + st) = true
          · simp only [h3, if_true] at h ⊢; exact hf _ _ _ _ _ _ _ h
          · simpa [h3] using h

theorem sel_step (procs : List Proc) (n : Nat)
    (hl1 : ∀ env out l res, execList procs (n + 1) env out l = some res → execList procs (n + 2) env out l = some res)
    (hs : ∀ env out v cs d res, selectRun procs n env out v cs d = some res → selectRun procs (n + 1) env out v cs d = some res) :
    ∀ env out v cs d res, selectRun procs (n + 1) env out v cs d = some res → selectRun procs (n + 2) env out v cs d = some res := by
  intro env out v cs d res h
  cases cs with
  | nil => simp only [selectRun] at h ⊢; exact hl1 _ _ _ _ h
  | cons p r =>
    obtain ⟨cl, body⟩ := p
    cases ha : anyHit env v cl with
    | error e => simpa [selectRun, ha] using h
    | ok hit =>
      cases hit with
      | true => simp only [selectRun, ha] at h ⊢; exact hl1 _ _ _ _ h
      | false => simp only [selectRun, ha] at h ⊢; exact hs _ _ _ _ _ _ h

theorem sel_zero (procs : List Proc)
    (hl0 : ∀ env out l res, execList procs 0 env out l = some res → execList procs 1 env out l = some res) :
    ∀ env out v cs d res, selectRun procs 0 env out v cs d = some res → selectRun procs 1 env out v cs d = some res := by
  intro env out v cs d res h
  cases cs with
  | nil => simp only [selectRun] at h ⊢; exact hl0 _ _ _ _ h
  | cons p r =>
    obtain ⟨cl, body⟩ := p
    cases ha : anyHit env v cl with
    | error e => simpa [selectRun, ha] using h
    | ok hit =>
      cases hit with
      | true => simp only [selectRun, ha] at h ⊢; exact hl0 _ _ _ _ h
      | false => simp [selectRun, ha] at h

/-- the semantics is monotone in its fuel at every level -/
theorem mono (procs : List Proc) : ∀ n, Mono procs n
  | 0 =>
    have hl := list_zero procs
    have hs := sel_zero procs hl
    have hw : ∀ env out c b res, loopWhile procs 0 env out c b = some res → loopWhile procs 1 env out c b = some res := by
      intro env out c b res h; simp [loopWhile] at h
    have hd : ∀ env out pk pre qk post b res, loopDo procs 0 env out pk pre qk post b = some res →
        loopDo procs 1 env out pk pre qk post b = some res := by
      intro env out pk pre qk post b res h; simp [loopDo] at h
    have hf : ∀ env out v lim st b res, loopFor procs 0 env out v lim st b = some res →
        loopFor procs 1 env out v lim st b = some res := by
      intro env out v lim st b res h; simp [loopFor] at h
    ⟨hl, stmt_of procs 0 hl hs hw hd hf, hs, hw, hd, hf⟩
  | n + 1 =>
    have m := mono procs n
    have hl := list_step procs n m.stmt m.list
    have hs := sel_step procs n hl m.sel
    have hw := while_step procs n m.list m.whl
    have hd := do_step procs n m.list m.dol
    have hf := for_step procs n m.list m.forl
    ⟨hl, stmt_of procs (n + 1) hl hs hw hd hf, hs, hw, hd, hf⟩

/-- a run that ends with some fuel ends the same way with any larger amount -/
theorem execList_fuel_add (procs : List Proc) (fuel k : Nat) (env : Env) (out : List Int) (l : List Stmt) (res : Res)
    (h : execList procs fuel env out l = some res) : execList procs (fuel + k) env out l = some res := by
  induction k with
  | zero => exact h
  | succ k ih => exact (mono procs (fuel + k)).list _ _ _ _ ih

end Qbee.Src
