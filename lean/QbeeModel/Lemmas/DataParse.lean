import QbeeModel.Model.Data
import QbeeModel.Lemmas.Digits
namespace Qbee.Data
open Qbee.NumFmt

/-- what an unquoted field denotes: blank -> Empty, else the text trimmed -/
def fieldItem (f : Str) : DItem :=
  if f.all isBT then .empty else .str (strip (f.dropWhile isBT))

theorem pd_no_quotes_aux : ∀ (s : Str), '"' ∉ s →
    pd .before s = some (fieldItem (split1 s).1 :: (split1 s).2.map fieldItem) ∧
    ∀ it, pd (.unq it) s = some (.str (strip (it ++ (split1 s).1)) :: (split1 s).2.map fieldItem)
  | [], _ => by simp [pd, split1, fieldItem]
  | c :: r, h => by
    have hr : '"' ∉ r := fun hm => h (by simp [hm])
    have hc : c ≠ '"' := fun e => h (by simp [e])
    obtain ⟨ihb, ihu⟩ := pd_no_quotes_aux r hr
    constructor
    · by_cases hbt : isBT c = true
      · have hne : c ≠ ',' := by intro e; subst e; simp [isBT] at hbt
        simp [pd, hbt, split1, hne, ihb, fieldItem, List.dropWhile]
      · by_cases hcomma : c = ','
        · subst hcomma
          simp [pd, split1, ihb, fieldItem, isBT]
        · simp [pd, hbt, hcomma, hc, split1, ihu, fieldItem, List.dropWhile]
    · intro it
      by_cases hcomma : c = ','
      · simp [pd, hcomma, split1, ihb]
      · simp [pd, hcomma, split1, ihu]

/-- canonical rendering: string items quoted, Empty items as nothing, joined by commas -/
def render : List DItem → Str
  | [] => []
  | [.empty] => []
  | [.str s] => '"' :: s ++ ['"']
  | .empty :: r => ',' :: render r
  | .str s :: r => '"' :: s ++ '"' :: ',' :: render r

theorem pd_quo (s : Str) (h : '"' ∉ s) (acc r : Str) :
    pd (.quo acc) (s ++ '"' :: r) = (pd .after r).map (.str (acc ++ s) :: ·) := by
  induction s generalizing acc with
  | nil => simp [pd]
  | cons c t ih =>
    have hc : c ≠ '"' := fun e => h (by simp [e])
    have ht : '"' ∉ t := fun hm => h (by simp [hm])
    simp [pd, hc, ih ht]

end Qbee.Data
