import QbeeModel.Model.Bytes
/- big-endian round trips -/
namespace Qbee.Bytes

theorem be_length (k n : Nat) : (be k n).length = k := by
  induction k generalizing n with
  | zero => rfl
  | succ k ih => simp [be, ih]

theorem be_allBytes (k n : Nat) : AllBytes (be k n) := by
  induction k generalizing n with
  | zero => intro b hb; simp [be] at hb
  | succ k ih =>
    intro b hb
    simp [be] at hb
    rcases hb with rfl | hb
    · exact Nat.mod_lt _ (by decide)
    · exact ih _ b hb

theorem val_be (k n : Nat) (h : n < 256 ^ k) : val (be k n) = n := by
  induction k generalizing n with
  | zero => simp [be, val] at *; omega
  | succ k ih =>
    have hpos : 0 < 256 ^ k := Nat.pow_pos (by decide)
    have h1 : n / 256 ^ k < 256 := by
      rw [Nat.div_lt_iff_lt_mul hpos]; rw [Nat.pow_succ] at h; rw [Nat.mul_comm]; exact h
    have h2 : n % 256 ^ k < 256 ^ k := Nat.mod_lt _ hpos
    simp only [be, val, be_length, Nat.mod_eq_of_lt h1, ih _ h2]
    have := Nat.div_add_mod n (256 ^ k)
    rw [Nat.mul_comm] at this
    exact this

theorem val_lt (l : List Nat) (h : AllBytes l) : val l < 256 ^ l.length := by
  induction l with
  | nil => simp [val]
  | cons b r ih =>
    have hb : b < 256 := h b (by simp)
    have hr := ih (fun x hx => h x (by simp [hx]))
    simp only [val, List.length_cons, Nat.pow_succ]
    have hb' : b ≤ 255 := by omega
    have : b * 256 ^ r.length ≤ 255 * 256 ^ r.length := Nat.mul_le_mul_right _ hb'
    have e : 256 ^ r.length * 256 = 255 * 256 ^ r.length + 256 ^ r.length := by
      rw [Nat.mul_comm]; omega
    omega

theorem be_val (l : List Nat) (h : AllBytes l) : be l.length (val l) = l := by
  induction l with
  | nil => rfl
  | cons b r ih =>
    have hb : b < 256 := h b (by simp)
    have hr : AllBytes r := fun x hx => h x (by simp [hx])
    have hlt := val_lt r hr
    have hpos : 0 < 256 ^ r.length := Nat.pow_pos (by decide)
    simp only [val, List.length_cons, be]
    have h1 : (b * 256 ^ r.length + val r) / 256 ^ r.length = b := by
      rw [Nat.mul_comm, Nat.mul_add_div hpos, Nat.div_eq_of_lt hlt]; simp
    have h2 : (b * 256 ^ r.length + val r) % 256 ^ r.length = val r := by
      rw [Nat.mul_comm, Nat.mul_add_mod, Nat.mod_eq_of_lt hlt]
    rw [h1, h2, Nat.mod_eq_of_lt hb, ih hr]

theorem toSigned_ofSigned (k : Nat) (i : Int) (hk : 0 < k) (h : InS k i) : toSigned k (ofSigned k i) = i := by
  obtain ⟨h1, h2⟩ := h
  have heven : 256 ^ k = 2 * (256 ^ k / 2) := by
    cases k with
    | zero => omega
    | succ k => rw [Nat.pow_succ]; omega
  unfold toSigned ofSigned
  by_cases hi : 0 ≤ i
  · simp only [hi, if_true]
    have : i.toNat < 256 ^ k / 2 := by omega
    simp [this]; omega
  · simp only [hi, if_false]
    have hnn : 0 ≤ i + ((256 ^ k : Nat) : Int) := by omega
    have : ¬ ((i + ((256 ^ k : Nat) : Int)).toNat < 256 ^ k / 2) := by omega
    simp only [this, if_false]
    omega

theorem ofSigned_lt (k : Nat) (i : Int) (hk : 0 < k) (h : InS k i) : ofSigned k i < 256 ^ k := by
  obtain ⟨h1, h2⟩ := h
  have heven : 256 ^ k = 2 * (256 ^ k / 2) := by
    cases k with
    | zero => omega
    | succ k => rw [Nat.pow_succ]; omega
  unfold ofSigned
  by_cases hi : 0 ≤ i
  · simp only [hi, if_true]; omega
  · simp only [hi, if_false]; omega

end Qbee.Bytes
