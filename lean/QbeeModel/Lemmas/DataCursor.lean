import QbeeModel.Model.Data
namespace Qbee.Data

def Good (data : List (List DItem)) : Prop := ∀ p ∈ data, p ≠ []

theorem pyIndex_nat {α} (l : List α) (n : Nat) : pyIndex l (n : Int) = l[n]? := by
  simp [pyIndex]

theorem readRaw_end (data : List (List DItem)) : readRaw data ⟨(data.length : Int), 0⟩ = none := by
  simp [readRaw, pyIndex_nat]

theorem readMany_end (data : List (List DItem)) (k : Nat) : readMany data ⟨(data.length : Int), 0⟩ k = [] := by
  cases k with
  | zero => rfl
  | succ k => simp [readMany, readRaw_end]

theorem readMany_in_part : ∀ (k : Nat) (pre : List (List DItem)) (p : List DItem) (post : List (List DItem)) (j : Nat),
    j < p.length → Good post →
    readMany (pre ++ p :: post) ⟨(pre.length : Int), j⟩ k = ((p.drop j) ++ post.flatten).take k
  | 0, _, _, _, _, _, _ => by simp [readMany]
  | k + 1, pre, p, post, j, hj, hg => by
    have hidx : (pre ++ p :: post)[pre.length]? = some p := by simp
    have hpj : p[j]? = some p[j] := by simp [hj]
    have hdrop : ∀ F : List DItem, List.take (k + 1) (p.drop j ++ F) = p[j] :: List.take k (p.drop (j + 1) ++ F) := by
      intro F
      rw [List.drop_eq_getElem_cons hj]; rfl
    by_cases hlast : j + 1 < p.length
    · have ih := readMany_in_part k pre p post (j + 1) hlast hg
      have hnot : ¬ (j + 1 ≥ p.length) := by omega
      rw [hdrop]
      simp [readMany, readRaw, pyIndex_nat, hpj, hnot, ih]
    · have hge : j + 1 ≥ p.length := by omega
      have hd1 : p.drop (j + 1) = [] := List.drop_eq_nil_of_le (by omega)
      cases post with
      | nil =>
        have hend := readMany_end (pre ++ [p]) k
        simp at hend
        rw [hdrop]
        simp [readMany, readRaw, pyIndex_nat, hpj, hge, hd1, hend]
      | cons q post' =>
        have hq : q ≠ [] := hg q (by simp)
        have hq0 : 0 < q.length := List.length_pos_iff.mpr hq
        have ih := readMany_in_part k (pre ++ [p]) q post' 0 hq0 (fun x hx => hg x (by simp [hx]))
        simp at ih
        rw [hdrop]
        simp [readMany, readRaw, pyIndex_nat, hpj, hge, hd1, ih]

end Qbee.Data
