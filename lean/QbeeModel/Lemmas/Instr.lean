import QbeeModel.Model.Instr
import QbeeModel.Lemmas.Bytes
namespace Qbee.Instr
open Qbee.Bytes Qbee.Gen

theorem encOperand_length (o : Operand) : (encOperand o).length = kindSize o.kind := by
  cases o <;> simp [encOperand, Operand.kind, kindSize, be_length]

theorem decOperand_encOperand (o : Operand) (h : o.WF) (rest : List Nat) :
    decOperand o.kind (encOperand o ++ rest) = some (o, rest) := by
  have hl := encOperand_length o
  have hnot : ¬ ((encOperand o ++ rest).length < kindSize o.kind) := by simp [hl]
  have htake : (encOperand o ++ rest).take (kindSize o.kind) = encOperand o := by
    rw [← hl]; simp
  have hdrop : (encOperand o ++ rest).drop (kindSize o.kind) = rest := by
    rw [← hl]; simp
  simp only [decOperand, hnot, if_false, htake, hdrop]
  congr 1
  congr 1
  cases o with
  | u8 n =>
    have h' : n < 256 ^ 1 := by simpa [Operand.WF] using h
    simp [encOperand, Operand.kind, ofRaw, val_be 1 n h']
  | i16 i =>
    have := ofSigned_lt 2 i (by decide) h
    simp [encOperand, Operand.kind, ofRaw, val_be 2 _ this, toSigned_ofSigned 2 i (by decide) h]
  | u16 n => simp [encOperand, Operand.kind, ofRaw, val_be 2 n h]
  | i32 i =>
    have := ofSigned_lt 4 i (by decide) h
    simp [encOperand, Operand.kind, ofRaw, val_be 4 _ this, toSigned_ofSigned 4 i (by decide) h]
  | label n => simp [encOperand, Operand.kind, ofRaw, val_be 4 n h]
  | f32 b => simp [encOperand, Operand.kind, ofRaw, val_be 4 b h]
  | f64 b => simp [encOperand, Operand.kind, ofRaw, val_be 8 b h]
  | lit i => simp [encOperand, Operand.kind, ofRaw, val_be 2 i h]

theorem decOperands_enc (os : List Operand) (h : ∀ o ∈ os, o.WF) (rest : List Nat) :
    decOperands (os.map Operand.kind) ((os.map encOperand).flatten ++ rest) = some (os, rest) := by
  induction os with
  | nil => simp [decOperands]
  | cons o r ih =>
    have ho := h o (by simp)
    have hr := ih (fun x hx => h x (by simp [hx]))
    simp only [List.map_cons, List.flatten_cons, List.append_assoc, decOperands,
      decOperand_encOperand o ho, hr]

theorem decode_encode_lem (i : Instr) (h : WFInstr i) (rest : List Nat) :
    decode (encode i ++ rest) = some (i, rest) := by
  obtain ⟨c, ops⟩ := i
  have hk := h.kinds
  simp only at hk
  simp only [encode, List.cons_append, decode, hk, decOperands_enc ops h.ops rest]

theorem encode_length_pos (i : Instr) : 0 < (encode i).length := by simp [encode]

theorem decodeAll_encodeAll_aux : ∀ (is : List Instr) (f : Nat), (∀ i ∈ is, WFInstr i) →
    (encodeAll is).length ≤ f → decodeAll f (encodeAll is) = some is
  | [], f, _, _ => by cases f <;> simp [encodeAll, decodeAll]
  | i :: r, f, h, hf => by
    have hi := h i (by simp)
    have henc : encodeAll (i :: r) = encode i ++ encodeAll r := by simp [encodeAll]
    have hpos := encode_length_pos i
    cases f with
    | zero => rw [henc] at hf; simp only [List.length_append] at hf; omega
    | succ f =>
      have hne : ∃ b bs, encode i ++ encodeAll r = b :: bs := by
        cases he : encode i with
        | nil => simp [he] at hpos
        | cons b bs => exact ⟨b, bs ++ encodeAll r, by simp⟩
      obtain ⟨b, bs, hb⟩ := hne
      have ih := decodeAll_encodeAll_aux r f (fun x hx => h x (by simp [hx]))
        (by rw [henc] at hf; simp only [List.length_append] at hf; omega)
      rw [henc, hb]
      simp only [decodeAll]
      rw [← hb, decode_encode_lem i hi]
      simp [ih]

end Qbee.Instr
