import QbeeModel.Model.Data
namespace Qbee.Data

def labels : List Ev → List String
  | [] => []
  | .label l :: r => l :: labels r
  | .data _ :: r => labels r

def allItems : List Ev → List DItem
  | [] => []
  | .label _ :: r => allItems r
  | .data its :: r => its ++ allItems r

abbrev Groups := List (Option String × List DItem)
def keys (g : Groups) : List (Option String) := g.map (·.1)
def flat (g : Groups) : List DItem := (g.map (·.2)).flatten

theorem addTo_not_mem (g : Groups) (key : Option String) (items : List DItem) (h : key ∉ keys g) :
    addTo g key items = g ++ [(key, items)] := by
  induction g with
  | nil => rfl
  | cons a r ih =>
    obtain ⟨k, its⟩ := a
    have hk : k ≠ key := fun e => h (by simp [keys, e])
    have hr : key ∉ keys r := fun hm => h (by simp [keys] at hm ⊢; exact Or.inr hm)
    simp [addTo, hk, ih hr]

theorem addTo_last (g : Groups) (key : Option String) (its items : List DItem) (h : key ∉ keys g) :
    addTo (g ++ [(key, its)]) key items = g ++ [(key, its ++ items)] := by
  induction g with
  | nil => simp [addTo]
  | cons a r ih =>
    obtain ⟨k, its'⟩ := a
    have hk : k ≠ key := fun e => h (by simp [keys, e])
    have hr : key ∉ keys r := fun hm => h (by simp [keys] at hm ⊢; exact Or.inr hm)
    simp [addTo, hk, ih hr]

def Inv (last : Option String) (g : Groups) : Prop :=
  last ∉ keys g ∨ ∃ g' its, g = g' ++ [(last, its)] ∧ last ∉ keys g'

theorem groupFrom_flat : ∀ (evs : List Ev) (last : Option String) (g : Groups),
    (labels evs).Nodup → (∀ l ∈ labels evs, some l ∉ keys g ∧ some l ≠ last) → Inv last g →
    flat (groupFrom last g evs) = flat g ++ allItems evs
  | [], _, _, _, _, _ => by simp [groupFrom, allItems]
  | .label l :: r, last, g, hnd, hfresh, _ => by
    simp only [labels, List.nodup_cons] at hnd
    have hl := hfresh l (by simp [labels])
    simp only [groupFrom, allItems]
    apply groupFrom_flat r (some l) g hnd.2
    · intro l' hl'
      refine ⟨(hfresh l' (by simp [labels, hl'])).1, ?_⟩
      intro e; injection e with e; subst e; exact hnd.1 hl'
    · exact Or.inl hl.1
  | .data items :: r, last, g, hnd, hfresh, hinv => by
    simp only [labels] at hnd hfresh
    simp only [groupFrom, allItems]
    rcases hinv with hnm | ⟨g', its, hg, hnm⟩
    · rw [addTo_not_mem g last items hnm]
      rw [groupFrom_flat r last (g ++ [(last, items)]) hnd]
      · simp [flat]
      · intro l hl
        have := hfresh l hl
        refine ⟨?_, this.2⟩
        simp only [keys, List.map_append, List.map_cons, List.map_nil, List.mem_append, List.mem_singleton, not_or]
        exact ⟨this.1, this.2⟩
      · exact Or.inr ⟨g, items, rfl, hnm⟩
    · subst hg
      rw [addTo_last g' last its items hnm]
      rw [groupFrom_flat r last (g' ++ [(last, its ++ items)]) hnd]
      · simp [flat]
      · intro l hl
        have := hfresh l hl
        refine ⟨?_, this.2⟩
        have h1 := this.1
        simp only [keys, List.map_append, List.map_cons, List.map_nil, List.mem_append, List.mem_singleton, not_or] at h1 ⊢
        exact h1
      · exact Or.inr ⟨g', its ++ items, rfl, hnm⟩

def lastAfter (last : Option String) : List Ev → Option String
  | [] => last
  | .label l :: r => lastAfter (some l) r
  | .data _ :: r => lastAfter last r

theorem groupFrom_append (a b : List Ev) (last : Option String) (g : Groups) :
    groupFrom last g (a ++ b) = groupFrom (lastAfter last a) (groupFrom last g a) b := by
  induction a generalizing last g with
  | nil => rfl
  | cons e r ih => cases e <;> simp [groupFrom, lastAfter, ih]

theorem keys_addTo (g : Groups) (key : Option String) (items : List DItem) :
    ∀ k, k ∈ keys (addTo g key items) ↔ k ∈ keys g ∨ k = key := by
  induction g with
  | nil => intro k; simp [addTo, keys]
  | cons a r ih =>
    obtain ⟨k', its⟩ := a
    intro k
    by_cases hk : k' = key
    · subst hk
      simp only [addTo, if_true, keys, List.map_cons, List.mem_cons]
      constructor
      · intro h; rcases h with h | h
        · exact Or.inr h
        · exact Or.inl (Or.inr h)
      · intro h; rcases h with (h | h) | h
        · exact Or.inl h
        · exact Or.inr h
        · exact Or.inl h
    · have := ih k
      simp only [keys] at this
      simp [addTo, hk, keys, this, or_assoc]

/-- every key of the groups built from `evs` is the initial key, an initial group key, or a label of `evs` -/
theorem keys_groupFrom (evs : List Ev) (last : Option String) (g : Groups) :
    ∀ k ∈ keys (groupFrom last g evs), k ∈ keys g ∨ k = last ∨ ∃ l ∈ labels evs, k = some l := by
  induction evs generalizing last g with
  | nil => intro k hk; exact Or.inl hk
  | cons e r ih =>
    intro k hk
    cases e with
    | label l =>
      simp only [groupFrom] at hk
      rcases ih (some l) g k hk with h | h | ⟨l', hl', h⟩
      · exact Or.inl h
      · exact Or.inr (Or.inr ⟨l, by simp [labels], h⟩)
      · exact Or.inr (Or.inr ⟨l', by simp [labels, hl'], h⟩)
    | data items =>
      simp only [groupFrom] at hk
      rcases ih last (addTo g last items) k hk with h | h | ⟨l', hl', h⟩
      · rcases (keys_addTo g last items k).mp h with h | h
        · exact Or.inl h
        · exact Or.inr (Or.inl h)
      · exact Or.inr (Or.inl h)
      · exact Or.inr (Or.inr ⟨l', by simpa [labels] using hl', h⟩)

/-- groups whose keys are neither the current key nor a later label are left alone -/
theorem groupFrom_frame (evs : List Ev) (last : Option String) (G H : Groups)
    (h1 : last ∉ keys G) (h2 : ∀ l ∈ labels evs, some l ∉ keys G) :
    groupFrom last (G ++ H) evs = G ++ groupFrom last H evs := by
  induction evs generalizing last H with
  | nil => rfl
  | cons e r ih =>
    cases e with
    | label l =>
      simp only [groupFrom]
      exact ih (some l) H (h2 l (by simp [labels])) (fun l' hl' => h2 l' (by simp [labels, hl']))
    | data items =>
      simp only [groupFrom]
      have : addTo (G ++ H) last items = G ++ addTo H last items := by
        clear ih h2
        induction G with
        | nil => rfl
        | cons a G' ihG =>
          obtain ⟨k, its⟩ := a
          have hk : k ≠ last := fun e => h1 (by simp [keys, e])
          have hr : last ∉ keys G' := fun hm => h1 (by simp [keys] at hm ⊢; exact Or.inr hm)
          simp [addTo, hk, ihG hr]
      rw [this]
      exact ih last (addTo H last items) h1 (fun l' hl' => h2 l' (by simpa [labels] using hl'))

theorem labelIndex_append (G H : Groups) (l : String) (h : some l ∉ keys G) :
    labelIndex (G ++ H) l = (labelIndex H l).map (· + G.length) := by
  induction G with
  | nil => simp
  | cons a G' ih =>
    obtain ⟨k, its⟩ := a
    have hk : k ≠ some l := fun e => h (by simp [keys, e])
    have hr : some l ∉ keys G' := fun hm => h (by simp [keys] at hm ⊢; exact Or.inr hm)
    simp only [List.cons_append, labelIndex, hk, if_false, ih hr, Option.map_map, List.length_cons]
    congr 1
    all_goals (funext x; simp only [Function.comp]; omega)

theorem labels_append (a b : List Ev) : labels (a ++ b) = labels a ++ labels b := by
  induction a with
  | nil => rfl
  | cons e r ih => cases e <;> simp [labels, ih]

theorem groupFrom_head_key (evs : List Ev) (last : Option String) (k : Option String) (its : List DItem) (H : Groups) :
    ∃ its' H', groupFrom last ((k, its) :: H) evs = (k, its') :: H' := by
  induction evs generalizing last its H with
  | nil => exact ⟨its, H, rfl⟩
  | cons e r ih =>
    cases e with
    | label l => simp only [groupFrom]; exact ih (some l) its H
    | data items =>
      simp only [groupFrom, addTo]
      split
      · exact ih last (its ++ items) H
      · exact ih last its (addTo H last items)

theorem labelOrder_eq_labels (evs : List Ev) : labelOrder evs = labels evs := by
  induction evs with
  | nil => rfl
  | cons e r ih => cases e <;> simp [labelOrder, labels, ih]

theorem labelIndex_none (g : Groups) (l : String) (h : some l ∉ keys g) : labelIndex g l = none := by
  induction g with
  | nil => rfl
  | cons a r ih =>
    obtain ⟨k, its⟩ := a
    have hk : k ≠ some l := fun e => h (by simp [keys, e])
    have hr : some l ∉ keys r := fun hm => h (by simp [keys] at hm ⊢; exact Or.inr hm)
    simp [labelIndex, hk, ih hr]

/-- `order[order.index(x) + 1:]` -/
theorem after_first_occurrence (a : List String) (x : String) (r : List String) (h : x ∉ a) :
    ((a ++ x :: r).dropWhile (· != x)).drop 1 = r := by
  induction a with
  | nil => simp [List.dropWhile]
  | cons y a ih =>
    have hy : y ≠ x := fun e => h (by simp [e])
    have hr : x ∉ a := fun hm => h (by simp [hm])
    simp only [List.cons_append, List.dropWhile_cons, bne_iff_ne, ne_eq, hy, not_false_eq_true, if_true]
    exact ih hr

/-- the keys of the groups of a program are `none` or labels of the program -/
theorem keys_groupData (evs : List Ev) : ∀ k ∈ keys (groupData evs), k = none ∨ ∃ l ∈ labels evs, k = some l := by
  intro k hk
  rcases keys_groupFrom evs none [] k hk with h | h | h
  · simp [keys] at h
  · exact Or.inl h
  · exact Or.inr h

end Qbee.Data
