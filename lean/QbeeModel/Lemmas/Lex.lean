import QbeeModel.Model.Lex
/-
  Scanner lemmas for Props/C14.lean: what each mode of `go` does on one piece of rendered text.
-/
namespace Qbee.Lex


/-! equation lemmas of `go` (defined by well-founded recursion on the length of the text) -/

theorem go_code_nil (w : Str) (a : Bool) : go (.code w) a [] = flushW w := by
  conv => lhs; unfold go

theorem go_code_cons (w : Str) (a : Bool) (c : Char) (r : Str) :
    go (.code w) a (c :: r) =
    (if isWordCh c then go (.code (w ++ [lowerCh c])) a r
    else if isRawKw w && c != '\n' then go (.raw w [c]) false r
    else
      flushW w ++
        (if isBlank c then go (.code []) (a && decide (w = [])) r
         else if c = '\n' then (if (a && decide (w = [])) then [] else [.nl]) ++ go (.code []) true r
         else if c = '\'' then go .comment (a && decide (w = [])) r
         else if c = '"' then go (.str []) false r
         else match r with
           | d :: r' => if isOp2 c d then .sym2 c d :: go (.code []) false r' else .sym c :: go (.code []) false (d :: r')
           | [] => [.sym c])) := by
  conv => lhs; unfold go
  rfl

theorem go_str_nil (acc : Str) (a : Bool) : go (.str acc) a [] = [.str acc] := by
  conv => lhs; unfold go

theorem go_str_cons (acc : Str) (a : Bool) (c : Char) (r : Str) :
    go (.str acc) a (c :: r) =
    (if c = '"' then .str acc :: go (.code []) false r
     else if c = '\n' then .str acc :: .nl :: go (.code []) true r
     else go (.str (acc ++ [c])) a r) := by
  conv => lhs; unfold go

theorem go_comment_nil (a : Bool) : go .comment a [] = [] := by
  conv => lhs; unfold go

theorem go_comment_cons (a : Bool) (c : Char) (r : Str) :
    go .comment a (c :: r) = (if c = '\n' then (if a then [] else [.nl]) ++ go (.code []) true r else go .comment a r) := by
  conv => lhs; unfold go

theorem go_raw_nil (kw acc : Str) (a : Bool) : go (.raw kw acc) a [] = [.raw kw acc] := by
  conv => lhs; unfold go

theorem go_raw_cons (kw acc : Str) (a : Bool) (c : Char) (r : Str) :
    go (.raw kw acc) a (c :: r) =
    (if c = '\n' then .raw kw acc :: .nl :: go (.code []) true r else go (.raw kw (acc ++ [c])) a r) := by
  conv => lhs; unfold go

theorem blank_not_word (c : Char) (h : isBlank c = true) : isWordCh c = false := by
  simp only [isBlank, Bool.or_eq_true, decide_eq_true_eq] at h
  rcases h with h | h <;> subst h <;> decide

theorem isRawKw_nil : isRawKw [] = false := by decide

/-- blanks in front of anything are skipped -/
theorem go_blanks (n : Nat) (tab a : Bool) (rest : Str) :
    go (.code []) a (blanksOf n tab ++ rest) = go (.code []) a rest := by
  induction n with
  | zero => simp [blanksOf]
  | succ n ih =>
    have hb : isBlank (if tab = true then '\t' else ' ') = true := by cases tab <;> decide
    have hw := blank_not_word _ hb
    have hn : ((if tab = true then '\t' else ' ') != '\n') = true := by cases tab <;> decide
    simp only [blanksOf, List.replicate_succ, List.cons_append] at ih ⊢
    rw [go_code_cons]
    simp only [hw, Bool.false_eq_true, if_false, isRawKw_nil, Bool.false_and, hb, if_true, flushW, List.nil_append,
      decide_true, Bool.and_true]
    exact ih

/-- a non-word character makes a pending word (not DATA / REM) a token and is then read afresh -/
theorem go_flush (w : Str) (hw : isRawKw w = false) (a : Bool) (c : Char) (r : Str) (hc : isWordCh c = false) :
    go (.code w) a (c :: r) = flushW w ++ go (.code []) (a && decide (w = [])) (c :: r) := by
  rw [go_code_cons, go_code_cons]
  simp only [hc, Bool.false_eq_true, if_false, hw, Bool.false_and, isRawKw_nil, flushW, List.nil_append, decide_true,
    Bool.and_true]
  simp

/-- the letters of a word are collected, case-folded -/
theorem go_word (sp : Str) (hs : ∀ c ∈ sp, isWordCh c = true) (w : Str) (a : Bool) (rest : Str) :
    go (.code w) a (sp ++ rest) = go (.code (w ++ sp.map lowerCh)) a rest := by
  induction sp generalizing w with
  | nil => simp
  | cons c r ih =>
    have hc := hs c (by simp)
    simp only [List.cons_append, List.map_cons]
    rw [go_code_cons]
    simp only [hc, if_true]
    rw [ih (fun c' h => hs c' (by simp [h]))]
    simp

theorem go_str (s : Str) (hq : '"' ∉ s) (hn : noNl s) (acc : Str) (a : Bool) (rest : Str) :
    go (.str acc) a (s ++ '"' :: rest) = .str (acc ++ s) :: go (.code []) false rest := by
  induction s generalizing acc with
  | nil => simp [go_str_cons]
  | cons c r ih =>
    have h1 : c ≠ '"' := fun h => hq (by simp [h])
    have h2 : c ≠ '\n' := fun h => hn (by simp [noNl, h])
    simp only [List.cons_append]
    rw [go_str_cons]
    simp only [h1, h2, if_false]
    rw [ih (fun h => hq (by simp [h])) (fun h => hn (by simp [noNl] at h ⊢; simp [h]))]
    simp

theorem go_comment (t : Str) (hn : noNl t) (a : Bool) (rest : Str) :
    go .comment a (t ++ '\n' :: rest) = (if a then [] else [.nl]) ++ go (.code []) true rest := by
  induction t with
  | nil => simp [go_comment_cons]
  | cons c r ih =>
    have h2 : c ≠ '\n' := fun h => hn (by simp [noNl, h])
    simp only [List.cons_append]
    rw [go_comment_cons]
    simp only [h2, if_false]
    exact ih (fun h => hn (by simp [noNl] at h ⊢; simp [h]))

theorem go_raw (t : Str) (hn : noNl t) (kw acc : Str) (a : Bool) (rest : Str)
    (hr : rest = [] ∨ ∃ r', rest = '\n' :: r') :
    go (.raw kw acc) a (t ++ rest) =
      .raw kw (acc ++ t) :: (match rest with | [] => [] | _ :: r' => .nl :: go (.code []) true r') := by
  induction t generalizing acc with
  | nil =>
    rcases hr with h | ⟨r', h⟩ <;> subst h <;> simp [go_raw_nil, go_raw_cons]
  | cons c r ih =>
    have h2 : c ≠ '\n' := fun h => hn (by simp [noNl, h])
    simp only [List.cons_append]
    rw [go_raw_cons]
    simp only [h2, if_false]
    rw [ih (fun h => hn (by simp [noNl] at h ⊢; simp [h]))]
    simp

/-- a line that holds only blanks and possibly a comment leaves no trace -/
theorem go_empty_lines (els : List (Nat × Option Str)) (hn : ∀ p ∈ els, ∀ t, p.2 = some t → noNl t) (rest : Str) :
    go (.code []) true (emptyLinesText els ++ rest) = go (.code []) true rest := by
  induction els with
  | nil => simp [emptyLinesText]
  | cons p r ih =>
    obtain ⟨b, c⟩ := p
    have ih' := ih (fun q hq => hn q (by simp [hq]))
    simp only [emptyLinesText, List.append_assoc]
    rw [go_blanks]
    cases c with
    | none =>
      simp only [commentText, List.nil_append, List.cons_append]
      rw [go_code_cons]
      have : isWordCh '\n' = false := by decide
      simp only [this, Bool.false_eq_true, if_false, isRawKw_nil, Bool.false_and, flushW, List.nil_append]
      have hb : isBlank '\n' = false := by decide
      simp only [hb, Bool.false_eq_true, if_false, if_true, decide_true, Bool.and_self]
      simpa using ih'
    | some t =>
      have htn := hn (b, some t) (by simp) t rfl
      simp only [commentText, List.cons_append, List.append_assoc]
      rw [go_code_cons]
      have : isWordCh '\'' = false := by decide
      simp only [this, Bool.false_eq_true, if_false, isRawKw_nil, Bool.false_and, flushW, List.nil_append]
      have hb : isBlank '\'' = false := by decide
      have hq : ('\'' = '\n') = False := by decide
      simp only [hb, Bool.false_eq_true, if_false, hq, if_true, decide_true, Bool.and_self]
      rw [go_comment t htn]
      simpa using ih'

end Qbee.Lex
