import QbeeModel.Model.DebugMap
namespace Qbee.DebugMap

theorem WB_le {lo hi : Nat} {evs : List Ev} (h : WB lo hi evs) : lo ≤ hi := by
  induction h with
  | nil lo hi h => exact h
  | wrap id s e lo hi inner h1 h2 _ ih => omega
  | append lo mid hi a b _ _ iha ihb => omega

/-- the collector turns a well-bracketed stream into records, whatever surrounds it; the records are
    laminar and lie inside the span of the stream -/
theorem collect_WB {lo hi : Nat} {evs : List Ev} (h : WB lo hi evs) :
    ∃ rs, (∀ rest st acc, collect (evs ++ rest) st acc = collect rest st (acc ++ rs)) ∧ Laminar rs ∧ Within lo hi rs := by
  induction h with
  | nil lo hi h =>
    exact ⟨[], by intro rest st acc; simp, by intro r1 h1; simp at h1, by intro r hr; simp at hr⟩
  | wrap id s e lo hi inner h1 h2 hin ih =>
    obtain ⟨rsI, hc, hl, hw⟩ := ih
    have hse := WB_le hin
    refine ⟨rsI ++ [⟨id, s, e⟩], ?_, ?_, ?_⟩
    · intro rest st acc
      simp only [List.cons_append, List.append_assoc, collect]
      rw [hc]
      simp [collect, List.append_assoc]
    · intro r1 hr1 r2 hr2
      simp only [List.mem_append, List.mem_singleton] at hr1 hr2
      rcases hr1 with hr1 | rfl <;> rcases hr2 with hr2 | rfl
      · exact hl r1 hr1 r2 hr2
      · have := hw r1 hr1; right; right; left; simp; omega
      · have := hw r2 hr2; right; right; right; simp; omega
      · right; right; left; simp
    · intro r hr
      simp only [List.mem_append, List.mem_singleton] at hr
      rcases hr with hr | rfl
      · have := hw r hr; omega
      · simp; omega
  | append lo mid hi a b ha hb iha ihb =>
    obtain ⟨ra, hca, hla, hwa⟩ := iha
    obtain ⟨rb, hcb, hlb, hwb⟩ := ihb
    have hlm := WB_le ha
    have hmh := WB_le hb
    refine ⟨ra ++ rb, ?_, ?_, ?_⟩
    · intro rest st acc
      rw [List.append_assoc, hca, hcb, List.append_assoc]
    · intro r1 hr1 r2 hr2
      simp only [List.mem_append] at hr1 hr2
      rcases hr1 with hr1 | hr1 <;> rcases hr2 with hr2 | hr2
      · exact hla r1 hr1 r2 hr2
      · have := hwa r1 hr1; have := hwb r2 hr2; left; omega
      · have := hwb r1 hr1; have := hwa r2 hr2; right; left; omega
      · exact hlb r1 hr1 r2 hr2
    · intro r hr
      simp only [List.mem_append] at hr
      rcases hr with hr | hr
      · have := hwa r hr; omega
      · have := hwb r hr; omega

theorem foldl_better_some (addr : Nat) : ∀ (rs : List Rec) (b : Rec), Contains b addr →
    ∃ r, rs.foldl (better addr) (some b) = some r ∧ Contains r addr ∧ (r = b ∨ r ∈ rs) ∧
      r.e - r.s ≤ b.e - b.s ∧ ∀ x ∈ rs, Contains x addr → r.e - r.s ≤ x.e - x.s
  | [], b, hb => ⟨b, rfl, hb, Or.inl rfl, Nat.le_refl _, by intro x hx; simp at hx⟩
  | x :: rs, b, hb => by
    simp only [List.foldl_cons]
    by_cases hx : x.s ≤ addr ∧ addr < x.e
    · by_cases hlt : x.e - x.s < b.e - b.s
      · have : better addr (some b) x = some x := by simp [better, hx, hlt]
        rw [this]
        obtain ⟨r, h1, h2, h3, h4, h5⟩ := foldl_better_some addr rs x hx
        refine ⟨r, h1, h2, ?_, by omega, ?_⟩
        · rcases h3 with rfl | h3
          · right; simp
          · right; simp [h3]
        · intro y hy hcy
          simp only [List.mem_cons] at hy
          rcases hy with rfl | hy
          · exact h4
          · exact h5 y hy hcy
      · have : better addr (some b) x = some b := by simp [better, hx, hlt]
        rw [this]
        obtain ⟨r, h1, h2, h3, h4, h5⟩ := foldl_better_some addr rs b hb
        refine ⟨r, h1, h2, ?_, h4, ?_⟩
        · rcases h3 with rfl | h3
          · left; rfl
          · right; simp [h3]
        · intro y hy hcy
          simp only [List.mem_cons] at hy
          rcases hy with rfl | hy
          · omega
          · exact h5 y hy hcy
    · have : better addr (some b) x = some b := by simp [better, hx]
      rw [this]
      obtain ⟨r, h1, h2, h3, h4, h5⟩ := foldl_better_some addr rs b hb
      refine ⟨r, h1, h2, ?_, h4, ?_⟩
      · rcases h3 with rfl | h3
        · left; rfl
        · right; simp [h3]
      · intro y hy hcy
        simp only [List.mem_cons] at hy
        rcases hy with rfl | hy
        · exact absurd hcy hx
        · exact h5 y hy hcy

theorem findStmt_spec (addr : Nat) : ∀ (rs : List Rec),
    (findStmt rs addr = none ∧ ∀ x ∈ rs, ¬ Contains x addr) ∨
    ∃ r, findStmt rs addr = some r ∧ r ∈ rs ∧ Contains r addr ∧ ∀ x ∈ rs, Contains x addr → r.e - r.s ≤ x.e - x.s
  | [] => Or.inl ⟨rfl, by intro x hx; simp at hx⟩
  | x :: rs => by
    unfold findStmt
    simp only [List.foldl_cons]
    by_cases hx : x.s ≤ addr ∧ addr < x.e
    · have : better addr none x = some x := by simp [better, hx]
      rw [this]
      obtain ⟨r, h1, h2, h3, h4, h5⟩ := foldl_better_some addr rs x hx
      right
      refine ⟨r, h1, ?_, h2, ?_⟩
      · rcases h3 with rfl | h3 <;> simp [*]
      · intro y hy hcy
        simp only [List.mem_cons] at hy
        rcases hy with rfl | hy
        · exact h4
        · exact h5 y hy hcy
    · have : better addr none x = none := by simp [better, hx]
      rw [this]
      rcases findStmt_spec addr rs with ⟨h1, h2⟩ | ⟨r, h1, h2, h3, h4⟩
      · left
        refine ⟨h1, ?_⟩
        intro y hy
        simp only [List.mem_cons] at hy
        rcases hy with rfl | hy
        · exact hx
        · exact h2 y hy
      · right
        refine ⟨r, h1, by simp [h2], h3, ?_⟩
        intro y hy hcy
        simp only [List.mem_cons] at hy
        rcases hy with rfl | hy
        · exact absurd hcy hx
        · exact h4 y hy hcy

end Qbee.DebugMap
