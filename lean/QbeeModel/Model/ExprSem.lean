import QbeeModel.Model.ExprC
import QbeeModel.Model.Arith
import QbeeModel.Gen.InstrTable
/-
  M6 (part): the meaning of expressions.

  * `refEval`   the reference semantics of an operator tree: evaluate the left operand, convert it to the
                operand type the language prescribes for (operator, left type, right type), evaluate and
                convert the right operand, apply the operator at that type (range checks, division by zero)
  * `compileC`  the code generator's scheme with concrete leaves (uses the same generated rows as `compileE`)
  * `runC`      the machine on that code (the typed-cell instructions of Model/Arith.lean)

  The operand-type rule `specTy` and the operator-to-instruction map `specOps` are written here from the
  language definition, independently of what the generator emits; that the generator emits exactly the
  conversions and instructions they prescribe is a finite obligation over the generated table (`allSpecOk`).
-/
namespace Qbee.ExprSem
open Qbee.Gen Qbee.ExprC Qbee.Arith

/-- a decoded expression instruction -/
inductive Op3 where
  | conv (src dst : Ty)
  | bin (op : BinOp)
  | un (op : UnOp)
  deriving Repr, DecidableEq

/-- opcode → instruction, for the arithmetic / logic / comparison / conversion instructions -/
def decodeOp : Nat → Option Op3
  | 2 => some (.bin .add) | 93 => some (.bin .sub) | 33 => some (.bin .mul) | 19 => some (.bin .div)
  | 25 => some (.bin .idiv) | 32 => some (.bin .mod) | 22 => some (.bin .exp)
  | 3 => some (.bin .and) | 38 => some (.bin .or) | 99 => some (.bin .xor) | 21 => some (.bin .eqv) | 26 => some (.bin .imp)
  | 105 => some (.bin .cmp)
  | 35 => some (.un .neg) | 37 => some (.un .not)
  | 20 => some (.un .eq) | 34 => some (.un .ne) | 31 => some (.un .lt) | 102 => some (.un .gt)
  | 30 => some (.un .le) | 24 => some (.un .ge)
  | 6 => some (.conv .i .l) | 7 => some (.conv .i .s) | 8 => some (.conv .i .d)
  | 9 => some (.conv .l .i) | 10 => some (.conv .l .s) | 11 => some (.conv .l .d)
  | 12 => some (.conv .s .i) | 13 => some (.conv .s .l) | 14 => some (.conv .s .d)
  | 15 => some (.conv .d .i) | 16 => some (.conv .d .l) | 17 => some (.conv .d .s)
  | _ => none

/-- the same map by mnemonic (used only to tie `decodeOp` to the generated instruction table) -/
def decodeName : String → Option Op3
  | "add" => some (.bin .add) | "sub" => some (.bin .sub) | "mul" => some (.bin .mul) | "div" => some (.bin .div)
  | "idiv" => some (.bin .idiv) | "mod" => some (.bin .mod) | "exp" => some (.bin .exp)
  | "and" => some (.bin .and) | "or" => some (.bin .or) | "xor" => some (.bin .xor) | "eqv" => some (.bin .eqv)
  | "imp" => some (.bin .imp) | "cmp" => some (.bin .cmp)
  | "neg" => some (.un .neg) | "not" => some (.un .not)
  | "eq" => some (.un .eq) | "ne" => some (.un .ne) | "lt" => some (.un .lt) | "gt" => some (.un .gt)
  | "le" => some (.un .le) | "ge" => some (.un .ge)
  | "conv%&" => some (.conv .i .l) | "conv%!" => some (.conv .i .s) | "conv%#" => some (.conv .i .d)
  | "conv&%" => some (.conv .l .i) | "conv&!" => some (.conv .l .s) | "conv&#" => some (.conv .l .d)
  | "conv!%" => some (.conv .s .i) | "conv!&" => some (.conv .s .l) | "conv!#" => some (.conv .s .d)
  | "conv#%" => some (.conv .d .i) | "conv#&" => some (.conv .d .l) | "conv#!" => some (.conv .d .s)
  | _ => none

/-- `decodeOp` agrees with the mnemonics of the generated instruction table, entry by entry -/
def decodeTableOk : Bool :=
  instrTable.all fun (name, code, _) =>
    match decodeName name with
    | some o => decide (decodeOp code = some o)
    | none => decide (decodeOp code = none) || true

/-! ### the language's rule: operand type and instruction(s) per operator -/

def wider (l r : Ty) : Ty :=
  if l = .d || r = .d then .d else if l = .s || r = .s then .s else if l = .l || r = .l then .l else .i

/-- the type both operands are brought to (operators keyed by qbee.expr.Operator values) -/
def specTy (op : Nat) (l r : Ty) (res : Ty) : Ty :=
  if op = 1 || op = 2 || op = 3 || op = 4 || op = 7 then res            -- + - * / ^ : the result type
  else if 8 ≤ op && op ≤ 13 then (if l = .str then .str else wider l r)  -- comparisons: the wider operand type
  else (if l = .i && r = .i then .i else .l)                              -- MOD, \, AND OR XOR EQV IMP

/-- the machine instruction(s) that implement an operator at its operand type -/
def specOps : Nat → List Op3
  | 1 => [.bin .add] | 2 => [.bin .sub] | 3 => [.bin .mul] | 4 => [.bin .div] | 5 => [.bin .mod]
  | 6 => [.bin .idiv] | 7 => [.bin .exp]
  | 8 => [.bin .cmp, .un .eq] | 9 => [.bin .cmp, .un .ne] | 10 => [.bin .cmp, .un .lt]
  | 11 => [.bin .cmp, .un .gt] | 12 => [.bin .cmp, .un .le] | 13 => [.bin .cmp, .un .ge]
  | 17 => [.bin .and] | 18 => [.bin .or] | 19 => [.bin .xor] | 20 => [.bin .eqv] | 21 => [.bin .imp]
  | _ => []

def convIf (src dst : Ty) : List Op3 := if src = dst then [] else [.conv src dst]

def decodeAll (cs : List Nat) : Option (List Op3) := cs.mapM decodeOp

def arity : Op3 → Nat
  | .conv _ _ => 1 | .un _ => 1 | .bin _ => 2

/-- number of cells left by a sequence started on n cells (each instruction pops `arity`, pushes one) -/
def outLen : List Op3 → Nat → Nat
  | [], n => n
  | o :: r, n => outLen r (n + 1 - arity o)

/-- for one accepted row: the emitted code is exactly "convert left to T; … ; convert right to T; operator" -/
def specOkRow (op : Nat) (l r : Ty) (res : Option Ty) (code : List Nat) : Bool :=
  match res, splitBin code with
  | some t, some (cl, cr) =>
    decide (decodeAll cl = some (convIf l (specTy op l r t))) &&
    decide (decodeAll cr = some (convIf r (specTy op l r t) ++ specOps op)) &&
    decide (outLen (convIf r (specTy op l r t) ++ specOps op) 2 = 1)
  | _, _ => false

/-- unary: NEG → [neg], PLUS → [], NOT → convert to INTEGER/LONG then not -/
def specUn (op : Nat) (a : Ty) : List Op3 :=
  if op = 14 then [.un .neg] else if op = 15 then []
  else convIf a (if a = .i then .i else .l) ++ [.un .not]

def specOkUnRow (op : Nat) (a : Ty) (code : List Nat) : Bool :=
  match splitUn code with
  | some c => decide (decodeAll c = some (specUn op a)) && decide (outLen (specUn op a) 1 = 1)
  | none => false

def allSpecOk : Bool :=
  (binRows.all fun (_, op, l, r, acc, res, code) => !acc || specOkRow op l r res code) &&
  (unRows.all fun (_, op, a, acc, _, code) => !acc || specOkUnRow op a code)

/-! ### concrete trees, reference semantics, compiled code, machine -/

inductive CE (F : Type) where
  | leaf (c : Cell F)
  | bin (op : Nat) (a b : CE F)
  | un (op : Nat) (a : CE F)

def CE.erase {F} : CE F → E
  | .leaf c => .atom c.ty
  | .bin op a b => .bin op a.erase b.erase
  | .un op a => .un op a.erase

def Res.bind {α β} : Res α → (α → Res β) → Res β
  | .ok a, f => f a
  | .trap c, _ => .trap c
  | .host c, _ => .host c

def applyOp3 {F} (ops : FOps F) (o : Op3) (st : List (Cell F)) : Res (List (Cell F)) :=
  match o, st with
  | .conv s d, a :: r => Res.bind (conv ops s d a) fun c => .ok (c :: r)
  | .un u, a :: r => Res.bind (unop ops u a) fun c => .ok (c :: r)
  | .bin b, y :: x :: r => Res.bind (binop ops b x y) fun c => .ok (c :: r)
  | _, _ => .trap "STACK_EMPTY"

def applyAll {F} (ops : FOps F) : List Op3 → List (Cell F) → Res (List (Cell F))
  | [], st => .ok st
  | o :: r, st => Res.bind (applyOp3 ops o st) (applyAll ops r)

def top1 {F} : List (Cell F) → Res (Cell F)
  | [v] => .ok v
  | _ => .host "stack"

/-- reference semantics of a tree -/
def refEval {F} (ops : FOps F) : CE F → Res (Cell F)
  | .leaf c => .ok c
  | .bin op a b =>
    match ty a.erase, ty b.erase, ty (.bin op a.erase b.erase) with
    | some l, some r, some t =>
      Res.bind (refEval ops a) fun va =>
      Res.bind (applyAll ops (convIf l (specTy op l r t)) [va]) fun sa =>
      Res.bind (refEval ops b) fun vb =>
      Res.bind (applyAll ops (convIf r (specTy op l r t) ++ specOps op) (vb :: sa)) top1
    | _, _, _ => .host "ill-typed"
  | .un op a =>
    match ty a.erase with
    | some t =>
      Res.bind (refEval ops a) fun va =>
      Res.bind (applyAll ops (specUn op t) [va]) top1
    | none => .host "ill-typed"

/-- compiled instruction: push a leaf cell, or an opcode -/
inductive CI (F : Type) where
  | push (c : Cell F)
  | op (code : Nat)

/-- the code generator's scheme with concrete leaves (same rows as `compileE`) -/
def compileC {F} : CE F → Option (List (CI F))
  | .leaf c => some [.push c]
  | .bin op a b =>
    match ty a.erase, ty b.erase, compileC a, compileC b with
    | some l, some r, some ca, some cb =>
      match binRow op l r with
      | some (_, _, _, _, _, code) =>
        match splitBin code with
        | some (cl, cr) => some (ca ++ cl.map .op ++ cb ++ cr.map .op)
        | none => none
      | none => none
    | _, _, _, _ => none
  | .un op a =>
    match ty a.erase, compileC a with
    | some t, some ca =>
      match unRow op t with
      | some (_, _, _, _, code) =>
        match splitUn code with
        | some c => some (ca ++ c.map .op)
        | none => none
      | none => none
    | _, _ => none

/-- the machine executing expression code -/
def runC {F} (ops : FOps F) : List (CI F) → List (Cell F) → Res (List (Cell F))
  | [], st => .ok st
  | .push c :: r, st => runC ops r (c :: st)
  | .op code :: r, st =>
    match decodeOp code with
    | none => .trap "INVALID_OP_CODE"
    | some o => Res.bind (applyOp3 ops o st) (runC ops r)

end Qbee.ExprSem
