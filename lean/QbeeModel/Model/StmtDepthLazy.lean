import QbeeModel.Model.StmtDepth
/-
  The bookkeeping of Model/StmtDepth.lean as the code does it (qvm/cpu.py: _exec_call appends (index, cell) to
  gosub_marks; _drop_partial_results validates the marks from the innermost end - `self.stack[idx] is cell` - and discards
  the stale ones only then).  Cells are identified by a number that is never reused (Python: object identity of a cell that
  the mark itself keeps alive).  One frame; Props/C10.lean proves that this is a refinement of the eager model.
-/
namespace Qbee.StmtDepth.Lazy

structure LSt where
  stack : List Nat            -- the identities of the cells on the operand stack, bottom first
  next : Nat                  -- the next fresh identity
  base : Nat                  -- stack_base of the frame
  marks : List (Nat × Nat)    -- gosub_marks, innermost first: (index, identity of the cell that was pushed there)
  deriving Repr, DecidableEq

/-- `idx < len(self.stack) and self.stack[idx] is cell` -/
def valid (stack : List Nat) (m : Nat × Nat) : Bool := stack[m.1]? == some m.2

/-- the loop of _drop_partial_results: stale marks are discarded from the innermost end until a valid one is found -/
def validated (stack : List Nat) (marks : List (Nat × Nat)) : List (Nat × Nat) := marks.dropWhile (fun m => !valid stack m)

def depthOf (base : Nat) : List (Nat × Nat) → Nat
  | m :: _ => m.1 + 1
  | [] => base + 1

/-- `k` fresh cells -/
def fresh (next : Nat) : Nat → List Nat
  | 0 => []
  | k + 1 => next :: fresh (next + 1) k

inductive LEv where
  | instr (pops pushes : Nat)
  | gosub
  | handledNext
  deriving Repr, DecidableEq

def lstep (s : LSt) : LEv → LSt
  | .instr p q => { s with stack := s.stack.take (s.stack.length - p) ++ fresh s.next q, next := s.next + q }
  | .gosub => { s with stack := s.stack ++ [s.next], next := s.next + 1, marks := (s.stack.length, s.next) :: s.marks }
  | .handledNext =>
    let ms := validated s.stack s.marks
    { s with stack := s.stack.take (depthOf s.base ms), marks := ms }

/-- what the eager model sees of such a state -/
def abs (s : LSt) : St :=
  { depth := s.stack.length, frames := [{ base := s.base, marks := (s.marks.filter (valid s.stack)).map (·.1) }] }

def toEv : LEv → Ev
  | .instr p q => .instr p q
  | .gosub => .gosub
  | .handledNext => .handledNext

/-- identities are never reused: everything on the stack and in the marks is older than the next fresh one -/
def Fresh (s : LSt) : Prop := (∀ c ∈ s.stack, c < s.next) ∧ (∀ m ∈ s.marks, m.2 < s.next)

end Qbee.StmtDepth.Lazy
