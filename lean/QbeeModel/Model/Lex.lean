/-
  M13: the lexical layer of a source text, for C14.  One character at a time, four modes.
  A token is what the grammar can distinguish: a word (keyword, identifier, number: case-folded), a string literal
  (verbatim), a DATA / REM tail (verbatim), any other visible character, and the end of a line.  Blanks, comments, empty
  lines and letter case outside literals do not reach the token stream.
-/
namespace Qbee.Lex

abbrev Str := List Char

def isBlank (c : Char) : Bool := c = ' ' || c = '\t'

def isWordCh (c : Char) : Bool :=
  c.isAlphanum || c = '_' || c = '.' || c = '%' || c = '&' || c = '!' || c = '#' || c = '$'

def lowerCh (c : Char) : Char := c.toLower

inductive Tok where
  | word (w : Str)               -- case-folded
  | str (s : Str)                -- contents of a string literal
  | raw (kw : Str) (text : Str)  -- DATA / REM and the rest of their line, verbatim
  | sym (c : Char)
  | sym2 (c d : Char)            -- a two-character comparison operator written without a blank: <= >= <> >< =< =>
  | nl
  deriving Repr, DecidableEq

inductive Mode where
  | code (w : Str)               -- the word read so far (case-folded), [] = none
  | str (acc : Str)
  | comment
  | raw (kw : Str) (acc : Str)
  deriving Repr

def isCmpCh (c : Char) : Bool := c = '<' || c = '>' || c = '='

/-- the grammar's comparison operator is one regular expression: two of these characters side by side are ONE token
    (`==`, `<<`, `>>` are not operators: two tokens) -/
def isOp2 (c d : Char) : Bool := isCmpCh c && isCmpCh d && c != d

def isRawKw (w : Str) : Bool := w = "data".toList || w = "rem".toList

def wordTok (w : Str) : Tok := if isRawKw w then .raw w [] else .word w

/-- the tokens a pending word contributes -/
def flushW (w : Str) : List Tok := if w = [] then [] else [wordTok w]

/-- `a` = nothing has been emitted on this line yet (a newline here is an empty line) -/
def go : Mode → Bool → Str → List Tok
  | .code w, _, [] => flushW w
  | .code w, a, c :: r =>
    if isWordCh c then go (.code (w ++ [lowerCh c])) a r
    else if isRawKw w && c != '\n' then go (.raw w [c]) false r
    else
      let a' := a && decide (w = [])
      flushW w ++
        (if isBlank c then go (.code []) a' r
         else if c = '\n' then (if a' then [] else [.nl]) ++ go (.code []) true r
         else if c = '\'' then go .comment a' r
         else if c = '"' then go (.str []) false r
         else match r with
           | d :: r' => if isOp2 c d then .sym2 c d :: go (.code []) false r' else .sym c :: go (.code []) false (d :: r')
           | [] => [.sym c])
  | .str acc, _, [] => [.str acc]
  | .str acc, a, c :: r =>
    if c = '"' then .str acc :: go (.code []) false r
    else if c = '\n' then .str acc :: .nl :: go (.code []) true r
    else go (.str (acc ++ [c])) a r
  | .comment, _, [] => []
  | .comment, a, c :: r =>
    if c = '\n' then (if a then [] else [.nl]) ++ go (.code []) true r else go .comment a r
  | .raw kw acc, _, [] => [.raw kw acc]
  | .raw kw acc, a, c :: r =>
    if c = '\n' then .raw kw acc :: .nl :: go (.code []) true r else go (.raw kw (acc ++ [c])) a r
termination_by _ _ s => s.length
decreasing_by all_goals (simp_wf; try omega)

def lex (s : Str) : List Tok := go (.code []) true s

/-! ### layouts: every way of writing a token stream that the property calls the same program -/

/-- how one token is written -/
structure Lay where
  blanks : Nat                 -- blanks (or tabs) before it
  tab : Bool                   -- use tabs instead of spaces
  spelling : Str               -- words / raw keywords: the letters as written (any case)
  comment : Option Str         -- nl: a trailing `' comment`
  emptyLines : List (Nat × Option Str)   -- nl: following lines holding only blanks and possibly a comment

def blanksOf (n : Nat) (tab : Bool) : Str := List.replicate n (if tab then '\t' else ' ')

def commentText : Option Str → Str
  | none => []
  | some t => '\'' :: t

def emptyLinesText : List (Nat × Option Str) → Str
  | [] => []
  | (b, c) :: r => blanksOf b false ++ commentText c ++ ['\n'] ++ emptyLinesText r

def renderTok : Tok → Lay → Str
  | .word _, l => blanksOf (l.blanks + 1) l.tab ++ l.spelling
  | .raw _ text, l => blanksOf (l.blanks + 1) l.tab ++ l.spelling ++ text
  | .str s, l => blanksOf l.blanks l.tab ++ ['"'] ++ s ++ ['"']
  | .sym c, l => blanksOf l.blanks l.tab ++ [c]
  | .sym2 c d, l => blanksOf l.blanks l.tab ++ [c, d]
  | .nl, l => blanksOf l.blanks l.tab ++ commentText l.comment ++ ['\n'] ++ emptyLinesText l.emptyLines

def render : List (Tok × Lay) → Str
  | [] => []
  | (t, l) :: r => renderTok t l ++ render r

def noNl (s : Str) : Prop := '\n' ∉ s

/-- a token with a layout that writes it -/
def TokOk : Tok × Lay → Prop
  | (.word w, l) => w ≠ [] ∧ isRawKw w = false ∧ l.spelling.map lowerCh = w ∧ (∀ c ∈ l.spelling, isWordCh c = true)
  | (.raw kw text, l) => isRawKw kw = true ∧ l.spelling.map lowerCh = kw ∧ (∀ c ∈ l.spelling, isWordCh c = true) ∧ noNl text ∧
      (match text with | [] => True | c :: _ => isWordCh c = false)
  | (.str s, _) => '"' ∉ s ∧ noNl s
  | (.sym c, _) => isWordCh c = false ∧ isBlank c = false ∧ c ≠ '\n' ∧ c ≠ '\'' ∧ c ≠ '"'
  | (.sym2 c d, _) => isOp2 c d = true
  | (.nl, l) => (∀ t, l.comment = some t → noNl t) ∧ ∀ p ∈ l.emptyLines, ∀ t, p.2 = some t → noNl t

/-- a raw token (DATA / REM) runs to the end of its line -/
def RawThenNl : List (Tok × Lay) → Prop
  | [] => True
  | [(_, _)] => True
  | (.raw _ _, _) :: (t2, l2) :: r => t2 = .nl ∧ l2.blanks = 0 ∧ l2.comment = none ∧ RawThenNl ((t2, l2) :: r)
  | _ :: p :: r => RawThenNl (p :: r)

/-- the first character a token is written with when no blank precedes it -/
def firstCh : Tok × Lay → Option Char
  | (.sym c, l) => if l.blanks = 0 then some c else none
  | (.sym2 c _, l) => if l.blanks = 0 then some c else none
  | _ => none

/-- two symbol characters that would read as one comparison operator are kept apart by a blank
    (`a < > b` is not `a <> b`) -/
def NoGlue : List (Tok × Lay) → Prop
  | [] => True
  | [_] => True
  | (.sym c, l) :: q :: r => (∀ d, firstCh q = some d → isOp2 c d = false) ∧ NoGlue (q :: r)
  | _ :: q :: r => NoGlue (q :: r)

/-- a numeral with a signed exponent (`1e-5`, `2.2d+3`) is ONE token of the real grammar; this model reads a word, a sign and
    a word.  Streams containing one are outside the scope of the round-trip theorem (the hypothesis is not needed by the
    proof; it states where the model's tokens are coarser than the grammar's) -/
def expMantissa (w : Str) : Bool :=
  match w.reverse with
  | e :: m => (e = 'e' || e = 'd') && !m.isEmpty && m.all (fun c => c.isDigit || c = '.')
  | [] => false

def NoSignedExponent : List (Tok × Lay) → Prop
  | [] => True
  | [_] => True
  | (.word w, _) :: (.sym c, l) :: r => ¬ (expMantissa w = true ∧ (c = '+' ∨ c = '-')) ∧ NoSignedExponent ((.sym c, l) :: r)
  | _ :: q :: r => NoSignedExponent (q :: r)

/-- canonical streams have no empty lines: no leading end-of-line, no two in a row -/
def NoEmptyLine : Bool → List (Tok × Lay) → Prop
  | _, [] => True
  | a, (.nl, _) :: r => a = false ∧ NoEmptyLine true r
  | _, (_, _) :: r => NoEmptyLine false r

end Qbee.Lex
