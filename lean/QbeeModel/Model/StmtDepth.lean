/-
  M5 (operand stack across handled errors): how the machine finds and drops the partial results of a statement that fails
  (qvm/cpu.py: CallFrame.stack_base and gosub_marks, the mark taken by _exec_call, _drop_partial_results, the unwinding in
  _trap; as repaired).  At the start of a statement the operand stack of a routine holds its return address and the
  return addresses of the active GOSUBs, nothing else; the machine marks the GOSUB addresses, and a handled error cuts the
  stack back to the innermost of them.  No debug information is involved (a first repair noted the depth at statement
  starts, which only a module with debug info can do: programs that never resume then behaved differently with -g).

  What an instruction does to the stack is a parameter (how many entries it pops and pushes): the model is the bookkeeping
  only, and the theorems hold for every program and every instruction semantics.  The code validates a mark lazily (the
  marked cell must still be at its index); the model drops a mark the moment its cell is popped - the same thing, observed
  from outside.
-/
namespace Qbee.StmtDepth

structure Frame where
  base : Nat                  -- stack_base: the return address of the routine sits at this index
  marks : List Nat            -- indices of the return addresses of the active GOSUBs of this frame, innermost first
  deriving Repr, DecidableEq

structure St where
  depth : Nat                 -- len(cpu.stack)
  frames : List Frame         -- innermost first; the last one is the module-level frame
  deriving Repr, DecidableEq

inductive Ev where
  | instr (pops pushes : Nat)  -- an ordinary instruction (RETURN is `instr 1 0`: it pops the address it jumps to)
  | gosub                      -- a call that does not land on a FRAME instruction: pushes the return address and marks it
  | enter (pops : Nat)         -- FRAME: takes the return address and the arguments (`pops` entries), pushes the address back
  | leave (pops pushes : Nat)  -- ret / retv: the frame is destroyed
  | handledNext                -- a trap handled in place (ON ERROR RESUME NEXT): the current frame stays
  | handledGoto                -- a trap sent to the module-level handler (ON ERROR GOTO): the procedures are left
  deriving Repr, DecidableEq

/-- a mark lives as long as its cell is on the stack -/
def prune (d : Nat) (ms : List Nat) : List Nat := ms.filter (· < d)

def Frame.pruned (f : Frame) (d : Nat) : Frame := { f with marks := prune d f.marks }

/-- the depth of the stack at the start of a statement of this frame -/
def stmtDepth (f : Frame) : Nat :=
  match f.marks with
  | i :: _ => i + 1
  | [] => f.base + 1

def pruneHead (d : Nat) : List Frame → List Frame
  | f :: rest => f.pruned d :: rest
  | [] => []

/-- leave every frame but the module-level one, cutting the stack back to each frame's base on the way -/
def unwind : Nat → List Frame → Nat × List Frame
  | depth, [] => (depth, [])
  | depth, [f] => (depth, [f])
  | depth, f :: g :: rest => unwind (min depth f.base) (g :: rest)

def step (s : St) : Ev → St
  | .instr p q => { depth := s.depth - p + q, frames := pruneHead (s.depth - p) s.frames }
  | .gosub =>
    match s.frames with
    | f :: rest => { depth := s.depth + 1, frames := { f with marks := s.depth :: f.marks } :: rest }
    | [] => { s with depth := s.depth + 1 }      -- the call at the start of the module: no frame yet
  | .enter p => { depth := s.depth - p + 1, frames := { base := s.depth - p, marks := [] } :: pruneHead (s.depth - p) s.frames }
  | .leave p q => { depth := s.depth - p + q, frames := pruneHead (s.depth - p) s.frames.tail }
  | .handledNext =>
    match s.frames with
    | f :: rest => { depth := min s.depth (stmtDepth f), frames := f :: rest }
    | [] => s
  | .handledGoto =>
    let (d, fs) := unwind s.depth s.frames
    match fs with
    | f :: rest => { depth := min d (stmtDepth (f.pruned d)), frames := f.pruned d :: rest }
    | [] => { depth := d, frames := [] }

def run (s : St) (evs : List Ev) : St := evs.foldl step s

/-- before the repair nothing was dropped: the handler, the resumed statement and every later statement ran on top of the
    partial results -/
def stepOld (s : St) : Ev → St
  | .handledNext => s
  | .handledGoto => { depth := (unwind s.depth s.frames).1, frames := (unwind s.depth s.frames).2 }
  | e => step s e

/-- the marks of a frame in which `n` GOSUBs are active and nothing else lies between their return addresses -/
def consec (base : Nat) : Nat → List Nat
  | 0 => []
  | n + 1 => (base + n + 1) :: consec base n

/-- a frame at a statement boundary: the return addresses of its `n` active GOSUBs lie directly on the routine's own -/
def AtBoundary (s : St) (f : Frame) (n : Nat) : Prop := f.marks = consec f.base n ∧ s.depth = stmtDepth f

/-- the instructions of (a piece of) a statement as (pops, pushes): none of them reaches below level `L` -/
def staysAbove (L : Nat) : Nat → List (Nat × Nat) → Bool
  | _, [] => true
  | d, (p, q) :: r => decide (L + p ≤ d) && staysAbove L (d - p + q) r

end Qbee.StmtDepth
