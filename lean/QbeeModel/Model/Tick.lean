import QbeeModel.Gen.Codes
/-
  M5 (control skeleton): QvmCpu.tick, _trap, errhand / errres / errresn, the interrupt check, halting.
  The effect of an ordinary instruction is a parameter (`IK.plain next` / `IK.traps code` / `IK.host cls`):
  every theorem holds for every program and every instruction semantics.  (As repaired: a division by zero records
  trapped_addr; RESUME / RESUME NEXT clear error_handler_active.)
-/
namespace Qbee.Tick

/-- trap_target: None | 'next' | address -/
inductive Target where
  | off
  | next
  | addr (a : Nat)
  deriving Repr, DecidableEq

inductive Halt where
  | none | instruction | trap | endOfCode
  deriving Repr, DecidableEq

structure St where
  pc : Nat
  prevPc : Nat             -- address of the last instruction fetched
  halted : Bool
  reason : Halt
  target : Target
  active : Bool            -- error_handler_active
  trappedAddr : Nat
  lastTrap : Option Nat    -- TrapCode value
  interrupt : Bool         -- received_keyboard_interrupt
  deriving Repr, DecidableEq

/-- what the instruction at pc does when executed -/
inductive IK where
  | plain (next : Nat)             -- completes; pc := next (fall-through or a jump/call/return target)
  | traps (code : Nat) (size : Nat) -- raises Trapped(code) (or ZeroDivisionError: code 14)
  | host (cls : String) (size : Nat) -- raises anything else
  | halt
  | errhand (t : Nat) (size : Nat)
  | errres (size : Nat)
  | errresn (size : Nat)
  | invalidOp                      -- undefined opcode
  deriving Repr, DecidableEq

inductive Out where
  | st (s : St)
  | host (cls : String) (s : St)   -- an exception escapes tick(); s = the state at that moment
  deriving Repr, DecidableEq

def KEYBOARD_INTERRUPT : Nat := 13
def ERRHAND_IN_HANDLER : Nat := 17
def CANNOT_RESUME : Nat := 18
def INVALID_OP_CODE : Nat := 1

/-- RESUME NEXT machinery used both by the instruction and by `_trap` with target 'next':
    `stmt` = find_stmt(trapped_addr) as (start, end); none = no statement / no debug info -/
def resumeNext (s : St) (stmt : Option (Nat × Nat)) : Option St :=
  match stmt with
  | some (_, e) => some { s with active := false, pc := e }
  | none => none                    -- Trapped(CANNOT_RESUME) is raised

/-- `_trap(code)`.  `unwind` = the address inside the module-level statement whose CALL (directly or through further calls)
    led into the procedure that is executing, `none` at module level: entering a module-level handler leaves the procedures
    (as repaired: the handler ran on the procedure's frame), and the error then counts as one of that statement -/
def trapDispatch (s : St) (code : Nat) (stmt : Option (Nat × Nat)) (unwind : Option Nat := none) : Out :=
  let s := { s with lastTrap := some code }
  if !s.active && s.target != .off then
    match s.target with
    | .next =>
      match resumeNext s stmt with
      | some s' => .st s'
      | none => .st { s with lastTrap := some CANNOT_RESUME, trappedAddr := s.prevPc, halted := true, reason := .trap }   -- reported as fatal (as repaired)
    | .addr a => .st { s with pc := a, active := true, trappedAddr := unwind.getD s.trappedAddr }
    | .off => .st s
  else .st { s with halted := true, reason := .trap }

def endCheck (codeLen : Nat) (o : Out) : Out :=
  match o with
  | .st s => if !s.halted && s.pc ≥ codeLen then .st { s with halted := true, reason := .endOfCode } else .st s
  | o => o

/-- one tick.  `stmt` = find_stmt(address of this instruction) if it traps, or find_stmt(trapped_addr) for
    errres / errresn (the caller supplies the one that applies) -/
def tick (codeLen : Nat) (s : St) (ik : IK) (stmt : Option (Nat × Nat)) (unwind : Option Nat := none) : Out :=
  if s.interrupt then
    trapDispatch { s with interrupt := false } KEYBOARD_INTERRUPT stmt unwind      -- returns before fetching anything
  else
    let s := { s with prevPc := s.pc }
    match ik with
    | .invalidOp =>
      -- get_instruction_at calls _trap directly; pc += 1; no end-of-code check (tick returns)
      match trapDispatch s INVALID_OP_CODE stmt unwind with
      | .st s' => .st { s' with pc := s'.pc + 1 }
      | o => o
    | .plain next => endCheck codeLen (.st { s with pc := next })
    | .halt => endCheck codeLen (.st { s with pc := s.pc + 1, halted := true, reason := .instruction })
    | .host cls size => .host cls { s with pc := s.pc + size }
    | .traps code size =>
      -- pc was advanced past the instruction before it trapped; trapped_addr = prev_pc
      endCheck codeLen (trapDispatch { s with pc := s.pc + size, trappedAddr := s.pc } code stmt unwind)
    | .errhand t size =>
      let s1 := { s with pc := s.pc + size }
      if t = 0 && s.active then
        -- re-raises the last error
        endCheck codeLen (trapDispatch { s1 with trappedAddr := s.pc } (s.lastTrap.getD 0) stmt unwind)
      else if s.active then
        endCheck codeLen (trapDispatch { s1 with trappedAddr := s.pc } ERRHAND_IN_HANDLER stmt unwind)
      else
        endCheck codeLen (.st { s1 with target := if t = 0 then .off else if t = 1 then .next else .addr t })
    | .errres size =>
      match stmt with
      | some (st0, _) => endCheck codeLen (.st { s with active := false, pc := st0 })
      | none => endCheck codeLen (trapDispatch { s with pc := s.pc + size, trappedAddr := s.pc } CANNOT_RESUME none unwind)
    | .errresn size =>
      match stmt with
      | some (_, e) => endCheck codeLen (.st { s with active := false, pc := e })
      | none => endCheck codeLen (trapDispatch { s with pc := s.pc + size, trappedAddr := s.pc } CANNOT_RESUME none unwind)

end Qbee.Tick
