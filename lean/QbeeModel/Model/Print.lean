import QbeeModel.Model.Util
/-
  M7 (part): the PRINT argument protocol (`gen_print_stmt` ↔ the decoding loop
  of `TerminalDevice._exec_print`) and the plain PRINT layout
  (qvm/machine.py 258-329, the branch without a format string).

  Number text is produced by `qvm.utils.format_number`; it is modelled in
  `NumFmt.lean` for INTEGER/LONG and supplied as data for SINGLE/DOUBLE
  (CPython `repr` is an external contract), so an item here carries its text.
-/
namespace Qbee.Print

/-- what PRINT sees after decoding its arguments -/
inductive Item where
  | num (txt : Str)      -- numeric cell; txt = format_number(value, type)
  | str (s : Str)        -- string cell
  | semi
  | comma
  deriving Repr, DecidableEq

def Item.isSep : Item → Bool
  | .semi | .comma => true
  | _ => false

/-- `n = 14 - (len(buf) % 14); buf += n * ' '` -/
def padZone (buf : Str) : Str := buf ++ blanks (14 - buf.length % 14)

/-- one iteration of `for arg in printables` -/
def emit (buf : Str) : Item → Str
  | .semi    => buf
  | .comma   => padZone buf
  | .num t   => buf ++ t ++ [' ']
  | .str s   => buf ++ s

def body (items : List Item) : Str := items.foldl emit []

/-- `len(printables) == 0 or printables[-1] not in [comma, semicolon]` -/
def wantsNewline (items : List Item) : Bool :=
  match items.getLast? with
  | none => true
  | some it => !it.isSep

def crlf : Str := ['\r', '\n']

/-- the text handed to `terminal_print` by a PRINT without USING -/
def layout (items : List Item) : Str :=
  body items ++ (if wantsNewline items then crlf else [])

/-! ### argument protocol -/

/-- a cell on the operand stack, as far as PRINT is concerned -/
inductive Arg where
  | int (n : Int)        -- INTEGER cell (tags and the count)
  | val (it : Item)      -- a value cell: `.num` or `.str` only
  deriving Repr, DecidableEq

/-- what `gen_print_stmt` pushes for the items (without the final count),
    in push order -/
def encodeItems : List Item → List Arg
  | [] => []
  | .semi :: r  => .int 1 :: encodeItems r
  | .comma :: r => .int 2 :: encodeItems r
  | it :: r     => .int 0 :: .val it :: encodeItems r

/-- number of cells `gen_print_stmt` counts in `nargs` -/
def nargs : List Item → Nat
  | [] => 0
  | .semi :: r | .comma :: r => 1 + nargs r
  | _ :: r => 2 + nargs r

/-- the `while i < len(args)` loop of `_exec_print` (without USING): `none`
    models the device error for an unknown tag / a host exception for a
    truncated pair. A value cell in tag position compares unequal to 0/1/2/3
    (strings) or is compared as a number: we reject value cells in tag position. -/
def decodeArgs : List Arg → Option (List Item)
  | [] => some []
  | .int 0 :: .val it :: r => (decodeArgs r).map (it :: ·)
  | .int 1 :: r => (decodeArgs r).map (.semi :: ·)
  | .int 2 :: r => (decodeArgs r).map (.comma :: ·)
  | _ => none

end Qbee.Print
