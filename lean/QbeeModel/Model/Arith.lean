import QbeeModel.Model.Util
import QbeeModel.Gen.ExprTables
/-
  M1/M5 (part): typed cells and the arithmetic / logic / comparison / conversion instructions of the
  machine (qvm/cell.py CellValue.__init__, Type.can_hold / coerce; qvm/cpu.py _exec_add … _exec_not,
  the conv family, cint/clng/int/abs/sign).

  INTEGER and LONG are exact (`Int` with the Python operators: `//` and `%` floor).  SINGLE and DOUBLE
  values live in an abstract carrier `F` with an operations record `FOps F`; every theorem is proved for
  all `F` and all `FOps F` with no laws assumed; execution instantiates `F := Float` (FloatInst.lean).
-/
namespace Qbee.Arith
open Qbee.Gen

/-- the float operations the machine uses -/
structure FOps (F : Type) where
  add : F → F → F
  sub : F → F → F
  mul : F → F → F
  div : F → F → F            -- Python `/` on floats, divisor non-zero
  neg : F → F
  abs : F → F
  ofInt : Int → F            -- float(int)
  isZero : F → Bool
  lt : F → F → Bool
  eq : F → F → Bool
  /-- struct.pack('>f') round trip: none = OverflowError (finite value outside SINGLE) -/
  toSingle : F → Option F
  /-- int(round(x)): round half to even; none = inf / nan (OverflowError / ValueError) -/
  roundEven : F → Option Int
  /-- math.floor; none = inf / nan -/
  floor : F → Option Int
  /-- math.isfinite -/
  isFinite : F → Bool

/-- a Python number as the machine manipulates it before boxing -/
inductive Raw (F : Type) where
  | int (n : Int)
  | flt (x : F)

/-- a typed cell -/
inductive Cell (F : Type) where
  | int (t : Ty) (n : Int)     -- t ∈ {i, l}
  | flt (t : Ty) (x : F)       -- t ∈ {s, d}
  | str (s : Str)

def Cell.ty {F} : Cell F → Ty
  | .int t _ => t
  | .flt t _ => t
  | .str _ => .str

inductive Res (α : Type) where
  | ok (a : α)
  | trap (code : String)       -- Trapped / ZeroDivisionError
  | host (cls : String)        -- any other Python exception
  deriving Repr

def inRange (t : Ty) (n : Int) : Bool :=
  match t with
  | .i => -32768 ≤ n && n ≤ 32767
  | .l => -2147483648 ≤ n && n ≤ 2147483647
  | _ => true

/-- CellValue.__init__: `can_hold` then `coerce` -/
def mk {F} (ops : FOps F) (t : Ty) (r : Raw F) : Res (Cell F) :=
  match t, r with
  | .str, _ => .host "TypeError"
  | .i, .int n => if inRange .i n then .ok (.int .i n) else .trap "INVALID_CELL_VALUE"
  | .l, .int n => if inRange .l n then .ok (.int .l n) else .trap "INVALID_CELL_VALUE"
  | .i, .flt x =>
    -- can_hold compares the float with the bounds, coerce rounds it
    match ops.roundEven x with
    | none => .trap "INVALID_CELL_VALUE"      -- inf/nan fail the range comparison
    | some n =>
      if ops.lt x (ops.ofInt (-32768)) || ops.lt (ops.ofInt 32767) x then .trap "INVALID_CELL_VALUE"
      else .ok (.int .i n)
  | .l, .flt x =>
    match ops.roundEven x with
    | none => .trap "INVALID_CELL_VALUE"
    | some n =>
      if ops.lt x (ops.ofInt (-2147483648)) || !(ops.lt x (ops.ofInt 2147483648)) then .trap "INVALID_CELL_VALUE"
      else .ok (.int .l n)
  | .s, .int n =>
    match ops.toSingle (ops.ofInt n) with
    | some y => .ok (.flt .s y)
    | none => .trap "INVALID_CELL_VALUE"
  | .s, .flt x =>
    -- as repaired: an infinity or a NaN is the result of an overflow and no cell holds it
    if !ops.isFinite x then .trap "INVALID_CELL_VALUE" else
    match ops.toSingle x with
    | some y => .ok (.flt .s y)
    | none => .trap "INVALID_CELL_VALUE"
  | .d, .int n => .ok (.flt .d (ops.ofInt n))
  | .d, .flt x => if ops.isFinite x then .ok (.flt .d x) else .trap "INVALID_CELL_VALUE"

/-- before the repair: a DOUBLE cell took any float (1D308 * 10 printed `inf`) -/
def mkDoubleOld {F} (x : F) : Res (Cell F) := .ok (.flt .d x)

/-! ### integer division -/

/-- `\` as repaired: `abs(a) // abs(b)`, negated when the signs differ: the quotient truncated toward zero -/
def qbIDiv (a b : Int) : Int :=
  let q : Int := ((a.natAbs / b.natAbs : Nat) : Int)
  if decide (a < 0) != decide (b < 0) then -q else q

/-- MOD as repaired: `abs(a) % abs(b)` with the sign of the dividend -/
def qbMod (a b : Int) : Int :=
  let r : Int := ((a.natAbs % b.natAbs : Nat) : Int)
  if a < 0 then -r else r

/-- before the repair: Python's floored `//` and `%` -/
def pyFloorDiv (a b : Int) : Int := Int.fdiv a b
def pyMod (a b : Int) : Int := Int.fmod a b

def natAndNot (m n : Nat) : Nat := m - (m &&& n)

/-- Python `&` on unbounded two's-complement integers -/
def iand : Int → Int → Int
  | .ofNat m, .ofNat n => .ofNat (m &&& n)
  | .ofNat m, .negSucc n => .ofNat (natAndNot m n)
  | .negSucc m, .ofNat n => .ofNat (natAndNot n m)
  | .negSucc m, .negSucc n => .negSucc (m ||| n)

def ior : Int → Int → Int
  | .ofNat m, .ofNat n => .ofNat (m ||| n)
  | .ofNat m, .negSucc n => .negSucc (natAndNot n m)
  | .negSucc m, .ofNat n => .negSucc (natAndNot m n)
  | .negSucc m, .negSucc n => .negSucc (m &&& n)

def ixor : Int → Int → Int
  | .ofNat m, .ofNat n => .ofNat (m ^^^ n)
  | .ofNat m, .negSucc n => .negSucc (m ^^^ n)
  | .negSucc m, .ofNat n => .negSucc (m ^^^ n)
  | .negSucc m, .negSucc n => .ofNat (m ^^^ n)

def inot (a : Int) : Int := -a - 1

def ipow (a : Int) : Nat → Int
  | 0 => 1
  | n + 1 => a * ipow a n

/-- `round(x ** y)` for integers x ≠ 0, y < 0 (round half to even): 1/x^|y| is at most 1/2 in
    magnitude unless |x| = 1 -/
def negPowRound (x y : Int) : Int :=
  if x = 1 then 1 else if x = -1 then (if y % 2 = 0 then 1 else -1) else 0

/-! ### the instructions -/

inductive BinOp where
  | add | sub | mul | div | idiv | mod | exp | and | or | xor | eqv | imp | cmp
  deriving Repr, DecidableEq

inductive UnOp where
  | neg | not | eq | ne | lt | gt | le | ge | abs | sign | cint | clng | int
  deriving Repr, DecidableEq

def isIntTy (t : Ty) : Bool := decide (t = .i) || decide (t = .l)
def isNumTy (t : Ty) : Bool := decide (t ≠ .str)

/-- lexicographic comparison of strings by code point: -1, 0, 1 -/
def strCmp : Str → Str → Int
  | [], [] => 0
  | [], _ :: _ => -1
  | _ :: _, [] => 1
  | a :: r, b :: s => if a.toNat < b.toNat then -1 else if a.toNat > b.toNat then 1 else strCmp r s

/-- a binary instruction on two cells (a pushed first, b on top).  The dynamic type checks come
    first (TYPE_MISMATCH), exactly as in `_exec_*`. -/
def binop {F} (ops : FOps F) (op : BinOp) (a b : Cell F) : Res (Cell F) :=
  match op with
  | .cmp =>
    -- (as repaired: the trap was built with a positional argument too many: TypeError)
    if decide (a.ty ≠ b.ty) then .trap "TYPE_MISMATCH" else
    match a, b with
    | .int _ x, .int _ y => .ok (.int .i (if x = y then 0 else if x < y then -1 else 1))
    | .flt _ x, .flt _ y => .ok (.int .i (if ops.eq x y then 0 else if ops.lt x y then -1 else 1))
    | .str x, .str y => .ok (.int .i (strCmp x y))
    | _, _ => .trap "TYPE_MISMATCH"
  | .add =>
    if decide (a.ty ≠ b.ty) then .trap "TYPE_MISMATCH" else
    match a, b with
    | .int t x, .int _ y => mk ops t (.int (x + y))
    | .flt t x, .flt _ y => mk ops t (.flt (ops.add x y))
    | .str x, .str y => .ok (.str (x ++ y))
    | _, _ => .trap "TYPE_MISMATCH"
  | .sub | .mul =>
    if !isNumTy a.ty || !isNumTy b.ty || decide (a.ty ≠ b.ty) then .trap "TYPE_MISMATCH" else
    match a, b with
    | .int t x, .int _ y => mk ops t (.int (if op = .sub then x - y else x * y))
    | .flt t x, .flt _ y => mk ops t (.flt (if op = .sub then ops.sub x y else ops.mul x y))
    | _, _ => .trap "TYPE_MISMATCH"
  | .div =>
    if !isNumTy a.ty || !isNumTy b.ty || decide (a.ty ≠ b.ty) then .trap "TYPE_MISMATCH" else
    match a, b with
    | .int _ x, .int _ y =>
      if y = 0 then .trap "DIVISION_BY_ZERO" else mk ops .s (.flt (ops.div (ops.ofInt x) (ops.ofInt y)))
    | .flt t x, .flt _ y =>
      if ops.isZero y then .trap "DIVISION_BY_ZERO" else mk ops t (.flt (ops.div x y))
    | _, _ => .trap "TYPE_MISMATCH"
  | .idiv | .mod =>
    if !isIntTy a.ty || (op = .idiv && !isIntTy b.ty) || decide (a.ty ≠ b.ty) then .trap "TYPE_MISMATCH" else
    match a, b with
    | .int t x, .int _ y =>
      if y = 0 then .trap "DIVISION_BY_ZERO"
      else mk ops t (.int (if op = .idiv then qbIDiv x y else qbMod x y))
    | _, _ => .trap "TYPE_MISMATCH"
  | .and | .or | .xor | .eqv | .imp =>
    if !isIntTy a.ty || !isIntTy b.ty || decide (a.ty ≠ b.ty) then .trap "TYPE_MISMATCH" else
    match a, b with
    | .int t x, .int _ y =>
      mk ops t (.int (match op with
        | .and => iand x y | .or => ior x y | .xor => ixor x y
        | .eqv => inot (ixor x y) | _ => ior (inot x) y))
    | _, _ => .trap "TYPE_MISMATCH"
  | .exp =>
    if !isNumTy a.ty || !isNumTy b.ty || decide (a.ty ≠ b.ty) then .trap "TYPE_MISMATCH" else
    match a, b with
    | .int t x, .int _ y =>
      if 0 ≤ y then mk ops t (.int (ipow x y.toNat))
      else if x = 0 then .trap "DIVISION_BY_ZERO"
      else mk ops t (.int (negPowRound x y))   -- Python float power, rounded when stored in the integral cell
    | _, _ => .host "external-pow"      -- float ** float: C pow, OverflowError, complex results (not modelled)

def unop {F} (ops : FOps F) (op : UnOp) (a : Cell F) : Res (Cell F) :=
  match op, a with
  | .neg, .int t x => mk ops t (.int (-x))
  | .neg, .flt t x => mk ops t (.flt (ops.neg x))
  | .abs, .int t x => mk ops t (.int x.natAbs)
  | .abs, .flt t x => mk ops t (.flt (ops.abs x))
  | .sign, .int t x => mk ops t (.int (if x > 0 then 1 else if x < 0 then -1 else 0))
  | .sign, .flt t x =>
    mk ops t (.int (if ops.lt (ops.ofInt 0) x then 1 else if ops.lt x (ops.ofInt 0) then -1 else 0))
  | .not, .int t x => mk ops t (.int (inot x))
  | .not, _ => .trap "TYPE_MISMATCH"
  | .eq, .int .i x => .ok (.int .i (if x = 0 then -1 else 0))
  | .ne, .int .i x => .ok (.int .i (if x = 0 then 0 else -1))
  | .eq, _ => .trap "TYPE_MISMATCH"
  | .ne, _ => .trap "TYPE_MISMATCH"
  | .lt, .int _ x => .ok (.int .i (if x < 0 then -1 else 0))
  | .gt, .int _ x => .ok (.int .i (if x > 0 then -1 else 0))
  | .le, .int _ x => .ok (.int .i (if x ≤ 0 then -1 else 0))
  | .ge, .int _ x => .ok (.int .i (if x ≥ 0 then -1 else 0))
  | .lt, .flt _ x => .ok (.int .i (if ops.lt x (ops.ofInt 0) then -1 else 0))
  | .gt, .flt _ x => .ok (.int .i (if ops.lt (ops.ofInt 0) x then -1 else 0))
  | .le, .flt _ x => .ok (.int .i (if ops.lt x (ops.ofInt 0) || ops.eq x (ops.ofInt 0) then -1 else 0))
  | .ge, .flt _ x => .ok (.int .i (if ops.lt (ops.ofInt 0) x || ops.eq x (ops.ofInt 0) then -1 else 0))
  | .cint, .int _ x => mk ops .i (.int x)
  | .clng, .int _ x => mk ops .l (.int x)
  | .cint, .flt _ x => (match ops.roundEven x with | some n => mk ops .i (.int n) | none => .trap "INVALID_CELL_VALUE")
  | .clng, .flt _ x => (match ops.roundEven x with | some n => mk ops .l (.int n) | none => .trap "INVALID_CELL_VALUE")
  | .int, .int _ x => mk ops .l (.int x)
  | .int, .flt _ x => (match ops.floor x with | some n => mk ops .l (.int n) | none => .trap "INVALID_CELL_VALUE")
  -- (as repaired: lt/gt/le/ge and sign named an undefined variable while building this trap: NameError)
  | _, .str _ => .trap "TYPE_MISMATCH"

/-- conv<src><dst>: pops a cell of type src (TYPE_MISMATCH otherwise), pushes dst -/
def conv {F} (ops : FOps F) (src dst : Ty) (a : Cell F) : Res (Cell F) :=
  if decide (a.ty ≠ src) then .trap "TYPE_MISMATCH" else
  match a with
  | .int _ x => if isIntTy dst then mk ops dst (.int x) else mk ops dst (.flt (ops.ofInt x))
  | .flt _ x =>
    if isIntTy dst then
      match ops.roundEven x with
      | some n => mk ops dst (.int n)
      | none => .trap "INVALID_CELL_VALUE"
    else mk ops dst (.flt x)
  | .str _ => .trap "TYPE_MISMATCH"

end Qbee.Arith
