/-
  M14: a reference semantics of structured QBASIC statements over INTEGER variables (the language definition, written
  independently of the compiler): assignment, PRINT, block IF, WHILE, DO ... LOOP with WHILE / UNTIL at either end,
  FOR ... NEXT with STEP, EXIT DO / EXIT FOR (innermost enclosing loop of that kind), SELECT CASE, END, and procedures:
  CALL of a SUB with INTEGER parameters (a variable is passed by reference, any other expression by value), fresh locals per
  activation, recursion, EXIT SUB; module-level INTEGER arrays with arbitrary bounds (a subscript outside them is an error).
  Parameter passing is specified as copy-in / copy-out; for calls in which no variable is passed by reference twice (`NoAlias`,
  the calls the correspondence generates) this is what references mean.  The machine's actual binding of references and
  temporaries is Model/Layout.lean (`bindParams`).
  Conditions: zero is false, anything else true.  INTEGER arithmetic traps on overflow and on division by zero; `\\` truncates
  toward zero and MOD has the sign of the dividend.
  `fuel` bounds the number of loop iterations and statement steps; `none` = out of fuel (no claim).
-/
namespace Qbee.Src

inductive BOp where
  | add | sub | mul | idiv | mod | eq | ne | lt | gt | le | ge | and | or | xor
  deriving Repr, DecidableEq

inductive Expr where
  | lit (n : Int)
  | var (i : Nat)
  | bin (op : BOp) (a b : Expr)
  | neg (a : Expr)
  | not (a : Expr)
  | idx (base : Nat) (lo hi : Int) (i : Expr)   -- element i of an INTEGER array DIMed (lo TO hi), stored from cell `base` on
  deriving Repr

inductive Clause where
  | eq (e : Expr)
  | range (lo hi : Expr)
  | isLt (e : Expr) | isGt (e : Expr)
  deriving Repr

/-- an argument of a CALL -/
inductive Arg where
  | ref (v : Nat)        -- a variable: the parameter names the caller's variable
  | val (e : Expr)       -- any other expression (a parenthesised variable too): the parameter is a copy
  deriving Repr

inductive Stmt where
  | assign (v : Nat) (e : Expr)
  | print (e : Expr)
  | ifElse (c : Expr) (t e : List Stmt)
  | while (c : Expr) (body : List Stmt)
  | doLoop (preKind : Nat) (pre : Expr) (postKind : Nat) (post : Expr) (body : List Stmt)   -- kind: 0 none, 1 WHILE, 2 UNTIL
  | for (v : Nat) (a b s : Expr) (body : List Stmt)
  | select (e : Expr) (cases : List (List Clause × List Stmt)) (dflt : List Stmt)
  | exitDo | exitFor | end_
  | call (p : Nat) (args : List Arg)
  | exitSub
  | assignIdx (base : Nat) (lo hi : Int) (i e : Expr)   -- a(i) = e
  deriving Repr

/-- SUB p (parameters are variables 0 .. nparams-1 of its frame, locals follow) -/
structure Proc where
  nparams : Nat
  nlocals : Nat
  body : List Stmt
  deriving Repr

inductive Sig where
  | normal | exitDo | exitFor | ended | trap (code : String) | exitSub
  deriving Repr, DecidableEq

abbrev Env := List Int

def getVar (env : Env) (i : Nat) : Int := env.getD i 0
def setVar (env : Env) (i : Nat) (v : Int) : Env := if i < env.length then env.set i v else env

def inInt (n : Int) : Bool := decide (-32768 ≤ n) && decide (n ≤ 32767)

def natBits (n : Int) : Nat := (n % 65536).toNat          -- 16-bit two's complement pattern
def ofBits (b : Nat) : Int := if b ≥ 32768 then (b : Int) - 65536 else b

def evalB (op : BOp) (x y : Int) : Except String Int :=
  let chk (v : Int) : Except String Int := if inInt v then .ok v else .error "INVALID_CELL_VALUE"
  match op with
  | .add => chk (x + y)
  | .sub => chk (x - y)
  | .mul => chk (x * y)
  | .idiv => if y = 0 then .error "DIVISION_BY_ZERO" else chk (Int.tdiv x y)     -- the language: truncated toward zero
  | .mod => if y = 0 then .error "DIVISION_BY_ZERO" else chk (Int.tmod x y)      -- the sign of the dividend
  | .eq => .ok (if x = y then -1 else 0)
  | .ne => .ok (if x = y then 0 else -1)
  | .lt => .ok (if x < y then -1 else 0)
  | .gt => .ok (if x > y then -1 else 0)
  | .le => .ok (if x ≤ y then -1 else 0)
  | .ge => .ok (if x ≥ y then -1 else 0)
  | .and => .ok (ofBits (natBits x &&& natBits y))
  | .or => .ok (ofBits (natBits x ||| natBits y))
  | .xor => .ok (ofBits (natBits x ^^^ natBits y))

/-- the cell of element `k` of an array DIMed (lo TO hi) that is stored from cell `base` on: a subscript outside the bounds is
    a run-time error; module-level arrays are not visible inside a procedure (its frame has no such cells) -/
def elemCell (env : Env) (base : Nat) (lo hi k : Int) : Except String Nat :=
  if k < lo ∨ k > hi then .error "INDEX_OUT_OF_RANGE"
  else if base + (k - lo).toNat < env.length then .ok (base + (k - lo).toNat)
  else .error "NO_SUCH_ARRAY"

def eval (env : Env) : Expr → Except String Int
  | .lit n => .ok n
  | .var i => .ok (getVar env i)
  | .bin op a b => do let x ← eval env a; let y ← eval env b; evalB op x y
  | .neg a => do let x ← eval env a; if inInt (-x) then .ok (-x) else .error "INVALID_CELL_VALUE"
  | .not a => do let x ← eval env a; .ok (-x - 1)
  | .idx base lo hi i =>
      match eval env i with
      | .error e => .error e
      | .ok k =>
        match elemCell env base lo hi k with
        | .ok c => .ok (getVar env c)
        | .error e => .error e

structure Res where
  env : Env
  out : List Int
  sig : Sig
  deriving Repr

def clauseHit (env : Env) (v : Int) : Clause → Except String Bool
  | .eq e => do let x ← eval env e; pure (decide (v = x))
  | .range lo hi => do let a ← eval env lo; let b ← eval env hi; pure (decide (a ≤ v) && decide (v ≤ b))
  | .isLt e => do let x ← eval env e; pure (decide (v < x))
  | .isGt e => do let x ← eval env e; pure (decide (v > x))

def anyHit (env : Env) (v : Int) : List Clause → Except String Bool
  | [] => .ok false
  | c :: r => do let h ← clauseHit env v c; if h then pure true else anyHit env v r

/-- argument values, left to right (a by-value argument may fail) -/
def evalArgs (env : Env) : List Arg → Except String (List Int)
  | [] => .ok []
  | .ref v :: r => do let vs ← evalArgs env r; pure (getVar env v :: vs)
  | .val e :: r => do let x ← eval env e; let vs ← evalArgs env r; pure (x :: vs)

/-- what the callee left in its parameters goes back to the variables that were passed by reference -/
def copyOut (env : Env) : List Arg → Env → Nat → Env
  | [], _, _ => env
  | .ref v :: r, cenv, i => copyOut (setVar env v (getVar cenv i)) r cenv (i + 1)
  | .val _ :: r, cenv, i => copyOut env r cenv (i + 1)

/-- the variables a call passes by reference -/
def refsOf : List Arg → List Nat
  | [] => []
  | .ref v :: r => v :: refsOf r
  | .val _ :: r => refsOf r

/-- no variable is passed by reference twice in one call -/
def NoAlias (args : List Arg) : Prop := (refsOf args).Nodup

mutual
/-- statements in sequence; stops at the first signal that is not `normal` -/
def execList (procs : List Proc) (fuel : Nat) (env : Env) (out : List Int) : List Stmt → Option Res
  | [] => some ⟨env, out, .normal⟩
  | s :: r =>
    match fuel with
    | 0 => none
    | fuel + 1 =>
      match exec procs fuel env out s with
      | none => none
      | some res => if res.sig = .normal then execList procs fuel res.env res.out r else some res

def exec (procs : List Proc) (fuel : Nat) (env : Env) (out : List Int) : Stmt → Option Res
  | .assign v e =>
    match eval env e with
    | .ok x => some ⟨setVar env v x, out, .normal⟩
    | .error c => some ⟨env, out, .trap c⟩
  | .print e =>
    match eval env e with
    | .ok x => some ⟨env, out ++ [x], .normal⟩
    | .error c => some ⟨env, out, .trap c⟩
  | .ifElse c t e =>
    match eval env c with
    | .ok x => if x ≠ 0 then execList procs fuel env out t else execList procs fuel env out e
    | .error c => some ⟨env, out, .trap c⟩
  | .while c body => loopWhile procs fuel env out c body
  | .doLoop pk pre qk post body => loopDo procs fuel env out pk pre qk post body
  | .for v a b s body =>
    -- step, start and limit are evaluated once
    match eval env s, eval env a, eval env b with
    | .ok st, .ok x, .ok lim => loopFor procs fuel (setVar env v x) out v lim st body
    | .error c, _, _ => some ⟨env, out, .trap c⟩
    | _, .error c, _ => some ⟨env, out, .trap c⟩
    | _, _, .error c => some ⟨env, out, .trap c⟩
  | .select e cases dflt =>
    match eval env e with
    | .ok v => selectRun procs fuel env out v cases dflt
    | .error c => some ⟨env, out, .trap c⟩
  | .exitDo => some ⟨env, out, .exitDo⟩
  | .exitFor => some ⟨env, out, .exitFor⟩
  | .end_ => some ⟨env, out, .ended⟩
  | .exitSub => some ⟨env, out, .exitSub⟩
  | .assignIdx base lo hi i e =>
    -- the value first, then the subscript (the order the generated code uses)
    match eval env e with
    | .error c => some ⟨env, out, .trap c⟩
    | .ok x =>
      match eval env i with
      | .error c => some ⟨env, out, .trap c⟩
      | .ok k =>
        match elemCell env base lo hi k with
        | .ok c => some ⟨setVar env c x, out, .normal⟩
        | .error c => some ⟨env, out, .trap c⟩
  | .call p args =>
    match procs[p]? with
    | none => some ⟨env, out, .trap "NO_SUCH_PROCEDURE"⟩            -- rejected at compile time
    | some pr =>
      if args.length ≠ pr.nparams then some ⟨env, out, .trap "ARGUMENT_COUNT"⟩   -- rejected at compile time
      else match evalArgs env args with
        | .error c => some ⟨env, out, .trap c⟩
        | .ok vals =>
          -- a fresh frame: the argument values, then locals that read 0
          match execList procs fuel (vals ++ List.replicate pr.nlocals 0) out pr.body with
          | none => none
          | some res =>
            -- END inside a procedure ends the program, an error stays an error; EXIT SUB and the end of the body return
            some ⟨copyOut env args res.env 0, res.out,
                  if res.sig = .exitSub then .normal else res.sig⟩

def selectRun (procs : List Proc) (fuel : Nat) (env : Env) (out : List Int) (v : Int) : List (List Clause × List Stmt) → List Stmt → Option Res
  | [], dflt => execList procs fuel env out dflt
  | (cl, body) :: r, dflt =>
    match anyHit env v cl with
    | .ok true => execList procs fuel env out body
    | .ok false => match fuel with | 0 => none | fuel + 1 => selectRun procs fuel env out v r dflt
    | .error c => some ⟨env, out, .trap c⟩

def loopWhile (procs : List Proc) (fuel : Nat) (env : Env) (out : List Int) (c : Expr) (body : List Stmt) : Option Res :=
  match fuel with
  | 0 => none
  | fuel + 1 =>
    match eval env c with
    | .error e => some ⟨env, out, .trap e⟩
    | .ok x =>
      if x = 0 then some ⟨env, out, .normal⟩
      else match execList procs fuel env out body with
        | none => none
        | some res => if res.sig = .normal then loopWhile procs fuel res.env res.out c body else some res   -- EXIT DO / FOR pass through a WHILE

def condHolds (kind : Nat) (x : Int) : Bool := if kind = 1 then decide (x ≠ 0) else decide (x = 0)    -- WHILE x / UNTIL x: go on?

def loopDo (procs : List Proc) (fuel : Nat) (env : Env) (out : List Int) (pk : Nat) (pre : Expr) (qk : Nat) (post : Expr) (body : List Stmt) : Option Res :=
  match fuel with
  | 0 => none
  | fuel + 1 =>
    let enter : Except String Bool := if pk = 0 then .ok true else (eval env pre).map (condHolds pk)
    match enter with
    | .error e => some ⟨env, out, .trap e⟩
    | .ok false => some ⟨env, out, .normal⟩
    | .ok true =>
      match execList procs fuel env out body with
      | none => none
      | some res =>
        if res.sig = .exitDo then some ⟨res.env, res.out, .normal⟩          -- EXIT DO leaves exactly this loop
        else if res.sig ≠ .normal then some res
        else
          let again : Except String Bool := if qk = 0 then .ok true else (eval res.env post).map (condHolds qk)
          match again with
          | .error e => some ⟨res.env, res.out, .trap e⟩
          | .ok false => some ⟨res.env, res.out, .normal⟩
          | .ok true => loopDo procs fuel res.env res.out pk pre qk post body

def loopFor (procs : List Proc) (fuel : Nat) (env : Env) (out : List Int) (v : Nat) (lim st : Int) (body : List Stmt) : Option Res :=
  match fuel with
  | 0 => none
  | fuel + 1 =>
    let x := getVar env v
    if (st ≥ 0 && x > lim) || (st < 0 && x < lim) then some ⟨env, out, .normal⟩
    else match execList procs fuel env out body with
      | none => none
      | some res =>
        if res.sig = .exitFor then some ⟨res.env, res.out, .normal⟩         -- EXIT FOR leaves exactly this loop
        else if res.sig ≠ .normal then some res
        else
          let nx := getVar res.env v + st
          if inInt nx then loopFor procs fuel (setVar res.env v nx) res.out v lim st body
          else some ⟨res.env, res.out, .trap "INVALID_CELL_VALUE"⟩
end

/-- a whole program: EXIT outside its loop cannot occur (rejected at compile time) -/
def run (procs : List Proc) (fuel : Nat) (nvars : Nat) (prog : List Stmt) : Option Res :=
  execList procs fuel (List.replicate nvars 0) [] prog

end Qbee.Src
