/-
  M12: block assembly (qbee/parser.py parse_string with Block.create and the create_block rules of IfBlock, SelectBlock
  and TypeBlock in qbee/stmt.py), AS REPAIRED (ELSE / ELSEIF / CASE outside their block and ELSE after ELSE are syntax
  errors; a field declaration outside a TYPE block is a syntax error).  A program is the sequence of its statements, each reduced to what block matching looks at.
  Block kinds: 0 IF, 1 SUB, 2 FUNCTION, 3 TYPE, 4 DO, 5 FOR, 6 SELECT, 7 WHILE.
-/
namespace Qbee.Blocks

inductive Tok where
  | start (k : Nat) (loc : Nat)      -- IF … THEN (block form), SUB, FUNCTION, TYPE, DO, FOR, SELECT CASE, WHILE
  | stop (k : Nat) (loc : Nat)       -- END IF, END SUB, END FUNCTION, END TYPE, LOOP, NEXT, END SELECT, WEND
  | mid (sub : Nat) (loc : Nat)      -- 0 ELSE, 1 ELSEIF, 2 CASE, 3 CASE ELSE
  | field (loc : Nat)                -- `name AS type` (only meaningful inside TYPE)
  | plain (loc : Nat)                -- any other statement
  deriving Repr, DecidableEq

inductive Item where
  | mid (sub : Nat) (loc : Nat)
  | field (loc : Nat)
  | other (loc : Nat)                -- a plain statement or a nested block (its start position)
  deriving Repr, DecidableEq

structure Frame where
  kind : Nat
  loc : Nat
  outer : List Item                  -- the body that was being collected when the block was entered
  deriving Repr

inductive Err where
  | endWithoutStart (k : Nat) (loc : Nat)     -- "<END X> without <X>"
  | expected (k : Nat) (loc : Nat)            -- "Expected <end of k>" at the terminator found
  | midWithout (sub : Nat) (loc : Nat)        -- "ELSE without IF", "CASE without SELECT"
  | notClosed (k : Nat) (loc : Nat)           -- "<X> block not closed" at the innermost open block
  | elseAfterElse (loc : Nat)
  | beforeCase (loc : Nat)                    -- "Statements illegal between SELECT CASE and CASE"
  | illegalInType (loc : Nat)
  | fieldOutside (loc : Nat)                  -- "Field declaration outside TYPE block"
  deriving Repr, DecidableEq

def owner (sub : Nat) : Nat := if sub ≤ 1 then 0 else 6

/-- IfBlock.create_block: nothing but plain statements may follow an ELSE -/
def ifCheck : List Item → Bool → Option Err
  | [], _ => none
  | .mid sub loc :: r, seenElse =>
    if seenElse then some (.elseAfterElse loc) else ifCheck r (decide (sub = 0))
  | _ :: r, seenElse => ifCheck r seenElse

def typeCheck : List Item → Option Err
  | [] => none
  | .field _ :: r => typeCheck r
  | .mid _ loc :: _ => some (.illegalInType loc)
  | .other loc :: _ => some (.illegalInType loc)

def closeCheck (kind : Nat) (body : List Item) : Option Err :=
  if kind = 0 then ifCheck body false
  else if kind = 6 then
    match body with
    | [] => none
    | .mid _ _ :: _ => none          -- the first clause may be CASE ELSE (as repaired); clauses after CASE ELSE are accepted
    | .field loc :: _ => some (.beforeCase loc)
    | .other loc :: _ => some (.beforeCase loc)
  else if kind = 3 then typeCheck body
  else none

/-- parse_string's loop; `cur` is the body being collected, `stack` the entered blocks (innermost first) -/
def run : List Tok → List Frame → List Item → Except Err Unit
  | [], [], _ => .ok ()
  | [], f :: _, _ => .error (.notClosed f.kind f.loc)
  | .start k loc :: r, st, cur => run r (⟨k, loc, cur⟩ :: st) []
  | .stop k loc :: _, [], _ => .error (.endWithoutStart k loc)
  | .stop k loc :: r, f :: st, cur =>
    if f.kind ≠ k then .error (.expected f.kind loc)
    else match closeCheck f.kind cur with
      | some e => .error e
      | none => run r st (f.outer ++ [.other f.loc])
  | .mid sub loc :: r, st, cur =>
    match st with
    | f :: _ => if f.kind = owner sub then run r st (cur ++ [.mid sub loc]) else .error (.midWithout sub loc)
    | [] => .error (.midWithout sub loc)
  | .field loc :: r, st, cur =>
    -- a field declaration is a statement of TYPE blocks only (as repaired: it reached the code generator)
    match st with
    | f :: _ => if f.kind = 3 then run r st (cur ++ [.field loc]) else .error (.fieldOutside loc)
    | [] => .error (.fieldOutside loc)
  | .plain loc :: r, st, cur => run r st (cur ++ [.other loc])

def assemble (toks : List Tok) : Except Err Unit := run toks [] []

def Tok.loc : Tok → Nat
  | .start _ l | .stop _ l | .mid _ l | .field l | .plain l => l

def Err.loc : Err → Nat
  | .endWithoutStart _ l | .expected _ l | .midWithout _ l | .notClosed _ l | .elseAfterElse l | .beforeCase l | .illegalInType l | .fieldOutside l => l

def countStart (k : Nat) : List Tok → Nat
  | [] => 0
  | .start k' _ :: r => (if k' = k then 1 else 0) + countStart k r
  | _ :: r => countStart k r

def countStop (k : Nat) : List Tok → Nat
  | [] => 0
  | .stop k' _ :: r => (if k' = k then 1 else 0) + countStop k r
  | _ :: r => countStop k r

def countFrames (k : Nat) : List Frame → Nat
  | [] => 0
  | f :: r => (if f.kind = k then 1 else 0) + countFrames k r

end Qbee.Blocks
