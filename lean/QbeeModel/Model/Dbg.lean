/-
  M9: the debugger's control of the machine (qvm/dbg.py Cmd.do_step / do_next / do_stepi / do_nexti / do_continue /
  do_break / do_delbr / start_debugging / parse_breakpoint_spec, qvm/cpu.py QvmCpu.run / next), AS REPAIRED:
  a halted machine is never resumed, run() does not evaluate breakpoints once the machine has halted, next() over a call
  waits for the return address in the calling frame, do_next only stops in a statement, a breakpoint is not added twice.

  The machine itself is a parameter (`Mach σ`): any instruction semantics, any program.
-/
namespace Qbee.Dbg

structure Mach (σ : Type) where
  tick : σ → σ
  pc : σ → Nat
  halted : σ → Bool
  frame : σ → Nat                 -- identity of cpu.cur_frame
  callSize : σ → Option Nat       -- some size when the instruction at pc is `call`
  codeLen : Nat
  stmt : Nat → Option Nat         -- find_stmt(address): the innermost statement record, by identity

/-- Breakpoint objects built by parse_breakpoint_spec: an address / line breakpoint (exact) or a routine's range;
    equality (Breakpoint.__eq__) compares exactly these fields -/
inductive Bp where
  | exact (a : Nat)
  | range (a b : Nat)
  deriving DecidableEq, Repr

def Bp.hit : Bp → Nat → Bool
  | .exact a, pc => pc == a
  | .range a b, pc => decide (a ≤ pc) && decide (pc < b)

/-- why a run returned -/
inductive Why where
  | finished            -- the machine halted (or pc left the code)
  | user (i : Nat)      -- the i-th user breakpoint matched
  | temp                -- the command's own temporary breakpoint matched (or a single instruction was executed)
  | fuel                -- the model's fuel ran out: the real loop is still running
  deriving DecidableEq, Repr

def firstHit (bps : List Bp) (pc : Nat) : Option Nat := bps.findIdx? (fun b => b.hit pc)

/-- QvmCpu.run with the user breakpoints followed by one temporary predicate -/
def run (M : Mach σ) (bps : List Bp) (temp : σ → Bool) : Nat → σ → σ × Why
  | 0, s => (s, .fuel)
  | n + 1, s =>
    if M.halted s || decide (M.pc s ≥ M.codeLen) then (s, .finished)
    else
      let s' := M.tick s
      if M.halted s' then (s', .finished)
      else match firstHit bps (M.pc s') with
        | some i => (s', .user i)
        | none => if temp s' then (s', .temp) else run M bps temp n s'

/-- QvmCpu.next (behind the debugger's halted guard) -/
def nexti (M : Mach σ) (bps : List Bp) (fuel : Nat) (s : σ) : σ × Why :=
  match M.callSize s with
  | some sz => run M bps (fun t => M.pc t == M.pc s + sz && M.frame t == M.frame s) fuel s
  | none => (M.tick s, .temp)

def differentStmt (M : Mach σ) (s t : σ) : Bool :=
  match M.stmt (M.pc t) with
  | some x => M.stmt (M.pc s) != some x
  | none => false

def step (M : Mach σ) (bps : List Bp) (fuel : Nat) (s : σ) : σ × Why :=
  if M.halted s then (s, .finished) else run M bps (differentStmt M s) fuel s

/-- do_next: call-skipping instructions until the statement changes -/
def nextLoop (M : Mach σ) (bps : List Bp) (fuel : Nat) (s0 : σ) : Nat → σ → σ × Why
  | 0, s => (s, .fuel)
  | n + 1, s =>
    if M.halted s then (s, .finished)
    else
      match nexti M bps fuel s with
      | (s', .user i) => (s', .user i)
      | (s', .fuel) => (s', .fuel)
      | (s', .finished) => (s', .finished)      -- the machine halted: the loop ends whatever the statement is
      | (s', .temp) => if differentStmt M s0 s' then (s', .temp) else nextLoop M bps fuel s0 n s'

def next (M : Mach σ) (bps : List Bp) (fuel : Nat) (s : σ) : σ × Why := nextLoop M bps fuel s fuel s

def stepi (M : Mach σ) (s : σ) : σ := if M.halted s then s else M.tick s

def nextiCmd (M : Mach σ) (bps : List Bp) (fuel : Nat) (s : σ) : σ × Why :=
  if M.halted s then (s, .finished) else nexti M bps fuel s

def cont (M : Mach σ) (bps : List Bp) (fuel : Nat) (s : σ) : σ × Why :=
  if M.halted s then (s, .finished) else run M bps (fun _ => false) fuel s

/-- start_debugging: run to the first statement -/
def start (M : Mach σ) : Nat → σ → σ
  | 0, s => s
  | n + 1, s => if M.halted s || (M.stmt (M.pc s)).isSome then s else start M n (M.tick s)

def addBp (bps : List Bp) (b : Bp) : List Bp := if b ∈ bps then bps else bps ++ [b]
def delBp (bps : List Bp) (b : Bp) : List Bp := bps.erase b

/-- a statement record as parse_breakpoint_spec sees it -/
structure SRec where
  s : Nat
  e : Nat
  line : Nat
  srcOff : Nat
  deriving Repr, DecidableEq

/-- `break <line>`: statements in source order; the first one at or after the line that has an instruction -/
def resolveLine (recs : List SRec) (line : Nat) : Option Bp :=
  ((recs.mergeSort (fun a b => decide (a.srcOff ≤ b.srcOff))).find? (fun r => decide (r.line ≥ line) && decide (r.e > r.s))).map
    (fun r => Bp.exact r.s)

inductive Cmd where
  | step | next | stepi | nexti | cont
  | brk (b : Option Bp)       -- none: the specification did not resolve ("Cannot set breakpoint")
  | del (b : Option Bp)
  deriving Repr

structure DS (σ : Type) where
  s : σ
  bps : List Bp

def exec (M : Mach σ) (fuel : Nat) (d : DS σ) : Cmd → DS σ
  | .step => { d with s := (step M d.bps fuel d.s).1 }
  | .next => { d with s := (next M d.bps fuel d.s).1 }
  | .stepi => { d with s := stepi M d.s }
  | .nexti => { d with s := (nextiCmd M d.bps fuel d.s).1 }
  | .cont => { d with s := (cont M d.bps fuel d.s).1 }
  | .brk (some b) => { d with bps := addBp d.bps b }
  | .brk none => d
  | .del (some b) => { d with bps := delBp d.bps b }
  | .del none => d

def iter (M : Mach σ) : Nat → σ → σ
  | 0, s => s
  | n + 1, s => iter M n (M.tick s)

/-- t is reached from s by executing instructions of the free run, none of them on a halted machine -/
def Reach (M : Mach σ) (s t : σ) : Prop := ∃ k, t = iter M k s ∧ ∀ j, j < k → M.halted (iter M j s) = false

end Qbee.Dbg
