import QbeeModel.Model.Util
/-
  M7 (part): numbers to text and back.

  * `fmtInt`            qvm/utils.py `format_number` on INTEGER / LONG cells
  * `fmtFloat`          the string surgery of `format_number` on SINGLE / DOUBLE,
                        applied to CPython's `str(float)` (external, supplied as data)
  * `pyInt`             the ASCII fragment of Python `int(str)` (READ, INPUT)
  * `scanNumLit`        the regular expression of `grammar.numeric_literal`
                        (decimal branch) as used by VAL (`_exec_sdbl`), and the
                        classification done by `NumericLiteral.parse`
-/
namespace Qbee.NumFmt

def natText (n : Nat) : Str := Nat.toDigits 10 n

/-- Python `str(int)` -/
def intText : Int → Str
  | .ofNat n => natText n
  | .negSucc n => '-' :: natText (n + 1)

/-- `format_number(n, INTEGER|LONG)`: `str(n)`, blank in front when `n >= 0` -/
def fmtInt (i : Int) : Str := if 0 ≤ i then ' ' :: intText i else intText i

/-! ### float surgery (format_number lines 15-25) -/

def endsWithDotZero (s : Str) : Bool := s.reverse.take 2 == ['0', '.']

/-- `if s.endswith('.0'): s = s[:-2]` -/
def stripDotZero (s : Str) : Str := if endsWithDotZero s then s.take (s.length - 2) else s

/-- `s.replace('e', c)` -/
def replaceE (c : Char) (s : Str) : Str := s.map fun x => if x = 'e' then c else x

/-- `sn.index('.')` -/
def indexDot : Str → Nat
  | [] => 0
  | c :: r => if c = '.' then 0 else 1 + indexDot r

/-- `sn.lstrip('-')` -/
def dropMinus (s : Str) : Str := s.dropWhile (· = '-')

/-- SINGLE only: `'.' in sn and 'e' not in sn` decides whether `round` is applied;
    the number of digits asked of `round` is `7 - sn.lstrip('-').index('.')` (may be negative).
    (As repaired: the index was taken in `sn` itself, so the minus sign counted as a digit.) -/
def singleRoundDigits (sn : Str) : Option Int :=
  if sn.contains '.' && !sn.contains 'e' then some (7 - (indexDot (dropMinus sn) : Int)) else none

/-- the request before the repair -/
def singleRoundDigitsOld (sn : Str) : Option Int :=
  if sn.contains '.' && !sn.contains 'e' then some (7 - (indexDot sn : Int)) else none

/-- `mantissa.rstrip('0').rstrip('.')` -/
def rstripMantissa (m : Str) : Str :=
  match m.reverse.dropWhile (· = '0') with
  | '.' :: r => (r.dropWhile (· = '.')).reverse
  | a => a.reverse

/-- SINGLE in exponent form (as repaired): `t` is `'%.6e' % n`; trailing zeros of the mantissa are dropped -/
def expoSurgery (t : Str) : Str :=
  rstripMantissa (t.takeWhile (· ≠ 'e')) ++ 'e' :: (t.dropWhile (· ≠ 'e')).drop 1

/-- the surgery after the optional rounding: `r` is `str(n)`, `nonneg` is `n >= 0` -/
def fmtFloat (isDouble : Bool) (r : Str) (nonneg : Bool) : Str :=
  let s := stripDotZero r
  let s := if s.contains 'e' then replaceE (if isDouble then 'D' else 'E') s else s
  if nonneg then ' ' :: s else s

/-- the significant digits a float text shows: sign, point and leading zeros dropped, exponent cut off -/
def shownDigits (s : Str) : Str :=
  (((dropMinus s).takeWhile (· ≠ 'e')).filter (· ≠ '.')).dropWhile (· = '0')

/-- format_number for a DOUBLE (as repaired): `r` = str(n) (shortest text that reads back), `near` = '%.*e' % (digits - 1, |n|)
    (the nearest numeral with as many digits), `r17` = '%.17g' % n.  The shortest text is kept when it is also the nearest. -/
def chooseDouble (r near r17 : Str) : Str :=
  if shownDigits r = [] then r
  else if shownDigits near = shownDigits r then r else r17

/-- format_number for a SINGLE: `sn` = str(n), `r2` = str(round(n, k)) where rounding applies, `t` = '%.6e' % n -/
def fmtSingle (sn r2 t : Str) (nonneg : Bool) : Str :=
  let r := if (singleRoundDigits sn).isSome then r2 else sn
  let r := if r.contains 'e' then expoSurgery t else r
  fmtFloat false r nonneg


/-! ### Python `int(str)`, ASCII fragment -/

inductive PyNum where
  | ok (v : Int)
  | err            -- ValueError
  | gray           -- (no longer produced: as repaired, READ / INPUT refuse underscores, non-ASCII and control characters)
  deriving Repr, DecidableEq

def isPyWs (c : Char) : Bool :=
  c = ' ' || c = '\t' || c = '\n' || c = '\r' || c.toNat = 11 || c.toNat = 12

def lstrip (s : Str) : Str := s.dropWhile isPyWs
def strip (s : Str) : Str := (lstrip (lstrip s).reverse).reverse

def allDigits (s : Str) : Bool := !s.isEmpty && s.all Char.isDigit

def digitsVal (s : Str) : Nat := Nat.ofDigitChars 10 s 0

def isGrayChar (c : Char) : Bool := c = '_' || c.toNat ≥ 127 || c.toNat < 32

/-- `parse_int` (as repaired: Python's int() also took '1_000' and digits of other scripts) -/
def pyInt (s : Str) : PyNum :=
  let t := strip s
  if t.any isGrayChar then .err else
  match t with
  | '+' :: ds => if allDigits ds then .ok (digitsVal ds) else .err
  | '-' :: ds => if allDigits ds then .ok (-(digitsVal ds : Int)) else .err
  | ds => if allDigits ds then .ok (digitsVal ds) else .err

/-! ### the decimal numeric literal of the grammar (VAL) -/

def takeDigits (s : Str) : Str × Str := (s.takeWhile Char.isDigit, s.dropWhile Char.isDigit)

/-- `([eEdD][+-]?\d+)?` : returns (matched exponent text, rest) -/
def scanExp (s : Str) : Str × Str :=
  match s with
  | e :: r =>
    if e = 'e' || e = 'E' || e = 'd' || e = 'D' then
      match r with
      | sg :: r2 =>
        if sg = '+' || sg = '-' then
          let (ds, rest) := takeDigits r2
          if ds.isEmpty then ([], s) else (e :: sg :: ds, rest)
        else
          let (ds, rest) := takeDigits r
          if ds.isEmpty then ([], s) else (e :: ds, rest)
      | [] => ([], s)
    else ([], s)
  | [] => ([], s)

/-- `([0-9]+([.][0-9]*)?|[.][0-9]+)` : returns (matched mantissa, rest) or none -/
def scanMantissa (s : Str) : Option (Str × Str) :=
  let (ip, r) := takeDigits s
  if !ip.isEmpty then
    match r with
    | '.' :: r2 => let (fp, r3) := takeDigits r2; some (ip ++ '.' :: fp, r3)
    | _ => some (ip, r)
  else
    match s with
    | '.' :: r2 =>
      let (fp, r3) := takeDigits r2
      if fp.isEmpty then none else some ('.' :: fp, r3)
    | _ => none

/-- optional sign `[+-]?` -/
def splitSign : Str → Str × Str
  | '+' :: r => (['+'], r)
  | '-' :: r => (['-'], r)
  | s => ([], s)

/-- pyparsing skips leading blanks, tabs, newlines and carriage returns before a token -/
def isPPWs (c : Char) : Bool := c = ' ' || c = '\t' || c = '\n' || c = '\r'

/-- `Opt(type_char)` after the number (pyparsing skips white space before it) -/
def typeChar? (s : Str) : Option Char :=
  match s.dropWhile isPPWs with
  | c :: _ => if c = '%' || c = '&' || c = '!' || c = '#' || c = '$' then some c else none
  | [] => none

/-- the first alternative of `numeric_literal`: `[+-]?mantissa(exp)?`, then an optional type
    character.  Returns (token, type char).  `none` = no match (pyparsing ParseException; the
    `&H`/`&O` alternatives are outside this model and are excluded by the caller). -/
def scanNumLit (s : Str) : Option (Str × Option Char) :=
  match scanMantissa (splitSign s).2 with
  | none => none
  | some (m, r2) => some ((splitSign s).1 ++ m ++ (scanExp r2).1, typeChar? (scanExp r2).2)

inductive ValRes where
  | zero                     -- ParseException: VAL gives 0
  | int (v : Int)            -- integral token in LONG range: VAL gives float(v)
  | flt (tok : Str)          -- VAL gives float(tok) (tok with d replaced by e, lower-cased); a numeral beyond every
                             -- DOUBLE is a numeric overflow (as repaired: no cell holds an infinity)
  | gray                     -- &H / &O literals, type characters: not modelled
  deriving Repr, DecidableEq

def lower (c : Char) : Char := if 65 ≤ c.toNat ∧ c.toNat ≤ 90 then Char.ofNat (c.toNat + 32) else c

/-- `int(token)` for a token `[+-]?digits` -/
def signedVal : Str → Int
  | '-' :: ds => -(digitsVal ds : Int)
  | '+' :: ds => digitsVal ds
  | ds => digitsVal ds

/-- `_exec_sdbl`: what VAL computes from a string -/
def valParse (s : Str) : ValRes :=
  let t := s.dropWhile isPPWs
  match t with
  | '&' :: _ => .gray
  | _ =>
  match scanNumLit t with
  | none => .zero
  | some (_, some _) => .gray
  | some (tok, none) =>
    let tok := tok.map lower
    if tok.contains 'd' then .flt (tok.map fun c => if c = 'd' then 'e' else c)
    else if tok.contains 'e' || tok.contains '.' then .flt tok
    else
      -- LONG: int(token) when it fits; otherwise the text is not a legal literal and VAL falls back to float(text)
      -- (as repaired)
      let v := signedVal tok
      if v < -2147483648 || v > 2147483647 then .flt tok else .int v

/-! ### the ASCII fragment of Python `float(str)` syntax (READ / INPUT into SINGLE / DOUBLE) -/

inductive FloatSyn where
  | ok      -- a decimal numeral: float() succeeds (value external)
  | bad     -- ValueError
  | gray    -- (no longer produced: as repaired, inf / nan / underscores / non-ASCII are refused)
  deriving Repr, DecidableEq

def floatSyntax (s : Str) : FloatSyn :=
  let t := strip s
  if t.any isGrayChar then .bad else
  let r := (splitSign t).2
  match scanMantissa r with
  | none => .bad
  | some (_, r2) =>
    match r2 with
    | [] => .ok
    | c :: _ =>
      if c = 'e' || c = 'E' || c = 'd' || c = 'D' then
        if (scanExp r2).1.isEmpty then .bad else if (scanExp r2).2.isEmpty then .ok else .bad
      else .bad

end Qbee.NumFmt
