import QbeeModel.Model.Bytes
import QbeeModel.Gen.InstrTable
/-
  M2: instruction encoding (qvm/instrs.py operand classes + the generated instruction table),
  the assembler's byte layout (QvmCode.assembled), the machine's decoder (QvmCpu.get_instruction_at)
  and instruction boundaries.
-/
namespace Qbee.Instr
open Qbee.Bytes Qbee.Gen

inductive Operand where
  | u8 (n : Nat)
  | i16 (i : Int)
  | u16 (n : Nat)
  | i32 (i : Int)
  | label (n : Nat)
  | f32 (bits : Nat)       -- IEEE bit pattern
  | f64 (bits : Nat)
  | lit (idx : Nat)        -- literal index: written and read '>H'
  deriving Repr, DecidableEq

def Operand.kind : Operand → OpKind
  | .u8 _ => .u8 | .i16 _ => .i16 | .u16 _ => .u16 | .i32 _ => .i32
  | .label _ => .label | .f32 _ => .f32 | .f64 _ => .f64 | .lit _ => .lit

def kindSize : OpKind → Nat
  | .u8 => 1 | .i16 => 2 | .u16 => 2 | .i32 => 4 | .label => 4 | .f32 => 4 | .f64 => 8 | .lit => 2

/-- operand ranges the assembler asserts -/
def Operand.WF : Operand → Prop
  | .u8 n => n < 256
  | .i16 i => InS 2 i
  | .u16 n => n < 256 ^ 2
  | .i32 i => InS 4 i
  | .label n => n < 256 ^ 4
  | .f32 b => b < 256 ^ 4
  | .f64 b => b < 256 ^ 8
  | .lit i => i < 256 ^ 2

def encOperand : Operand → List Nat
  | .u8 n => be 1 n
  | .i16 i => be 2 (ofSigned 2 i)
  | .u16 n => be 2 n
  | .i32 i => be 4 (ofSigned 4 i)
  | .label n => be 4 n
  | .f32 b => be 4 b
  | .f64 b => be 8 b
  | .lit i => be 2 i                     -- struct.pack('>H', idx)

def ofRaw : OpKind → Nat → Operand
  | .u8, v => .u8 v
  | .i16, v => .i16 (toSigned 2 v)
  | .u16, v => .u16 v
  | .i32, v => .i32 (toSigned 4 v)
  | .label, v => .label v
  | .f32, v => .f32 v
  | .f64, v => .f64 v
  | .lit, v => .lit v                    -- struct.unpack('>H') (after the repair; it was '>h')

def decOperand (k : OpKind) (bs : List Nat) : Option (Operand × List Nat) :=
  if bs.length < kindSize k then none
  else some (ofRaw k (val (bs.take (kindSize k))), bs.drop (kindSize k))

def decOperands : List OpKind → List Nat → Option (List Operand × List Nat)
  | [], bs => some ([], bs)
  | k :: ks, bs =>
    match decOperand k bs with
    | none => none
    | some (o, r) =>
      match decOperands ks r with
      | none => none
      | some (os, r') => some (o :: os, r')

structure Instr where
  opcode : Nat
  ops : List Operand
  deriving Repr, DecidableEq

def lookupKinds (tbl : List (String × Nat × List OpKind)) (opcode : Nat) : Option (List OpKind) :=
  match tbl with
  | [] => none
  | (_, c, ks) :: r => if c = opcode then some ks else lookupKinds r opcode

def lookupName (tbl : List (String × Nat × List OpKind)) (opcode : Nat) : Option String :=
  match tbl with
  | [] => none
  | (n, c, _) :: r => if c = opcode then some n else lookupName r opcode

/-- operand kinds of an opcode in the current instruction table; none = INVALID_OP_CODE -/
def kindsOf (opcode : Nat) : Option (List OpKind) := lookupKinds instrTable opcode

def encode (i : Instr) : List Nat := i.opcode :: (i.ops.map encOperand).flatten

/-- get_instruction_at: one instruction from the head of the byte string -/
def decode (bs : List Nat) : Option (Instr × List Nat) :=
  match bs with
  | [] => none
  | c :: r =>
    match kindsOf c with
    | none => none
    | some ks =>
      match decOperands ks r with
      | none => none
      | some (os, r') => some (⟨c, os⟩, r')

def encodeAll (is : List Instr) : List Nat := (is.map encode).flatten

/-- walk the whole code section (fuel = number of bytes) -/
def decodeAll : Nat → List Nat → Option (List Instr)
  | _, [] => some []
  | 0, _ :: _ => none
  | f + 1, bs =>
    match decode bs with
    | none => none
    | some (i, r) => (decodeAll f r).map (i :: ·)

def size (i : Instr) : Nat := (encode i).length

/-- offsets at which the instructions of a sequence start, from `base` -/
def starts (base : Nat) : List Instr → List Nat
  | [] => []
  | i :: r => base :: starts (base + size i) r

structure WFInstr (i : Instr) : Prop where
  code : i.opcode < 256
  kinds : kindsOf i.opcode = some (i.ops.map Operand.kind)
  ops : ∀ o ∈ i.ops, o.WF

end Qbee.Instr
