import QbeeModel.Model.Arith
/-
  The executable instance of `FOps` on Lean's `Float` (IEEE binary64, same as CPython's float).
  Only +, -, *, /, comparison, conversion to/from integers, rounding to binary32 and floor are used;
  all are exact IEEE operations in Lean's runtime.
-/
namespace Qbee.Arith

/-- exact integer value of a finite, integer-valued float -/
def floatToIntExact (x : Float) : Int :=
  if x == 0.0 then 0 else
  let (m, e) := x.frExp            -- x = m * 2^e, 0.5 ≤ |m| < 1
  let mant : Int := (m.scaleB 53).toInt64.toInt   -- |mant| < 2^53, exact
  let sh := e - 53
  if sh ≥ 0 then mant * (2 : Int) ^ sh.toNat else mant / (2 : Int) ^ (-sh).toNat

def floatRoundEven (x : Float) : Option Int :=
  if x.isNaN || x.isInf then none else
  let f := x.floor
  let d := x - f
  let n := floatToIntExact f
  if d < 0.5 then some n
  else if d > 0.5 then some (n + 1)
  else some (if n % 2 = 0 then n else n + 1)

def floatOfInt (n : Int) : Float := Float.ofInt n

def floatOps : FOps Float where
  add := (· + ·)
  sub := (· - ·)
  mul := (· * ·)
  div := (· / ·)
  neg := fun x => -x
  abs := Float.abs
  ofInt := floatOfInt
  isZero := fun x => x == 0.0
  lt := fun a b => a < b
  eq := fun a b => a == b
  toSingle := fun x =>
    let y := x.toFloat32.toFloat
    if y.isInf && !x.isInf then none else some y
  roundEven := floatRoundEven
  floor := fun x => if x.isNaN || x.isInf then none else some (floatToIntExact x.floor)
  isFinite := fun x => !(x.isNaN || x.isInf)

end Qbee.Arith
