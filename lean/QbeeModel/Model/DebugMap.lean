/-
  M8 (part): the debug map.  The marker events the assembler hands to DebugInfoCollector
  (start_node / end_node with the current code offset), the collector's pairing stack, the records, and
  the innermost-statement lookup of DebugInfo.find_stmt (smallest enclosing range among the statement records).
-/
namespace Qbee.DebugMap

inductive Ev where
  | start (id : Nat) (off : Nat)
  | stop (id : Nat) (off : Nat)
  deriving Repr, DecidableEq

structure Rec where
  id : Nat
  s : Nat
  e : Nat
  deriving Repr, DecidableEq

/-- DebugInfoCollector: `start_node` pushes, `end_node` pops and asserts it is the same node;
    `none` = the assertion 'Incorrect debug info' fails (or an end without a start) -/
def collect : List Ev → List (Nat × Nat) → List Rec → Option (List Rec)
  | [], [], acc => some acc
  | [], _ :: _, _ => none                      -- a start marker without its end
  | .start id off :: r, st, acc => collect r ((id, off) :: st) acc
  | .stop id off :: r, (id', s) :: st, acc => if id' = id then collect r st (acc ++ [⟨id, s, off⟩]) else none
  | .stop _ _ :: _, [], _ => none

/-- find_stmt on the statement records: the smallest range containing the address (first one on ties,
    Python's sort is stable); none = no record contains it -/
def better (addr : Nat) (best : Option Rec) (r : Rec) : Option Rec :=
  if r.s ≤ addr ∧ addr < r.e then
    match best with
    | none => some r
    | some b => if r.e - r.s < b.e - b.s then some r else some b
  else best

def findStmt (recs : List Rec) (addr : Nat) : Option Rec := recs.foldl (better addr) none

def Contains (r : Rec) (addr : Nat) : Prop := r.s ≤ addr ∧ addr < r.e

/-- any two ranges are nested or disjoint -/
def Laminar (rs : List Rec) : Prop :=
  ∀ r1 ∈ rs, ∀ r2 ∈ rs, r1.e ≤ r2.s ∨ r2.e ≤ r1.s ∨ (r2.s ≤ r1.s ∧ r1.e ≤ r2.e) ∨ (r1.s ≤ r2.s ∧ r2.e ≤ r1.e)

def Within (lo hi : Nat) (rs : List Rec) : Prop := ∀ r ∈ rs, lo ≤ r.s ∧ r.s ≤ r.e ∧ r.e ≤ hi

/-- well-bracketed marker streams with non-decreasing offsets, spanning [lo, hi] -/
inductive WB : Nat → Nat → List Ev → Prop where
  | nil (lo hi : Nat) (h : lo ≤ hi) : WB lo hi []
  | wrap (id s e lo hi : Nat) (inner : List Ev) (h1 : lo ≤ s) (h2 : e ≤ hi) (hi' : WB s e inner) :
      WB lo hi (.start id s :: inner ++ [.stop id e])
  | append (lo mid hi : Nat) (a b : List Ev) (ha : WB lo mid a) (hb : WB mid hi b) : WB lo hi (a ++ b)

end Qbee.DebugMap
