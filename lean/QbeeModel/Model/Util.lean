/-
  Shared helpers for the executable models: the `Str` carrier (QBASIC strings as
  lists of characters, which keeps every model function structurally recursive
  and every theorem about plain `List`), and the wire format of the line
  protocol (strings as dot-separated decimal code points, `-` for empty).
-/
namespace Qbee

abbrev Str := List Char

def Str.ofString (s : String) : Str := s.toList
def Str.toStr (s : Str) : String := String.ofList s

/-- blanks n = n * ' ' -/
def blanks (n : Nat) : Str := List.replicate n ' '

/-- wire encoding of a string: code points in decimal joined by '.', "-" when empty -/
def encStr (s : Str) : String :=
  if s.isEmpty then "-" else ".".intercalate (s.map fun c => toString c.toNat)

def decStr (w : String) : Option Str :=
  if w = "-" then some [] else
    (w.splitOn ".").mapM fun t => (t.toNat?).map Char.ofNat

def encInt (i : Int) : String := toString i

/-- split a request line into blank-separated tokens (no empty tokens) -/
def tokens (line : String) : List String :=
  (line.trimAscii.toString.splitOn " ").filter (· ≠ "")

end Qbee
