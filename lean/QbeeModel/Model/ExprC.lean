import QbeeModel.Gen.ExprTables
/-
  M6 (part): static typing of operators (from the generated tables), the code generator's scheme for
  expressions (operand code, conversions and operator instructions, from the generated tables), and an
  abstract interpreter of the emitted instruction names over a stack of operand TYPES
  (the machine's dynamic type checks, from the generated table).
-/
namespace Qbee.ExprC
open Qbee.Gen

def lookup {α β} [BEq α] (tbl : List (α × β)) (k : α) : Option β :=
  match tbl with
  | [] => none
  | (a, b) :: r => if a == k then some b else lookup r k

def lookupN {β} (tbl : List (Nat × β)) (k : Nat) : Option β :=
  match tbl with
  | [] => none
  | (a, b) :: r => if Nat.beq a k then some b else lookupN r k

def tyIdx : Ty → Nat
  | .i => 0 | .l => 1 | .s => 2 | .d => 3 | .str => 4

/-- abstract execution of one emitted instruction on a stack of types (top first).
    Markers 2000..2004 stand for operand code that leaves a value of type i, l, s, d, str. -/
def absStep (ins : Nat) (st : List Ty) : Option (List Ty) :=
  if ins = 2000 then some (.i :: st)
  else if ins = 2001 then some (.l :: st)
  else if ins = 2002 then some (.s :: st)
  else if ins = 2003 then some (.d :: st)
  else if ins = 2004 then some (.str :: st)
  else
    match st with
    | [] => none
    | b :: rest =>
      match lookupN vmTypeN (ins * 36 + tyIdx b + 1) with
      | some (.ok t) => some (t :: rest)
      | some _ => none
      | none =>
        match rest with
        | [] => none
        | a :: rest' =>
          match lookupN vmTypeN (ins * 36 + (tyIdx a + 1) * 6 + tyIdx b + 1) with
          | some (.ok t) => some (t :: rest')
          | _ => none

def absRun : List Nat → List Ty → Option (List Ty)
  | [], st => some st
  | i :: r, st =>
    match absStep i st with
    | none => none
    | some st' => absRun r st'

/-- split what gen_binary_op emitted at its operand markers: (code after the left operand,
    code after the right operand) -/
def splitBin : List Nat → Option (List Nat × List Nat)
  | 1000 :: r =>
    let cl := r.takeWhile (· ≠ 1001)
    match r.dropWhile (· ≠ 1001) with
    | 1001 :: cr => if cr.contains 1000 || cr.contains 1001 || cl.contains 1000 then none else some (cl, cr)
    | _ => none
  | _ => none

def splitUn : List Nat → Option (List Nat)
  | 1002 :: r => if r.contains 1002 then none else some r
  | _ => none

/-- expressions over typed atoms (variables, literals, calls: anything that leaves one value of its type) -/
inductive E where
  | atom (t : Ty)
  | bin (op : Nat) (a b : E)
  | un (op : Nat) (a : E)
  deriving Repr

def binRow (op : Nat) (l r : Ty) : Option (Nat × Ty × Ty × Bool × Option Ty × List Nat) :=
  lookupN binRows (op * 25 + tyIdx l * 5 + tyIdx r)

def unRow (op : Nat) (a : Ty) : Option (Nat × Ty × Bool × Option Ty × List Nat) :=
  lookupN unRows (op * 5 + tyIdx a)

/-- static type: BinaryOp.type / UnaryOp.type, defined only where the pass accepts the operands -/
def ty : E → Option Ty
  | .atom t => some t
  | .bin op a b =>
    match ty a, ty b with
    | some l, some r =>
      match binRow op l r with
      | some (_, _, _, true, res, _) => res
      | _ => none
    | _, _ => none
  | .un op a =>
    match ty a with
    | some t =>
      match unRow op t with
      | some (_, _, true, res, _) => res
      | _ => none
    | none => none

def tyMark : Ty → Nat
  | .i => 2000 | .l => 2001 | .s => 2002 | .d => 2003 | .str => 2004

/-- the code generator's scheme: operand code, conversion, operand code, conversion, operator -/
def compileE : E → Option (List Nat)
  | .atom t => some [tyMark t]
  | .bin op a b =>
    match ty a, ty b, compileE a, compileE b with
    | some l, some r, some ca, some cb =>
      match binRow op l r with
      | some (_, _, _, _, _, code) =>
        match splitBin code with
        | some (cl, cr) => some (ca ++ cl ++ cb ++ cr)
        | none => none
      | none => none
    | _, _, _, _ => none
  | .un op a =>
    match ty a, compileE a with
    | some t, some ca =>
      match unRow op t with
      | some (_, _, _, _, code) =>
        match splitUn code with
        | some c => some (ca ++ c)
        | none => none
      | none => none
    | _, _ => none

/-! ### the finite obligations, as Boolean functions over the whole generated tables -/

def allTys : List Ty := [.i, .l, .s, .d, .str]

/-- for one accepted binary operator/type pair: result type known, code splits at the markers, the
    code after the left operand turns [l] into one value l', the code after the right operand turns
    [r, l'] into exactly [result type] -/
def binOkRow (l r : Ty) (res : Option Ty) (code : List Nat) : Bool :=
  match res, splitBin code with
  | some t, some (cl, cr) =>
    match absRun cl [l] with
    | some [l'] => decide (absRun cr [r, l'] = some [t])
    | _ => false
  | _, _ => false

def unOkRow (a : Ty) (res : Option Ty) (code : List Nat) : Bool :=
  match res, splitUn code with
  | some t, some c => decide (absRun c [a] = some [t])
  | _, _ => false

/-- every operator/type pair the static check accepts is compiled to code whose operands reach the
    instruction with ONE type, and whose result has the static result type (and each row sits under
    the key of its own operator and operand types) -/
def allBinOk : Bool :=
  binRows.all fun (key, op, l, r, acc, res, code) =>
    Nat.beq key (op * 25 + tyIdx l * 5 + tyIdx r) && (!acc || binOkRow l r res code)

def allUnOk : Bool :=
  unRows.all fun (key, op, a, acc, res, code) =>
    Nat.beq key (op * 5 + tyIdx a) && (!acc || unOkRow a res code)

end Qbee.ExprC
