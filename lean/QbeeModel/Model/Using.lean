import QbeeModel.Model.Util
/-
  M7 (part): PRINT USING  (qvm/using.py PrintUsingFormatter).

  * `parseNumeric`   parse_numeric_format_string
  * `scan`           parse_format_string (including the `redo_no_number` path and the IndexError of a trailing `_`)
  * `renderNum`      format_number: sign, padding, the one-character trims and the `%` overflow mark, applied to the
                     text `body` that Python's `format(abs(value), ...)` returns (external contract, supplied as data)
  * `format`         format: values consumed left to right, host exceptions of the Python made explicit
-/
namespace Qbee.Using

structure NumSpec where
  width : Nat                    -- `len(fmt)` = every consumed character counts
  signEnd : Bool                 -- options['sign'][0] == 'end'
  signChar : Option Char         -- options['sign'][1], none = no sign option
  comma : Bool
  decimalPoint : Option Nat      -- options['decimal_point'] (= `sharps` counter when '.' was seen)
  realSharps : Nat
  decimalsN : Nat                -- options['decimals']: the '#' positions after the point
  deriving Repr, DecidableEq

/-- number of decimals asked of `format`: the digit positions after the point (as repaired: `len(fmt) - decimal_point`
    counted a trailing sign as a decimal) -/
def NumSpec.decimals (s : NumSpec) : Option Nat := s.decimalPoint.map (fun _ => s.decimalsN)

/-- the `while` loop of parse_numeric_format_string; `sign` = a leading sign was seen -/
def numLoop (sign : Bool) (sp : NumSpec) : Str → NumSpec × Str
  | [] => (sp, [])
  | c :: r =>
    if !sign && (c = '+' || c = '-') then
      ({ sp with signEnd := true, signChar := some c, width := sp.width + 1 }, r)
    else if c = '#' then
      numLoop sign { sp with width := sp.width + 1, realSharps := sp.realSharps + 1,
                             decimalsN := if sp.decimalPoint.isSome then sp.decimalsN + 1 else sp.decimalsN } r
    else if c = ',' then numLoop sign { sp with comma := true, width := sp.width + 1 } r
    else if c = '.' then
      if sp.decimalPoint.isSome then (sp, c :: r)
      else numLoop sign { sp with width := sp.width + 1, decimalPoint := some (sp.width + 1) } r
    else (sp, c :: r)

def emptySpec : NumSpec :=
  { width := 0, signEnd := false, signChar := none, comma := false, decimalPoint := none, realSharps := 0, decimalsN := 0 }

/-- parse_numeric_format_string at the head of `s`: the field and the unconsumed rest -/
def parseNumeric : Str → NumSpec × Str
  | [] => (emptySpec, [])
  | c :: r =>
    if c = '+' || c = '-' then numLoop true { emptySpec with signChar := some c, width := 1 } r
    else numLoop false emptySpec (c :: r)

inductive Part where
  | non (s : Str)
  | str (c : Char)          -- '&' or '!'
  | num (sp : NumSpec)
  deriving Repr, DecidableEq

def flush (non : Str) : List Part := if non.isEmpty then [] else [.non non]

inductive ScanRes where
  | ok (parts : List Part)
  | indexError              -- `fmt[i+1]` past the end (trailing underscore)
  | fuel                    -- cannot happen (fuel = 2·len + 2); kept explicit instead of defaulting
  deriving Repr, DecidableEq

def ScanRes.prepend (ps : List Part) : ScanRes → ScanRes
  | .ok qs => .ok (ps ++ qs)
  | r => r

/-- a field may begin with its decimal point (as repaired) -/
def startsField (c : Char) (r : Str) : Bool :=
  c = '#' || c = '+' || c = '-' || (c = '.' && r.head? = some '#')

/-- parse_format_string.  `lit` = the numeric-field test is switched off for the first character (`redo_no_number`; as
    repaired, NOT after a numeric field: the next character may start a field of its own) -/
def scan : Nat → Bool → Str → Str → ScanRes
  | 0, _, _, _ => .fuel
  | _ + 1, _, [], non => .ok (flush non)
  | f + 1, lit, c :: r, non =>
    if !lit && startsField c r then
      let (sp, rest) := parseNumeric (c :: r)
      if sp.realSharps = 0 then (scan f true (c :: r) []).prepend (flush non)
      else (scan f false rest []).prepend (flush non ++ [.num sp])
    else if c = '&' || c = '!' then (scan f false r []).prepend (flush non ++ [.str c])
    else if c = '_' then
      match r with
      | [] => .indexError
      | d :: r' => scan f false r' (non ++ [d])
    else scan f false r (non ++ [c])

def scanFmt (fmt : Str) : ScanRes := scan (2 * fmt.length + 2) false fmt []

/-! ### rendering one numeric field -/

/-- the decimal point at the edge of a field (as repaired): "##." shows the point, ".##" has no digit position before it -/
def adjustPoint (sp : NumSpec) (body : Str) : Str :=
  if sp.decimalPoint.isSome then
    if sp.decimalsN = 0 then body ++ ['.']
    else if sp.realSharps = sp.decimalsN && body.take 2 = ['0', '.'] then body.drop 1
    else body
  else body

/-- format_number after the number text is ready: `body` is that text, `neg` is `value < 0`.
    (As repaired: a trailing-sign field puts nothing in front of the digits.) -/
def renderCore (sp : NumSpec) (neg : Bool) (body : Str) : Str :=
  let plusType := sp.signChar = some '+'
  let sign : Char := if neg then '-' else if plusType then '+' else ' '
  let r0 : Str := if !sp.signEnd then sign :: body else body ++ [sign]
  let r1 : Str := if r0.length < sp.width then blanks (sp.width - r0.length) ++ r0 else r0
  let r2 : Str := if sign = ' ' && r1.length > sp.width && !sp.signEnd then r1.drop 1
                  else if sign = ' ' && r1.length > sp.width && sp.signEnd then r1.dropLast
                  else r1
  if r2.length > sp.width then '%' :: r2 else r2

/-- format_number after `result = fmt_str.format(abs(value))`: `body` is that text (Python's `format`, external) -/
def renderNum (sp : NumSpec) (neg : Bool) (body : Str) : Str := renderCore sp neg (adjustPoint sp body)

/-! ### the whole statement -/

inductive Val where
  | str (s : Str)
  | num (neg : Bool) (body : Str)   -- `value < 0` and Python's `format(abs(value), spec)` for the field this value meets
  deriving Repr

inductive FmtRes where
  | ok (out : Str)
  | host (cls : String)
  deriving Repr, DecidableEq

/-- `format(values)`: `nparts` = len(self.fmt_parts) (the "Not enough values" test compares with it),
    `i` = index of the next value -/
def fmtLoop (nparts : Nat) (vals : List Val) : List Part → Nat → Str → FmtRes
  | [], i, out => if i < vals.length then .host "RuntimeError" else .ok out
  | .non s :: ps, i, out => fmtLoop nparts vals ps i (out ++ s)
  | .str c :: ps, i, out =>
    if i ≥ nparts then .host "RuntimeError" else
    match vals[i]? with
    | none => .host "IndexError"
    | some (.num _ _) => .host "RuntimeError"
    | some (.str s) =>
      if c = '!' then
        match s with
        | [] => .host "IndexError"
        | h :: _ => fmtLoop nparts vals ps (i + 1) (out ++ [h])
      else fmtLoop nparts vals ps (i + 1) (out ++ s)
  | .num sp :: ps, i, out =>
    if i ≥ nparts then .host "RuntimeError" else
    match vals[i]? with
    | none => .host "IndexError"
    | some (.str _) => .host "TypeError"
    | some (.num neg b) => fmtLoop nparts vals ps (i + 1) (out ++ renderNum sp neg b)

def format (parts : List Part) (vals : List Val) : FmtRes := fmtLoop parts.length vals parts 0 []

end Qbee.Using
