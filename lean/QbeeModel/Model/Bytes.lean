/-
  Big-endian fixed-width integers as byte lists (struct.pack '>B', '>H', '>h', '>I', '>i').
-/
namespace Qbee.Bytes



/-- `k` bytes, most significant first, of `n mod 256^k` -/
def be : Nat → Nat → List Nat
  | 0, _ => []
  | k + 1, n => (n / 256 ^ k) % 256 :: be k (n % 256 ^ k)

/-- value of a big-endian byte string -/
def val : List Nat → Nat
  | [] => 0
  | b :: r => b * 256 ^ r.length + val r

/-- two's complement: signed value of an unsigned k-byte value -/
def toSigned (k : Nat) (u : Nat) : Int :=
  if u < 256 ^ k / 2 then (u : Int) else (u : Int) - (256 ^ k : Nat)

/-- two's complement: unsigned k-byte image of a signed value in range -/
def ofSigned (k : Nat) (i : Int) : Nat :=
  if 0 ≤ i then i.toNat else (i + (256 ^ k : Nat)).toNat

def InU (k : Nat) (n : Nat) : Prop := n < 256 ^ k
def InS (k : Nat) (i : Int) : Prop := -((256 ^ k / 2 : Nat) : Int) ≤ i ∧ i < ((256 ^ k / 2 : Nat) : Int)

def AllBytes (l : List Nat) : Prop := ∀ b ∈ l, b < 256

end Qbee.Bytes
