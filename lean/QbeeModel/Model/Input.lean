import QbeeModel.Model.Util
import QbeeModel.Model.NumFmt
import QbeeModel.Model.Data
/-
  M7 (part): INPUT  (qvm/machine.py TerminalDevice._exec_input, qbee/qvm_codegen.py gen_input).

  * argument protocol: same-line flag, prompt, question flag, type ids, count
  * `push_vars`: split at commas, strip, one field per variable, convert right to left,
    push only when the whole line is accepted (after the "fix:" commit; the unrepaired
    behaviour -- pushing while validating -- is kept as `tryLineOld` for the witness theorem)
  * the retry loop with "Redo from start"
-/
namespace Qbee.Input
open Qbee.NumFmt

/-- Python `string.split(',')` then `strip()` on each field -/
def fields (line : Str) : List Str := (Data.splitCommas line).map strip

/-- a converted field, i.e. the cell pushed for it -/
inductive Cell where
  | int (ty : Nat) (v : Int)        -- ty 1 INTEGER, 2 LONG
  | flt (ty : Nat) (tok : Str)      -- ty 3 SINGLE, 4 DOUBLE; value = float(tok) (external)
  | str (s : Str)
  deriving Repr, DecidableEq

inductive FieldRes where
  | ok (c : Cell)
  | reject            -- ValueError or out of range: the line is refused
  | gray              -- outside the modelled fragment (underscores, inf/nan, non-ASCII); float range of SINGLE
  | devErr            -- unknown type id: device error
  deriving Repr, DecidableEq

def convField (ty : Nat) (f : Str) : FieldRes :=
  if ty = 1 then
    match pyInt f with
    | .ok v => if v < -32768 || v > 32767 then .reject else .ok (.int 1 v)
    | .err => .reject
    | .gray => .gray
  else if ty = 2 then
    match pyInt f with
    | .ok v => if v < -2147483648 || v ≥ 2147483648 then .reject else .ok (.int 2 v)
    | .err => .reject
    | .gray => .gray
  else if ty = 3 || ty = 4 then
    match floatSyntax f with
    | .ok => .ok (.flt ty f)
    | .bad => .reject
    | .gray => .gray
  else if ty = 5 then .ok (.str f)
  else .devErr

/-- outcome of `push_vars` on one response line -/
inductive LineRes where
  | accepted (pushed : List Cell)   -- cells in push order (last variable first)
  | rejected (left : List Cell)     -- `return False`; `left` = cells left on the stack
  | gray
  | devErr
  deriving Repr, DecidableEq

/-- convert the (field, type) pairs in the order given (the caller passes them reversed);
    `acc` = cells converted so far -/
def convAll : List (Str × Nat) → List Cell → LineRes
  | [], acc => .accepted acc
  | (f, ty) :: r, acc =>
    match convField ty f with
    | .ok c => convAll r (acc ++ [c])
    | .reject => .rejected []          -- nothing was pushed yet
    | .gray => .gray
    | .devErr => .devErr

/-- `push_vars` as repaired: validate everything, then push -/
def tryLine (tys : List Nat) (line : Str) : LineRes :=
  let fs := fields line
  if fs.length ≠ tys.length then .rejected []
  else convAll (fs.zip tys).reverse []

/-- `push_vars` before the repair: each field is pushed as soon as it is validated -/
def convAllOld : List (Str × Nat) → List Cell → LineRes
  | [], acc => .accepted acc
  | (f, ty) :: r, acc =>
    match convField ty f with
    | .ok c => convAllOld r (acc ++ [c])
    | .reject => .rejected acc
    | .gray => .gray
    | .devErr => .devErr

def tryLineOld (tys : List Nat) (line : Str) : LineRes :=
  let fs := fields line
  if fs.length ≠ tys.length then .rejected []
  else convAllOld (fs.zip tys).reverse []

/-- what the device does, as a list of peripheral calls -/
inductive Call where
  | print (s : Str)
  | input
  deriving Repr, DecidableEq

structure Req where
  prompt : Str
  question : Bool
  tys : List Nat
  deriving Repr

def promptCalls (r : Req) : List Call :=
  .print r.prompt :: (if r.question then [.print "? ".toList] else []) ++ [.input]

inductive RunRes where
  | done (calls : List Call) (pushed : List Cell) (left : List Cell)
  | starved (calls : List Call) (left : List Cell)     -- script exhausted while prompting
  | gray (calls : List Call)
  | devErr (calls : List Call)
  deriving Repr, DecidableEq

def redo : Str := "Redo from start\r\n".toList

/-- the `while True` loop over a script of response lines; `left` accumulates whatever
    rejected lines left behind (always [] for the repaired `tryLine`) -/
def runWith (try_ : List Nat → Str → LineRes) (r : Req) : List Str → List Call → List Cell → RunRes
  | [], calls, left => .starved (calls ++ promptCalls r) left
  | line :: rest, calls, left =>
    match try_ r.tys line with
    | .accepted p => .done (calls ++ promptCalls r) p left
    | .rejected l => runWith try_ r rest (calls ++ promptCalls r ++ [.print redo]) (left ++ l)
    | .gray => .gray (calls ++ promptCalls r)
    | .devErr => .devErr (calls ++ promptCalls r)

def run (r : Req) (lines : List Str) : RunRes := runWith tryLine r lines [] []
def runOld (r : Req) (lines : List Str) : RunRes := runWith tryLineOld r lines [] []

/-! ### argument protocol (gen_input ↔ the pops of _exec_input) -/

inductive Arg where
  | int (n : Int)
  | str (s : Str)
  deriving Repr, DecidableEq

/-- what `gen_input` pushes, in push order -/
def encodeReq (sameLine : Bool) (r : Req) : List Arg :=
  [.int (if sameLine then -1 else 0), .str r.prompt, .int (if r.question then -1 else 0)] ++
  r.tys.map (fun t => .int t) ++ [.int r.tys.length]

def takeInts : Nat → List Arg → Option (List Nat × List Arg)
  | 0, r => some ([], r)
  | n + 1, .int t :: r => if t < 0 then none else (takeInts n r).map fun (ts, r') => (t.toNat :: ts, r')
  | _, _ => none

/-- the pops of `_exec_input`, applied to the reversed push sequence (top of stack first) -/
def decodeReq (stackTopFirst : List Arg) : Option (Bool × Req) :=
  match stackTopFirst with
  | .int n :: r =>
    if n ≤ 0 then none else
    match takeInts n.toNat r with
    | some (tysRev, .int q :: .str p :: .int sl :: []) =>
      some (sl ≠ 0, { prompt := p, question := q ≠ 0, tys := tysRev.reverse })
    | _ => none
  | _ => none

end Qbee.Input
