import QbeeModel.Gen.Effects
/-
  M11: an abstract semantics of "a computation of the process" for C20.

  A computation (one compilation, one run of a module) is an interaction tree: it may read or write a location that is
  shared by the whole process (module-level / class-level state), ask the process environment a question (clock, RNG,
  id / hash, working directory), consume a set in iteration order, and finally return its observable output.
  The environment supplies the shared store left behind by everything that ran before, and two oracles (ambient answers
  and set orders) that may differ from process to process (hash seed, time, cwd).
-/
namespace Qbee.Effects
open Qbee.Gen

inductive Comp (V : Type) where
  | ret (out : List V)
  | readShared (loc : Nat) (k : V → Comp V)
  | writeShared (loc : Nat) (v : V) (k : Comp V)
  | ambient (k : V → Comp V)
  | setOrder (k : V → Comp V)

structure Env (V : Type) where
  shared : Nat → V
  amb : Nat → V         -- the i-th ambient answer of this process
  ord : Nat → V         -- the i-th set order of this process
  namb : Nat
  nord : Nat

/-- run a computation: the output and the environment it leaves behind -/
def run {V : Type} : Comp V → Env V → List V × Env V
  | .ret out, e => (out, e)
  | .readShared l k, e => run (k (e.shared l)) e
  | .writeShared l v k, e => run k { e with shared := fun l' => if l' = l then v else e.shared l' }
  | .ambient k, e => run (k (e.amb e.namb)) { e with namb := e.namb + 1 }
  | .setOrder k, e => run (k (e.ord e.nord)) { e with nord := e.nord + 1 }

/-- a computation that only reads shared state -/
inductive Quiet {V : Type} : Comp V → Prop where
  | ret (out : List V) : Quiet (.ret out)
  | readShared (l : Nat) (k : V → Comp V) (h : ∀ v, Quiet (k v)) : Quiet (.readShared l k)

/-- an action of the given kind occurs somewhere in the computation -/
inductive Occurs {V : Type} : EffKind → Comp V → Prop where
  | writeHere (l : Nat) (v : V) (k : Comp V) : Occurs .write (.writeShared l v k)
  | ambientHere (k : V → Comp V) : Occurs .ambient (.ambient k)
  | orderHere (k : V → Comp V) : Occurs .setIter (.setOrder k)
  | inRead (kd : EffKind) (l : Nat) (k : V → Comp V) (v : V) (h : Occurs kd (k v)) : Occurs kd (.readShared l k)
  | inWrite (kd : EffKind) (l : Nat) (v : V) (k : Comp V) (h : Occurs kd k) : Occurs kd (.writeShared l v k)
  | inAmbient (kd : EffKind) (k : V → Comp V) (v : V) (h : Occurs kd (k v)) : Occurs kd (.ambient k)
  | inOrder (kd : EffKind) (k : V → Comp V) (v : V) (h : Occurs kd (k v)) : Occurs kd (.setOrder k)

/-- the summary reports every action of the computation that is not a plain read as a NON-allowed effect
    (allow-listed entries are, by the reasons recorded next to them, not actions of the computation: import-time
    registration, code off the path, the scripted devices) - the translator's contract -/
def Covers {V : Type} (s : List Eff) (c : Comp V) : Prop :=
  ∀ kd, Occurs kd c → ∃ e ∈ s, e.kind = kd ∧ e.allowed = false

/-- the per-run obligation: every extracted effect is on the allow list -/
def Deterministic (s : List Eff) : Bool := s.all (·.allowed)

end Qbee.Effects
