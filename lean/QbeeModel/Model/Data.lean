import QbeeModel.Model.Util
import QbeeModel.Model.NumFmt
/-
  M7 (part): DATA / READ / RESTORE.

  * `parseData`   qbee/utils.py `parse_data` (the four-state tokeniser)
  * `groupData`   Pass1.process_data_pre + QvmCodeGen.init_code: DATA items grouped by the last label seen
  * `labelIndex`  QvmCode.get_data_label_index
  * `Cur`, `readRaw`, `restore`   qvm/machine.py DataDevice (cursor arithmetic, Python list indexing incl. negative)
-/
namespace Qbee.Data

inductive DItem where
  | empty                -- `Empty.value`
  | str (s : Str)
  deriving Repr, DecidableEq

/-- the `whitespace = ' \t'` of parse_data -/
def isBT (c : Char) : Bool := c = ' ' || c = '\t'

inductive PState where
  | before
  | unq (item : Str)
  | quo (item : Str)
  | after

/-- `parse_data`, as the items produced from the current state on; `none` = `return None` -/
def pd : PState → Str → Option (List DItem)
  | .before, [] => some [.empty]
  | .before, c :: r =>
    if isBT c then pd .before r
    else if c = ',' then (pd .before r).map (.empty :: ·)
    else if c = '"' then pd (.quo []) r
    else pd (.unq [c]) r
  | .unq it, [] => some [.str (NumFmt.strip it)]
  | .unq it, c :: r =>
    if c = ',' then (pd .before r).map (.str (NumFmt.strip it) :: ·)
    else pd (.unq (it ++ [c])) r
  | .quo it, [] => some [.str it]
  | .quo it, c :: r =>
    if c = '"' then (pd .after r).map (.str it :: ·)
    else pd (.quo (it ++ [c])) r
  | .after, [] => some []
  | .after, c :: r =>
    if isBT c then pd .after r
    else if c = ',' then pd .before r
    else none

def parseData (s : Str) : Option (List DItem) := pd .before s

/-- split at commas: the first field and the remaining fields -/
def split1 : Str → Str × List Str
  | [] => ([], [])
  | c :: r => if c = ',' then ([], (split1 r).1 :: (split1 r).2) else (c :: (split1 r).1, (split1 r).2)

def splitCommas (s : Str) : List Str := (split1 s).1 :: (split1 s).2

/-! ### grouping by label -/

inductive Ev where
  | label (l : String)          -- a label or line number (canonical name) in source order
  | data (items : List DItem)   -- a DATA statement of the main program
  deriving Repr

/-- `compilation.data[self._last_label].extend(node.items)` over a dict that keeps insertion order;
    the key `none` is the `_toplevel_data` group -/
def addTo (groups : List (Option String × List DItem)) (key : Option String) (items : List DItem) :
    List (Option String × List DItem) :=
  match groups with
  | [] => [(key, items)]
  | (k, its) :: r => if k = key then (k, its ++ items) :: r else (k, its) :: addTo r key items

def groupFrom (last : Option String) (groups : List (Option String × List DItem)) :
    List Ev → List (Option String × List DItem)
  | [] => groups
  | .label l :: r => groupFrom (some l) groups r
  | .data items :: r => groupFrom last (addTo groups last items) r

def groupData (evs : List Ev) : List (Option String × List DItem) := groupFrom none [] evs

/-- the data section: one part per group -/
def parts (evs : List Ev) : List (List DItem) := (groupData evs).map (·.2)

/-- `list(self._data.keys()).index(label)`; `none` = ValueError (compiler crash) -/
def labelIndex (groups : List (Option String × List DItem)) (l : String) : Option Nat :=
  match groups with
  | [] => none
  | (k, _) :: r => if k = some l then some 0 else (labelIndex r l).map (· + 1)

/-- the labels of the program in source order (`compilation.label_order`) -/
def labelOrder : List Ev → List String
  | [] => []
  | .label l :: r => l :: labelOrder r
  | .data _ :: r => labelOrder r

/-- the first of these labels that has a group of its own; none: one past the last group -/
def firstKeyed (groups : List (Option String × List DItem)) : List String → Nat
  | [] => groups.length
  | k :: r =>
    match labelIndex groups k with
    | some i => i
    | none => firstKeyed groups r

/-- `get_data_label_index` as repaired: the label's own group; if no DATA statement stands between the label and the next
    label, the group of the first later label that has one; if no DATA follows at all, one past the last group
    (the next READ is out of data) -/
def labelTarget (groups : List (Option String × List DItem)) (order : List String) (l : String) : Nat :=
  match labelIndex groups l with
  | some i => i
  | none => firstKeyed groups ((order.dropWhile (· != l)).drop 1)

/-! ### the READ cursor -/

structure Cur where
  part : Int
  idx : Nat
  deriving Repr, DecidableEq

/-- Python `l[i]` for an int `i` (negative indices count from the end); `none` = IndexError -/
def pyIndex {α} (l : List α) (i : Int) : Option α :=
  if 0 ≤ i then l[i.toNat]?
  else if (-i).toNat ≤ l.length then l[l.length - (-i).toNat]? else none

/-- `_exec_read` up to the conversion: the item under the cursor and the advanced cursor;
    `none` = "Out of data" -/
def readRaw (data : List (List DItem)) (c : Cur) : Option (DItem × Cur) :=
  match pyIndex data c.part with
  | none => none
  | some p =>
    match p[c.idx]? with
    | none => none
    | some it =>
      some (it, if c.idx + 1 ≥ p.length then ⟨c.part + 1, 0⟩ else ⟨c.part, c.idx + 1⟩)

/-- `_exec_restore` -/
def restore (partIdx : Int) : Cur := ⟨partIdx, 0⟩

/-- k successive READs (stops at the first failure) -/
def readMany (data : List (List DItem)) : Cur → Nat → List DItem
  | _, 0 => []
  | c, k + 1 =>
    match readRaw data c with
    | none => []
    | some (it, c') => it :: readMany data c' k

/-- conversion of a DATA item for a numeric target of integral type -/
inductive RVal where
  | int (v : Int) | str (s : Str) | flt (tok : Str) | badType | range | gray
  deriving Repr, DecidableEq

/-- `int(s)` / `float(s)` / `s` by target type id (1,2 integral; 3,4 float; 5 string).
    `float(s)` is external: the token is returned (its range check is not modelled). -/
def convert (ty : Nat) : DItem → RVal
  | .empty => if ty = 5 then .str [] else if ty = 3 || ty = 4 then .flt ['0'] else .int 0
  | .str s =>
    if ty = 5 then .str s
    else if ty = 3 || ty = 4 then
      match NumFmt.floatSyntax s with
      | .ok => .flt s
      | .bad => .badType
      | .gray => .gray
    else match NumFmt.pyInt s with
      | .ok v =>
        -- `cpu.push` range-checks the cell (INVALID_CELL_VALUE) before the cursor moves
        if ty = 1 && (v < -32768 || v > 32767) then .range
        else if ty = 2 && (v < -2147483648 || v > 2147483647) then .range
        else .int v
      | .err => .badType
      | .gray => .gray

end Qbee.Data
