import QbeeModel.Model.ExprSem
import QbeeModel.Model.Fold
/-
  M10: the debugger's `print <expr>` on INTEGER / LONG expression trees (qvm/dbg.py do_print, qvm/eval.py,
  qbee/expr.py BinaryOp.eval / UnaryOp.eval - the compile-time evaluator applied to values read from memory).
  A leaf is a variable, array element, record field, constant or literal: its declared type and current value.
  Everything outside the integral fragment (float and string leaves, /, ^) is `unsupported`: the model makes no claim
  there (the probe oracle of harness/checks/c13.py covers it).
-/
namespace Qbee.DbgEval
open Qbee.Gen Qbee.ExprC Qbee.Arith Qbee.ExprSem Qbee.Fold

inductive DRes where
  | val (t : Ty) (n : Int)     -- the value printed, with the static type of the expression
  | err                        -- "Eval error" (OverflowError / ZeroDivisionError of the evaluator)
  | unsupported
  deriving Repr, DecidableEq

def isInt (t : Ty) : Bool := decide (t = .i) || decide (t = .l)

def intOpB : BinOp → Bool
  | .add | .sub | .mul | .idiv | .mod | .and | .or | .xor | .eqv | .imp => true
  | _ => false

/-- the machine's eq / ne / lt / gt / le / ge on the result of cmp; the evaluator's qbool(a <op> b) -/
def cmpUn : UnOp → Int → Option Int
  | .eq, c => some (if c = 0 then -1 else 0)
  | .ne, c => some (if c = 0 then 0 else -1)
  | .lt, c => some (if c < 0 then -1 else 0)
  | .gt, c => some (if 0 < c then -1 else 0)
  | .le, c => some (if c ≤ 0 then -1 else 0)
  | .ge, c => some (if 0 ≤ c then -1 else 0)
  | _, _ => none

def cmp3 (x y : Int) : Int := if x = y then 0 else if x < y then -1 else 1

/-- BinaryOp._eval_numeric on two integral operand values already known to be in the range of the operand type T -/
def dbgApply (op : Nat) (t0 T : Ty) (x y : Int) : DRes :=
  match specOps op with
  | [.bin b] =>
    if intOpB b then
      match foldInt b T x y with
      | .lit t' n => if t' = t0 && inRange t0 n && isInt t0 then .val t0 n else .unsupported
      | .unfolded => .err
      | .host _ => .unsupported
    else .unsupported
  | [.bin .cmp, .un u] =>
    match cmpUn u (cmp3 x y) with
    | some v => if t0 = .i && inRange .i v then .val .i v else .unsupported
    | none => .unsupported
  | _ => .unsupported

def dbgUn (op : Nat) (t : Ty) (x : Int) : DRes :=
  if op = 14 then (match foldUnInt true t x with | .lit t' n => if t' = t then .val t n else .unsupported | .unfolded => .err | .host _ => .unsupported)
  else if op = 15 then .val t x
  else if op = 16 then (match foldUnInt false t x with | .lit t' n => if t' = t then .val t n else .unsupported | .unfolded => .err | .host _ => .unsupported)
  else .unsupported

def dbgEval {F} : CE F → DRes
  | .leaf (.int t n) => if isInt t && inRange t n then .val t n else .unsupported
  | .leaf _ => .unsupported
  | .bin op a b =>
    match ty a.erase, ty b.erase with
    | some l, some r =>
      match ty (.bin op (.atom l) (.atom r)) with
      | some t0 =>
        if isInt (specTy op l r t0) && isInt l && isInt r then
          match dbgEval a with
          | .unsupported => .unsupported
          | .err => (match dbgEval b with | .unsupported => .unsupported | _ => .err)
          | .val _ x =>
            match dbgEval b with
            | .unsupported => .unsupported
            | .err => .err
            | .val _ y =>
              if inRange (specTy op l r t0) x && inRange (specTy op l r t0) y then dbgApply op t0 (specTy op l r t0) x y
              else .err           -- converting an operand to the operand type overflows
        else .unsupported
      | none => .unsupported
    | _, _ => .unsupported
  | .un op a =>
    match ty a.erase with
    | some t =>
      if isInt t && (op = 14 || op = 15 || op = 16) then
        match ty (.un op (.atom t)) with
        | some t0 =>
          if t0 = t then
            match dbgEval a with
            | .val _ x => dbgUn op t x
            | .err => .err
            | .unsupported => .unsupported
          else .unsupported
        | none => .unsupported
      else .unsupported
    | none => .unsupported

end Qbee.DbgEval
