import QbeeModel.Model.Bytes
/-
  M3: the module container.  Literals and DATA sections as written by QvmCode.__bytes__ and read by
  qvm/module.py parse_literals_section / parse_data_section.  Strings are cp437 byte strings here
  (the codec is the generated table Gen/Cp437.lean).
-/
namespace Qbee.Module
open Qbee.Bytes

def takeN (n : Nat) (bs : List Nat) : Option (List Nat × List Nat) :=
  if bs.length < n then none else some (bs.take n, bs.drop n)

/-! ### literals section: repeated (>H length, bytes) -/

def serLiterals : List (List Nat) → List Nat
  | [] => []
  | l :: r => be 2 l.length ++ l ++ serLiterals r

/-- `while idx < len(section)`; a truncated tail makes Python slice short: modelled as `none` -/
def parseLiterals : Nat → List Nat → Option (List (List Nat))
  | _, [] => some []
  | 0, _ :: _ => none
  | f + 1, bs =>
    match takeN 2 bs with
    | none => none
    | some (h, r) =>
      match takeN (val h) r with
      | none => none
      | some (s, r') => (parseLiterals f r').map (s :: ·)

/-! ### data section: >H parts; per part >h items (read >H); per item >h length (-1 = Empty) -/

abbrev Item := Option (List Nat)      -- none = Empty

def serItem : Item → List Nat
  | none => be 2 (ofSigned 2 (-1))
  | some s => be 2 (ofSigned 2 s.length) ++ s

def serItems : List Item → List Nat
  | [] => []
  | i :: r => serItem i ++ serItems r

def serPart (p : List Item) : List Nat := be 2 (ofSigned 2 p.length) ++ serItems p

def serParts : List (List Item) → List Nat
  | [] => []
  | p :: r => serPart p ++ serParts r

def serData (d : List (List Item)) : List Nat := be 2 d.length ++ serParts d

def parseItems : Nat → List Nat → Option (List Item × List Nat)
  | 0, bs => some ([], bs)
  | n + 1, bs =>
    match takeN 2 bs with
    | none => none
    | some (h, r) =>
      let size := toSigned 2 (val h)
      if size < 0 then (parseItems n r).map fun (its, r') => (none :: its, r')
      else
        match takeN size.toNat r with
        | none => none
        | some (s, r') => (parseItems n r').map fun (its, r'') => (some s :: its, r'')

def parseParts : Nat → List Nat → Option (List (List Item) × List Nat)
  | 0, bs => some ([], bs)
  | n + 1, bs =>
    match takeN 2 bs with
    | none => none
    | some (h, r) =>
      match parseItems (val h) r with
      | none => none
      | some (its, r') => (parseParts n r').map fun (ps, r'') => (its :: ps, r'')

def parseData (bs : List Nat) : Option (List (List Item)) :=
  match takeN 2 bs with
  | none => none
  | some (h, r) =>
    match parseParts (val h) r with
    | some (ps, []) => some ps
    | _ => none

def WFItem : Item → Prop
  | none => True
  | some s => s.length < 32768 ∧ AllBytes s

def WFData (d : List (List Item)) : Prop :=
  d.length < 65536 ∧ ∀ p ∈ d, p.length < 32768 ∧ ∀ i ∈ p, WFItem i

def WFLiterals (ls : List (List Nat)) : Prop := ∀ l ∈ ls, l.length < 65536 ∧ AllBytes l

end Qbee.Module
