/-
  M4: storage layout (qvm/memlayout.py get_type_size / get_local_var_idx / get_global_var_idx /
  get_dotted_index; the array header and `_exec_arridx`).
-/
namespace Qbee.Layout

/-- shape of a scalar or record value: a tree whose leaves are cells -/
inductive FType where
  | cell                          -- INTEGER, LONG, SINGLE, DOUBLE, STRING: one cell
  | record (fields : List FType)  -- TYPE … END TYPE, fields in declaration order
  deriving Repr

mutual
  /-- get_type_size for builtin and user-defined types -/
  def FType.size : FType → Nat
    | .cell => 1
    | .record fs => sizeL fs
  def sizeL : List FType → Nat
    | [] => 0
    | f :: r => f.size + sizeL r
end

/-- a declared variable -/
inductive VType where
  | val (t : FType)
  | sarr (elem : FType) (dims : List (Int × Int))   -- static array: header + elements inline
  | dyn                                              -- dynamic array / array parameter: one reference cell
  deriving Repr

def extent (d : Int × Int) : Nat := (d.2 - d.1 + 1).toNat

def prodExt : List (Int × Int) → Nat
  | [] => 1
  | d :: r => extent d * prodExt r

def headerSize (dims : List (Int × Int)) : Nat := 3 + 2 * dims.length

/-- get_type_size for variables -/
def VType.size : VType → Nat
  | .val t => t.size
  | .sarr e dims => prodExt dims * e.size + headerSize dims
  | .dyn => 1

/-- get_local_var_idx / get_global_var_idx: sum of the sizes of the earlier declarations;
    `none` = KeyError -/
def varIdx : List (String × VType) → String → Option Nat
  | [], _ => none
  | (n, t) :: r, v => if n = v then some 0 else (varIdx r v).map (· + t.size)

def frameSize : List (String × VType) → Nat
  | [] => 0
  | (_, t) :: r => t.size + frameSize r

/-- get_param_size: the storage of a parameter in the callee's frame is ONE cell whatever it refers to (a scalar, a whole
    record, an array): the caller passes a reference -/
def paramSlot (_ : VType) : VType := .dyn

/-- the declarations of a routine's frame in storage order: parameters (one cell each), then locals -/
def routineFrame (params locals : List (String × VType)) : List (String × VType) :=
  params.map (fun p => (p.1, paramSlot p.2)) ++ locals

/-- the frame as it was sized before the repair: a record parameter took the room of the whole record -/
def routineFrameOld (params locals : List (String × VType)) : List (String × VType) := params ++ locals

/-- get_dotted_index: offset of the field reached by a path of field positions; `none` = bad path -/
def fieldOffset : FType → List Nat → Option Nat
  | _, [] => some 0
  | .cell, _ :: _ => none
  | .record fs, i :: p =>
    match fs[i]? with
    | none => none
    | some f => (fieldOffset f p).map (· + sizeL (fs.take i))

/-- the type a path ends at -/
def fieldType : FType → List Nat → Option FType
  | t, [] => some t
  | .cell, _ :: _ => none
  | .record fs, i :: p =>
    match fs[i]? with
    | none => none
    | some f => fieldType f p

/-- `_exec_arridx` after the header: bounds check per dimension and the row-major element offset
    (in cells, relative to the first element); `none` = INDEX_OUT_OF_RANGE / INVALID_DIMENSIONS -/
def elemOffset (esize : Nat) : List (Int × Int) → List Int → Option Nat
  | [], [] => some 0
  | d :: ds, i :: is =>
    if i < d.1 ∨ i > d.2 then none
    else (elemOffset esize ds is).map (· + prodExt ds * esize * (i - d.1).toNat)
  | _, _ => none

/-- cell index of an element inside the array's storage (header included) -/
def elemIndex (esize : Nat) (dims : List (Int × Int)) (idxs : List Int) : Option Nat :=
  (elemOffset esize dims idxs).map (· + headerSize dims)

end Qbee.Layout

namespace Qbee.Layout

/-! ### cells: store, the default-materialising reads, parameter binding -/

/-- a memory segment: cell index ↦ content (`none` = never assigned) -/
abbrev Mem (V : Type) := Nat → Option V

def Mem.store {V} (m : Mem V) (c : Nat) (x : V) : Mem V := fun c' => if c' = c then some x else m c'

/-- read* / readidx* / deref* (as repaired): an unset cell reads as the default, which is also
    written back into the cell that was read -/
def readCell {V} (dflt : V) (m : Mem V) (c : Nat) : V × Mem V :=
  match m c with
  | some v => (v, m)
  | none => (dflt, m.store c dflt)

/-- readidx* before the repair: the default was written to cell `idx` instead of `var + idx` -/
def readIdxOld {V} (dflt : V) (m : Mem V) (var idx : Nat) : V × Mem V :=
  match m (var + idx) with
  | some v => (v, m)
  | none => (dflt, m.store idx dflt)

/-- an argument as it sits on the operand stack when `frame` executes -/
inductive Arg (V : Type) where
  | ref (seg : Nat) (idx : Nat)    -- lvalue argument: reference to the caller's location
  | val (v : V)                    -- expression argument: a value

/-- a cell of a new call frame -/
inductive FCell (V : Type) where
  | unset
  | ref (seg : Nat) (idx : Nat)    -- reference (seg 0 = this frame)
  | val (v : V)

/-- `_exec_frame` + `set_temp_reference`: parameters first, then unset locals, then one appended
    temporary per by-value argument (in the order the arguments are popped: last argument first);
    `bindGo` returns (parameter cells, temporaries) -/
def bindGo {V} (next : Nat) : List (Arg V) → List (FCell V) × List (FCell V)
  | [] => ([], [])
  | a :: r =>
    -- `r` (the later arguments) are popped earlier, so their temporaries come first
    match a with
    | .ref s i => (.ref s i :: (bindGo next r).1, (bindGo next r).2)
    | .val v => (.ref 0 (next + (bindGo next r).2.length) :: (bindGo next r).1, (bindGo next r).2 ++ [.val v])

def bindParams {V} (nLocals : Nat) (args : List (Arg V)) : List (FCell V) :=
  (bindGo (args.length + nLocals) args).1 ++ List.replicate nLocals .unset ++ (bindGo (args.length + nLocals) args).2

/-- number of by-value arguments in a list -/
def nVals {V} : List (Arg V) → Nat
  | [] => 0
  | .ref _ _ :: r => nVals r
  | .val _ :: r => nVals r + 1

end Qbee.Layout
