import QbeeModel.Model.Arith
/-
  M6 (part): compile-time evaluation (qbee/expr.py BinaryOp._eval_numeric with `limit`, UnaryOp.eval,
  Expr.fold) on INTEGER / LONG operands, and the value-level content of the peephole rules
  push+conv, push+unary, push+push+binary (qbee/qvm_codegen.py QvmCode.optimize), as repaired.
-/
namespace Qbee.Fold
open Qbee.Gen Qbee.Arith

/-- ctypes.c_short(x).value / ctypes.c_int(x).value: two's-complement wrap-around -/
def wrap (t : Ty) (x : Int) : Int :=
  match t with
  | .i => (x + 32768) % 65536 - 32768
  | _ => (x + 2147483648) % 4294967296 - 2147483648

inductive FoldRes where
  | lit (t : Ty) (n : Int)      -- folded into a literal of type t
  | unfolded                    -- OverflowError / ZeroDivisionError: the expression is kept
  | host (cls : String)         -- any other exception: the compiler crashes
  deriving Repr, DecidableEq

/-- `limit(x)` for an integral result type: OverflowError unless c_type(x).value == x -/
def limit (t : Ty) (x : Int) : FoldRes := if wrap t x = x then .lit t x else .unfolded

/-- BinaryOp._eval_numeric + Expr.fold for two operands already coerced to the integral operand type `t`
    (arithmetic and logic: result type t; comparison: INTEGER, no limit) -/
def foldInt (op : BinOp) (t : Ty) (a b : Int) : FoldRes :=
  match op with
  | .add => limit t (a + b)
  | .sub => limit t (a - b)
  | .mul => limit t (a * b)
  | .idiv => if b = 0 then .unfolded else limit t (qbIDiv a b)
  | .mod => if b = 0 then .unfolded else limit t (qbMod a b)
  | .and => limit t (iand a b)
  | .or => limit t (ior a b)
  | .xor => limit t (ixor a b)
  | .eqv => limit t (inot (ixor a b))
  | .imp => limit t (ior (inot a) b)
  | .exp =>
    if 0 ≤ b then limit t (ipow a b.toNat)
    else if a = 0 then .unfolded          -- 0 ** negative: ZeroDivisionError
    else limit t (negPowRound a b)        -- float power, rounded like the machine does (as repaired)
  | .cmp => .lit .i (if a = b then 0 else if a < b then -1 else 1)
  | .div => .host "not-modelled"          -- result type SINGLE: float path (external)

/-- UnaryOp.eval (as repaired) on an integral operand -/
def foldUnInt (neg : Bool) (t : Ty) (a : Int) : FoldRes :=
  let v := if neg then -a else inot a
  if inRange t v then .lit t v else .unfolded

/-- push <t> a ; conv<t><d>  ⇒  push <d> a   (integral to integral), only when the value fits -/
def phConvInt (d : Ty) (a : Int) : Option Int := if inRange d a then some a else none

/-- the folder's conversion of a float operand to the integral operand type of \\, MOD, AND, OR, XOR, EQV, IMP
    (`operand_type.coerce` = round half to even, then `can_hold`); none = OverflowError, the expression is kept -/
def foldOperandFromFloat {F} (ops : FOps F) (t : Ty) (x : F) : Option Int :=
  match ops.roundEven x with
  | none => none
  | some n => if inRange t n then some n else none

end Qbee.Fold
