import QbeeModel.Model.Bytes
/-
  M2 (part): the assembler's treatment of the symbolic instruction stream (QvmCode.assembled): labels and
  debug markers occupy no bytes, label operands are patched with the label's offset after the walk.
-/
namespace Qbee.Asm
open Qbee.Bytes

inductive Arg where
  | bytes (bs : List Nat)        -- already encoded operand bytes
  | lbl (name : String)          -- a label operand (call / jmp / jz / errhand): 4 bytes, patched
  deriving Repr, DecidableEq

inductive SI where
  | ins (opcode : Nat) (args : List Arg)
  | label (name : String)        -- `_label`
  | marker (kind : Nat)          -- `_dbg_info_start` / `_dbg_info_end` / `_empty_block` (0, 1, 2)
  deriving Repr, DecidableEq

def argSize : Arg → Nat
  | .bytes bs => bs.length
  | .lbl _ => 4

def argsSize : List Arg → Nat
  | [] => 0
  | a :: r => argSize a + argsSize r

def size : SI → Nat
  | .ins _ args => 1 + argsSize args
  | _ => 0

/-- first pass: the offset of every label (`labels[name] = cur_offset`; a later duplicate overwrites) -/
def labelTable : List SI → Nat → List (String × Nat)
  | [], _ => []
  | .label n :: r, off => (n, off) :: labelTable r off
  | i :: r, off => labelTable r (off + size i)

/-- dict semantics: the LAST binding of a name wins -/
def lookupLast (tbl : List (String × Nat)) (n : String) : Option Nat :=
  match tbl with
  | [] => none
  | (k, v) :: r =>
    match lookupLast r n with
    | some v' => some v'
    | none => if k = n then some v else none

def emitArg (tbl : List (String × Nat)) : Arg → Option (List Nat)
  | .bytes bs => some bs
  | .lbl n => (lookupLast tbl n).map (be 4)      -- KeyError if the label is undefined

def emitArgs (tbl : List (String × Nat)) : List Arg → Option (List Nat)
  | [] => some []
  | a :: r => do let x ← emitArg tbl a; let y ← emitArgs tbl r; pure (x ++ y)

/-- second pass: bytes of the code section -/
def emit (tbl : List (String × Nat)) : List SI → Option (List Nat)
  | [] => some []
  | .ins op args :: r => do let a ← emitArgs tbl args; let rest ← emit tbl r; pure (op :: a ++ rest)
  | _ :: r => emit tbl r

def assemble (s : List SI) : Option (List Nat) := emit (labelTable s 0) s

def isMarker : SI → Bool
  | .marker _ => true
  | _ => false

/-- the stream the code generator produces without debug information -/
def erase (s : List SI) : List SI := s.filter (fun i => !isMarker i)

/-- offsets at which the debug collector is told a marker sits -/
def markerOffsets : List SI → Nat → List (Nat × Nat)
  | [], _ => []
  | .marker k :: r, off => (k, off) :: markerOffsets r off
  | i :: r, off => markerOffsets r (off + size i)

/-- instruction start offsets -/
def starts : List SI → Nat → List Nat
  | [], _ => []
  | .ins op args :: r, off => off :: starts r (off + size (.ins op args))
  | _ :: r, off => starts r off

def totalSize : List SI → Nat
  | [] => 0
  | i :: r => size i + totalSize r

end Qbee.Asm
