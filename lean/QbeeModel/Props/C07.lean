import QbeeModel.Model.Tick
import QbeeModel.Model.Arith
/-
  C07  The virtual machine is total: every run ends in a halt or a trap.  Property theorems only.

  Proved over the control skeleton (Model/Tick.lean, any instruction semantics) and the typed arithmetic
  (Model/Arith.lean).  Instructions outside those models (strings, arrays, devices, float ^) are covered by the
  search for host exceptions on generated programs, not by a theorem.
-/
namespace Qbee.Tick

def Armed (s : St) : Prop := ∃ a, s.target = .addr a

/-- an interrupt request pending at an instruction boundary, with no handler armed (or the handler already
    running), stops the run with the keyboard-interrupt error before any further instruction executes:
    whatever the next instruction is, pc does not move -/
theorem tick_interrupt (codeLen : Nat) (s : St) (ik : IK) (stmt : Option (Nat × Nat))
    (hi : s.interrupt = true) (hn : s.target = .off ∨ s.active = true) :
    tick codeLen s ik stmt = .st { s with interrupt := false, lastTrap := some KEYBOARD_INTERRUPT,
                                          halted := true, reason := .trap } := by
  unfold tick
  simp only [hi, if_true, trapDispatch]
  rcases hn with h | h
  · simp [h]
  · simp [h]

/-- the interrupt is consumed: the flag is cleared in every case -/
theorem tick_interrupt_clears (codeLen : Nat) (s : St) (ik : IK) (stmt : Option (Nat × Nat))
    (hi : s.interrupt = true) :
    match tick codeLen s ik stmt with
    | .st s' => s'.interrupt = false
    | .host _ s' => s'.interrupt = false := by
  unfold tick
  simp only [hi, if_true, trapDispatch]
  cases ha : s.active <;> cases ht : s.target <;> simp [resumeNext]
  all_goals (cases stmt <;> simp)

/-- with no handler armed every error is fatal and reported: the run ends in the TRAP state -/
theorem unarmed_trap_halts (codeLen : Nat) (s : St) (code sz : Nat) (stmt : Option (Nat × Nat))
    (hi : s.interrupt = false) (ht : s.target = .off) :
    tick codeLen s (.traps code sz) stmt =
      .st { s with pc := s.pc + sz, prevPc := s.pc, lastTrap := some code, trappedAddr := s.pc, halted := true, reason := .trap } := by
  unfold tick; simp [hi, trapDispatch, ht, endCheck]

/-- tick never lets an exception escape unless the instruction itself raises a host exception:
    Trapped and ZeroDivisionError always become a dispatched or reported trap -/
theorem tick_total (codeLen : Nat) (s : St) (ik : IK) (stmt : Option (Nat × Nat)) (cls : String) (s' : St)
    (h : tick codeLen s ik stmt = .host cls s') : ∃ c sz, ik = .host c sz := by
  unfold tick at h
  by_cases hi : s.interrupt = true
  · simp only [hi, if_true, trapDispatch] at h
    cases ha : s.active <;> cases ht : s.target <;> cases stmt <;> simp_all [resumeNext]
  · have hi' : s.interrupt = false := by simpa using hi
    simp only [hi', Bool.false_eq_true, if_false] at h
    cases ik with
    | host c sz => exact ⟨c, sz, rfl⟩
    | plain n => simp [endCheck] at h; split at h <;> simp at h
    | halt => simp [endCheck] at h
    | invalidOp =>
      simp only [trapDispatch] at h
      cases ha : s.active <;> cases ht : s.target <;> cases stmt <;> simp_all [resumeNext]
    | traps c sz =>
      simp only [trapDispatch, endCheck] at h
      cases ha : s.active <;> cases ht : s.target <;> cases stmt <;> simp_all [resumeNext] <;> (split at h <;> simp at h)
    | errhand t sz =>
      by_cases hact : s.active = true
      · by_cases ht0 : t = 0
        · simp [hact, ht0, trapDispatch, endCheck] at h
        · simp [hact, ht0, trapDispatch, endCheck] at h
      · have hact' : s.active = false := by simpa using hact
        simp [hact', endCheck] at h
        split at h <;> simp at h
    | errres sz =>
      cases stmt with
      | some p => simp [endCheck] at h; split at h <;> simp at h
      | none =>
        simp only [trapDispatch, endCheck, resumeNext] at h
        cases ha : s.active <;> cases ht : s.target <;> simp_all <;> (split at h <;> simp at h)
    | errresn sz =>
      cases stmt with
      | some p => simp [endCheck] at h; split at h <;> simp at h
      | none =>
        simp only [trapDispatch, endCheck, resumeNext] at h
        cases ha : s.active <;> cases ht : s.target <;> simp_all <;> (split at h <;> simp at h)

end Qbee.Tick

namespace Qbee.Arith
open Qbee.Gen

/-- dividing by zero -- `/`, `\`, MOD on integral operands -- is reported as DIVISION_BY_ZERO -/
theorem division_by_zero_traps {F} (ops : FOps F) (t : Ty) (ht : t = .i ∨ t = .l) (a : Int) :
    binop ops .div (.int t a) (.int t 0) = .trap "DIVISION_BY_ZERO" ∧
    binop ops .idiv (.int t a) (.int t 0) = .trap "DIVISION_BY_ZERO" ∧
    binop ops .mod (.int t a) (.int t 0) = .trap "DIVISION_BY_ZERO" := by
  rcases ht with rfl | rfl <;> simp [binop, Cell.ty, isNumTy, isIntTy]

/-- a float division by zero is reported the same way -/
theorem float_division_by_zero_traps {F} (ops : FOps F) (t : Ty) (ht : t = .s ∨ t = .d) (x y : F)
    (hz : ops.isZero y = true) : binop ops .div (.flt t x) (.flt t y) = .trap "DIVISION_BY_ZERO" := by
  rcases ht with rfl | rfl <;> simp [binop, Cell.ty, isNumTy, hz]

/-- a result outside the range of its type is reported as INVALID_CELL_VALUE (numeric overflow) -/
theorem overflow_traps {F} (ops : FOps F) (t : Ty) (ht : t = .i ∨ t = .l) (n : Int) (h : inRange t n = false) :
    mk ops t (.int n) = .trap "INVALID_CELL_VALUE" := by
  rcases ht with rfl | rfl <;> simp [mk, h]

theorem mk_no_host {F} (ops : FOps F) (t : Ty) (ht : t ≠ .str) (r : Raw F) (cls : String) : mk ops t r ≠ .host cls := by
  cases t with
  | str => exact absurd rfl ht
  | i =>
    cases r with
    | int n => by_cases h : inRange .i n = true <;> simp [mk, h]
    | flt x =>
      cases hr : ops.roundEven x with
      | none => simp [mk, hr]
      | some n =>
        by_cases h : (ops.lt x (ops.ofInt (-32768)) || ops.lt (ops.ofInt 32767) x) = true <;> simp [mk, hr, h]
  | l =>
    cases r with
    | int n => by_cases h : inRange .l n = true <;> simp [mk, h]
    | flt x =>
      cases hr : ops.roundEven x with
      | none => simp [mk, hr]
      | some n =>
        by_cases h : (ops.lt x (ops.ofInt (-2147483648)) || !(ops.lt x (ops.ofInt 2147483648))) = true <;> simp [mk, hr, h]
  | s =>
    cases r with
    | int n => cases h : ops.toSingle (ops.ofInt n) <;> simp [mk, h]
    | flt x => cases hf : ops.isFinite x <;> cases h : ops.toSingle x <;> simp [mk, h, hf]
  | d =>
    cases r with
    | int n => simp [mk]
    | flt x => cases hf : ops.isFinite x <;> simp [mk, hf]

/-- a float that is not finite (the host's silent result of an overflow) is refused by every numeric cell type: the
    run-time error the property calls numeric overflow -/
theorem non_finite_traps {F} (ops : FOps F) (t : Ty) (ht : t = .s ∨ t = .d) (x : F) (h : ops.isFinite x = false) :
    mk ops t (.flt x) = .trap "INVALID_CELL_VALUE" := by
  rcases ht with rfl | rfl <;> simp [mk, h]

/-- before the repair a DOUBLE cell took it (1D308 * 10 printed `inf`) -/
theorem double_overflow_was_silent {F} (x : F) : mkDoubleOld x = .ok (.flt .d x) := rfl

/-- on well-typed integral operands no arithmetic, logic or comparison instruction can raise a host exception:
    the outcome is a cell or a reported trap -/
theorem int_arith_no_host {F} (ops : FOps F) (op : BinOp) (t : Ty) (ht : t = .i ∨ t = .l) (a b : Int) (cls : String) :
    binop ops op (.int t a) (.int t b) ≠ .host cls := by
  have hk : ∀ (t' : Ty) (r : Raw F), t' ≠ .str → mk ops t' r ≠ .host cls := fun t' r h => mk_no_host ops t' h r cls
  have hti : t ≠ .str := by rcases ht with rfl | rfl <;> decide
  have hty : (Cell.int t a : Cell F).ty = t := rfl
  have hint : isIntTy t = true := by rcases ht with rfl | rfl <;> rfl
  have hnum : isNumTy t = true := by rcases ht with rfl | rfl <;> rfl
  cases op with
  | cmp => simp [binop, Cell.ty]
  | add => simp [binop, Cell.ty]; exact hk _ _ hti
  | sub => simp [binop, Cell.ty, hnum]; exact hk _ _ hti
  | mul => simp [binop, Cell.ty, hnum]; exact hk _ _ hti
  | div =>
    simp only [binop, Cell.ty, hnum]
    by_cases hb : b = 0
    · simp [hb]
    · simp [hb]; exact hk _ _ (by decide)
  | idiv =>
    simp only [binop, Cell.ty, hint]
    by_cases hb : b = 0
    · simp [hb]
    · simp [hb]; exact hk _ _ hti
  | mod =>
    simp only [binop, Cell.ty, hint]
    by_cases hb : b = 0
    · simp [hb]
    · simp [hb]; exact hk _ _ hti
  | exp =>
    simp only [binop, Cell.ty, hnum]
    by_cases hb : 0 ≤ b
    · simp [hb]; exact hk _ _ hti
    · by_cases ha : a = 0
      · simp [hb, ha]
      · simp [hb, ha]; exact hk _ _ hti
  | and => simp [binop, Cell.ty, hint]; exact hk _ _ hti
  | or => simp [binop, Cell.ty, hint]; exact hk _ _ hti
  | xor => simp [binop, Cell.ty, hint]; exact hk _ _ hti
  | eqv => simp [binop, Cell.ty, hint]; exact hk _ _ hti
  | imp => simp [binop, Cell.ty, hint]; exact hk _ _ hti


/-- on a numeric cell of any type and value (infinities and NaN included) no unary instruction - negation, NOT, the
    comparison tests, ABS, SGN, CINT, CLNG, INT - can raise a host exception (as repaired: a non-finite value has no
    integer value and traps) -/
theorem unop_numeric_no_host {F} (ops : FOps F) (op : UnOp) (a : Cell F) (ha : a.ty ≠ .str) (hty : ∀ t x, a = .flt t x → t = .s ∨ t = .d)
    (hti : ∀ t x, a = .int t x → t = .i ∨ t = .l) (cls : String) : unop ops op a ≠ .host cls := by
  have hk : ∀ (t' : Ty) (r : Raw F), t' ≠ .str → mk ops t' r ≠ .host cls := fun t' r h => mk_no_host ops t' h r cls
  cases a with
  | str s => exact absurd rfl ha
  | int t x =>
    rcases hti t x rfl with rfl | rfl <;> cases op <;> simp only [unop] <;>
      first | exact hk _ _ (by decide) | simp
  | flt t x =>
    rcases hty t x rfl with rfl | rfl <;> cases op <;> simp only [unop] <;>
      first | exact hk _ _ (by decide) | (split <;> first | exact hk _ _ (by decide) | simp) | simp

/-- ... and on a string cell every unary instruction answers with the machine's own TYPE_MISMATCH trap (as repaired: the
    comparison tests and SGN raised NameError while building that trap): no unary instruction raises on ANY cell -/
theorem unop_no_host {F} (ops : FOps F) (op : UnOp) (a : Cell F) (hty : ∀ t x, a = .flt t x → t = .s ∨ t = .d)
    (hti : ∀ t x, a = .int t x → t = .i ∨ t = .l) (cls : String) : unop ops op a ≠ .host cls := by
  cases a with
  | str s => cases op <;> simp [unop]
  | int t x => exact unop_numeric_no_host ops op _ (by simp [Cell.ty]; rcases hti t x rfl with rfl | rfl <;> decide) hty hti cls
  | flt t x => exact unop_numeric_no_host ops op _ (by simp [Cell.ty]; rcases hty t x rfl with rfl | rfl <;> decide) hty hti cls

/-- comparing two cells of different types is a TYPE_MISMATCH trap (as repaired: the trap was built with a positional
    argument too many, a TypeError) -/
theorem cmp_mismatch_traps {F} (ops : FOps F) (a b : Cell F) (h : a.ty ≠ b.ty) : binop ops .cmp a b = .trap "TYPE_MISMATCH" := by
  simp [binop, h]

/-- no conversion instruction can raise a host exception, whatever the cell -/
theorem conv_no_host {F} (ops : FOps F) (src dst : Ty) (hd : dst ≠ .str) (a : Cell F) (cls : String) :
    conv ops src dst a ≠ .host cls := by
  have hk : ∀ (r : Raw F), mk ops dst r ≠ .host cls := fun r => mk_no_host ops dst hd r cls
  unfold conv
  split
  · simp
  · cases a with
    | int t x => simp only; split <;> exact hk _
    | flt t x =>
      simp only
      split
      · split
        · exact hk _
        · simp
      · exact hk _
    | str s => simp


end Qbee.Arith
