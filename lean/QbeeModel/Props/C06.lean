import QbeeModel.Props.C03
import QbeeModel.Model.Asm
/-
  C06  The compiler is total: any text yields a module or a diagnostic.  Property theorems only.

  PARTIAL.  Proved for the modelled stages: (1) every expression the static check accepts has code - the generator has a
  row for each accepted operator / operand-type combination and it did not raise while the table was extracted
  (Gen/ExprTables.lean is regenerated on every run; a raising generator leaves a 9998 marker that the kernel-decided
  `allBinOk` / `allUnOk` reject); (2) the assembler's two passes succeed on every symbolic stream whose label operands
  are defined, and fail only on an undefined label.  The pyparsing grammar, the statement-level passes and the
  statement code generators are NOT modelled: totality there is searched (harness/checks/c06.py), not proved.
-/
namespace Qbee.C06
open Qbee.Gen Qbee.ExprC Qbee.Asm

/-- every accepted expression tree, of any depth, compiles -/
theorem accepted_expression_compiles (e : E) (t : Ty) (h : ty e = some t) : ∃ code, compileE e = some code := by
  obtain ⟨code, hc, _⟩ := compileE_stack_typed e t h
  exact ⟨code, hc⟩

/-- a rejected expression is rejected by the static check, never by the code generator: compileE fails only where
    `ty` does -/
theorem expression_compile_fails_only_on_type_error (e : E) (h : compileE e = none) : ty e = none := by
  cases ht : ty e with
  | none => rfl
  | some t =>
    obtain ⟨code, hc⟩ := accepted_expression_compiles e t ht
    rw [h] at hc; cases hc

def labelNames : List SI → List String
  | [] => []
  | .label n :: r => n :: labelNames r
  | _ :: r => labelNames r

def argLabels : List Arg → List String
  | [] => []
  | .lbl n :: r => n :: argLabels r
  | _ :: r => argLabels r

def labelOperands : List SI → List String
  | [] => []
  | .ins _ args :: r => argLabels args ++ labelOperands r
  | _ :: r => labelOperands r

theorem labelTable_names : ∀ (s : List SI) (off : Nat), (labelTable s off).map Prod.fst = labelNames s
  | [], _ => rfl
  | .label n :: r, off => by simp [labelTable, labelNames, labelTable_names r off]
  | .ins op args :: r, off => by simp [labelTable, labelNames, labelTable_names r _]
  | .marker k :: r, off => by simp [labelTable, labelNames, labelTable_names r _]

theorem lookupLast_some (tbl : List (String × Nat)) (n : String) (h : n ∈ tbl.map Prod.fst) :
    ∃ v, lookupLast tbl n = some v := by
  induction tbl with
  | nil => simp at h
  | cons kv r ih =>
    obtain ⟨k, v⟩ := kv
    simp only [lookupLast]
    cases hr : lookupLast r n with
    | some v' => exact ⟨v', rfl⟩
    | none =>
      simp only [List.map_cons, List.mem_cons] at h
      rcases h with h | h
      · exact ⟨v, by simp [h]⟩
      · obtain ⟨v', hv'⟩ := ih h
        rw [hr] at hv'; cases hv'

theorem emitArgs_some (tbl : List (String × Nat)) (args : List Arg)
    (h : ∀ n ∈ argLabels args, n ∈ tbl.map Prod.fst) : ∃ bs, emitArgs tbl args = some bs := by
  induction args with
  | nil => exact ⟨[], rfl⟩
  | cons a r ih =>
    cases a with
    | bytes bs =>
      obtain ⟨y, hy⟩ := ih (fun n hn => h n (by simpa [argLabels] using hn))
      exact ⟨bs ++ y, by simp [emitArgs, emitArg, hy]⟩
    | lbl n =>
      obtain ⟨v, hv⟩ := lookupLast_some tbl n (h n (by simp [argLabels]))
      obtain ⟨y, hy⟩ := ih (fun n' hn => h n' (by simp [argLabels, hn]))
      exact ⟨Bytes.be 4 v ++ y, by simp [emitArgs, emitArg, hv, hy]⟩

theorem emit_some (tbl : List (String × Nat)) (s : List SI)
    (h : ∀ n ∈ labelOperands s, n ∈ tbl.map Prod.fst) : ∃ bs, emit tbl s = some bs := by
  induction s with
  | nil => exact ⟨[], rfl⟩
  | cons i r ih =>
    cases i with
    | ins op args =>
      obtain ⟨a, ha⟩ := emitArgs_some tbl args (fun n hn => h n (by simp [labelOperands, hn]))
      obtain ⟨y, hy⟩ := ih (fun n hn => h n (by simp [labelOperands, hn]))
      exact ⟨op :: (a ++ y), by simp [emit, ha, hy]⟩
    | label n => simpa [emit, labelOperands] using ih (fun n' hn => h n' (by simpa [labelOperands] using hn))
    | marker k => simpa [emit, labelOperands] using ih (fun n' hn => h n' (by simpa [labelOperands] using hn))

/-- the assembler is total on every stream whose label operands are defined somewhere in the stream
    (any number of instructions, labels, markers; forward and backward references) -/
theorem assemble_total (s : List SI) (h : ∀ n ∈ labelOperands s, n ∈ labelNames s) : ∃ bytes, assemble s = some bytes := by
  unfold assemble
  exact emit_some _ s (fun n hn => by rw [labelTable_names]; exact h n hn)

/-- ... and it fails only because of an undefined label -/
theorem assemble_fails_only_on_undefined_label (s : List SI) (h : assemble s = none) :
    ∃ n ∈ labelOperands s, n ∉ labelNames s := by
  by_cases hall : ∀ n ∈ labelOperands s, n ∈ labelNames s
  · obtain ⟨b, hb⟩ := assemble_total s hall
    rw [h] at hb; cases hb
  · simpa using hall

/-- non-vacuity: a forward jump assembles; a jump to a missing label does not -/
example : assemble [.ins 1 [.lbl "a"], .label "a", .ins 2 []] = some [1, 0, 0, 0, 5, 2] := by decide
example : assemble [.ins 1 [.lbl "b"], .label "a"] = none := by decide

end Qbee.C06
