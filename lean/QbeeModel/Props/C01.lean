import QbeeModel.Lemmas.ExprSem
import QbeeModel.Lemmas.Src
import QbeeModel.Lemmas.SrcFuel
/-
  C01  Compiled programs do what their QBASIC source says.  Property theorems only.

  Proved subset: expressions -- every operator, every operand-type pair the static check accepts, implicit
  conversions, all leaf values, any nesting depth, any stack beneath, all float operation records.
  Statements, control flow, procedures, arrays and records are NOT covered by a theorem here; they are covered by
  the differential runs of the checks (six configurations) and by C03/C04/C15/C17/C18 for their parts.

  The reference semantics `refEval` applies, at every node, the operand-type rule of the language (`specTy`) and
  the operator at that type with the machine's arithmetic (Model/Arith.lean: range checks, division by zero,
  Python floor semantics for \ and MOD).  Where that arithmetic deviates from QBASIC the deviation is stated below
  as a machine-checked witness.
-/
namespace Qbee.ExprSem
open Qbee.Gen Qbee.ExprC Qbee.Arith

/-- OBLIGATION over the regenerated tables: for every accepted operator/type pair the generator emits exactly
    "convert left operand to T; … ; convert right operand to T; operator instruction(s)" with T given by the
    language's operand-type rule `specTy` -/
theorem allSpecOk_true : allSpecOk = true := allSpecOk_lem

/-- OBLIGATION: the opcode numbers used by the model are those of the regenerated instruction table -/
theorem decodeTableOk_true : decodeTableOk = true := decodeTableOk_lem

/-- Compilation preserves meaning, for every expression tree over all operators and operand types the static
    check accepts, all leaf values, all float operation records, and any stack beneath: running the generated code
    yields exactly what the reference semantics prescribes -- the value with its type pushed on the stack, or the
    same error (division by zero, overflow) -/
theorem compileC_correct {F} (ops : FOps F) : ∀ (e : CE F) (t : Ty), ty e.erase = some t →
    ∃ code, compileC e = some code ∧
      ∀ st, runC ops code st = Res.bind (refEval ops e) (fun v => .ok (v :: st))
  | .leaf c, t, _ => ⟨[.push c], rfl, fun st => by simp [runC, refEval]⟩
  | .bin op ea eb, t, h => by
    have h0 := h
    simp only [CE.erase, ty] at h
    cases hta : ty ea.erase with
    | none => simp [hta] at h
    | some l =>
      cases htb : ty eb.erase with
      | none => simp [hta, htb] at h
      | some r =>
        simp only [hta, htb] at h
        cases hrow : binRow op l r with
        | none => simp [hrow] at h
        | some row =>
          obtain ⟨op', l', r', acc, res, code⟩ := row
          simp only [hrow] at h
          cases acc with
          | false => simp at h
          | true =>
            simp at h
            subst h
            obtain ⟨_, hspec⟩ := binRow_spec op l r op' l' r' (some t) code hrow
            obtain ⟨ca, hca, hra⟩ := compileC_correct ops ea l hta
            obtain ⟨cb, hcb, hrb⟩ := compileC_correct ops eb r htb
            unfold specOkRow at hspec
            cases hsp : splitBin code with
            | none => simp [hsp] at hspec
            | some p =>
              obtain ⟨cl, cr⟩ := p
              simp only [hsp, Bool.and_eq_true, decide_eq_true_eq] at hspec
              obtain ⟨⟨hcl, hcr⟩, hout⟩ := hspec
              refine ⟨ca ++ cl.map .op ++ cb ++ cr.map .op, ?_, ?_⟩
              · simp [compileC, hta, htb, hca, hcb, hrow, hsp]
              · intro st
                have ht' : ty (E.bin op ea.erase eb.erase) = some t := h0
                simp only [refEval, hta, htb, ht']
                rw [runC_append, runC_append, runC_append, hra]
                simp only [bind_assoc, bind_ok]
                cases hva : refEval ops ea with
                | trap c => simp
                | host c => simp
                | ok va =>
                  simp only [bind_ok]
                  rw [runC_ops ops cl _ _ hcl]
                  have f1 := applyAll_frame ops (convIf l (specTy op l r t)) [va] st (enough_convIf _ _ 1 (by omega))
                  simp only [List.cons_append, List.nil_append] at f1
                  rw [f1]
                  cases hsa : applyAll ops (convIf l (specTy op l r t)) [va] with
                  | trap c => simp
                  | host c => simp
                  | ok sa =>
                    obtain ⟨va', hva'⟩ := convIf_one ops _ _ _ _ hsa
                    subst hva'
                    simp only [bind_ok, List.cons_append, List.nil_append]
                    rw [hrb]
                    simp only [bind_assoc, bind_ok]
                    cases hvb : refEval ops eb with
                    | trap c => simp
                    | host c => simp
                    | ok vb =>
                      simp only [bind_ok]
                      rw [runC_ops ops cr _ _ hcr]
                      have f2 := applyAll_frame ops (convIf r (specTy op l r t) ++ specOps op) [vb, va'] st
                        (enough_conv_ops _ _ _)
                      simp only [List.cons_append, List.nil_append] at f2
                      rw [f2]
                      cases hs : applyAll ops (convIf r (specTy op l r t) ++ specOps op) [vb, va'] with
                      | trap c => simp
                      | host c => simp
                      | ok s =>
                        have hl := applyAll_length ops _ _ _ hs
                        simp only [List.length_cons, List.length_nil] at hl
                        rw [hout] at hl
                        obtain ⟨v, hv, htop⟩ := top1_of_len s hl
                        subst hv
                        simp [top1]
  | .un op ea, t, h => by
    have h0 := h
    simp only [CE.erase, ty] at h
    cases hta : ty ea.erase with
    | none => simp [hta] at h
    | some ta =>
      simp only [hta] at h
      cases hrow : unRow op ta with
      | none => simp [hrow] at h
      | some row =>
        obtain ⟨op', a', acc, res, code⟩ := row
        simp only [hrow] at h
        cases acc with
        | false => simp at h
        | true =>
          simp at h
          subst h
          have hspec := unRow_spec op ta op' a' (some t) code hrow
          obtain ⟨ca, hca, hra⟩ := compileC_correct ops ea ta hta
          unfold specOkUnRow at hspec
          cases hsp : splitUn code with
          | none => simp [hsp] at hspec
          | some c =>
            simp only [hsp, Bool.and_eq_true, decide_eq_true_eq] at hspec
            obtain ⟨hc, hout⟩ := hspec
            refine ⟨ca ++ c.map .op, ?_, ?_⟩
            · simp [compileC, hta, hca, hrow, hsp]
            · intro st
              simp only [refEval, hta]
              rw [runC_append, hra]
              simp only [bind_assoc, bind_ok]
              cases hva : refEval ops ea with
              | trap c => simp
              | host c => simp
              | ok va =>
                simp only [bind_ok]
                rw [runC_ops ops c _ _ hc]
                have f := applyAll_frame ops (specUn op ta) [va] st (enough_specUn _ _)
                simp only [List.cons_append, List.nil_append] at f
                rw [f]
                cases hs : applyAll ops (specUn op ta) [va] with
                | trap c => simp
                | host c => simp
                | ok s =>
                  have hl := applyAll_length ops _ _ _ hs
                  simp only [List.length_cons, List.length_nil] at hl
                  rw [hout] at hl
                  obtain ⟨v, hv, htop⟩ := top1_of_len s hl
                  subst hv
                  simp [top1]


/-! ### integer division is QBASIC's -/

/-- the machine's and the folder's `\` (as repaired) is truncated division and their MOD its remainder, for all operands -/
theorem idiv_is_truncation (a b : Int) : qbIDiv a b = Int.tdiv a b ∧ qbMod a b = Int.tmod a b := by
  unfold qbIDiv qbMod
  constructor
  · rcases Int.natAbs_eq a with ha | ha <;> rcases Int.natAbs_eq b with hb | hb
    all_goals
      generalize a.natAbs = m at *
      generalize b.natAbs = n at *
      subst ha; subst hb
    · by_cases hm : m = 0 <;> by_cases hn : n = 0 <;> simp_all <;> omega
    · by_cases hm : m = 0 <;> by_cases hn : n = 0 <;> simp_all [Int.tdiv_neg] <;> omega
    · by_cases hm : m = 0 <;> by_cases hn : n = 0 <;> simp_all [Int.neg_tdiv] <;> omega
    · by_cases hm : m = 0 <;> by_cases hn : n = 0 <;> simp_all [Int.neg_tdiv, Int.tdiv_neg] <;> omega
  · have key : ∀ m n : Nat, Int.tmod (m : Int) (n : Int) = ((m % n : Nat) : Int) := fun _ _ => rfl
    rcases Int.natAbs_eq a with ha | ha <;> rcases Int.natAbs_eq b with hb | hb
    all_goals
      generalize a.natAbs = m at *
      generalize b.natAbs = n at *
      subst ha; subst hb
    · have h0 : ¬ ((m : Int) < 0) := by omega
      simp [h0, key]
    · have h0 : ¬ ((m : Int) < 0) := by omega
      simp [h0, Int.tmod_neg, key]
    · by_cases hm : m = 0
      · subst hm; simp
      · have h0 : (-(m : Int)) < 0 := by omega
        simp [h0, Int.neg_tmod, key]
        intro h; exact absurd h hm
    · by_cases hm : m = 0
      · subst hm; simp
      · have h0 : (-(m : Int)) < 0 := by omega
        simp [h0, Int.neg_tmod, Int.tmod_neg, key]
        intro h; exact absurd h hm

/-- the defect that was repaired, kept as a witness: Python's floored operators differ from QBASIC's on negative operands -/
theorem floored_division_was_wrong : pyFloorDiv (-7) 2 = -4 ∧ Int.tdiv (-7) 2 = -3 ∧
    pyMod (-7) 2 = 1 ∧ Int.tmod (-7) 2 = -1 := by decide

-- non-vacuity: (3% + 2.5#) < 7! evaluates, through compiled code, to the INTEGER -1
example : ty (CE.bin 10 (CE.bin 1 (CE.leaf (.int .i 3)) (CE.leaf (.int .i 4))) (CE.leaf (.int .l 9)) : CE Nat).erase = some .i := by decide

end Qbee.ExprSem

/-! ### statement level: the reference semantics of structured control flow (Model/Src.lean)

  The correspondence of harness/checks/c01.py runs generated structured programs through this interpreter and through the
  real compiler + machine in all six configurations.  The lemmas below state what the reference semantics itself
  prescribes for the constructs the property names. -/
namespace Qbee.Src

/-- EXIT DO ends exactly the DO loop whose body raised it: the loop returns normally, with the state at the EXIT -/
theorem exit_do_leaves_this_loop (procs : List Proc) (fuel : Nat) (env : Env) (out : List Int) (post : Expr) (qk : Nat) (body : List Stmt) (res : Res)
    (hb : execList procs fuel env out body = some res) (hs : res.sig = .exitDo) :
    loopDo procs (fuel + 1) env out 0 (.lit 0) qk post body = some ⟨res.env, res.out, .normal⟩ := by
  simp [loopDo, hb, hs]

/-- ... and an enclosing FOR loop does not swallow it: EXIT DO inside a FOR inside a DO leaves the DO -/
theorem for_passes_exit_do (procs : List Proc) (fuel : Nat) (env : Env) (out : List Int) (v : Nat) (lim st : Int) (body : List Stmt) (res : Res)
    (hin : ((decide (st ≥ 0) && decide (getVar env v > lim)) || (decide (st < 0) && decide (getVar env v < lim))) = false)
    (hb : execList procs fuel env out body = some res) (hs : res.sig = .exitDo) :
    loopFor procs (fuel + 1) env out v lim st body = some res := by
  simp [loopFor, hin, hb, hs]

/-- EXIT FOR ends exactly the FOR loop whose body raised it; the loop variable keeps its value -/
theorem exit_for_leaves_this_loop (procs : List Proc) (fuel : Nat) (env : Env) (out : List Int) (v : Nat) (lim st : Int) (body : List Stmt) (res : Res)
    (hin : ((decide (st ≥ 0) && decide (getVar env v > lim)) || (decide (st < 0) && decide (getVar env v < lim))) = false)
    (hb : execList procs fuel env out body = some res) (hs : res.sig = .exitFor) :
    loopFor procs (fuel + 1) env out v lim st body = some ⟨res.env, res.out, .normal⟩ := by
  simp [loopFor, hin, hb, hs]

/-- a DO loop passes EXIT FOR on to the FOR loop around it -/
theorem do_passes_exit_for (procs : List Proc) (fuel : Nat) (env : Env) (out : List Int) (post : Expr) (qk : Nat) (body : List Stmt) (res : Res)
    (hb : execList procs fuel env out body = some res) (hs : res.sig = .exitFor) :
    loopDo procs (fuel + 1) env out 0 (.lit 0) qk post body = some res := by
  simp [loopDo, hb, hs]

/-- statements after an EXIT, END or failing statement in the same list are not executed -/
theorem execList_stops (procs : List Proc) (fuel : Nat) (env : Env) (out : List Int) (s : Stmt) (rest : List Stmt) (res : Res)
    (h : exec procs fuel env out s = some res) (hs : res.sig ≠ .normal) :
    execList procs (fuel + 1) env out (s :: rest) = some res := by
  simp [execList, h, hs]

/-- a FOR loop whose start is beyond its limit does not execute its body (and leaves the variable at the start value) -/
theorem for_empty_range (procs : List Proc) (fuel : Nat) (env : Env) (out : List Int) (v : Nat) (lim st : Int) (body : List Stmt)
    (h : (st ≥ 0 ∧ getVar env v > lim) ∨ (st < 0 ∧ getVar env v < lim)) :
    loopFor procs (fuel + 1) env out v lim st body = some ⟨env, out, .normal⟩ := by
  rcases h with ⟨h1, h2⟩ | ⟨h1, h2⟩ <;> simp [loopFor, h1, h2]

/-- WHILE with a false condition skips the body; UNTIL with a non-zero condition (any non-zero value, not only -1) ends a
    DO UNTIL loop before its first iteration -/
theorem while_false_skips (procs : List Proc) (fuel : Nat) (env : Env) (out : List Int) (c : Expr) (body : List Stmt) (h : eval env c = .ok 0) :
    loopWhile procs (fuel + 1) env out c body = some ⟨env, out, .normal⟩ := by
  simp [loopWhile, h]

theorem do_until_nonzero_skips (procs : List Proc) (fuel : Nat) (env : Env) (out : List Int) (pre post : Expr) (qk : Nat) (body : List Stmt) (x : Int)
    (h : eval env pre = .ok x) (hx : x ≠ 0) :
    loopDo procs (fuel + 1) env out 2 pre qk post body = some ⟨env, out, .normal⟩ := by
  simp [loopDo, h, condHolds, hx, Except.map]

/-- non-vacuity: a body `PRINT 5 : EXIT DO : PRINT 6` raises EXIT DO after printing 5, so the premises of
    `exit_do_leaves_this_loop` are met and the loop ends with output [5] -/
example : execList [] 3 [0] [] [.print (.lit 5), .exitDo, .print (.lit 6)] = some ⟨[0], [5], .exitDo⟩ := by
  simp [execList, exec, eval]
example : loopDo [] 4 [0] [] 0 (.lit 0) 0 (.lit 0) [.print (.lit 5), .exitDo, .print (.lit 6)] = some ⟨[0], [5], .normal⟩ :=
  exit_do_leaves_this_loop [] 3 [0] [] (.lit 0) 0 _ ⟨[0], [5], .exitDo⟩ (by simp [execList, exec, eval]) rfl


/-! ### the operators of the reference semantics are the machine's instructions

  `Src.evalB` states what the language prescribes for INTEGER operands; `Arith.binop` / `Arith.unop` are the model of the
  machine's instructions (corresponded with the real `_exec_*` on every run).  On INTEGER cells they agree, result for
  result and error for error. -/

/-- what a machine result looks like from the language's side -/
def ofRes {F} : Arith.Res (Arith.Cell F) → Option (Except String Int)
  | .ok (.int .i v) => some (.ok v)
  | .trap c => some (.error c)
  | _ => none

theorem add_is_machine_add {F} (ops : Arith.FOps F) (x y : Int) :
    ofRes (Arith.binop ops .add (.int .i x) (.int .i y)) = some (evalB .add x y) := by
  by_cases h : inInt (x + y) = true
  · have h' : Arith.inRange .i (x + y) = true := by simpa [inInt, Arith.inRange] using h
    simp [Arith.binop, Arith.Cell.ty, Arith.mk, h', evalB, h, ofRes]
  · have h' : Arith.inRange .i (x + y) = false := by simpa [inInt, Arith.inRange] using h
    simp [Arith.binop, Arith.Cell.ty, Arith.mk, h', evalB, h, ofRes]

theorem sub_is_machine_sub {F} (ops : Arith.FOps F) (x y : Int) :
    ofRes (Arith.binop ops .sub (.int .i x) (.int .i y)) = some (evalB .sub x y) := by
  by_cases h : inInt (x - y) = true
  · have h' : Arith.inRange .i (x - y) = true := by simpa [inInt, Arith.inRange] using h
    simp [Arith.binop, Arith.Cell.ty, Arith.isNumTy, Arith.mk, h', evalB, h, ofRes]
  · have h' : Arith.inRange .i (x - y) = false := by simpa [inInt, Arith.inRange] using h
    simp [Arith.binop, Arith.Cell.ty, Arith.isNumTy, Arith.mk, h', evalB, h, ofRes]

theorem mul_is_machine_mul {F} (ops : Arith.FOps F) (x y : Int) :
    ofRes (Arith.binop ops .mul (.int .i x) (.int .i y)) = some (evalB .mul x y) := by
  by_cases h : inInt (x * y) = true
  · have h' : Arith.inRange .i (x * y) = true := by simpa [inInt, Arith.inRange] using h
    simp [Arith.binop, Arith.Cell.ty, Arith.isNumTy, Arith.mk, h', evalB, h, ofRes]
  · have h' : Arith.inRange .i (x * y) = false := by simpa [inInt, Arith.inRange] using h
    simp [Arith.binop, Arith.Cell.ty, Arith.isNumTy, Arith.mk, h', evalB, h, ofRes]

/-- `\` and MOD: division by zero for division by zero, the truncated quotient / its remainder otherwise -/
theorem idiv_is_machine_idiv {F} (ops : Arith.FOps F) (x y : Int) :
    ofRes (Arith.binop ops .idiv (.int .i x) (.int .i y)) = some (evalB .idiv x y) := by
  by_cases hy : y = 0
  · simp [Arith.binop, Arith.Cell.ty, Arith.isIntTy, hy, evalB, ofRes]
  · have ht := (Qbee.ExprSem.idiv_is_truncation x y).1
    by_cases h : inInt (Int.tdiv x y) = true
    · have h' : Arith.inRange .i (Int.tdiv x y) = true := by simpa [inInt, Arith.inRange] using h
      simp [Arith.binop, Arith.Cell.ty, Arith.isIntTy, hy, ht, Arith.mk, h', evalB, h, ofRes]
    · have h' : Arith.inRange .i (Int.tdiv x y) = false := by simpa [inInt, Arith.inRange] using h
      simp [Arith.binop, Arith.Cell.ty, Arith.isIntTy, hy, ht, Arith.mk, h', evalB, h, ofRes]

theorem mod_is_machine_mod {F} (ops : Arith.FOps F) (x y : Int) :
    ofRes (Arith.binop ops .mod (.int .i x) (.int .i y)) = some (evalB .mod x y) := by
  by_cases hy : y = 0
  · simp [Arith.binop, Arith.Cell.ty, Arith.isIntTy, hy, evalB, ofRes]
  · have ht := (Qbee.ExprSem.idiv_is_truncation x y).2
    by_cases h : inInt (Int.tmod x y) = true
    · have h' : Arith.inRange .i (Int.tmod x y) = true := by simpa [inInt, Arith.inRange] using h
      simp [Arith.binop, Arith.Cell.ty, Arith.isIntTy, hy, ht, Arith.mk, h', evalB, h, ofRes]
    · have h' : Arith.inRange .i (Int.tmod x y) = false := by simpa [inInt, Arith.inRange] using h
      simp [Arith.binop, Arith.Cell.ty, Arith.isIntTy, hy, ht, Arith.mk, h', evalB, h, ofRes]

/-- a comparison is `cmp` followed by the test of its result: x < y is -1 exactly when cmp gives -1 -/
theorem lt_is_machine_cmp_lt {F} (ops : Arith.FOps F) (x y : Int) :
    (match Arith.binop ops .cmp (.int .i x) (.int .i y) with
     | .ok c => ofRes (Arith.unop ops .lt c)
     | _ => none) = some (evalB .lt x y) := by
  by_cases h1 : x = y
  · subst h1; simp [Arith.binop, Arith.Cell.ty, Arith.unop, evalB, ofRes]
  · by_cases h2 : x < y
    · simp [Arith.binop, Arith.Cell.ty, Arith.unop, evalB, ofRes, h1, h2]
    · simp [Arith.binop, Arith.Cell.ty, Arith.unop, evalB, ofRes, h1, h2]

theorem gt_is_machine_cmp_gt {F} (ops : Arith.FOps F) (x y : Int) :
    (match Arith.binop ops .cmp (.int .i x) (.int .i y) with
     | .ok c => ofRes (Arith.unop ops .gt c)
     | _ => none) = some (evalB .gt x y) := by
  by_cases h1 : x = y
  · subst h1; simp [Arith.binop, Arith.Cell.ty, Arith.unop, evalB, ofRes]
  · by_cases h2 : x < y
    · have h3 : ¬ (y < x) := by omega
      have h4 : x ≤ y := by omega
      have h5 : ¬ (y ≤ x) := by omega
      simp [Arith.binop, Arith.Cell.ty, Arith.unop, evalB, ofRes, h1, h2, h3, h4, h5]
    · have h3 : y < x := by omega
      have h4 : ¬ (x ≤ y) := by omega
      have h5 : y ≤ x := by omega
      simp [Arith.binop, Arith.Cell.ty, Arith.unop, evalB, ofRes, h1, h2, h3, h4, h5]

theorem le_is_machine_cmp_le {F} (ops : Arith.FOps F) (x y : Int) :
    (match Arith.binop ops .cmp (.int .i x) (.int .i y) with
     | .ok c => ofRes (Arith.unop ops .le c)
     | _ => none) = some (evalB .le x y) := by
  by_cases h1 : x = y
  · subst h1; simp [Arith.binop, Arith.Cell.ty, Arith.unop, evalB, ofRes]
  · by_cases h2 : x < y
    · have h3 : ¬ (y < x) := by omega
      have h4 : x ≤ y := by omega
      have h5 : ¬ (y ≤ x) := by omega
      simp [Arith.binop, Arith.Cell.ty, Arith.unop, evalB, ofRes, h1, h2, h3, h4, h5]
    · have h3 : y < x := by omega
      have h4 : ¬ (x ≤ y) := by omega
      have h5 : y ≤ x := by omega
      simp [Arith.binop, Arith.Cell.ty, Arith.unop, evalB, ofRes, h1, h2, h3, h4, h5]

theorem ge_is_machine_cmp_ge {F} (ops : Arith.FOps F) (x y : Int) :
    (match Arith.binop ops .cmp (.int .i x) (.int .i y) with
     | .ok c => ofRes (Arith.unop ops .ge c)
     | _ => none) = some (evalB .ge x y) := by
  by_cases h1 : x = y
  · subst h1; simp [Arith.binop, Arith.Cell.ty, Arith.unop, evalB, ofRes]
  · by_cases h2 : x < y
    · have h3 : ¬ (y < x) := by omega
      have h4 : x ≤ y := by omega
      have h5 : ¬ (y ≤ x) := by omega
      simp [Arith.binop, Arith.Cell.ty, Arith.unop, evalB, ofRes, h1, h2, h3, h4, h5]
    · have h3 : y < x := by omega
      have h4 : ¬ (x ≤ y) := by omega
      have h5 : y ≤ x := by omega
      simp [Arith.binop, Arith.Cell.ty, Arith.unop, evalB, ofRes, h1, h2, h3, h4, h5]

theorem eq_is_machine_cmp_eq {F} (ops : Arith.FOps F) (x y : Int) :
    (match Arith.binop ops .cmp (.int .i x) (.int .i y) with
     | .ok c => ofRes (Arith.unop ops .eq c)
     | _ => none) = some (evalB .eq x y) := by
  by_cases h1 : x = y
  · subst h1; simp [Arith.binop, Arith.Cell.ty, Arith.unop, evalB, ofRes]
  · by_cases h2 : x < y
    · have h3 : ¬ (y < x) := by omega
      have h4 : x ≤ y := by omega
      have h5 : ¬ (y ≤ x) := by omega
      simp [Arith.binop, Arith.Cell.ty, Arith.unop, evalB, ofRes, h1, h2, h3, h4, h5]
    · have h3 : y < x := by omega
      have h4 : ¬ (x ≤ y) := by omega
      have h5 : y ≤ x := by omega
      simp [Arith.binop, Arith.Cell.ty, Arith.unop, evalB, ofRes, h1, h2, h3, h4, h5]

theorem ne_is_machine_cmp_ne {F} (ops : Arith.FOps F) (x y : Int) :
    (match Arith.binop ops .cmp (.int .i x) (.int .i y) with
     | .ok c => ofRes (Arith.unop ops .ne c)
     | _ => none) = some (evalB .ne x y) := by
  by_cases h1 : x = y
  · subst h1; simp [Arith.binop, Arith.Cell.ty, Arith.unop, evalB, ofRes]
  · by_cases h2 : x < y
    · have h3 : ¬ (y < x) := by omega
      have h4 : x ≤ y := by omega
      have h5 : ¬ (y ≤ x) := by omega
      simp [Arith.binop, Arith.Cell.ty, Arith.unop, evalB, ofRes, h1, h2, h3, h4, h5]
    · have h3 : y < x := by omega
      have h4 : ¬ (x ≤ y) := by omega
      have h5 : y ≤ x := by omega
      simp [Arith.binop, Arith.Cell.ty, Arith.unop, evalB, ofRes, h1, h2, h3, h4, h5]

/-! ### the reference semantics is well defined -/

/-- the fuel only bounds the search for the end of a run: a program that ends (normally, by END, or with an error) with some
    fuel ends in exactly the same way - same variables, same output, same outcome - with any larger amount; `none` means
    "not finished yet" and nothing else.  (Mutual induction over the six functions of Model/Src.lean: Lemmas/SrcFuel.lean.) -/
theorem more_fuel_same_result (procs : List Proc) (fuel k nvars : Nat) (prog : List Stmt) (res : Res)
    (h : run procs fuel nvars prog = some res) : run procs (fuel + k) nvars prog = some res :=
  execList_fuel_add procs fuel k _ _ prog res h

/-- two amounts of fuel that both suffice give the same result -/
theorem result_independent_of_fuel (procs : List Proc) (f1 f2 nvars : Nat) (prog : List Stmt) (r1 r2 : Res)
    (h1 : run procs f1 nvars prog = some r1) (h2 : run procs f2 nvars prog = some r2) : r1 = r2 := by
  have a := more_fuel_same_result procs f1 f2 nvars prog r1 h1
  have b := more_fuel_same_result procs f2 f1 nvars prog r2 h2
  rw [Nat.add_comm] at b
  rw [a] at b
  exact Option.some.inj b

/-! ### arrays -/

/-- a subscript outside the declared bounds is a run-time error, for reading and for writing -/
theorem idx_out_of_range_traps (env : Env) (base : Nat) (lo hi k : Int) (i : Expr) (hi' : eval env i = .ok k)
    (hout : k < lo ∨ k > hi) : eval env (.idx base lo hi i) = .error "INDEX_OUT_OF_RANGE" := by
  simp [eval, hi', elemCell, hout]

theorem assign_out_of_range_traps (procs : List Proc) (fuel : Nat) (env : Env) (out : List Int) (base : Nat) (lo hi k x : Int)
    (i e : Expr) (he : eval env e = .ok x) (hi' : eval env i = .ok k) (hout : k < lo ∨ k > hi) :
    exec procs fuel env out (.assignIdx base lo hi i e) = some ⟨env, out, .trap "INDEX_OUT_OF_RANGE"⟩ := by
  simp [exec, he, hi', elemCell, hout]

/-- distinct subscripts within the bounds name distinct cells, all of them inside the array's storage -/
theorem elemCell_injective (env : Env) (base : Nat) (lo hi k1 k2 : Int) (c1 c2 : Nat)
    (h1 : elemCell env base lo hi k1 = .ok c1) (h2 : elemCell env base lo hi k2 = .ok c2) (hne : k1 ≠ k2) :
    c1 ≠ c2 ∧ base ≤ c1 ∧ c1 ≤ base + (hi - lo).toNat := by
  unfold elemCell at h1 h2
  split at h1
  · cases h1
  · split at h1
    · split at h2
      · cases h2
      · split at h2
        · cases h1; cases h2
          refine ⟨?_, by omega, by omega⟩
          omega
        · cases h2
    · cases h1

/-- an element reads back what was assigned to it -/
theorem assignIdx_then_idx (procs : List Proc) (fuel : Nat) (env : Env) (out : List Int) (base : Nat) (lo hi k x : Int)
    (i e : Expr) (c : Nat) (he : eval env e = .ok x) (hi' : eval env i = .ok k) (hc : elemCell env base lo hi k = .ok c) :
    ∃ env', exec procs fuel env out (.assignIdx base lo hi i e) = some ⟨env', out, .normal⟩ ∧
      elemCell env' base lo hi k = .ok c ∧ getVar env' c = x := by
  refine ⟨setVar env c x, by simp [exec, he, hi', hc], ?_, ?_⟩
  · unfold elemCell at hc ⊢
    rw [setVar_length]
    exact hc
  · have hlt : c < env.length := by
      unfold elemCell at hc
      split at hc
      · cases hc
      · split at hc
        · cases hc; assumption
        · cases hc
    exact getVar_setVar_eq env c x hlt

/-- ... and every other element and variable keeps its value -/
theorem assignIdx_frame (env : Env) (c c' : Nat) (x : Int) (h : c' ≠ c) : getVar (setVar env c x) c' = getVar env c' :=
  getVar_setVar_ne env c c' x h

/-! ### procedures -/

/-- what a CALL does, given what its body did -/
theorem call_unfold (procs : List Proc) (fuel : Nat) (env : Env) (out : List Int) (p : Nat) (args : List Arg) (pr : Proc)
    (vals : List Int) (res : Res) (hp : procs[p]? = some pr) (ha : args.length = pr.nparams) (hv : evalArgs env args = .ok vals)
    (hb : execList procs fuel (vals ++ List.replicate pr.nlocals 0) out pr.body = some res) :
    exec procs fuel env out (.call p args) =
      some ⟨copyOut env args res.env 0, res.out, if res.sig = .exitSub then .normal else res.sig⟩ := by
  simp [exec, hp, ha, hv, hb]

/-- every activation starts with its locals reading 0 and its parameters holding the argument values: the frame the body
    runs in does not depend on earlier activations or on the caller's other variables -/
theorem call_result_env (procs : List Proc) (fuel : Nat) (env : Env) (out : List Int) (p : Nat) (args : List Arg) (res : Res)
    (h : exec procs fuel env out (.call p args) = some res) :
    res.env = env ∨ ∃ cenv, res.env = copyOut env args cenv 0 := by
  simp only [exec] at h
  split at h
  · cases h; exact Or.inl rfl
  · split at h
    · cases h; exact Or.inl rfl
    · split at h
      · cases h; exact Or.inl rfl
      · split at h
        · cases h
        · cases h; exact Or.inr ⟨_, rfl⟩

/-- an argument that is not a plain variable is passed by value: a call whose arguments are all expressions leaves every
    variable of the caller as it was, whatever the procedure does to its parameters -/
theorem call_byval_preserves_caller (procs : List Proc) (fuel : Nat) (env : Env) (out : List Int) (p : Nat) (args : List Arg)
    (res : Res) (hv : refsOf args = []) (h : exec procs fuel env out (.call p args) = some res) : res.env = env := by
  rcases call_result_env procs fuel env out p args res h with h1 | ⟨cenv, h1⟩
  · exact h1
  · rw [h1]; exact copyOut_no_refs env args cenv 0 hv

/-- a call changes only the variables it passes by reference -/
theorem call_writes_only_refs (procs : List Proc) (fuel : Nat) (env : Env) (out : List Int) (p : Nat) (args : List Arg)
    (res : Res) (v : Nat) (hv : v ∉ refsOf args) (h : exec procs fuel env out (.call p args) = some res) :
    getVar res.env v = getVar env v := by
  rcases call_result_env procs fuel env out p args res h with h1 | ⟨cenv, h1⟩
  · rw [h1]
  · rw [h1]; exact copyOut_other env args cenv 0 v hv

/-- a variable passed by reference comes back with the value the procedure left in the corresponding parameter
    (no variable passed twice) -/
theorem call_ref_gets_callee_value (env cenv : Env) (args : List Arg) (k v : Nat) (hk : args[k]? = some (.ref v))
    (hna : NoAlias args) (hv : v < env.length) : getVar (copyOut env args cenv 0) v = getVar cenv k := by
  simpa using copyOut_ref env cenv args 0 k v hk hna hv

/-- EXIT SUB returns to the statement after the CALL; END inside a procedure ends the program; an error stays an error -/
theorem exit_sub_returns (procs : List Proc) (fuel : Nat) (env : Env) (out : List Int) (p : Nat) (args : List Arg) (pr : Proc)
    (vals : List Int) (res : Res) (hp : procs[p]? = some pr) (ha : args.length = pr.nparams) (hv : evalArgs env args = .ok vals)
    (hb : execList procs fuel (vals ++ List.replicate pr.nlocals 0) out pr.body = some res) (hs : res.sig = .exitSub) :
    exec procs fuel env out (.call p args) = some ⟨copyOut env args res.env 0, res.out, .normal⟩ := by
  rw [call_unfold procs fuel env out p args pr vals res hp ha hv hb]; simp [hs]

theorem end_in_sub_ends_program (procs : List Proc) (fuel : Nat) (env : Env) (out : List Int) (p : Nat) (args : List Arg)
    (pr : Proc) (vals : List Int) (res : Res) (hp : procs[p]? = some pr) (ha : args.length = pr.nparams)
    (hv : evalArgs env args = .ok vals)
    (hb : execList procs fuel (vals ++ List.replicate pr.nlocals 0) out pr.body = some res) (hs : res.sig = .ended) :
    exec procs fuel env out (.call p args) = some ⟨copyOut env args res.env 0, res.out, .ended⟩ := by
  rw [call_unfold procs fuel env out p args pr vals res hp ha hv hb]; simp [hs]

/-- non-vacuity: SUB p0 (a, b): a = 7 : b = 9 : EXIT SUB : PRINT 7 ; CALL p0(v0, (v1)) with v0 = 4, v1 = 5:
    v0 comes back as 7, v1 (passed by value) keeps 5, nothing is printed -/
example : exec [⟨2, 0, [.assign 0 (.lit 7), .assign 1 (.lit 9), .exitSub, .print (.lit 7)]⟩] 5 [4, 5] []
    (.call 0 [.ref 0, .val (.var 1)]) = some ⟨[7, 5], [], .normal⟩ := by
  have hb : execList [⟨2, 0, [.assign 0 (.lit 7), .assign 1 (.lit 9), .exitSub, .print (.lit 7)]⟩] 5
      ([4, 5] ++ List.replicate 0 0) [] [.assign 0 (.lit 7), .assign 1 (.lit 9), .exitSub, .print (.lit 7)]
      = some ⟨[7, 9], [], .exitSub⟩ := by
    simp [execList, exec, eval, setVar]
  rw [exit_sub_returns _ 5 [4, 5] [] 0 _ ⟨2, 0, _⟩ [4, 5] _ rfl rfl rfl hb rfl]
  rfl

end Qbee.Src
