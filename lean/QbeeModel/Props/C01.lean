import QbeeModel.Lemmas.ExprSem
import QbeeModel.Model.Src
/-
  C01  Compiled programs do what their QBASIC source says.  Property theorems only.

  Proved subset: expressions -- every operator, every operand-type pair the static check accepts, implicit
  conversions, all leaf values, any nesting depth, any stack beneath, all float operation records.
  Statements, control flow, procedures, arrays and records are NOT covered by a theorem here; they are covered by
  the differential runs of the checks (six configurations) and by C03/C04/C15/C17/C18 for their parts.

  The reference semantics `refEval` applies, at every node, the operand-type rule of the language (`specTy`) and
  the operator at that type with the machine's arithmetic (Model/Arith.lean: range checks, division by zero,
  Python floor semantics for \ and MOD).  Where that arithmetic deviates from QBASIC the deviation is stated below
  as a machine-checked witness.
-/
namespace Qbee.ExprSem
open Qbee.Gen Qbee.ExprC Qbee.Arith

/-- OBLIGATION over the regenerated tables: for every accepted operator/type pair the generator emits exactly
    "convert left operand to T; … ; convert right operand to T; operator instruction(s)" with T given by the
    language's operand-type rule `specTy` -/
theorem allSpecOk_true : allSpecOk = true := allSpecOk_lem

/-- OBLIGATION: the opcode numbers used by the model are those of the regenerated instruction table -/
theorem decodeTableOk_true : decodeTableOk = true := decodeTableOk_lem

/-- Compilation preserves meaning, for every expression tree over all operators and operand types the static
    check accepts, all leaf values, all float operation records, and any stack beneath: running the generated code
    yields exactly what the reference semantics prescribes -- the value with its type pushed on the stack, or the
    same error (division by zero, overflow) -/
theorem compileC_correct {F} (ops : FOps F) : ∀ (e : CE F) (t : Ty), ty e.erase = some t →
    ∃ code, compileC e = some code ∧
      ∀ st, runC ops code st = Res.bind (refEval ops e) (fun v => .ok (v :: st))
  | .leaf c, t, _ => ⟨[.push c], rfl, fun st => by simp [runC, refEval]⟩
  | .bin op ea eb, t, h => by
    have h0 := h
    simp only [CE.erase, ty] at h
    cases hta : ty ea.erase with
    | none => simp [hta] at h
    | some l =>
      cases htb : ty eb.erase with
      | none => simp [hta, htb] at h
      | some r =>
        simp only [hta, htb] at h
        cases hrow : binRow op l r with
        | none => simp [hrow] at h
        | some row =>
          obtain ⟨op', l', r', acc, res, code⟩ := row
          simp only [hrow] at h
          cases acc with
          | false => simp at h
          | true =>
            simp at h
            subst h
            obtain ⟨_, hspec⟩ := binRow_spec op l r op' l' r' (some t) code hrow
            obtain ⟨ca, hca, hra⟩ := compileC_correct ops ea l hta
            obtain ⟨cb, hcb, hrb⟩ := compileC_correct ops eb r htb
            unfold specOkRow at hspec
            cases hsp : splitBin code with
            | none => simp [hsp] at hspec
            | some p =>
              obtain ⟨cl, cr⟩ := p
              simp only [hsp, Bool.and_eq_true, decide_eq_true_eq] at hspec
              obtain ⟨⟨hcl, hcr⟩, hout⟩ := hspec
              refine ⟨ca ++ cl.map .op ++ cb ++ cr.map .op, ?_, ?_⟩
              · simp [compileC, hta, htb, hca, hcb, hrow, hsp]
              · intro st
                have ht' : ty (E.bin op ea.erase eb.erase) = some t := h0
                simp only [refEval, hta, htb, ht']
                rw [runC_append, runC_append, runC_append, hra]
                simp only [bind_assoc, bind_ok]
                cases hva : refEval ops ea with
                | trap c => simp
                | host c => simp
                | ok va =>
                  simp only [bind_ok]
                  rw [runC_ops ops cl _ _ hcl]
                  have f1 := applyAll_frame ops (convIf l (specTy op l r t)) [va] st (enough_convIf _ _ 1 (by omega))
                  simp only [List.cons_append, List.nil_append] at f1
                  rw [f1]
                  cases hsa : applyAll ops (convIf l (specTy op l r t)) [va] with
                  | trap c => simp
                  | host c => simp
                  | ok sa =>
                    obtain ⟨va', hva'⟩ := convIf_one ops _ _ _ _ hsa
                    subst hva'
                    simp only [bind_ok, List.cons_append, List.nil_append]
                    rw [hrb]
                    simp only [bind_assoc, bind_ok]
                    cases hvb : refEval ops eb with
                    | trap c => simp
                    | host c => simp
                    | ok vb =>
                      simp only [bind_ok]
                      rw [runC_ops ops cr _ _ hcr]
                      have f2 := applyAll_frame ops (convIf r (specTy op l r t) ++ specOps op) [vb, va'] st
                        (enough_conv_ops _ _ _)
                      simp only [List.cons_append, List.nil_append] at f2
                      rw [f2]
                      cases hs : applyAll ops (convIf r (specTy op l r t) ++ specOps op) [vb, va'] with
                      | trap c => simp
                      | host c => simp
                      | ok s =>
                        have hl := applyAll_length ops _ _ _ hs
                        simp only [List.length_cons, List.length_nil] at hl
                        rw [hout] at hl
                        obtain ⟨v, hv, htop⟩ := top1_of_len s hl
                        subst hv
                        simp [top1]
  | .un op ea, t, h => by
    have h0 := h
    simp only [CE.erase, ty] at h
    cases hta : ty ea.erase with
    | none => simp [hta] at h
    | some ta =>
      simp only [hta] at h
      cases hrow : unRow op ta with
      | none => simp [hrow] at h
      | some row =>
        obtain ⟨op', a', acc, res, code⟩ := row
        simp only [hrow] at h
        cases acc with
        | false => simp at h
        | true =>
          simp at h
          subst h
          have hspec := unRow_spec op ta op' a' (some t) code hrow
          obtain ⟨ca, hca, hra⟩ := compileC_correct ops ea ta hta
          unfold specOkUnRow at hspec
          cases hsp : splitUn code with
          | none => simp [hsp] at hspec
          | some c =>
            simp only [hsp, Bool.and_eq_true, decide_eq_true_eq] at hspec
            obtain ⟨hc, hout⟩ := hspec
            refine ⟨ca ++ c.map .op, ?_, ?_⟩
            · simp [compileC, hta, hca, hrow, hsp]
            · intro st
              simp only [refEval, hta]
              rw [runC_append, hra]
              simp only [bind_assoc, bind_ok]
              cases hva : refEval ops ea with
              | trap c => simp
              | host c => simp
              | ok va =>
                simp only [bind_ok]
                rw [runC_ops ops c _ _ hc]
                have f := applyAll_frame ops (specUn op ta) [va] st (enough_specUn _ _)
                simp only [List.cons_append, List.nil_append] at f
                rw [f]
                cases hs : applyAll ops (specUn op ta) [va] with
                | trap c => simp
                | host c => simp
                | ok s =>
                  have hl := applyAll_length ops _ _ _ hs
                  simp only [List.length_cons, List.length_nil] at hl
                  rw [hout] at hl
                  obtain ⟨v, hv, htop⟩ := top1_of_len s hl
                  subst hv
                  simp [top1]


/-! ### where the machine's integer arithmetic is not QBASIC's -/

/-- QBASIC's `\` truncates toward zero and MOD takes the sign of the dividend; the machine (and the constant
    folder) use Python's floor division and modulo -/
theorem idiv_deviates_from_qbasic : pyFloorDiv (-7) 2 = -4 ∧ Int.tdiv (-7) 2 = -3 ∧
    pyMod (-7) 2 = 1 ∧ Int.tmod (-7) 2 = -1 := by decide

/-- partial: for non-negative dividend and positive divisor the two agree -/
theorem idiv_mod_agree_nonneg (a b : Int) (ha : 0 ≤ a) (hb : 0 < b) :
    pyFloorDiv a b = Int.tdiv a b ∧ pyMod a b = Int.tmod a b := by
  unfold pyFloorDiv pyMod
  constructor
  · rw [Int.fdiv_eq_ediv_of_nonneg _ (by omega), Int.tdiv_eq_ediv_of_nonneg ha]
  · rw [Int.fmod_eq_emod_of_nonneg _ (by omega), Int.tmod_eq_emod_of_nonneg ha]

-- non-vacuity: (3% + 2.5#) < 7! evaluates, through compiled code, to the INTEGER -1
example : ty (CE.bin 10 (CE.bin 1 (CE.leaf (.int .i 3)) (CE.leaf (.int .i 4))) (CE.leaf (.int .l 9)) : CE Nat).erase = some .i := by decide

end Qbee.ExprSem

/-! ### statement level: the reference semantics of structured control flow (Model/Src.lean)

  The correspondence of harness/checks/c01.py runs generated structured programs through this interpreter and through the
  real compiler + machine in all six configurations.  The lemmas below state what the reference semantics itself
  prescribes for the constructs the property names. -/
namespace Qbee.Src

/-- EXIT DO ends exactly the DO loop whose body raised it: the loop returns normally, with the state at the EXIT -/
theorem exit_do_leaves_this_loop (fuel : Nat) (env : Env) (out : List Int) (post : Expr) (qk : Nat) (body : List Stmt) (res : Res)
    (hb : execList fuel env out body = some res) (hs : res.sig = .exitDo) :
    loopDo (fuel + 1) env out 0 (.lit 0) qk post body = some ⟨res.env, res.out, .normal⟩ := by
  simp [loopDo, hb, hs]

/-- ... and an enclosing FOR loop does not swallow it: EXIT DO inside a FOR inside a DO leaves the DO -/
theorem for_passes_exit_do (fuel : Nat) (env : Env) (out : List Int) (v : Nat) (lim st : Int) (body : List Stmt) (res : Res)
    (hin : ((decide (st ≥ 0) && decide (getVar env v > lim)) || (decide (st < 0) && decide (getVar env v < lim))) = false)
    (hb : execList fuel env out body = some res) (hs : res.sig = .exitDo) :
    loopFor (fuel + 1) env out v lim st body = some res := by
  simp [loopFor, hin, hb, hs]

/-- EXIT FOR ends exactly the FOR loop whose body raised it; the loop variable keeps its value -/
theorem exit_for_leaves_this_loop (fuel : Nat) (env : Env) (out : List Int) (v : Nat) (lim st : Int) (body : List Stmt) (res : Res)
    (hin : ((decide (st ≥ 0) && decide (getVar env v > lim)) || (decide (st < 0) && decide (getVar env v < lim))) = false)
    (hb : execList fuel env out body = some res) (hs : res.sig = .exitFor) :
    loopFor (fuel + 1) env out v lim st body = some ⟨res.env, res.out, .normal⟩ := by
  simp [loopFor, hin, hb, hs]

/-- a DO loop passes EXIT FOR on to the FOR loop around it -/
theorem do_passes_exit_for (fuel : Nat) (env : Env) (out : List Int) (post : Expr) (qk : Nat) (body : List Stmt) (res : Res)
    (hb : execList fuel env out body = some res) (hs : res.sig = .exitFor) :
    loopDo (fuel + 1) env out 0 (.lit 0) qk post body = some res := by
  simp [loopDo, hb, hs]

/-- statements after an EXIT, END or failing statement in the same list are not executed -/
theorem execList_stops (fuel : Nat) (env : Env) (out : List Int) (s : Stmt) (rest : List Stmt) (res : Res)
    (h : exec fuel env out s = some res) (hs : res.sig ≠ .normal) :
    execList (fuel + 1) env out (s :: rest) = some res := by
  simp [execList, h, hs]

/-- a FOR loop whose start is beyond its limit does not execute its body (and leaves the variable at the start value) -/
theorem for_empty_range (fuel : Nat) (env : Env) (out : List Int) (v : Nat) (lim st : Int) (body : List Stmt)
    (h : (st ≥ 0 ∧ getVar env v > lim) ∨ (st < 0 ∧ getVar env v < lim)) :
    loopFor (fuel + 1) env out v lim st body = some ⟨env, out, .normal⟩ := by
  rcases h with ⟨h1, h2⟩ | ⟨h1, h2⟩ <;> simp [loopFor, h1, h2]

/-- WHILE with a false condition skips the body; UNTIL with a non-zero condition (any non-zero value, not only -1) ends a
    DO UNTIL loop before its first iteration -/
theorem while_false_skips (fuel : Nat) (env : Env) (out : List Int) (c : Expr) (body : List Stmt) (h : eval env c = .ok 0) :
    loopWhile (fuel + 1) env out c body = some ⟨env, out, .normal⟩ := by
  simp [loopWhile, h]

theorem do_until_nonzero_skips (fuel : Nat) (env : Env) (out : List Int) (pre post : Expr) (qk : Nat) (body : List Stmt) (x : Int)
    (h : eval env pre = .ok x) (hx : x ≠ 0) :
    loopDo (fuel + 1) env out 2 pre qk post body = some ⟨env, out, .normal⟩ := by
  simp [loopDo, h, condHolds, hx, Except.map]

/-- non-vacuity: a body `PRINT 5 : EXIT DO : PRINT 6` raises EXIT DO after printing 5, so the premises of
    `exit_do_leaves_this_loop` are met and the loop ends with output [5] -/
example : execList 3 [0] [] [.print (.lit 5), .exitDo, .print (.lit 6)] = some ⟨[0], [5], .exitDo⟩ := by
  simp [execList, exec, eval]
example : loopDo 4 [0] [] 0 (.lit 0) 0 (.lit 0) [.print (.lit 5), .exitDo, .print (.lit 6)] = some ⟨[0], [5], .normal⟩ :=
  exit_do_leaves_this_loop 3 [0] [] (.lit 0) 0 _ ⟨[0], [5], .exitDo⟩ (by simp [execList, exec, eval]) rfl

end Qbee.Src
