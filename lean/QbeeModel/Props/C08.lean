import QbeeModel.Lemmas.Asm
/-
  C08  Debug information does not change what a program does.  Property theorems only.

  Proved: the assembler is blind to debug markers (byte-identical code section, same label addresses) for every
  symbolic instruction stream; markers are recorded on instruction boundaries.  That the code generator only ADDS
  markers (erase (gen -g) = gen without -g) and that the peephole pass behaves alike is validated per program.
-/
namespace Qbee.Asm

/-- debug markers are invisible to the assembler: the code section assembled from a stream with markers is
    byte-identical to the one assembled from the same stream with the markers removed -- same label
    addresses, same patched operands, same bytes -/
theorem assemble_erase (s : List SI) : assemble (erase s) = assemble s := by
  unfold assemble
  rw [labelTable_erase, emit_erase]

/-- every marker is recorded at an instruction boundary: the offset of an instruction start, or the end of the code -/
theorem marker_on_boundary : ∀ (s : List SI) (off k o : Nat), (k, o) ∈ markerOffsets s off →
    o ∈ starts s off ∨ o = off + totalSize s
  | [], off, k, o, h => by simp [markerOffsets] at h
  | .marker k' :: r, off, k, o, h => by
    simp only [markerOffsets, List.mem_cons] at h
    rcases h with h | h
    · injection h with h1 h2; subst h2
      rcases boundary_here r o with hb | hb
      · left; simpa [starts] using hb
      · right; simpa [totalSize, size] using hb
    · have := marker_on_boundary r off k o h
      simpa [starts, totalSize, size] using this
  | .label n :: r, off, k, o, h => by
    simp only [markerOffsets] at h
    have := marker_on_boundary r off k o h
    simpa [starts, totalSize, size] using this
  | .ins op a :: r, off, k, o, h => by
    simp only [markerOffsets] at h
    have := marker_on_boundary r (off + size (.ins op a)) k o h
    rcases this with h1 | h1
    · left; simp [starts, h1]
    · right; simp only [totalSize]; omega

example : assemble [.marker 0, .ins 28 [.lbl "x"], .marker 1, .label "x", .ins 100 []] = some [28, 0, 0, 0, 5, 100] := by decide


end Qbee.Asm
