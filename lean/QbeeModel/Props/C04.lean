import QbeeModel.Lemmas.Layout
/-
  C04  Variables, array elements and record fields never overlap or leak.  Property theorems only.
-/
namespace Qbee.Layout

/-! ### variables -/

/-- two different variables of one frame (or of the global area) occupy disjoint cell ranges,
    both inside the frame: the later one starts after the earlier one ends -/
theorem vars_disjoint (a b c : List (String × VType)) (v w : String) (tv tw : VType)
    (hnd : ((a ++ (v, tv) :: (b ++ (w, tw) :: c)).map (·.1)).Nodup) :
    ∃ i j, varIdx (a ++ (v, tv) :: (b ++ (w, tw) :: c)) v = some i ∧
           varIdx (a ++ (v, tv) :: (b ++ (w, tw) :: c)) w = some j ∧
           i + tv.size ≤ j ∧ j + tw.size ≤ frameSize (a ++ (v, tv) :: (b ++ (w, tw) :: c)) := by
  have hav := nodup_before a (v, tv) (b ++ (w, tw) :: c) hnd
  have hre : (a ++ (v, tv) :: (b ++ (w, tw) :: c)) = (a ++ (v, tv) :: b) ++ (w, tw) :: c := by simp
  have hw := nodup_before (a ++ (v, tv) :: b) (w, tw) c (by rw [← hre]; exact hnd)
  refine ⟨frameSize a, frameSize (a ++ (v, tv) :: b), ?_, ?_, ?_, ?_⟩
  · exact varIdx_split a v tv (b ++ (w, tw) :: c) hav
  · rw [hre]; exact varIdx_split (a ++ (v, tv) :: b) w tw c hw
  · simp [frameSize_append, frameSize]
  · simp [frameSize_append, frameSize]; omega

/-! ### record fields -/

/-- the cells of any field (at any nesting depth) lie inside the record -/
theorem field_inside : ∀ (p : List Nat) (t ft : FType) (o : Nat),
    fieldOffset t p = some o → fieldType t p = some ft → o + ft.size ≤ t.size
  | [], t, ft, o, ho, hf => by
    simp [fieldOffset] at ho; simp [fieldType] at hf; subst ho; subst hf; omega
  | i :: p, .cell, ft, o, ho, _ => by simp [fieldOffset] at ho
  | i :: p, .record fs, ft, o, ho, hf => by
    simp only [fieldOffset] at ho
    simp only [fieldType] at hf
    cases hfi : fs[i]? with
    | none => simp [hfi] at ho
    | some f =>
      simp only [hfi] at ho hf
      cases hfo : fieldOffset f p with
      | none => simp [hfo] at ho
      | some o' =>
        simp [hfo] at ho
        have := field_inside p f ft o' hfo hf
        have h2 := sizeL_take_le fs i f hfi
        simp only [FType.size]
        omega

/-- two field paths that diverge (after a common prefix `c` they select different fields i ≠ j)
    denote disjoint cell ranges -/
theorem fields_disjoint : ∀ (c : List Nat) (t : FType) (i j : Nat) (p q : List Nat) (fp fq : FType) (op oq : Nat),
    i ≠ j →
    fieldOffset t (c ++ i :: p) = some op → fieldType t (c ++ i :: p) = some fp →
    fieldOffset t (c ++ j :: q) = some oq → fieldType t (c ++ j :: q) = some fq →
    op + fp.size ≤ oq ∨ oq + fq.size ≤ op
  | [], .cell, i, j, p, q, fp, fq, op, oq, _, h1, _, _, _ => by simp [fieldOffset] at h1
  | [], .record fs, i, j, p, q, fp, fq, op, oq, hij, h1, t1, h2, t2 => by
    simp only [List.nil_append, fieldOffset] at h1 h2
    simp only [List.nil_append, fieldType] at t1 t2
    cases hfi : fs[i]? with
    | none => simp [hfi] at h1
    | some f =>
      cases hfj : fs[j]? with
      | none => simp [hfj] at h2
      | some g =>
        simp only [hfi] at h1 t1
        simp only [hfj] at h2 t2
        cases h1' : fieldOffset f p with
        | none => simp [h1'] at h1
        | some o1 =>
          cases h2' : fieldOffset g q with
          | none => simp [h2'] at h2
          | some o2 =>
            simp [h1'] at h1; simp [h2'] at h2
            have in1 := field_inside p f fp o1 h1' t1
            have in2 := field_inside q g fq o2 h2' t2
            rcases Nat.lt_or_gt_of_ne hij with hlt | hgt
            · have := sizeL_take_mono fs i j f hlt hfi
              left; omega
            · have := sizeL_take_mono fs j i g hgt hfj
              right; omega
  | k :: c, .cell, i, j, p, q, fp, fq, op, oq, _, h1, _, _, _ => by simp [fieldOffset] at h1
  | k :: c, .record fs, i, j, p, q, fp, fq, op, oq, hij, h1, t1, h2, t2 => by
    simp only [List.cons_append, fieldOffset] at h1 h2
    simp only [List.cons_append, fieldType] at t1 t2
    cases hfk : fs[k]? with
    | none => simp [hfk] at h1
    | some f =>
      simp only [hfk] at h1 t1 h2 t2
      cases h1' : fieldOffset f (c ++ i :: p) with
      | none => simp [h1'] at h1
      | some o1 =>
        cases h2' : fieldOffset f (c ++ j :: q) with
        | none => simp [h2'] at h2
        | some o2 =>
          simp [h1'] at h1; simp [h2'] at h2
          have := fields_disjoint c f i j p q fp fq o1 o2 hij h1' t1 h2' t2
          omega

/-! ### array elements -/

/-- distinct in-bounds subscript tuples address distinct elements (element size > 0): the
    row-major offset is injective -/
theorem elemOffset_inj (e : Nat) (he : 0 < e) : ∀ (ds : List (Int × Int)) (is js : List Int) (o : Nat),
    elemOffset e ds is = some o → elemOffset e ds js = some o → is = js
  | [], [], [], _, _, _ => rfl
  | [], [], _ :: _, _, _, h => by simp [elemOffset] at h
  | [], _ :: _, _, _, h, _ => by simp [elemOffset] at h
  | _ :: _, [], _, _, h, _ => by simp [elemOffset] at h
  | _ :: _, _ :: _, [], _, _, h => by simp [elemOffset] at h
  | d :: ds, i :: is, j :: js, o, h1, h2 => by
    simp only [elemOffset] at h1 h2
    split at h1
    · cases h1
    · next hbi =>
      split at h2
      · cases h2
      · next hbj =>
        cases h1' : elemOffset e ds is with
        | none => simp [h1'] at h1
        | some o1 =>
          cases h2' : elemOffset e ds js with
          | none => simp [h2'] at h2
          | some o2 =>
            simp [h1'] at h1; simp [h2'] at h2
            have b1 := elemOffset_bound e ds is o1 h1'
            have b2 := elemOffset_bound e ds js o2 h2'
            have := add_mul_inj (prodExt ds * e) o1 o2 (i - d.1).toNat (j - d.1).toNat (by omega) (by omega) (by omega)
            obtain ⟨ho, hk⟩ := this
            subst ho
            have hij : i = j := by omega
            subst hij
            rw [elemOffset_inj e he ds is js o1 h1' h2']

/-- every element lies inside the array's storage, after the header -/
theorem elem_inside (e : Nat) (ds : List (Int × Int)) (is : List Int) (c : Nat)
    (h : elemIndex e ds is = some c) :
    headerSize ds ≤ c ∧ c + e ≤ (VType.sarr (.cell) ds).size - 1 * prodExt ds + prodExt ds * e := by
  unfold elemIndex at h
  cases h' : elemOffset e ds is with
  | none => simp [h'] at h
  | some o =>
    simp [h'] at h
    have := elemOffset_bound e ds is o h'
    subst h
    simp [VType.size, FType.size]
    omega


/-- assigning one cell changes that cell only -/
theorem store_frame {V} (m : Mem V) (c c' : Nat) (x : V) :
    (m.store c x) c' = if c' = c then some x else m c' := rfl

/-- reading changes nothing observable: every other cell is untouched, and the cell read still
    reads as the same value -/
theorem read_pure {V} (d : V) (m : Mem V) (c : Nat) :
    (∀ c', c' ≠ c → (readCell d m c).2 c' = m c') ∧
    (readCell d (readCell d m c).2 c).1 = (readCell d m c).1 ∧
    ((readCell d m c).2 c).getD d = (m c).getD d := by
  unfold readCell
  cases h : m c with
  | some v => simp [h]
  | none => simp [Mem.store]; intro c' hc; simp [hc]

/-- a location never assigned reads as the default (0 or the empty string) -/
theorem unset_reads_default {V} (d : V) (m : Mem V) (c : Nat) (h : m c = none) :
    (readCell d m c).1 = d := by simp [readCell, h]

theorem assigned_reads_value {V} (d : V) (m : Mem V) (c : Nat) (x : V) :
    (readCell d (m.store c x) c).1 = x := by simp [readCell, Mem.store]

/-- the unrepaired readidx clobbered an unrelated cell: the full statement "reading changes
    nothing" was false of it -/
theorem readIdxOld_clobbers :
    ∃ (m : Mem Nat) (var idx c' : Nat), c' ≠ var + idx ∧ (readIdxOld 0 m var idx).2 c' ≠ m c' :=
  ⟨fun c => if c = 1 then some 7 else none, 5, 1, 1, by decide, by simp [readIdxOld, Mem.store]⟩

/-! ### parameters -/

/-- a by-reference argument aliases exactly the location the caller named -/
theorem byref_aliases_exactly {V} (nL : Nat) (args : List (Arg V)) (i s k : Nat)
    (h : args[i]? = some (.ref s k)) : (bindParams nL args)[i]? = some (.ref s k) := by
  have hl := (bindGo_length (args.length + nL) args).1
  have hi : i < args.length := (List.getElem?_eq_some_iff.mp h).1
  unfold bindParams
  rw [List.append_assoc, List.getElem?_append_left (by omega)]
  exact bindGo_ref _ args i s k h

/-- an expression argument aliases nothing: its parameter refers to a fresh cell beyond the
    frame's declared cells, which holds a copy of the value -/
theorem byval_aliases_nothing {V} (nL : Nat) (args : List (Arg V)) (i : Nat) (v : V)
    (h : args[i]? = some (.val v)) :
    ∃ t, args.length + nL ≤ t ∧ (bindParams nL args)[i]? = some (.ref 0 t) ∧
         (bindParams nL args)[t]? = some (.val v) := by
  have hl := bindGo_length (args.length + nL) args
  have hi : i < args.length := (List.getElem?_eq_some_iff.mp h).1
  obtain ⟨h1, h2⟩ := bindGo_val (args.length + nL) args i v h
  refine ⟨args.length + nL + nVals (args.drop (i + 1)), by omega, ?_, ?_⟩
  · unfold bindParams
    rw [List.append_assoc, List.getElem?_append_left (by omega)]
    exact h1
  · unfold bindParams
    rw [List.getElem?_append_right (by simp [hl.1])]
    simp [hl.1]
    exact h2

/-- the parameters of a routine need one cell each -/
theorem params_one_cell_each (ps ls : List (String × VType)) :
    frameSize (routineFrame ps ls) = ps.length + frameSize ls := by
  simp [routineFrame, frameSize_append, frameSize_params]

/-- the code of the callee finds its k-th parameter in cell k of the frame, whatever the earlier parameters refer to -/
theorem param_slot_is_position (ps ls : List (String × VType)) (k : Nat) (hk : k < ps.length)
    (hnd : (ps.map (·.1)).Nodup) : varIdx (routineFrame ps ls) (ps[k]).1 = some k :=
  varIdx_append_left _ _ _ _ (varIdx_param_pos ps k hk hnd)

/-- ... and that cell holds the reference the caller passed for its k-th argument: a parameter of any type (a whole record
    too) names exactly the caller's location -/
theorem param_reads_its_argument {V} (ps ls : List (String × VType)) (args : List (Arg V)) (nL k s i : Nat)
    (hk : k < ps.length) (hnd : (ps.map (·.1)).Nodup) (h : args[k]? = some (.ref s i)) :
    ∃ c, varIdx (routineFrame ps ls) (ps[k]).1 = some c ∧ (bindParams nL args)[c]? = some (.ref s i) :=
  ⟨k, param_slot_is_position ps ls k hk hnd, byref_aliases_exactly nL args k s i h⟩

/-- a local variable lies behind the parameter cells -/
theorem local_behind_params (ps ls : List (String × VType)) (v : String) (c : Nat)
    (hp : ∀ p ∈ ps, p.1 ≠ v) (h : varIdx ls v = some c) : varIdx (routineFrame ps ls) v = some (c + ps.length) := by
  unfold routineFrame
  rw [varIdx_append_right _ _ _ (by
    intro q hq
    obtain ⟨p, hp', rfl⟩ := List.mem_map.mp hq
    exact hp p hp'), h, frameSize_params]
  rfl

/-- before the repair a record parameter was given the room of the whole record: the parameter after it was looked up in a
    cell that `frame` never filled with its argument (`frame` pops one cell per argument) -/
theorem whole_record_sizing_was_wrong :
    ∃ (ps ls : List (String × VType)) (k : Nat) (hk : k < ps.length),
      varIdx (routineFrameOld ps ls) (ps[k]).1 ≠ some k ∧ varIdx (routineFrame ps ls) (ps[k]).1 = some k :=
  ⟨[("q", .val (.record [.cell, .cell])), ("m", .val .cell)], [], 1, by decide, by decide, by decide⟩

example : routineFrame [("a", .dyn), ("q", .val (.record [.cell, .record [.cell, .cell]])), ("m", .val .cell)] [("l", .val .cell)] =
    [("a", .dyn), ("q", .dyn), ("m", .dyn), ("l", .val .cell)] := by rfl

/-- every activation gets fresh locals: all declared local cells of a new frame are unset -/
theorem fresh_locals {V} (nL : Nat) (args : List (Arg V)) (j : Nat)
    (h1 : args.length ≤ j) (h2 : j < args.length + nL) : (bindParams nL args)[j]? = some .unset := by
  have hl := bindGo_length (args.length + nL) args
  unfold bindParams
  rw [List.append_assoc, List.getElem?_append_right (by omega), List.getElem?_append_left (by simp; omega)]
  rw [List.getElem?_replicate]
  have : j - (bindGo (args.length + nL) args).1.length < nL := by omega
  simp [this]

/-- two expression arguments never share their temporary cell -/
theorem byval_temps_distinct {V} (args : List (Arg V)) (i j : Nat) (v w : V) (hij : i < j)
    (_hi : args[i]? = some (.val v)) (hj : args[j]? = some (.val w)) :
    nVals (args.drop (i + 1)) ≠ nVals (args.drop (j + 1)) := by
  have := nVals_drop_lt args i j w hij hj
  omega

example : bindParams 1 [Arg.ref 3 7, Arg.val (5 : Nat), Arg.val 6] =
    [.ref 3 7, .ref 0 5, .ref 0 4, .unset, .val 6, .val 5] := by simp [bindParams, bindGo]



end Qbee.Layout
