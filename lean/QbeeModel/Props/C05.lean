import QbeeModel.Model.Blocks
import QbeeModel.Model.ExprC
/-
  C05  Static errors are rejected at compile time with a located diagnostic.  Property theorems only.

  PARTIAL.  Proved for the two modelled rule families: block structure (parser.parse_string / Block.create and the
  create_block rules, any program) and operator typing (BinaryOp.type / UnaryOp.type and the pass-2 acceptance, over
  the tables regenerated from the real passes).  Names, labels, argument lists, CONST and the positions of those
  diagnostics are covered by the fault-injection oracle of harness/checks/c05.py, not by a theorem.
-/
namespace Qbee.Blocks

/-- what an accepting run has seen: for every block kind, as many openers (counting the blocks still open at the
    start) as terminators -/
theorem run_ok_counts : ∀ (toks : List Tok) (st : List Frame) (cur : List Item),
    run toks st cur = .ok () → ∀ k, countStart k toks + countFrames k st = countStop k toks
  | [], [], _, _, k => by simp [countStart, countStop, countFrames]
  | [], f :: st, cur, h, _ => by simp [run] at h
  | .start k' loc :: r, st, cur, h, k => by
    simp only [run] at h
    have := run_ok_counts r _ _ h k
    simp only [countFrames] at this
    simp only [countStart, countStop]
    omega
  | .stop k' loc :: r, [], cur, h, _ => by simp [run] at h
  | .stop k' loc :: r, f :: st, cur, h, k => by
    simp only [run] at h
    split at h
    · cases h
    · rename_i hk
      have hk' : f.kind = k' := by simpa using hk
      split at h
      · cases h
      · have := run_ok_counts r _ _ h k
        simp only [countStart, countStop, countFrames, hk']
        omega
  | .mid sub loc :: r, st, cur, h, k => by
    simp only [run] at h
    cases st with
    | nil => simp at h
    | cons f st =>
      simp only at h
      split at h
      · have := run_ok_counts r _ _ h k
        simpa [countStart, countStop] using this
      · cases h
  | .field loc :: r, st, cur, h, k => by
    simp only [run] at h
    cases st with
    | nil => simp at h
    | cons f st =>
      simp only at h
      split at h
      · have := run_ok_counts r _ _ h k
        simpa [countStart, countStop] using this
      · cases h
  | .plain loc :: r, st, cur, h, k => by
    simp only [run] at h
    simpa [countStart, countStop] using run_ok_counts r _ _ h k

/-- an unclosed block or a surplus terminator is never accepted, wherever it stands and whatever surrounds it -/
theorem unbalanced_rejected (toks : List Tok) (k : Nat) (h : countStart k toks ≠ countStop k toks) :
    assemble toks ≠ .ok () := by
  intro hok
  have := run_ok_counts toks [] [] hok k
  simp [countFrames] at this
  exact h this

def itemLoc : Item → Nat
  | .mid _ l | .field l | .other l => l

/-- every position ever reported is the position of a statement of the program: of the offending terminator, of the
    stray ELSE / CASE, of the statement that may not stand where it stands, or of the opener of the innermost unclosed
    block -/
theorem run_error_located : ∀ (toks : List Tok) (st : List Frame) (cur : List Item) (e : Err),
    run toks st cur = .error e →
    e.loc ∈ toks.map Tok.loc ∨ e.loc ∈ st.map (·.loc) ∨ e.loc ∈ cur.map itemLoc ∨ ∃ f ∈ st, e.loc ∈ f.outer.map itemLoc
  | [], [], _, e, h => by simp [run] at h
  | [], f :: st, cur, e, h => by
    simp only [run] at h
    cases h
    right; left; simp [Err.loc]
  | .start k loc :: r, st, cur, e, h => by
    simp only [run] at h
    rcases run_error_located r _ _ e h with h1 | h1 | h1 | h1
    · left; simp [h1]
    · simp only [List.map_cons, List.mem_cons] at h1
      rcases h1 with h1 | h1
      · left; simp [Tok.loc, h1]
      · right; left; exact h1
    · simp at h1
    · obtain ⟨f, hf, hl⟩ := h1
      simp only [List.mem_cons] at hf
      rcases hf with hf | hf
      · subst hf; right; right; left; exact hl
      · right; right; right; exact ⟨f, hf, hl⟩
  | .stop k loc :: r, [], cur, e, h => by
    simp only [run] at h
    cases h
    left; simp [Err.loc, Tok.loc]
  | .stop k loc :: r, f :: st, cur, e, h => by
    simp only [run] at h
    split at h
    · cases h; left; simp [Err.loc, Tok.loc]
    · split at h
      · rename_i e' hc
        cases h
        -- the close check reports an item of the body
        have hmem : e.loc ∈ cur.map itemLoc := by
          unfold closeCheck at hc
          split at hc
          · -- IF
            have : ∀ (items : List Item) (b : Bool) (e : Err), ifCheck items b = some e → e.loc ∈ items.map itemLoc := by
              intro items
              induction items with
              | nil => intro b e h; simp [ifCheck] at h
              | cons it r ih =>
                intro b e h
                cases it with
                | mid sub l =>
                  simp only [ifCheck] at h
                  split at h
                  · cases h; simp [Err.loc, itemLoc]
                  · have := ih _ e h; simp [this]
                | field l => simp only [ifCheck] at h; have := ih _ e h; simp [this]
                | other l => simp only [ifCheck] at h; have := ih _ e h; simp [this]
            exact this _ _ _ hc
          · split at hc
            · -- SELECT
              split at hc <;> first | (cases hc; done) | (cases hc; simp [Err.loc, itemLoc])
            · split at hc
              · -- TYPE
                have : ∀ (items : List Item) (e : Err), typeCheck items = some e → e.loc ∈ items.map itemLoc := by
                  intro items
                  induction items with
                  | nil => intro e h; simp [typeCheck] at h
                  | cons it r ih =>
                    intro e h
                    cases it with
                    | mid sub l => simp only [typeCheck] at h; cases h; simp [Err.loc, itemLoc]
                    | field l => simp only [typeCheck] at h; have := ih e h; simp [this]
                    | other l => simp only [typeCheck] at h; cases h; simp [Err.loc, itemLoc]
                exact this _ _ hc
              · cases hc
        right; right; left; exact hmem
      · rcases run_error_located r _ _ e h with h1 | h1 | h1 | h1
        · left; simp [h1]
        · right; left; simp [h1]
        · simp only [List.map_append, List.mem_append, List.map_cons, List.map_nil, List.mem_singleton, itemLoc] at h1
          rcases h1 with h1 | h1
          · right; right; right; exact ⟨f, by simp, h1⟩
          · right; left; simp [h1]
        · obtain ⟨f', hf', hl⟩ := h1
          right; right; right; exact ⟨f', by simp [hf'], hl⟩
  | .mid sub loc :: r, st, cur, e, h => by
    simp only [run] at h
    cases st with
    | nil => simp only at h; cases h; left; simp [Err.loc, Tok.loc]
    | cons f st =>
      simp only at h
      split at h
      · rcases run_error_located r _ _ e h with h1 | h1 | h1 | h1
        · left; simp [h1]
        · right; left; exact h1
        · simp only [List.map_append, List.mem_append, List.map_cons, List.map_nil, List.mem_singleton, itemLoc] at h1
          rcases h1 with h1 | h1
          · right; right; left; exact h1
          · left; simp [Tok.loc, h1]
        · right; right; right; exact h1
      · cases h; left; simp [Err.loc, Tok.loc]
  | .field loc :: r, st, cur, e, h => by
    simp only [run] at h
    cases st with
    | nil => simp only at h; cases h; left; simp [Err.loc, Tok.loc]
    | cons f st =>
      simp only at h
      split at h
      · rcases run_error_located r _ _ e h with h1 | h1 | h1 | h1
        · left; simp [h1]
        · right; left; exact h1
        · simp only [List.map_append, List.mem_append, List.map_cons, List.map_nil, List.mem_singleton, itemLoc] at h1
          rcases h1 with h1 | h1
          · right; right; left; exact h1
          · left; simp [Tok.loc, h1]
        · right; right; right; exact h1
      · cases h; left; simp [Err.loc, Tok.loc]
  | .plain loc :: r, st, cur, e, h => by
    simp only [run] at h
    rcases run_error_located r _ _ e h with h1 | h1 | h1 | h1
    · left; simp [h1]
    · right; left; exact h1
    · simp only [List.map_append, List.mem_append, List.map_cons, List.map_nil, List.mem_singleton, itemLoc] at h1
      rcases h1 with h1 | h1
      · right; right; left; exact h1
      · left; simp [Tok.loc, h1]
    · right; right; right; exact h1

theorem diagnostic_is_located (toks : List Tok) (e : Err) (h : assemble toks = .error e) : e.loc ∈ toks.map Tok.loc := by
  rcases run_error_located toks [] [] e h with h1 | h1 | h1 | h1
  · exact h1
  · simp at h1
  · simp at h1
  · obtain ⟨f, hf, _⟩ := h1; simp at hf

/-- properly nested programs (plain statements and the blocks without inner rules: SUB, FUNCTION, DO, FOR, WHILE) -/
inductive Nest : List Tok → Prop where
  | nil : Nest []
  | plain (l : Nat) (rest : List Tok) (h : Nest rest) : Nest (.plain l :: rest)
  | block (k l l' : Nat) (body rest : List Tok) (hk : k ≠ 0 ∧ k ≠ 3 ∧ k ≠ 6) (hb : Nest body) (hr : Nest rest) :
      Nest (.start k l :: (body ++ .stop k l' :: rest))

/-- a properly nested run of statements is consumed without complaint wherever it stands: a valid construct is never
    rejected because of what surrounds it -/
theorem nest_consumed : ∀ (toks : List Tok), Nest toks → ∀ (rest : List Tok) (st : List Frame) (cur : List Item),
    ∃ cur', run (toks ++ rest) st cur = run rest st cur' := by
  intro toks h
  induction h with
  | nil => intro rest st cur; exact ⟨cur, rfl⟩
  | plain l r _ ih =>
    intro rest st cur
    obtain ⟨c, hc⟩ := ih rest st (cur ++ [.other l])
    exact ⟨c, by simp [run, hc]⟩
  | block k l l' body r hk _ _ ihb ihr =>
    intro rest st cur
    obtain ⟨c1, h1⟩ := ihb (.stop k l' :: (r ++ rest)) (⟨k, l, cur⟩ :: st) []
    obtain ⟨c2, h2⟩ := ihr rest st (cur ++ [.other l])
    refine ⟨c2, ?_⟩
    have hcc : closeCheck k c1 = none := by
      unfold closeCheck
      simp [hk.1, hk.2.1, hk.2.2]
    simp only [List.cons_append, List.append_assoc, run]
    rw [h1]
    simp [run, hcc, h2]

theorem nest_accepted (toks : List Tok) (h : Nest toks) : assemble toks = .ok () := by
  obtain ⟨c, hc⟩ := nest_consumed toks h [] [] []
  simp only [List.append_nil] at hc
  unfold assemble
  rw [hc]; rfl

/-- non-vacuity -/
example : assemble [.start 5 1, .plain 2, .stop 5 3] = .ok () := by rfl
example : assemble [.start 5 1, .start 7 2, .stop 5 3, .stop 7 4] = .error (.expected 7 3) := by rfl
example : assemble [.plain 1, .mid 0 2] = .error (.midWithout 0 2) := by rfl
example : assemble [.start 0 1, .mid 0 2, .mid 1 3, .stop 0 4] = .error (.elseAfterElse 3) := by rfl
example : assemble [.start 4 1, .start 5 2, .plain 3] = .error (.notClosed 5 2) := by rfl
example : assemble [.start 3 1, .field 2, .stop 3 3, .field 4] = .error (.fieldOutside 4) := by rfl
example : assemble [.start 6 1, .mid 2 2, .mid 3 3, .mid 2 4, .stop 6 5] = .ok () := by rfl
example : assemble [.start 6 1, .mid 3 2, .plain 3, .stop 6 4] = .ok () := by rfl
example : assemble [.start 3 1, .start 5 2, .field 3, .stop 5 4, .stop 3 5] = .error (.fieldOutside 3) := by rfl

end Qbee.Blocks

namespace Qbee.ExprC
open Qbee.Gen

/-- an accepted operator application has accepted operands and an accepted row: an ill-typed operator application anywhere
    in an expression makes the whole expression rejected -/
theorem ty_bin_inv (op : Nat) (a b : E) (t : Ty) (h : ty (.bin op a b) = some t) :
    ∃ l r, ty a = some l ∧ ty b = some r ∧ ∃ x y z code, binRow op l r = some (x, y, z, true, some t, code) := by
  simp only [ty] at h
  cases ha : ty a with
  | none => simp [ha] at h
  | some l =>
    cases hb : ty b with
    | none => simp [ha, hb] at h
    | some r =>
      simp only [ha, hb] at h
      cases hr : binRow op l r with
      | none => simp [hr] at h
      | some row =>
        obtain ⟨x, y, z, acc, res, code⟩ := row
        simp only [hr] at h
        cases acc with
        | false => simp at h
        | true =>
          simp only at h
          exact ⟨l, r, rfl, rfl, x, y, z, code, by rw [hr, h]⟩

theorem ill_typed_operand_rejects (op : Nat) (a b : E) (h : ty a = none ∨ ty b = none) : ty (.bin op a b) = none := by
  cases ht : ty (.bin op a b) with
  | none => rfl
  | some t =>
    obtain ⟨l, r, ha, hb, _⟩ := ty_bin_inv op a b t ht
    rcases h with h | h
    · rw [h] at ha; cases ha
    · rw [h] at hb; cases hb

end Qbee.ExprC
