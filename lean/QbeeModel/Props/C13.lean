import QbeeModel.Model.DbgEval
import QbeeModel.Lemmas.ExprSem
import QbeeModel.Props.C02
/-
  C13  Debugger expression evaluation agrees with the running program.  Property theorems only.

  `refEval` is the reference semantics of the compiled expression (Props/C01.lean: the code the compiler emits computes
  exactly refEval on the machine model).  Proved for INTEGER / LONG trees of any depth over any leaf values: every
  arithmetic (+ - * \ MOD), logic (AND OR XOR EQV IMP NOT), comparison and sign operator.  Whenever the debugger prints
  a value, the program computes that typed value; whenever the debugger reports an evaluation error, the program traps.
  Float and string expressions, / and ^ are outside the theorem (`unsupported`) and covered by the probe oracle only.
-/
namespace Qbee.DbgEval
open Qbee.Gen Qbee.ExprC Qbee.Arith Qbee.ExprSem Qbee.Fold

theorem intOpB_IntOp (b : BinOp) (h : intOpB b = true) : IntOp b := by
  cases b <;> simp [intOpB] at h <;> simp [IntOp]

theorem isInt_iff (t : Ty) : isInt t = true ↔ t = .i ∨ t = .l := by cases t <;> simp [isInt]

theorem ty_bin_atoms (op : Nat) (ea eb : E) (l r : Ty) (ha : ty ea = some l) (hb : ty eb = some r) :
    ty (.bin op ea eb) = ty (.bin op (.atom l) (.atom r)) := by simp [ty, ha, hb]

theorem ty_un_atom (op : Nat) (ea : E) (t : Ty) (ha : ty ea = some t) : ty (.un op ea) = ty (.un op (.atom t)) := by
  simp [ty, ha]

/-- converting an integral cell to an integral operand type that can hold it -/
theorem conv_int_ok {F} (ops : FOps F) (l T : Ty) (x : Int) (rest : List (Cell F)) (os : List Op3)
    (hl : l = .i ∨ l = .l) (hT : T = .i ∨ T = .l) (hx : inRange T x = true) :
    applyAll ops (convIf l T ++ os) (.int l x :: rest) = applyAll ops os (.int T x :: rest) := by
  rcases hl with rfl | rfl <;> rcases hT with rfl | rfl <;>
    simp [convIf, applyAll, applyOp3, conv, Cell.ty, isIntTy, mk, hx, Res.bind]

theorem conv_int_trap {F} (ops : FOps F) (l T : Ty) (x : Int) (rest : List (Cell F)) (os : List Op3)
    (hl : l = .i ∨ l = .l) (hT : T = .i ∨ T = .l) (hlx : inRange l x = true) (hx : inRange T x = false) :
    applyAll ops (convIf l T ++ os) (.int l x :: rest) = .trap "INVALID_CELL_VALUE" := by
  rcases hl with rfl | rfl <;> rcases hT with rfl | rfl
  · rw [hlx] at hx; cases hx
  · simp [convIf, applyAll, applyOp3, conv, Cell.ty, isIntTy, mk, hx, Res.bind]
  · simp [convIf, applyAll, applyOp3, conv, Cell.ty, isIntTy, mk, hx, Res.bind]
  · rw [hlx] at hx; cases hx

/-- the operator step on two integral cells of the operand type -/
theorem apply_sound {F} (ops : FOps F) (op : Nat) (t0 T : Ty) (hT : T = .i ∨ T = .l) (x y : Int) :
    (∀ t n, dbgApply op t0 T x y = .val t n →
        t = t0 ∧ isInt t = true ∧ inRange t n = true ∧ Res.bind (applyAll ops (specOps op) [.int T y, .int T x]) top1 = .ok (.int t n)) ∧
    (dbgApply op t0 T x y = .err → ∃ c, Res.bind (applyAll ops (specOps op) [.int T y, .int T x]) top1 = .trap c) := by
  unfold dbgApply
  split
  · -- a single instruction
    rename_i b hb
    by_cases hi : intOpB b = true
    · have hop := intOpB_IntOp b hi
      simp only [hi, if_true]
      constructor
      · intro t n h
        split at h
        · rename_i t' n' hf
          split at h
          · rename_i hc
            simp only [Bool.and_eq_true, decide_eq_true_eq] at hc
            have := fold_agrees_int ops b hop T hT x y n' t' hf
            cases h
            refine ⟨rfl, hc.2, hc.1.2, ?_⟩
            simp [hb, applyAll, applyOp3, this, Res.bind, top1, hc.1.1]
          · cases h
        · cases h
        · cases h
      · intro h
        split at h
        · split at h <;> cases h
        · rename_i hf
          rcases fold_never_invents_failure ops b hop T hT x y hf with h1 | h1
          · exact ⟨"INVALID_CELL_VALUE", by simp [hb, applyAll, applyOp3, h1, Res.bind]⟩
          · exact ⟨"DIVISION_BY_ZERO", by simp [hb, applyAll, applyOp3, h1, Res.bind]⟩
        · cases h
    · have hi' : intOpB b = false := by simpa using hi
      simp [hi']
  · -- cmp followed by a test
    rename_i u hb
    constructor
    · intro t n h
      split at h
      · rename_i v hv
        split at h
        · rename_i hc
          simp only [Bool.and_eq_true, decide_eq_true_eq] at hc
          cases h
          refine ⟨hc.1.symm, rfl, hc.2, ?_⟩
          have hcmp : binop ops .cmp (.int T x) (.int T y) = .ok (.int .i (cmp3 x y)) := by
            rcases hT with rfl | rfl <;> simp [binop, Cell.ty, cmp3]
          cases u <;> simp [cmpUn] at hv <;> subst hv <;>
            simp [hb, applyAll, applyOp3, hcmp, Res.bind, top1, unop]
        · cases h
      · cases h
    · intro h
      split at h
      · split at h <;> cases h
      · cases h
  · constructor
    · intro t n h; cases h
    · intro h; cases h

theorem un_sound {F} (ops : FOps F) (op : Nat) (t : Ty) (ht : t = .i ∨ t = .l) (hop : op = 14 ∨ op = 15 ∨ op = 16) (x : Int)
    (hx : inRange t x = true) :
    (∀ t' n, dbgUn op t x = .val t' n →
        t' = t ∧ inRange t n = true ∧ Res.bind (applyAll ops (specUn op t) [.int t x]) top1 = .ok (.int t n)) ∧
    (dbgUn op t x = .err → ∃ c, Res.bind (applyAll ops (specUn op t) [.int t x]) top1 = .trap c) := by
  have hconv : convIf t (if t = .i then .i else .l) = [] := by rcases ht with rfl | rfl <;> simp [convIf]
  rcases hop with rfl | rfl | rfl
  · -- NEG
    obtain ⟨h1, h2⟩ := fold_unary_agrees ops true t ht x
    simp only [dbgUn, if_true]
    constructor
    · intro t' n h
      split at h
      · rename_i t2 n2 hf
        split at h
        · rename_i heq
          have := h1 t2 n2 hf
          subst heq
          have hr : inRange t2 n2 = true := by
            simp [foldUnInt] at hf
            split at hf
            · rename_i hr; cases hf; exact hr
            · cases hf
          cases h
          simp at this
          exact ⟨rfl, hr, by simp [specUn, applyAll, applyOp3, this, Res.bind, top1]⟩
        · cases h
      · cases h
      · cases h
    · intro h
      split at h
      · split at h <;> cases h
      · rename_i hf
        have h2' := h2 hf
        simp at h2'
        exact ⟨"INVALID_CELL_VALUE", by simp [specUn, applyAll, applyOp3, h2', Res.bind]⟩
      · cases h
  · -- PLUS
    simp only [dbgUn]
    constructor
    · intro t' n h
      simp at h
      obtain ⟨h1, h2⟩ := h; subst h1; subst h2
      exact ⟨rfl, hx, by simp [specUn, applyAll, Res.bind, top1]⟩
    · intro h; simp at h
  · -- NOT
    obtain ⟨h1, h2⟩ := fold_unary_agrees ops false t ht x
    simp only [dbgUn]
    constructor
    · intro t' n h
      simp at h
      split at h
      · rename_i t2 n2 hf
        split at h
        · rename_i heq
          have := h1 t2 n2 hf
          subst heq
          have hr : inRange t2 n2 = true := by
            simp [foldUnInt] at hf
            split at hf
            · rename_i hr; cases hf; exact hr
            · cases hf
          cases h
          refine ⟨rfl, hr, ?_⟩
          simp at this
          simp [specUn, hconv, applyAll, applyOp3, this, Res.bind, top1]
        · cases h
      · cases h
      · cases h
    · intro h
      simp at h
      split at h
      · split at h <;> cases h
      · rename_i hf
        have := h2 hf
        simp at this
        exact ⟨"INVALID_CELL_VALUE", by simp [specUn, hconv, applyAll, applyOp3, this, Res.bind]⟩
      · cases h

/-- the statement proved by induction over the tree: value case and error case together -/
theorem dbg_eval_sound {F} (ops : FOps F) (e : CE F) :
    (∀ t n, dbgEval e = .val t n →
        ty e.erase = some t ∧ isInt t = true ∧ inRange t n = true ∧ refEval ops e = .ok (.int t n)) ∧
    (dbgEval e = .err → ∃ c, refEval ops e = .trap c) := by
  induction e with
  | leaf c =>
    cases c with
    | int t n =>
      constructor
      · intro t' n' h
        simp only [dbgEval] at h
        split at h
        · rename_i hc
          simp only [Bool.and_eq_true] at hc
          cases h
          exact ⟨rfl, hc.1, hc.2, rfl⟩
        · cases h
      · intro h
        simp only [dbgEval] at h
        split at h <;> cases h
    | flt t x => exact ⟨by intro t' n' h; simp [dbgEval] at h, by intro h; simp [dbgEval] at h⟩
    | str s => exact ⟨by intro t' n' h; simp [dbgEval] at h, by intro h; simp [dbgEval] at h⟩
  | bin op a b iha ihb =>
    -- expose the structure of dbgEval
    cases hta : ty a.erase with
    | none => exact ⟨by intro t n h; simp [dbgEval, hta] at h, by intro h; simp [dbgEval, hta] at h⟩
    | some l =>
    cases htb : ty b.erase with
    | none => exact ⟨by intro t n h; simp [dbgEval, hta, htb] at h, by intro h; simp [dbgEval, hta, htb] at h⟩
    | some r =>
    cases ht0 : ty (.bin op (.atom l) (.atom r)) with
    | none => exact ⟨by intro t n h; simp [dbgEval, hta, htb, ht0] at h, by intro h; simp [dbgEval, hta, htb, ht0] at h⟩
    | some t0 =>
    by_cases hints : (isInt (specTy op l r t0) && isInt l && isInt r) = true
    · simp only [Bool.and_eq_true] at hints
      obtain ⟨⟨hTi, hli⟩, hri⟩ := hints
      have hT := (isInt_iff _).mp hTi
      have hl := (isInt_iff _).mp hli
      have hr := (isInt_iff _).mp hri
      have htyb : ty (.bin op a.erase b.erase) = some t0 := by rw [ty_bin_atoms op _ _ l r hta htb, ht0]
      have href : refEval ops (.bin op a b) =
          Res.bind (refEval ops a) fun va =>
          Res.bind (applyAll ops (convIf l (specTy op l r t0)) [va]) fun sa =>
          Res.bind (refEval ops b) fun vb =>
          Res.bind (applyAll ops (convIf r (specTy op l r t0) ++ specOps op) (vb :: sa)) top1 := by
        simp only [refEval, CE.erase, hta, htb, htyb]
      have hdbg : dbgEval (.bin op a b) =
          (match dbgEval a with
          | .unsupported => .unsupported
          | .err => (match dbgEval b with | .unsupported => .unsupported | _ => .err)
          | .val _ x =>
            match dbgEval b with
            | .unsupported => .unsupported
            | .err => .err
            | .val _ y =>
              if inRange (specTy op l r t0) x && inRange (specTy op l r t0) y then dbgApply op t0 (specTy op l r t0) x y
              else .err) := by
        simp only [dbgEval, hta, htb, ht0, hTi, hli, hri]
        rfl
      rw [hdbg, href]
      cases hda : dbgEval a with
      | unsupported => exact ⟨by intro t n h; simp at h, by intro h; simp at h⟩
      | err =>
        obtain ⟨c, hc⟩ := iha.2 hda
        constructor
        · intro t n h
          cases hdb : dbgEval b <;> simp [hdb] at h
        · intro _
          exact ⟨c, by simp [hc, Res.bind]⟩
      | val la x =>
        obtain ⟨hla, _, hxr, hra⟩ := iha.1 la x hda
        have : la = l := by rw [hta] at hla; exact (Option.some.inj hla).symm
        subst this
        cases hdb : dbgEval b with
        | unsupported => exact ⟨by intro t n h; simp at h, by intro h; simp at h⟩
        | err =>
          obtain ⟨c, hc⟩ := ihb.2 hdb
          constructor
          · intro t n h; simp at h
          · intro _
            -- the left operand is converted first: that either traps or succeeds, then the right operand traps
            by_cases hx : inRange (specTy op la r t0) x = true
            · have := conv_int_ok ops la _ x [] [] hl hT hx
              simp only [List.append_nil, applyAll] at this
              exact ⟨c, by simp [hra, this, hc, Res.bind]⟩
            · have hx' : inRange (specTy op la r t0) x = false := by simpa using hx
              have := conv_int_trap ops la _ x [] [] hl hT hxr hx'
              simp only [List.append_nil] at this
              exact ⟨"INVALID_CELL_VALUE", by simp [hra, this, Res.bind]⟩
        | val rb y =>
          obtain ⟨hrb, _, hyr, hrb'⟩ := ihb.1 rb y hdb
          have : rb = r := by rw [htb] at hrb; exact (Option.some.inj hrb).symm
          subst this
          simp only
          by_cases hx : inRange (specTy op la rb t0) x = true
          · have hcl := conv_int_ok ops la _ x [] [] hl hT hx
            simp only [List.append_nil, applyAll] at hcl
            by_cases hy : inRange (specTy op la rb t0) y = true
            · have hcr := conv_int_ok ops rb _ y [.int (specTy op la rb t0) x] (specOps op) hr hT hy
              obtain ⟨hv, he⟩ := apply_sound ops op t0 (specTy op la rb t0) hT x y
              simp only [hx, hy, Bool.and_self, if_true]
              constructor
              · intro t n h
                obtain ⟨h1, hi1, h2, h3⟩ := hv t n h
                subst h1
                refine ⟨htyb, hi1, h2, ?_⟩
                · simp only [hra, hcl, hrb', hcr, Res.bind] at h3 ⊢
                  exact h3
              · intro h
                obtain ⟨c, hc⟩ := he h
                exact ⟨c, by simp only [hra, hcl, hrb', hcr, Res.bind] at hc ⊢; exact hc⟩
            · have hy' : inRange (specTy op la rb t0) y = false := by simpa using hy
              have hcr := conv_int_trap ops rb _ y [.int (specTy op la rb t0) x] (specOps op) hr hT hyr hy'
              simp only [hx, hy', Bool.and_false, Bool.false_eq_true, if_false]
              exact ⟨(by intro t n h; cases h), fun _ => ⟨"INVALID_CELL_VALUE", by simp [hra, hcl, hrb', hcr, Res.bind]⟩⟩
          · have hx' : inRange (specTy op la rb t0) x = false := by simpa using hx
            have hcl := conv_int_trap ops la _ x [] [] hl hT hxr hx'
            simp only [List.append_nil] at hcl
            simp only [hx', Bool.false_and, Bool.false_eq_true, if_false]
            exact ⟨(by intro t n h; cases h), fun _ => ⟨"INVALID_CELL_VALUE", by simp [hra, hcl, Res.bind]⟩⟩
    · have hints' : (isInt (specTy op l r t0) && isInt l && isInt r) = false := by simpa using hints
      exact ⟨by intro t n h; simp [dbgEval, hta, htb, ht0, hints'] at h, by intro h; simp [dbgEval, hta, htb, ht0, hints'] at h⟩
  | un op a iha =>
    cases hta : ty a.erase with
    | none => exact ⟨by intro t n h; simp [dbgEval, hta] at h, by intro h; simp [dbgEval, hta] at h⟩
    | some t =>
    by_cases hg : (isInt t && (decide (op = 14) || decide (op = 15) || decide (op = 16))) = true
    · simp only [Bool.and_eq_true, Bool.or_eq_true, decide_eq_true_eq] at hg
      obtain ⟨hti, hop⟩ := hg
      have hop' : op = 14 ∨ op = 15 ∨ op = 16 := by rcases hop with (h | h) | h <;> simp [h]
      have ht := (isInt_iff _).mp hti
      cases ht0 : ty (.un op (.atom t)) with
      | none => exact ⟨by intro t' n h; simp [dbgEval, hta, ht0] at h, by intro h; simp [dbgEval, hta, ht0] at h⟩
      | some t0 =>
      by_cases heq : t0 = t
      · subst heq
        have htyu : ty (.un op a.erase) = some t0 := by rw [ty_un_atom op _ t0 hta, ht0]
        have href : refEval ops (.un op a) =
            Res.bind (refEval ops a) fun va => Res.bind (applyAll ops (specUn op t0) [va]) top1 := by
          simp only [refEval, CE.erase, hta]
        have hdbg : dbgEval (.un op a) =
            (match dbgEval a with | .val _ x => dbgUn op t0 x | .err => .err | .unsupported => .unsupported) := by
          simp only [dbgEval, hta, ht0, hti]
          simp [hop]
          cases dbgEval a <;> rfl
        rw [hdbg, href]
        cases hda : dbgEval a with
        | unsupported => exact ⟨by intro t n h; simp at h, by intro h; simp at h⟩
        | err =>
          obtain ⟨c, hc⟩ := iha.2 hda
          exact ⟨by intro t n h; simp at h, fun _ => ⟨c, by simp [hc, Res.bind]⟩⟩
        | val ta x =>
          obtain ⟨hta', _, hxr, hra⟩ := iha.1 ta x hda
          have : ta = t0 := by rw [hta] at hta'; exact (Option.some.inj hta').symm
          subst this
          obtain ⟨hv, he⟩ := un_sound ops op ta ht hop' x hxr
          simp only
          constructor
          · intro t n h
            obtain ⟨h1, h2, h3⟩ := hv t n h
            subst h1
            exact ⟨htyu, hti, h2, by simp only [hra, Res.bind] at h3 ⊢; exact h3⟩
          · intro h
            obtain ⟨c, hc⟩ := he h
            exact ⟨c, by simp only [hra, Res.bind] at hc ⊢; exact hc⟩
      · exact ⟨by intro t' n h; simp [dbgEval, hta, ht0, heq, hti, hop] at h, by intro h; simp [dbgEval, hta, ht0, heq, hti, hop] at h⟩
    · have hg' : (isInt t && (decide (op = 14) || decide (op = 15) || decide (op = 16))) = false := by simpa using hg
      exact ⟨by intro t' n h; simp [dbgEval, hta, hg'] at h, by intro h; simp [dbgEval, hta, hg'] at h⟩

/-- whenever the debugger prints a value for an integral expression, the program computes exactly that typed value there -/
theorem dbg_eval_agrees {F} (ops : FOps F) (e : CE F) (t : Ty) (n : Int) (h : dbgEval e = .val t n) :
    ty e.erase = some t ∧ refEval ops e = .ok (.int t n) :=
  let ⟨h1, _, _, h4⟩ := (dbg_eval_sound ops e).1 t n h
  ⟨h1, h4⟩

/-- whenever the debugger reports an evaluation error (overflow, division by zero), the program traps there -/
theorem dbg_eval_error_is_trap {F} (ops : FOps F) (e : CE F) (h : dbgEval e = .err) : ∃ c, refEval ops e = .trap c :=
  (dbg_eval_sound ops e).2 h

/-- non-vacuity: (7 + 32767) overflows INTEGER in both, (7 + 3) \ 2 = 5 in both -/
example : dbgEval (F := Unit) (.bin 1 (.leaf (.int .i 7)) (.leaf (.int .i 32767))) = .err := by decide +kernel
example : dbgEval (F := Unit) (.bin 6 (.bin 1 (.leaf (.int .i 7)) (.leaf (.int .i 3))) (.leaf (.int .i 2))) = .val .i 5 := by decide +kernel

end Qbee.DbgEval
