import QbeeModel.Lemmas.Using
/-
  C19  PRINT USING fields keep their width, rounding and overflow mark.  Property theorems only.
  Python's `format(abs(value), ',.Nf')` is an external contract: `body` below is its result.
-/
namespace Qbee.Using

/-- fits => exactly the width of the field, right-aligned, sign directly before the digits -/
theorem num_width (sp : NumSpec) (neg : Bool) (body : Str) (hb : sp.signEnd = false) (h : Fits sp body) :
    renderCore sp neg body = blanks (sp.width - (body.length + 1)) ++ signOf sp neg :: body ∧
    (renderCore sp neg body).length = sp.width := by
  unfold Fits at h
  have key : renderCore sp neg body = blanks (sp.width - (body.length + 1)) ++ signOf sp neg :: body := by
    simp only [renderCore, hb, signOf]
    by_cases hlt : body.length + 1 < sp.width
    · simp [hlt, blanks]
      split <;> simp_all <;> omega
    · have heq : body.length + 1 = sp.width := by omega
      simp [blanks, heq.symm]
  refine ⟨key, ?_⟩
  rw [key]; simp [blanks]; omega

/-- a non-negative value in a field without '+' may use the sign position for a digit -/
theorem num_width_uses_sign_position (sp : NumSpec) (body : Str) (hb : sp.signEnd = false)
    (hs : sp.signChar ≠ some '+') (h : body.length = sp.width) :
    renderCore sp false body = body := by
  have hw : sp.width = body.length := h.symm
  have h1 : ¬ (body.length + 1 < body.length) := by omega
  simp [renderCore, hb, hs, hw, h1]

/-- only a value that cannot fit is widened, and then it is marked with a leading '%' -/
theorem overflow_mark (sp : NumSpec) (neg : Bool) (body : Str) (hb : sp.signEnd = false)
    (h : sp.width < body.length + (if signOf sp neg = ' ' then 0 else 1)) :
    ∃ rest, renderCore sp neg body = '%' :: rest ∧ sp.width < rest.length ∧ rest.drop (rest.length - body.length) = body := by
  by_cases hsg : signOf sp neg = ' '
  · simp only [hsg, if_true, Nat.add_zero] at h
    refine ⟨body, ?_, h, by simp⟩
    have hs' : (if neg = true then '-' else if sp.signChar = some '+' then '+' else ' ') = ' ' := hsg
    simp only [renderCore, hb, hs']
    simp
    have : ¬ (body.length + 1 < sp.width) := by omega
    simp [this]
    have h2 : sp.width < body.length + 1 := by omega
    simp [h2, h]
  · simp only [hsg, if_false] at h
    refine ⟨signOf sp neg :: body, ?_, by simp; omega, by simp⟩
    have hs' : (if neg = true then '-' else if sp.signChar = some '+' then '+' else ' ') = signOf sp neg := rfl
    have hne : ¬ (signOf sp neg = ' ') := hsg
    simp only [renderCore, hb, hs']
    have : ¬ (body.length + 1 < sp.width) := by omega
    simp [this, hne, h]

/-- a field with a trailing sign: the digits right-aligned in front of the sign position, which is the last one
    (as repaired: a blank was put in front of non-negative values) -/
theorem num_width_trailing_sign (sp : NumSpec) (neg : Bool) (body : Str) (hb : sp.signEnd = true) (h : Fits sp body) :
    renderCore sp neg body = blanks (sp.width - (body.length + 1)) ++ body ++ [signOf sp neg] ∧
    (renderCore sp neg body).length = sp.width := by
  unfold Fits at h
  have key : renderCore sp neg body = blanks (sp.width - (body.length + 1)) ++ body ++ [signOf sp neg] := by
    simp only [renderCore, hb, signOf]
    by_cases hlt : body.length + 1 < sp.width
    · simp [hlt, blanks]
      split <;> simp_all <;> omega
    · have heq : body.length + 1 = sp.width := by omega
      simp [blanks, heq.symm]
  refine ⟨key, ?_⟩
  rw [key]; simp [blanks]; omega

/-- the rendered field is the core applied to the number text with its edge point: "##." shows the point, ".##" drops the
    zero that has no position -/
theorem edge_points (sp : NumSpec) (neg : Bool) (body : Str) :
    renderNum sp neg body = renderCore sp neg (adjustPoint sp body) ∧
    (sp.decimalPoint.isSome = true → sp.decimalsN = 0 → adjustPoint sp body = body ++ ['.']) ∧
    (sp.decimalPoint = none → adjustPoint sp body = body) := by
  refine ⟨rfl, ?_, ?_⟩
  · intro h1 h2; simp [adjustPoint, h1, h2]
  · intro h1; simp [adjustPoint, h1]

/-- the scanner counts the decimals of a field with a trailing sign without the sign position
    (as repaired: "#.##-" asked for three decimals) -/
example : (parseNumeric "#.##-".toList).1.decimals = some 2 ∧ (parseNumeric "#.##-".toList).1.width = 5 := by decide
example : renderNum (parseNumeric "#.##-".toList).1 false "1.23".toList = "1.23 ".toList := by decide
example : renderNum (parseNumeric "###-".toList).1 false "100".toList = "100 ".toList := by decide
example : renderNum (parseNumeric ".##".toList).1 false "0.50".toList = ".50".toList := by decide
example : renderNum (parseNumeric "##.".toList).1 false "5".toList = " 5.".toList := by decide
example : scanFmt "#-#".toList = .ok [.num (parseNumeric "#-".toList).1, .num (parseNumeric "#".toList).1] := by decide

/-- "&" prints the whole string, "!" its first character -/
theorem amp_bang (s : Str) (c : Char) (r : Str) :
    format [.str '&'] [.str s] = .ok s ∧ format [.str '!'] [.str (c :: r)] = .ok [c] := by
  constructor <;> simp [format, fmtLoop]

/-- a format string without field or escape characters is one literal part, printed unchanged -/
theorem literal_copied (s : Str) (h : ∀ c ∈ s, isSpecial c = false) :
    scanFmt s = .ok (flush s) ∧ format (flush s) [] = .ok s := by
  constructor
  · have := scan_literal s (2 * s.length + 2) false [] (by omega) h
    simpa [scanFmt] using this
  · unfold flush; split
    · next he => simp at he; simp [format, fmtLoop, he]
    · simp [format, fmtLoop]

/-- a character escaped with an underscore is copied as a literal, whatever it is -/
theorem escape_copied (c : Char) : scanFmt ['_', c] = .ok [.non [c]] := by
  simp [scanFmt, scan, flush, startsField]

/-! ### values are consumed left to right, one per field -/

/-- values are consumed left to right, one per field; literals are copied between them -/
theorem consume_in_order (ps : List Part) (vals : List Val) (txt : Str)
    (h : expected ps vals = some txt) : format ps vals = .ok txt := by
  have hn : 0 + nFields ps ≤ ps.length := by
    simp only [nFields, Nat.zero_add]; exact List.length_filter_le _ _
  simpa [format] using fmtLoop_expected ps.length vals ps 0 [] txt hn (by simpa using h)

-- non-vacuity
example : Fits (parseNumeric "###.##".toList).1 "12.35".toList := by unfold Fits; decide
example : renderNum (parseNumeric "###.##".toList).1 false "12.35".toList = " 12.35".toList := by decide
example : renderNum (parseNumeric "##".toList).1 true "123".toList = "%-123".toList := by decide
example : scanFmt "a_#b &".toList = .ok [.non "a#b ".toList, .str '&'] := by decide
example : expected [.non ['x'], .num (parseNumeric "##".toList).1, .str '&'] [.num false ['7'], .str ['s']] =
    some "x 7s".toList := by decide



end Qbee.Using
