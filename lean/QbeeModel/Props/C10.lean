import QbeeModel.Props.C07
/-
  C10  ON ERROR, RESUME and RESUME NEXT follow statement-level semantics.  Property theorems only.
  (Model/Tick.lean is the code AS REPAIRED: trapped_addr is recorded for divisions by zero; RESUME / RESUME NEXT
  clear error_handler_active.)  The clause 'none of its partial results remain' is NOT a theorem: it is false on the
  current tree (known finding: the operand stack is not restored).
-/
namespace Qbee.Tick

/-- while ON ERROR GOTO is armed and the handler is not running, any run-time error in any instruction
    transfers control to the handler, records the kind of error and the failing instruction -/
theorem armed_dispatch (codeLen : Nat) (s : St) (code a sz : Nat) (stmt : Option (Nat × Nat))
    (hi : s.interrupt = false) (ha : s.target = .addr a) (hna : s.active = false) (hlen : a < codeLen) :
    tick codeLen s (.traps code sz) stmt =
      .st { s with pc := a, prevPc := s.pc, active := true, lastTrap := some code, trappedAddr := s.pc } := by
  unfold tick
  simp only [hi, Bool.false_eq_true, if_false, trapDispatch, ha, hna]
  have : ¬ (a ≥ codeLen) := by omega
  simp [endCheck, this]

/-- ... also when the failing instruction belongs to a procedure: control goes to the (module-level) handler, and the error is
    accounted to the module-level statement whose CALL led into the procedure (`u` lies inside it): RESUME re-executes that
    statement and RESUME NEXT continues after it (as repaired: the handler ran on the procedure's frame) -/
theorem armed_dispatch_from_procedure (codeLen : Nat) (s : St) (code a sz u : Nat) (stmt : Option (Nat × Nat))
    (hi : s.interrupt = false) (ha : s.target = .addr a) (hna : s.active = false) (hlen : a < codeLen) :
    tick codeLen s (.traps code sz) stmt (some u) =
      .st { s with pc := a, prevPc := s.pc, active := true, lastTrap := some code, trappedAddr := u } := by
  unfold tick
  simp only [hi, Bool.false_eq_true, if_false, trapDispatch, ha, hna]
  have : ¬ (a ≥ codeLen) := by omega
  simp [endCheck, this]

/-- ERR distinguishes the error kinds the property names (values of the generated TrapCode table) -/
theorem err_reports_kind :
    (Gen.trapCodes.lookup "DIVISION_BY_ZERO", Gen.trapCodes.lookup "INVALID_CELL_VALUE",
     Gen.trapCodes.lookup "INDEX_OUT_OF_RANGE", Gen.trapCodes.lookup "INVALID_OPERAND_VALUE",
     Gen.trapCodes.lookup "DEVICE_ERROR") = (some 14, some 10, some 11, some 9, some 3) := by decide

/-- RESUME re-executes the failed statement and leaves the handler -/
theorem resume_reexecutes (codeLen : Nat) (s : St) (size st0 e : Nat)
    (hi : s.interrupt = false) (hh : s.halted = false) (hlen : st0 < codeLen) :
    tick codeLen s (.errres size) (some (st0, e)) = .st { s with pc := st0, prevPc := s.pc, active := false } := by
  unfold tick
  have : ¬ (st0 ≥ codeLen) := by omega
  simp [hi, endCheck, hh, this]

/-- RESUME NEXT continues with the statement following the failed one and leaves the handler -/
theorem resume_next_continues (codeLen : Nat) (s : St) (size st0 e : Nat)
    (hi : s.interrupt = false) (hh : s.halted = false) (hlen : e < codeLen) :
    tick codeLen s (.errresn size) (some (st0, e)) = .st { s with pc := e, prevPc := s.pc, active := false } := by
  unfold tick
  have : ¬ (e ≥ codeLen) := by omega
  simp [hi, endCheck, hh, this]

/-- ON ERROR RESUME NEXT skips a failing statement without entering a handler -/
theorem on_error_resume_next_skips (codeLen : Nat) (s : St) (code sz st0 e : Nat)
    (hi : s.interrupt = false) (ht : s.target = .next) (hna : s.active = false) (hh : s.halted = false)
    (hlen : e < codeLen) :
    tick codeLen s (.traps code sz) (some (st0, e)) =
      .st { s with pc := e, prevPc := s.pc, active := false, lastTrap := some code, trappedAddr := s.pc } := by
  unfold tick
  have : ¬ (e ≥ codeLen) := by omega
  simp [hi, trapDispatch, ht, hna, resumeNext, endCheck, hh, this]

/-- ON ERROR GOTO 0 restores default error reporting: the next error halts the run with that error -/
theorem on_error_goto_0_restores (codeLen : Nat) (s : St) (size code sz : Nat) (stmt : Option (Nat × Nat))
    (hi : s.interrupt = false) (hna : s.active = false) (hh : s.halted = false) (hlen : s.pc + size < codeLen) :
    ∃ s1, tick codeLen s (.errhand 0 size) stmt = .st s1 ∧ s1.target = .off ∧ s1.active = false ∧
      tick codeLen s1 (.traps code sz) stmt =
        .st { s1 with pc := s1.pc + sz, prevPc := s1.pc, lastTrap := some code, trappedAddr := s1.pc, halted := true, reason := .trap } := by
  have hge : ¬ (s.pc + size ≥ codeLen) := by omega
  refine ⟨{ s with pc := s.pc + size, prevPc := s.pc, target := .off }, ?_, rfl, hna, ?_⟩
  · unfold tick; simp [hi, hna, endCheck, hh, hge]
  · unfold tick; simp [hi, trapDispatch, hna, endCheck]

end Qbee.Tick
