import QbeeModel.Props.C07
import QbeeModel.Lemmas.StmtDepth
import QbeeModel.Lemmas.StmtDepthLazy
/-
  C10  ON ERROR, RESUME and RESUME NEXT follow statement-level semantics.  Property theorems only.
  (Model/Tick.lean is the code AS REPAIRED: trapped_addr is recorded for divisions by zero; RESUME / RESUME NEXT
  clear error_handler_active.)  The clause 'none of its partial results remain' is about the operand stack: it was false
  (the former known finding) and is proved below for the bookkeeping of Model/StmtDepth.lean (as repaired).
-/
namespace Qbee.Tick

/-- while ON ERROR GOTO is armed and the handler is not running, any run-time error in any instruction
    transfers control to the handler, records the kind of error and the failing instruction -/
theorem armed_dispatch (codeLen : Nat) (s : St) (code a sz : Nat) (stmt : Option (Nat × Nat))
    (hi : s.interrupt = false) (ha : s.target = .addr a) (hna : s.active = false) (hlen : a < codeLen) :
    tick codeLen s (.traps code sz) stmt =
      .st { s with pc := a, prevPc := s.pc, active := true, lastTrap := some code, trappedAddr := s.pc } := by
  unfold tick
  simp only [hi, Bool.false_eq_true, if_false, trapDispatch, ha, hna]
  have : ¬ (a ≥ codeLen) := by omega
  simp [endCheck, this]

/-- ... also when the failing instruction belongs to a procedure: control goes to the (module-level) handler, and the error is
    accounted to the module-level statement whose CALL led into the procedure (`u` lies inside it): RESUME re-executes that
    statement and RESUME NEXT continues after it (as repaired: the handler ran on the procedure's frame) -/
theorem armed_dispatch_from_procedure (codeLen : Nat) (s : St) (code a sz u : Nat) (stmt : Option (Nat × Nat))
    (hi : s.interrupt = false) (ha : s.target = .addr a) (hna : s.active = false) (hlen : a < codeLen) :
    tick codeLen s (.traps code sz) stmt (some u) =
      .st { s with pc := a, prevPc := s.pc, active := true, lastTrap := some code, trappedAddr := u } := by
  unfold tick
  simp only [hi, Bool.false_eq_true, if_false, trapDispatch, ha, hna]
  have : ¬ (a ≥ codeLen) := by omega
  simp [endCheck, this]

/-- ERR distinguishes the error kinds the property names (values of the generated TrapCode table) -/
theorem err_reports_kind :
    (Gen.trapCodes.lookup "DIVISION_BY_ZERO", Gen.trapCodes.lookup "INVALID_CELL_VALUE",
     Gen.trapCodes.lookup "INDEX_OUT_OF_RANGE", Gen.trapCodes.lookup "INVALID_OPERAND_VALUE",
     Gen.trapCodes.lookup "DEVICE_ERROR") = (some 14, some 10, some 11, some 9, some 3) := by decide

/-- RESUME re-executes the failed statement and leaves the handler -/
theorem resume_reexecutes (codeLen : Nat) (s : St) (size st0 e : Nat)
    (hi : s.interrupt = false) (hh : s.halted = false) (hlen : st0 < codeLen) :
    tick codeLen s (.errres size) (some (st0, e)) = .st { s with pc := st0, prevPc := s.pc, active := false } := by
  unfold tick
  have : ¬ (st0 ≥ codeLen) := by omega
  simp [hi, endCheck, hh, this]

/-- RESUME NEXT continues with the statement following the failed one and leaves the handler -/
theorem resume_next_continues (codeLen : Nat) (s : St) (size st0 e : Nat)
    (hi : s.interrupt = false) (hh : s.halted = false) (hlen : e < codeLen) :
    tick codeLen s (.errresn size) (some (st0, e)) = .st { s with pc := e, prevPc := s.pc, active := false } := by
  unfold tick
  have : ¬ (e ≥ codeLen) := by omega
  simp [hi, endCheck, hh, this]

/-- ON ERROR RESUME NEXT skips a failing statement without entering a handler -/
theorem on_error_resume_next_skips (codeLen : Nat) (s : St) (code sz st0 e : Nat)
    (hi : s.interrupt = false) (ht : s.target = .next) (hna : s.active = false) (hh : s.halted = false)
    (hlen : e < codeLen) :
    tick codeLen s (.traps code sz) (some (st0, e)) =
      .st { s with pc := e, prevPc := s.pc, active := false, lastTrap := some code, trappedAddr := s.pc } := by
  unfold tick
  have : ¬ (e ≥ codeLen) := by omega
  simp [hi, trapDispatch, ht, hna, resumeNext, endCheck, hh, this]

/-- ON ERROR GOTO 0 restores default error reporting: the next error halts the run with that error -/
theorem on_error_goto_0_restores (codeLen : Nat) (s : St) (size code sz : Nat) (stmt : Option (Nat × Nat))
    (hi : s.interrupt = false) (hna : s.active = false) (hh : s.halted = false) (hlen : s.pc + size < codeLen) :
    ∃ s1, tick codeLen s (.errhand 0 size) stmt = .st s1 ∧ s1.target = .off ∧ s1.active = false ∧
      tick codeLen s1 (.traps code sz) stmt =
        .st { s1 with pc := s1.pc + sz, prevPc := s1.pc, lastTrap := some code, trappedAddr := s1.pc, halted := true, reason := .trap } := by
  have hge : ¬ (s.pc + size ≥ codeLen) := by omega
  refine ⟨{ s with pc := s.pc + size, prevPc := s.pc, target := .off }, ?_, rfl, hna, ?_⟩
  · unfold tick; simp [hi, hna, endCheck, hh, hge]
  · unfold tick; simp [hi, trapDispatch, hna, endCheck]

end Qbee.Tick

namespace Qbee.StmtDepth

/-- at a statement boundary the operand stack of a routine is at the depth it had when the routine was entered plus one
    entry per active GOSUB (the formula of C03), which is the depth a handled error cuts it back to -/
theorem boundary_depth_formula (s : St) (f : Frame) (n : Nat) (h : AtBoundary s f n) : s.depth = f.base + 1 + n := by
  rw [h.2, stmtDepth_consec f n h.1]

/-- GOSUB at a statement boundary leaves the routine it enters at a statement boundary, one GOSUB deeper -/
theorem gosub_keeps_boundary (s : St) (f : Frame) (rest : List Frame) (n : Nat) (hf : s.frames = f :: rest)
    (h : AtBoundary s f n) :
    ∃ f', (step s .gosub).frames = f' :: rest ∧ f'.base = f.base ∧ AtBoundary (step s .gosub) f' (n + 1) := by
  have hd := boundary_depth_formula s f n h
  refine ⟨{ f with marks := s.depth :: f.marks }, by simp [step, hf], rfl, ?_, ?_⟩
  · simp only [consec, h.1, hd]
    congr 1
    omega
  · simp [step, hf, stmtDepth]

/-- RETURN at a statement boundary (it pops the innermost GOSUB address) leaves a statement boundary, one GOSUB less -/
theorem return_keeps_boundary (s : St) (f : Frame) (rest : List Frame) (n : Nat) (hf : s.frames = f :: rest)
    (h : AtBoundary s f (n + 1)) :
    ∃ f', (step s (.instr 1 0)).frames = f' :: rest ∧ f'.base = f.base ∧ AtBoundary (step s (.instr 1 0)) f' n := by
  have hd := boundary_depth_formula s f (n + 1) h
  have hp : prune (s.depth - 1) f.marks = consec f.base n := by
    rw [h.1, hd]
    have : f.base + 1 + (n + 1) - 1 = f.base + n + 1 := by omega
    rw [this]
    exact prune_consec_succ f.base n
  refine ⟨f.pruned (s.depth - 1), by simp [step, hf, pruneHead], rfl, ?_, ?_⟩
  · simpa [Frame.pruned] using hp
  · have h2 : stmtDepth (f.pruned (s.depth - 1)) = f.base + 1 + n :=
      stmtDepth_consec (f.pruned (s.depth - 1)) n (by simpa [Frame.pruned] using hp)
    simp only [step, h2]
    omega

/-- the instructions of a statement that never reach below the statement's starting depth leave the frames as they are -/
theorem body_keeps_frames (f : Frame) (rest : List Frame) (L : Nat) (hm : ∀ i ∈ f.marks, i < L) :
    ∀ (body : List (Nat × Nat)) (s : St), s.frames = f :: rest → staysAbove L s.depth body = true →
      (run s (body.map fun pq => Ev.instr pq.1 pq.2)).frames = f :: rest ∧
      L ≤ (run s (body.map fun pq => Ev.instr pq.1 pq.2)).depth ∨ body = [] ∧ (run s []).frames = f :: rest
  | [], s, hf, _ => Or.inr ⟨rfl, by simpa [run_nil] using hf⟩
  | (p, q) :: r, s, hf, ha => by
    simp only [staysAbove, Bool.and_eq_true, decide_eq_true_eq] at ha
    have hfr : (step s (.instr p q)).frames = f :: rest := by
      simp only [step, hf, pruneHead, Frame.pruned]
      rw [prune_all _ _ (fun i hi => by have := hm i hi; omega)]
    have hdp : (step s (.instr p q)).depth = s.depth - p + q := rfl
    rw [List.map_cons, run_cons]
    rcases body_keeps_frames f rest L hm r (step s (.instr p q)) hfr (by rw [hdp]; exact ha.2) with h | ⟨rfl, h⟩
    · exact Or.inl h
    · refine Or.inl ⟨by simpa [run_nil] using hfr, ?_⟩
      simp only [List.map_nil, run_nil, hdp]
      omega

/-- **none of its partial results remain (handled in place).**  A statement that starts at a statement boundary, executes
    any instructions that do not reach below its starting depth, and fails under ON ERROR RESUME NEXT leaves the stack and
    the frames exactly as they were when it started: the next statement starts at a statement boundary again -/
theorem failed_statement_leaves_nothing (s : St) (f : Frame) (rest : List Frame) (n : Nat) (hf : s.frames = f :: rest)
    (h : AtBoundary s f n) (body : List (Nat × Nat)) (ha : staysAbove s.depth s.depth body = true) :
    run s ((body.map fun pq => Ev.instr pq.1 pq.2) ++ [.handledNext]) = s := by
  have hd := boundary_depth_formula s f n h
  have hm : ∀ i ∈ f.marks, i < s.depth := by
    intro i hi
    rw [h.1] at hi
    have := consec_lt f.base n i hi
    omega
  rw [run_append]
  have key : ∀ S : St, S.frames = f :: rest → s.depth ≤ S.depth → run S [.handledNext] = s := by
    intro S hfr hge
    cases s with
    | mk sd sf =>
      cases S with
      | mk d fs =>
        have h2 : sd = stmtDepth f := h.2
        simp only at hf hfr hge
        subst hf
        subst hfr
        simp only [run, List.foldl, step, St.mk.injEq, and_true]
        omega
  rcases body_keeps_frames f rest s.depth hm body s hf ha with ⟨hfr, hge⟩ | ⟨rfl, _⟩
  · exact key _ hfr hge
  · exact key s hf (Nat.le_refl _)

/-- **failing statements do not accumulate.**  Any number of statements that fail one after the other under ON ERROR RESUME
    NEXT (a loop around a failing statement, say) leave the state as it was before the first of them: before the repair every
    one of them left its partial results behind -/
theorem failing_statements_do_not_accumulate (s : St) (f : Frame) (rest : List Frame) (n : Nat) (hf : s.frames = f :: rest)
    (h : AtBoundary s f n) (stmts : List (List (Nat × Nat))) (ha : ∀ b ∈ stmts, staysAbove s.depth s.depth b = true) :
    run s (stmts.flatMap fun b => (b.map fun pq => Ev.instr pq.1 pq.2) ++ [.handledNext]) = s := by
  induction stmts with
  | nil => rfl
  | cons b r ih =>
    rw [List.flatMap_cons, run_append, failed_statement_leaves_nothing s f rest n hf h b (ha b (by simp))]
    exact ih (fun b' hb' => ha b' (by simp [hb']))

/-- a statement that completes with the stack where it found it (what the code generator produces: C03's monitor checks it
    on every run) and never reaches below that depth leaves the frames alone: the next statement starts at a boundary too -/
theorem completed_statement_keeps_boundary (s : St) (f : Frame) (rest : List Frame) (n : Nat) (hf : s.frames = f :: rest)
    (h : AtBoundary s f n) (body : List (Nat × Nat)) (ha : staysAbove s.depth s.depth body = true)
    (hbal : (run s (body.map fun pq => Ev.instr pq.1 pq.2)).depth = s.depth) :
    (run s (body.map fun pq => Ev.instr pq.1 pq.2)).frames = f :: rest ∧
      AtBoundary (run s (body.map fun pq => Ev.instr pq.1 pq.2)) f n := by
  have hm : ∀ i ∈ f.marks, i < s.depth := by
    intro i hi
    rw [h.1] at hi
    have := consec_lt f.base n i hi
    have := boundary_depth_formula s f n h
    omega
  rcases body_keeps_frames f rest s.depth hm body s hf ha with ⟨hfr, _⟩ | ⟨rfl, _⟩
  · exact ⟨hfr, h.1, by rw [hbal]; exact h.2⟩
  · exact ⟨by simpa [run_nil] using hf, h.1, by simpa [run_nil] using h.2⟩

/-- **none of its partial results remain (module-level handler).**  Whatever procedures are active when the error happens
    (their frames lie above the depth the module-level statement started at), the handler starts on the module-level frame
    alone, at a statement boundary: exactly where the failed module-level statement started -/
theorem handler_starts_at_boundary (s : St) (pre : List Frame) (m : Frame) (n : Nat) (hf : s.frames = pre ++ [m])
    (hm : m.marks = consec m.base n) (hd : stmtDepth m ≤ s.depth) (hb : ∀ f ∈ pre, stmtDepth m ≤ f.base) :
    (step s .handledGoto).frames = [m] ∧ AtBoundary (step s .handledGoto) m n := by
  have h2 := unwind_frames pre m s.depth
  have h3 := unwind_ge (stmtDepth m) pre m s.depth hd hb
  have hsd := stmtDepth_consec m n hm
  simp only [step, hf]
  generalize unwind s.depth (pre ++ [m]) = u at h2 h3 ⊢
  obtain ⟨d, fs⟩ := u
  simp only at h2 h3 ⊢
  subst h2
  have hp : m.pruned d = m := by
    cases m with
    | mk base marks =>
      simp only [Frame.pruned, Frame.mk.injEq, true_and]
      simp only at hm hsd h3
      rw [hm]
      exact prune_consec_ge base n d (by omega)
  simp only [hp]
  refine ⟨trivial, hm, ?_⟩
  show min d (stmtDepth m) = stmtDepth m
  omega

/-- before the repair a handled error changed nothing: under ON ERROR RESUME NEXT the partial results of every failing
    statement stayed (they piled up in a loop; a RETURN took one for its address) -/
theorem partial_results_stayed_before_repair (s : St) : stepOld s .handledNext = s := rfl

/-- the premises are satisfiable and the conclusions are not trivial: inside one GOSUB at module level (depth 2) a
    statement pushes three operands, consumes two, pushes one and fails with two entries of its own on the stack -/
example :
    AtBoundary { depth := 2, frames := [{ base := 0, marks := [1] }] } { base := 0, marks := [1] } 1 ∧
    staysAbove 2 2 [(0, 3), (2, 0), (0, 1)] = true ∧
    (run { depth := 2, frames := [{ base := 0, marks := [1] }] }
      ([(0, 3), (2, 0), (0, 1)].map (fun pq => Ev.instr pq.1 pq.2))).depth = 4 :=
  ⟨⟨rfl, rfl⟩, by decide, by decide⟩

/-- ... and an error two procedures deep, with the module-level statement inside a GOSUB routine -/
example :
    (step { depth := 9, frames := [{ base := 7, marks := [] }, { base := 4, marks := [5] }, { base := 0, marks := [1] }] }
      .handledGoto) = { depth := 2, frames := [{ base := 0, marks := [1] }] } := by
  decide

end Qbee.StmtDepth

namespace Qbee.StmtDepth.Lazy

/-- **the code's bookkeeping refines the model's.**  The machine keeps (index, cell) marks, never removes one when its cell
    is popped, and validates them by cell identity from the innermost end only when an error is handled
    (Model/StmtDepthLazy.lean); the model of the theorems above drops a mark the moment its cell is popped.  Seen through
    `abs` - keep the valid marks - every run of ordinary instructions and GOSUBs is a run of the eager model ... -/
theorem lazy_refines_eager (evs : List LEv) (hp : ∀ e ∈ evs, e ≠ .handledNext) :
    ∀ s : LSt, Fresh s → abs (lrun s evs) = run (abs s) (evs.map toEv) ∧ Fresh (lrun s evs) := by
  induction evs with
  | nil => intro s hf; exact ⟨rfl, hf⟩
  | cons e r ih =>
    intro s hf
    have h1 := step_refines s hf e (hp e (by simp))
    have h2 := ih (fun e' he' => hp e' (by simp [he'])) (lstep s e) h1.2
    refine ⟨?_, h2.2⟩
    show abs (lrun (lstep s e) r) = run (abs s) (toEv e :: r.map toEv)
    rw [h2.1, h1.1]
    rfl

/-- ... and when an error is then handled, the code cuts the stack back to the depth the eager model cuts it back to: the
    theorems about `stmtDepth` are theorems about what the code computes -/
theorem lazy_handled_depth (evs : List LEv) (hp : ∀ e ∈ evs, e ≠ .handledNext) (s : LSt) (hf : Fresh s) :
    (lstep (lrun s evs) .handledNext).stack.length = (step (run (abs s) (evs.map toEv)) .handledNext).depth := by
  have h := (lazy_refines_eager evs hp s hf).1
  have := handled_refines_depth (lrun s evs)
  rw [h] at this
  simpa [abs] using this

/-- stale marks under a valid one are harmless and a stale mark is never taken for a valid one: GOSUB, RETURN (the mark stays
    behind), an unrelated push at the same index, GOSUB again, two partial results, an error - the stack is cut back to the
    second GOSUB's return address -/
example :
    (lstep (lrun { stack := [100], next := 101, base := 0, marks := [] }
      [.gosub, .instr 1 0, .instr 0 1, .instr 1 0, .gosub, .instr 0 2]) .handledNext).stack = [100, 103] := by
  decide

end Qbee.StmtDepth.Lazy
