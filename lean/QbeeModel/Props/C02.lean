import QbeeModel.Lemmas.Fold
/-
  C02  Optimisation and compile-time evaluation never change behaviour.  Property theorems only.

  Proved: compile-time evaluation of INTEGER/LONG constant expressions (every arithmetic, logic and comparison
  operator) gives the value and type the machine computes, and gives up exactly when the machine traps; the
  value-level content of the peephole rules push+conv, push+unary, push+push+binary-op on integral operands.
  Not proved (validated by differential runs of levels 0-3): float folding, the jump/halt rules, whole-program lifting.
-/
namespace Qbee.Fold
open Qbee.Gen Qbee.Arith Qbee.ExprSem

/-- a folded INTEGER / LONG constant has exactly the value and type that the machine computes at run time -/
theorem fold_agrees_int {F} (ops : FOps F) (op : BinOp) (hop : IntOp op) (t : Ty) (ht : t = .i ∨ t = .l)
    (a b n : Int) (t' : Ty) (h : foldInt op t a b = .lit t' n) :
    binop ops op (.int t a) (.int t b) = .ok (.int t' n) := by
  have hty : (Cell.int t a : Cell F).ty = t := rfl
  rcases hop with rfl | rfl | rfl | rfl | rfl | rfl | rfl | rfl | rfl | rfl
  all_goals (simp only [foldInt] at h)
  -- add
  · obtain ⟨e1, e2, hm⟩ := limit_lit ops t ht _ _ _ h; subst e1; subst e2
    rcases ht with rfl | rfl <;> simp [binop, Cell.ty, hm]
  · obtain ⟨e1, e2, hm⟩ := limit_lit ops t ht _ _ _ h; subst e1; subst e2
    rcases ht with rfl | rfl <;> simp [binop, Cell.ty, isNumTy, hm]
  · obtain ⟨e1, e2, hm⟩ := limit_lit ops t ht _ _ _ h; subst e1; subst e2
    rcases ht with rfl | rfl <;> simp [binop, Cell.ty, isNumTy, hm]
  · split at h
    · cases h
    · next hb =>
      obtain ⟨e1, e2, hm⟩ := limit_lit ops t ht _ _ _ h; subst e1; subst e2
      rcases ht with rfl | rfl <;> simp [binop, Cell.ty, isIntTy, hb, hm]
  · split at h
    · cases h
    · next hb =>
      obtain ⟨e1, e2, hm⟩ := limit_lit ops t ht _ _ _ h; subst e1; subst e2
      rcases ht with rfl | rfl <;> simp [binop, Cell.ty, isIntTy, hb, hm]
  all_goals
    (obtain ⟨e1, e2, hm⟩ := limit_lit ops t ht _ _ _ h; subst e1; subst e2
     rcases ht with rfl | rfl <;> simp [binop, Cell.ty, isIntTy, hm])

/-- an expression that fails at run time (overflow, division by zero) is never folded into a literal:
    whenever the folder gives up, the machine traps with the matching error -/
theorem fold_never_invents_failure {F} (ops : FOps F) (op : BinOp) (hop : IntOp op) (t : Ty) (ht : t = .i ∨ t = .l)
    (a b : Int) (h : foldInt op t a b = .unfolded) :
    binop ops op (.int t a) (.int t b) = .trap "INVALID_CELL_VALUE" ∨
    binop ops op (.int t a) (.int t b) = .trap "DIVISION_BY_ZERO" := by
  rcases hop with rfl | rfl | rfl | rfl | rfl | rfl | rfl | rfl | rfl | rfl
  all_goals (simp only [foldInt] at h)
  · have hm := limit_unfolded ops t ht _ h
    rcases ht with rfl | rfl <;> (left; simp [binop, Cell.ty, hm])
  · have hm := limit_unfolded ops t ht _ h
    rcases ht with rfl | rfl <;> (left; simp [binop, Cell.ty, isNumTy, hm])
  · have hm := limit_unfolded ops t ht _ h
    rcases ht with rfl | rfl <;> (left; simp [binop, Cell.ty, isNumTy, hm])
  · by_cases hb : b = 0
    · rcases ht with rfl | rfl <;> (right; simp [binop, Cell.ty, isIntTy, hb])
    · simp only [hb, if_false] at h
      have hm := limit_unfolded ops t ht _ h
      rcases ht with rfl | rfl <;> (left; simp [binop, Cell.ty, isIntTy, hb, hm])
  · by_cases hb : b = 0
    · rcases ht with rfl | rfl <;> (right; simp [binop, Cell.ty, isIntTy, hb])
    · simp only [hb, if_false] at h
      have hm := limit_unfolded ops t ht _ h
      rcases ht with rfl | rfl <;> (left; simp [binop, Cell.ty, isIntTy, hb, hm])
  all_goals
    (have hm := limit_unfolded ops t ht _ h
     rcases ht with rfl | rfl <;> (left; simp [binop, Cell.ty, isIntTy, hm]))

/-- comparisons of integral constants fold to the INTEGER the machine's cmp leaves -/
theorem fold_cmp_agrees {F} (ops : FOps F) (t : Ty) (ht : t = .i ∨ t = .l) (a b : Int) :
    ∃ n, foldInt .cmp t a b = .lit .i n ∧ binop ops .cmp (.int t a) (.int t b) = .ok (.int .i n) := by
  refine ⟨if a = b then 0 else if a < b then -1 else 1, rfl, ?_⟩
  rcases ht with rfl | rfl <;> simp [binop, Cell.ty]

/-- unary minus / NOT on an integral constant: folded value = run-time value; no fold on overflow -/
theorem fold_unary_agrees {F} (ops : FOps F) (neg : Bool) (t : Ty) (ht : t = .i ∨ t = .l) (a : Int) :
    (∀ t' n, foldUnInt neg t a = .lit t' n → unop ops (if neg then .neg else .not) (.int t a) = .ok (.int t' n)) ∧
    (foldUnInt neg t a = .unfolded → unop ops (if neg then .neg else .not) (.int t a) = .trap "INVALID_CELL_VALUE") := by
  cases neg
  · -- NOT
    by_cases hr : inRange t (inot a) = true
    · constructor
      · intro t' n h
        simp [foldUnInt, hr] at h
        obtain ⟨h1, h2⟩ := h; subst h1; subst h2
        rcases ht with rfl | rfl <;> simp [unop, mk, hr]
      · intro h; simp [foldUnInt, hr] at h
    · have hr' : inRange t (inot a) = false := by simpa using hr
      constructor
      · intro t' n h; simp [foldUnInt, hr'] at h
      · intro _
        rcases ht with rfl | rfl <;> simp [unop, mk, hr']
  · -- unary minus
    by_cases hr : inRange t (-a) = true
    · constructor
      · intro t' n h
        simp [foldUnInt, hr] at h
        obtain ⟨h1, h2⟩ := h; subst h1; subst h2
        rcases ht with rfl | rfl <;> simp [unop, mk, hr]
      · intro h; simp [foldUnInt, hr] at h
    · have hr' : inRange t (-a) = false := by simpa using hr
      constructor
      · intro t' n h; simp [foldUnInt, hr'] at h
      · intro _
        rcases ht with rfl | rfl <;> simp [unop, mk, hr']

/-- peephole rule push+conv between integral types: replacing the pair by one push leaves the same cell -/
theorem ph_push_conv_int {F} (ops : FOps F) (s d : Ty) (hs : s = .i ∨ s = .l) (hd : d = .i ∨ d = .l) (a a' : Int)
    (h : phConvInt d a = some a') (rest : List (CI F)) (st : List (Cell F)) :
    runC ops (.push (.int s a) :: .op (match s, d with | .i, .l => 6 | .l, .i => 9 | _, _ => 0) :: rest) st =
      (if s = d then runC ops (.push (.int s a) :: .op 0 :: rest) st else runC ops (.push (.int d a') :: rest) st) := by
  unfold phConvInt at h
  split at h
  · next hr =>
    injection h with h; subst h
    rcases hs with rfl | rfl <;> rcases hd with rfl | rfl
    · simp
    · simp [runC, decodeOp, applyOp3, conv, Cell.ty, isIntTy, mk, hr, Res.bind]
    · simp [runC, decodeOp, applyOp3, conv, Cell.ty, isIntTy, mk, hr, Res.bind]
    · simp
  · cases h

/-- peephole rule push+push+binary-op on integral operands: the folded push leaves the same stack,
    for every continuation `rest` and every stack beneath -/
theorem ph_push_push_binop_int {F} (ops : FOps F) (op : BinOp) (hop : IntOp op) (t : Ty) (ht : t = .i ∨ t = .l)
    (a b n : Int) (t' : Ty) (code : Nat) (hc : decodeOp code = some (.bin op))
    (h : foldInt op t a b = .lit t' n) (rest : List (CI F)) (st : List (Cell F)) :
    runC ops (.push (.int t a) :: .push (.int t b) :: .op code :: rest) st =
      runC ops (.push (.int t' n) :: rest) st := by
  have := fold_agrees_int ops op hop t ht a b n t' h
  simp [runC, hc, applyOp3, this, Res.bind]

/-- peephole rule push+unary on an integral operand -/
theorem ph_push_unary_int {F} (ops : FOps F) (neg : Bool) (t : Ty) (ht : t = .i ∨ t = .l) (a n : Int) (t' : Ty)
    (code : Nat) (hc : decodeOp code = some (.un (if neg then .neg else .not)))
    (h : foldUnInt neg t a = .lit t' n) (rest : List (CI F)) (st : List (Cell F)) :
    runC ops (.push (.int t a) :: .op code :: rest) st = runC ops (.push (.int t' n) :: rest) st := by
  have := (fold_unary_agrees ops neg t ht a).1 t' n h
  simp [runC, hc, applyOp3, this, Res.bind]

/-- the folder converts a float operand of an integral operation exactly as the machine's conv instruction does
    (round half to even FIRST, then the range check): same value, and it gives up exactly when conv traps -/
theorem fold_operand_conv_agrees {F} (ops : FOps F) (src t : Ty) (hs : src = .s ∨ src = .d) (ht : t = .i ∨ t = .l) (x : F) :
    (∀ n, foldOperandFromFloat ops t x = some n → conv ops src t (.flt src x) = .ok (.int t n)) ∧
    (foldOperandFromFloat ops t x = none → ∀ c, conv ops src t (.flt src x) ≠ .ok c) := by
  unfold foldOperandFromFloat
  cases hr : ops.roundEven x with
  | none =>
    constructor
    · intro n h; simp at h
    · intro _ c
      rcases hs with rfl | rfl <;> rcases ht with rfl | rfl <;> simp [conv, Cell.ty, isIntTy, hr]
  | some n =>
    by_cases hin : inRange t n = true
    · constructor
      · intro n' h
        simp [hin] at h; subst h
        rcases hs with rfl | rfl <;> rcases ht with rfl | rfl <;> simp [conv, Cell.ty, isIntTy, hr, mk, hin]
      · intro h; simp [hin] at h
    · have hin' : inRange t n = false := by simpa using hin
      constructor
      · intro n' h; simp [hin'] at h
      · intro _ c
        rcases hs with rfl | rfl <;> rcases ht with rfl | rfl <;> simp [conv, Cell.ty, isIntTy, hr, mk, hin']

/-- before the repair `limit` used the 64-bit c_long for LONG: 2000000000 + 2000000000 was folded
    although the machine overflows -/
theorem long_overflow_was_folded_before_repair :
    Int.emod ((2000000000 + 2000000000 : Int) + 9223372036854775808) 18446744073709551616 - 9223372036854775808
      = 4000000000 ∧ foldInt .add .l 2000000000 2000000000 = .unfolded := by decide

example : foldInt .add .i 32767 1 = .unfolded := by decide
example : foldInt .idiv .l (-7) 2 = .lit .l (-3) := by decide
example : foldInt .mod .i (-7) 3 = .lit .i (-1) := by decide
example : IntOp .idiv := by unfold IntOp; simp



end Qbee.Fold
