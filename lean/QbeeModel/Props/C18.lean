import QbeeModel.Lemmas.Input
/-
  C18  INPUT assigns only well-typed values and re-prompts on bad lines.  Property theorems only.
  The model is of the code AFTER the repair commit (push only when the whole line is accepted);
  `tryLineOld` keeps the unrepaired behaviour for the witness theorem.
-/
namespace Qbee.Input
open Qbee.NumFmt

/-- a refused response line leaves nothing on the operand stack -/
theorem rejected_line_no_effect (tys : List Nat) (line : Str) (l : List Cell)
    (h : tryLine tys line = .rejected l) : l = [] :=
  tryLine_rejected_nil tys line l h

/-- an accepted line has exactly one field per variable, every field converts to its variable's
    type, and the cells are pushed last variable first -- so that the stores generated after the
    `io` instruction (first variable first) pop field i into variable i -/
theorem accepted_assigns_in_order (tys : List Nat) (line : Str) (p : List Cell)
    (h : tryLine tys line = .accepted p) :
    (fields line).length = tys.length ∧
    ((fields line).zip tys).map (fun x => convField x.2 x.1) = p.reverse.map FieldRes.ok := by
  simp only [tryLine] at h
  split at h
  · cases h
  · next hlen =>
    obtain ⟨cs, h1, h2⟩ := convAll_accepted _ _ p h
    simp at h1; subst h1
    refine ⟨by simpa using hlen, ?_⟩
    have := congrArg List.reverse h2
    simpa [List.map_reverse] using this

/-- conversely: one field per variable, each well-formed and in range for its type => accepted -/
theorem accepted_of_all_ok (tys : List Nat) (line : Str)
    (hlen : (fields line).length = tys.length)
    (hok : ∀ x ∈ (fields line).zip tys, ∃ c, convField x.2 x.1 = .ok c) :
    ∃ p, tryLine tys line = .accepted p := by
  unfold tryLine
  simp only [hlen, ne_eq, not_true_eq_false, if_false]
  exact convAll_all_ok _ _ (fun x hx => hok x (by simpa using hx))

/-- a wrong number of fields is refused -/
theorem rejected_of_count (tys : List Nat) (line : Str) (h : (fields line).length ≠ tys.length) :
    tryLine tys line = .rejected [] := by
  simp [tryLine, h]

/-- the unrepaired `push_vars` (pushing while validating) left cells behind: the full statement
    "a refused line leaves nothing behind" is false of it -/
theorem tryLineOld_leaves_cells :
    ∃ tys line l, tryLineOld tys line = .rejected l ∧ l ≠ [] :=
  ⟨[1, 1], "x,5".toList, [.int 1 5], by decide, by decide⟩

/-! ### the retry loop -/

/-- INPUT first shows its prompt, then "? " exactly when the question flag is set, then reads a line -/
theorem prompt_shown (r : Req) (lines : List Str) :
    ∃ more, callsOf (run r lines) =
      .print r.prompt :: (if r.question then [.print "? ".toList] else []) ++ [.input] ++ more := by
  obtain ⟨more, h⟩ := runWith_calls_prefix tryLine r lines [] []
  exact ⟨more, by simpa [run, promptCalls] using h⟩

/-- any number of refused lines, each answered by "Redo from start" and the repeated prompt, then
    the first accepted line: exactly that line's cells are pushed and nothing else is left -/
theorem any_number_of_retries (r : Req) (bad : List Str) (good : Str) (rest : List Str) (p : List Cell)
    (hb : ∀ b ∈ bad, ∃ l, tryLine r.tys b = .rejected l) (hg : tryLine r.tys good = .accepted p) :
    run r (bad ++ good :: rest) = .done (retryCalls r bad.length ++ promptCalls r) p [] := by
  simpa [run] using runWith_retries r good p hg bad rest [] hb

/-! ### argument protocol -/

/-- the pops of `_exec_input` recover what `gen_input` pushed -/
theorem args_roundtrip (sl : Bool) (r : Req) (h : r.tys ≠ []) :
    decodeReq (encodeReq sl r).reverse = some (sl, r) := by
  obtain ⟨prompt, question, tys⟩ := r
  simp only at h
  have hpos : ¬ ((tys.length : Int) ≤ 0) := by
    have : 0 < tys.length := List.length_pos_iff.mpr h
    omega
  have hrev : (encodeReq sl ⟨prompt, question, tys⟩).reverse =
      Arg.int tys.length :: (tys.reverse.map (fun (t : Nat) => Arg.int (t : Int)) ++
        [.int (if question then -1 else 0), .str prompt, .int (if sl then -1 else 0)]) := by
    simp [encodeReq, List.reverse_append, List.map_reverse]
  rw [hrev]
  simp only [decodeReq, hpos, if_false, Int.toNat_natCast]
  have := takeInts_map tys.reverse [.int (if question then -1 else 0), .str prompt, .int (if sl then -1 else 0)]
  simp only [List.length_reverse] at this
  rw [this]
  cases sl <;> cases question <;> simp

-- non-vacuity
example : tryLine [1, 5, 4] " 12 , hello ,1.5".toList =
    .accepted [.flt 4 "1.5".toList, .str "hello".toList, .int 1 12] := by decide
example : tryLine [1, 1] "x,5".toList = .rejected [] := by decide
example : tryLine [1] "40000".toList = .rejected [] := by decide


end Qbee.Input
