import QbeeModel.Lemmas.DebugMap
import QbeeModel.Props.C08
/-
  C11  The debug map attributes every instruction to its source statement.  Property theorems only.
  (records on instruction boundaries: `Qbee.Asm.marker_on_boundary`, restated here)
-/
namespace Qbee.DebugMap

/-- a complete well-bracketed stream is accepted by the collector (no 'Incorrect debug info' assertion)
    and its statement ranges nest the way the brackets nest: any two are nested or disjoint -/
theorem laminar (lo hi : Nat) (evs : List Ev) (h : WB lo hi evs) :
    ∃ rs, collect evs [] [] = some rs ∧ Laminar rs ∧ Within lo hi rs := by
  obtain ⟨rs, hc, hl, hw⟩ := collect_WB h
  refine ⟨rs, ?_, hl, hw⟩
  have := hc [] [] []
  simpa [collect] using this

/-! ### the innermost-statement lookup -/

/-- in a laminar record set the lookup returns the INNERMOST statement: the record it returns contains
    the address and lies inside every other record that contains the address -/
theorem findStmt_innermost (rs : List Rec) (hl : Laminar rs) (addr : Nat) (r : Rec)
    (h : findStmt rs addr = some r) :
    r ∈ rs ∧ Contains r addr ∧ ∀ x ∈ rs, Contains x addr → x.s ≤ r.s ∧ r.e ≤ x.e := by
  rcases findStmt_spec addr rs with ⟨h1, _⟩ | ⟨r', h1, h2, h3, h4⟩
  · rw [h1] at h; cases h
  · rw [h1] at h; injection h with h; subst h
    refine ⟨h2, h3, ?_⟩
    intro x hx hcx
    have hmin := h4 x hx hcx
    have := hl r' h2 x hx
    unfold Contains at h3 hcx
    rcases this with h | h | h | h <;> omega

/-- an address covered by some statement record is attributed (never "no statement") -/
theorem findStmt_covers (rs : List Rec) (addr : Nat) (x : Rec) (hx : x ∈ rs) (hc : Contains x addr) :
    ∃ r, findStmt rs addr = some r := by
  rcases findStmt_spec addr rs with ⟨_, h2⟩ | ⟨r, h1, _⟩
  · exact absurd hc (h2 x hx)
  · exact ⟨r, h1⟩

example : WB 0 9 [.start 1 0, .start 2 2, .stop 2 5, .stop 1 9] :=
  WB.wrap 1 0 9 0 9 [.start 2 2, .stop 2 5] (by omega) (by omega)
    (WB.wrap 2 2 5 0 9 [] (by omega) (by omega) (WB.nil 2 5 (by omega)))
example : findStmt [⟨1, 0, 9⟩, ⟨2, 2, 5⟩] 3 = some ⟨2, 2, 5⟩ := by decide



/-- statement ranges begin and end on instruction boundaries (or at the end of the code) -/
theorem records_on_boundaries (s : List Asm.SI) (off k o : Nat) (h : (k, o) ∈ Asm.markerOffsets s off) :
    o ∈ Asm.starts s off ∨ o = off + Asm.totalSize s := Asm.marker_on_boundary s off k o h

end Qbee.DebugMap
