import QbeeModel.Lemmas.DataParse
import QbeeModel.Lemmas.DataCursor
import QbeeModel.Lemmas.DataGroups
/-
  C15  DATA items are read in source order and RESTORE repositions exactly.
  Property theorems only (helpers in Lemmas/Data*.lean).
-/
namespace Qbee.Data
open Qbee.NumFmt

/-! ### the tokeniser, specified by the property's own sentences -/

/-- without quotes, DATA text is split at every comma; blank fields are Empty, the others are trimmed -/
theorem pd_no_quotes (s : Str) (h : '"' ∉ s) :
    parseData s = some ((splitCommas s).map fieldItem) := by
  simpa [parseData, splitCommas] using (pd_no_quotes_aux s h).1

/-- quoted items are kept verbatim (commas, colons and blanks inside quotes do not split or trim);
    every non-empty item list is recovered from its canonical rendering -/
theorem pd_roundtrip : ∀ (its : List DItem), its ≠ [] → (∀ s, .str s ∈ its → '"' ∉ s) →
    parseData (render its) = some its
  | [], h, _ => absurd rfl h
  | [.empty], _, _ => by simp [render, parseData, pd]
  | [.str s], _, hq => by
    have := pd_quo s (hq s (by simp)) [] []
    simp [render, parseData, pd, isBT] 
    simpa [pd] using this
  | .empty :: b :: r, _, hq => by
    have ih := pd_roundtrip (b :: r) (by simp) (fun s hs => hq s (by simp [hs]))
    simp only [parseData] at ih
    simp [render, parseData, pd, isBT, ih]
  | .str s :: b :: r, _, hq => by
    have ih := pd_roundtrip (b :: r) (by simp) (fun s hs => hq s (by simp [hs]))
    simp only [parseData] at ih
    have := pd_quo s (hq s (by simp)) [] (',' :: render (b :: r))
    simp [render, parseData, pd, isBT]
    simp [this, pd, isBT, ih]


/-- the tokeniser is total: every text gives a list of items or a syntax error, never anything else;
    and an accepted text always yields at least one item unless it ends right after a quoted item -/
theorem pd_total (s : Str) : parseData s = none ∨ ∃ its, parseData s = some its := by
  cases h : parseData s with
  | none => exact Or.inl rfl
  | some its => exact Or.inr ⟨its, rfl⟩

/-! ### source order -/

/-- with distinct labels, the data section lists the items of all DATA statements in source order
    (the grouping by label only inserts part boundaries) -/
theorem parts_in_source_order (evs : List Ev) (h : (labels evs).Nodup) :
    (parts evs).flatten = allItems evs := by
  have := groupFrom_flat evs none [] h (by intro l _; simp [keys]) (Or.inl (by simp [keys]))
  simpa [parts, groupData, flat] using this


/-! ### the READ cursor -/

/-- after positioning the cursor at the start of part `i`, successive READs deliver the items of
    parts i, i+1, … in order; in particular from the initial cursor (i = 0) READ delivers all
    items in the order of the data section -/
theorem readMany_from_part (data : List (List DItem)) (hg : Good data) (i : Nat) (hi : i ≤ data.length) (k : Nat) :
    readMany data ⟨(i : Int), 0⟩ k = ((data.drop i).flatten).take k := by
  by_cases hlt : i < data.length
  · have hsplit : data = data.take i ++ data[i] :: data.drop (i + 1) := by
      conv => lhs; rw [← List.take_append_drop i data]
      rw [List.drop_eq_getElem_cons hlt]
    have hp : data[i] ≠ [] := hg _ (List.getElem_mem hlt)
    have h0 : 0 < data[i].length := List.length_pos_iff.mpr hp
    have hgpost : Good (data.drop (i + 1)) := fun x hx => hg x (List.mem_of_mem_drop hx)
    have := readMany_in_part k (data.take i) data[i] (data.drop (i + 1)) 0 h0 hgpost
    rw [← hsplit] at this
    have hl : (data.take i).length = i := by simp; omega
    rw [hl] at this
    rw [this]
    have e : (data.drop i).flatten = data[i] ++ (data.drop (i + 1)).flatten := by
      rw [List.drop_eq_getElem_cons hlt]; rfl
    rw [e]; simp
  · have : i = data.length := by omega
    subst this
    simp [readMany_end]

theorem read_sequence (data : List (List DItem)) (hg : Good data) (k : Nat) :
    readMany data ⟨0, 0⟩ k = data.flatten.take k := by
  simpa using readMany_from_part data hg 0 (by omega) k

/-- reading past the last item fails ("Out of data") -/
theorem read_past_end (data : List (List DItem)) (hg : Good data) :
    readMany data ⟨0, 0⟩ (data.flatten.length + 1) = data.flatten := by
  rw [read_sequence data hg]
  exact List.take_of_length_le (by omega)


/-- RESTORE to part i (the index the compiler pushes for a label) -/
theorem restore_to_part (data : List (List DItem)) (hg : Good data) (i : Nat) (hi : i ≤ data.length) (k : Nat) :
    readMany data (restore (i : Int)) k = ((data.drop i).flatten).take k :=
  readMany_from_part data hg i hi k

/-- RESTORE with a label: if label `l` is followed by a DATA statement before the next label, the
    index the compiler pushes is the part that starts with that DATA statement's items, and from there
    the data section lists everything from that statement on, in source order -/
theorem restore_label_target (pre post : List Ev) (l : String) (its : List DItem)
    (hnd : (labels (pre ++ .label l :: .data its :: post)).Nodup) :
    ∃ i, labelIndex (groupData (pre ++ .label l :: .data its :: post)) l = some i ∧
      i ≤ (parts (pre ++ .label l :: .data its :: post)).length ∧
      ((parts (pre ++ .label l :: .data its :: post)).drop i).flatten = its ++ allItems post := by
  have hlab : labels (pre ++ .label l :: .data its :: post) = labels pre ++ l :: labels post := by
    simp [labels_append, labels]
  rw [hlab] at hnd
  have hnd' := List.nodup_append.mp hnd
  obtain ⟨hpre, hrest, hdisj⟩ := hnd'
  have hl_notpre : l ∉ labels pre := fun hm => hdisj l hm l (by simp) rfl
  simp only [List.nodup_cons] at hrest
  let G := groupFrom none [] pre
  have hkeysG : ∀ k ∈ keys G, k = none ∨ ∃ l' ∈ labels pre, k = some l' := by
    intro k hk
    rcases keys_groupFrom pre none [] k hk with h | h | h
    · simp [keys] at h
    · exact Or.inl h
    · exact Or.inr h
  have hlG : some l ∉ keys G := by
    intro hm
    rcases hkeysG _ hm with h | ⟨l', hl', h⟩
    · cases h
    · injection h with h; subst h; exact hl_notpre hl'
  have hpostG : ∀ l' ∈ labels post, some l' ∉ keys G := by
    intro l' hl' hm
    rcases hkeysG _ hm with h | ⟨l'', hl'', h⟩
    · cases h
    · injection h with h; subst h
      exact hdisj l' hl'' l' (by simp [hl']) rfl
  have hgd : groupData (pre ++ .label l :: .data its :: post) =
      G ++ groupFrom (some l) [(some l, its)] post := by
    unfold groupData
    rw [groupFrom_append]
    simp only [groupFrom]
    rw [addTo_not_mem G (some l) its hlG]
    exact groupFrom_frame post (some l) G [(some l, its)] hlG hpostG
  obtain ⟨its', H', hH⟩ := groupFrom_head_key post (some l) (some l) its []
  refine ⟨G.length, ?_, ?_, ?_⟩
  · rw [hgd, labelIndex_append G _ l hlG, hH]; simp [labelIndex]
  · simp [parts, hgd]
  · have hflat := groupFrom_flat post (some l) [(some l, its)] hrest.2
      (by
        intro l' hl'
        have hne : l' ≠ l := fun e => hrest.1 (e ▸ hl')
        constructor
        · simp [keys]; exact fun e => hne e
        · intro e; injection e with e; exact hne e)
      (Or.inr ⟨[], its, rfl, by simp [keys]⟩)
    simp only [parts, hgd, List.map_append, List.drop_left' (List.length_map _)]
    simpa [flat] using hflat


/-- RESTORE with a label, at full strength: wherever the label stands - followed by a DATA statement, by other labels first,
    or by no DATA at all - the index the compiler pushes (as repaired) is a part index from which the data section lists
    exactly the items of the DATA statements after the label, in source order -/
theorem restore_label_general : ∀ (post pre : List Ev) (l : String),
    (labels (pre ++ .label l :: post)).Nodup →
    labelTarget (groupData (pre ++ .label l :: post)) (labelOrder (pre ++ .label l :: post)) l
        ≤ (parts (pre ++ .label l :: post)).length ∧
    ((parts (pre ++ .label l :: post)).drop
        (labelTarget (groupData (pre ++ .label l :: post)) (labelOrder (pre ++ .label l :: post)) l)).flatten
      = allItems post := by
  intro post
  induction post with
  | nil =>
    intro pre l hnd
    have hlab : labels (pre ++ [.label l]) = labels pre ++ [l] := by simp [labels_append, labels]
    rw [hlab] at hnd
    have hl_notpre : l ∉ labels pre := fun hm => (List.nodup_append.mp hnd).2.2 l hm l (by simp) rfl
    have hgd : groupData (pre ++ [.label l]) = groupData pre := by
      unfold groupData; rw [groupFrom_append]; simp [groupFrom]
    have hnk : some l ∉ keys (groupData pre) := by
      intro hm
      rcases keys_groupData pre _ hm with h | ⟨l', hl', h⟩
      · cases h
      · injection h with h; subst h; exact hl_notpre hl'
    have hord : ((labelOrder (pre ++ [.label l])).dropWhile (· != l)).drop 1 = [] := by
      rw [labelOrder_eq_labels, hlab]; exact after_first_occurrence _ _ _ hl_notpre
    have ht : labelTarget (groupData (pre ++ [.label l])) (labelOrder (pre ++ [.label l])) l = (groupData pre).length := by
      unfold labelTarget
      rw [hord, hgd, labelIndex_none _ _ hnk]
      rfl
    rw [ht]
    refine ⟨by simp [parts, hgd], ?_⟩
    simp only [parts, hgd, allItems]
    rw [List.drop_of_length_le (by simp)]
    rfl
  | cons e post' ih =>
    intro pre l hnd
    cases e with
    | data its =>
      obtain ⟨i, h1, h2, h3⟩ := restore_label_target pre post' l its hnd
      have ht : labelTarget (groupData (pre ++ .label l :: .data its :: post'))
          (labelOrder (pre ++ .label l :: .data its :: post')) l = i := by
        unfold labelTarget; rw [h1]
      rw [ht]
      exact ⟨h2, by simpa [allItems] using h3⟩
    | label l2 =>
      have hsplit : pre ++ .label l :: .label l2 :: post' = (pre ++ [.label l]) ++ .label l2 :: post' := by simp
      have hlab : labels (pre ++ .label l :: .label l2 :: post') = labels pre ++ l :: l2 :: labels post' := by
        simp [labels_append, labels]
      have hnd0 := hnd
      rw [hlab] at hnd
      obtain ⟨_, hrest, hdisj⟩ := List.nodup_append.mp hnd
      have hl_notpre : l ∉ labels pre := fun hm => hdisj l hm l (by simp) rfl
      have hl2_notpre : l2 ∉ labels pre := fun hm => hdisj l2 hm l2 (by simp) rfl
      simp only [List.nodup_cons, List.mem_cons, not_or] at hrest
      obtain ⟨⟨hne, hl_notpost⟩, hl2_notpost, _⟩ := hrest
      -- `l` has no group of its own
      have hnk : some l ∉ keys (groupData (pre ++ .label l :: .label l2 :: post')) := by
        intro hm
        have hg : groupData (pre ++ .label l :: .label l2 :: post') = groupFrom (some l2) (groupData pre) post' := by
          unfold groupData; rw [groupFrom_append]; simp [groupFrom]
        rw [hg] at hm
        rcases keys_groupFrom post' (some l2) (groupData pre) _ hm with h | h | ⟨l', hl', h⟩
        · rcases keys_groupData pre _ h with h' | ⟨l', hl', h'⟩
          · cases h'
          · injection h' with h'; subst h'; exact hl_notpre hl'
        · injection h with h; exact hne h
        · injection h with h; subst h; exact hl_notpost hl'
      -- the labels after `l` are `l2` and the labels after `l2`
      have hord : ((labelOrder (pre ++ .label l :: .label l2 :: post')).dropWhile (· != l)).drop 1 = l2 :: labels post' := by
        rw [labelOrder_eq_labels, hlab]; exact after_first_occurrence _ _ _ hl_notpre
      have hord2 : ((labelOrder (pre ++ .label l :: .label l2 :: post')).dropWhile (· != l2)).drop 1 = labels post' := by
        rw [labelOrder_eq_labels, hlab]
        have : labels pre ++ l :: l2 :: labels post' = (labels pre ++ [l]) ++ l2 :: labels post' := by simp
        rw [this]
        refine after_first_occurrence _ _ _ ?_
        intro hm
        rcases List.mem_append.mp hm with h | h
        · exact hl2_notpre h
        · simp at h; exact hne h.symm
      have ht : labelTarget (groupData (pre ++ .label l :: .label l2 :: post'))
            (labelOrder (pre ++ .label l :: .label l2 :: post')) l =
          labelTarget (groupData (pre ++ .label l :: .label l2 :: post'))
            (labelOrder (pre ++ .label l :: .label l2 :: post')) l2 := by
        unfold labelTarget
        rw [labelIndex_none _ _ hnk, hord, hord2]
        rfl
      rw [ht, hsplit]
      have := ih (pre ++ [.label l]) l2 (by rw [← hsplit]; exact hnd0)
      simpa [allItems] using this

/-- before the repair the compiler had no index for a label without a group of its own (`list.index` raised ValueError) -/
theorem restore_label_without_group_had_no_index :
    labelIndex (groupData [.label "foo", .label "bar", .data [.str ['1']]]) "foo" = none ∧
    labelTarget (groupData [.label "foo", .label "bar", .data [.str ['1']]])
      (labelOrder [.label "foo", .label "bar", .data [.str ['1']]]) "foo" = 0 := by decide

/-! ### RESTORE without a label

`gen_restore_stmt` pushes 0 for a RESTORE without label (as repaired: it pushed -1, which `_exec_restore` stored in
`data_part`, and Python's negative list index then selected the LAST group). -/

/-- RESTORE without a label rewinds to the first item of the whole data section -/
def RestorePlainRewinds : Prop :=
  ∀ data : List (List DItem), Good data → ∀ k, readMany data (restore 0) k = data.flatten.take k

theorem restore_plain_rewinds : RestorePlainRewinds := by
  intro data hg k
  have := restore_to_part data hg 0 (Nat.zero_le _) k
  simpa using this

/-- the defect that was repaired, kept as a witness: with part index -1 the cursor starts at the last group -/
theorem restore_minus_one_was_wrong :
    readMany [[.str ['1']], [.str ['2']]] (restore (-1)) 1 ≠ ([[.str ['1']], [.str ['2']]] : List (List DItem)).flatten.take 1 := by
  decide

-- non-vacuity
example : parseData "a, \"b,c\" ,,d ".toList =
    some [.str ['a'], .str "b,c".toList, .empty, .str ['d']] := by decide
example : Good [[.str ['1'], .empty], [.str ['2']]] := by
  intro p hp; simp at hp; rcases hp with rfl | rfl <;> simp
example : (labels [.label "a", .data [.empty], .label "b", .data [.empty]]).Nodup := by decide

end Qbee.Data
