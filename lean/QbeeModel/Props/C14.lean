import QbeeModel.Lemmas.Lex
/-
  C14  Spelling, spacing, comments and separators do not change the program.  Property theorems only.

  PARTIAL.  `lex_render`: however a token stream is written - any letter case of every keyword and identifier, any
  number of blanks or tabs before every token, any trailing `' comment`, any number of empty or comment-only lines -
  the lexical layer reads back exactly that token stream.  Hence two texts that differ only in those respects have the
  same tokens (`same_tokens`).  What the theorem does not reach: that the real grammar looks at nothing but these
  tokens (checked by the correspondence "equal token streams => identical module sections" on random edits), and the
  streams with a signed exponent (`1e-5`: one token of the grammar, three of the model - excluded by `NoSignedExponent`), and
  the rewritings above the lexical layer - colon versus newline, LET, CALL forms, NEXT variable, `><`, label names - which
  are decided by the metamorphic oracle of harness/checks/c14.py only.
-/
namespace Qbee.Lex

/-- the first character of any written token is not a word character -/
theorem render_head (ts : List (Tok × Lay)) (hok : ∀ p ∈ ts, TokOk p) :
    render ts = [] ∨ ∃ c rest, render ts = c :: rest ∧ isWordCh c = false := by
  cases ts with
  | nil => left; rfl
  | cons p r =>
    obtain ⟨t, l⟩ := p
    have hp := hok (t, l) (by simp)
    right
    have blank_head : ∀ (n : Nat) (tab : Bool) (x : Str), ∃ c rest, blanksOf (n + 1) tab ++ x = c :: rest ∧ isWordCh c = false := by
      intro n tab x
      refine ⟨if tab = true then '\t' else ' ', blanksOf n tab ++ x, by simp [blanksOf, List.replicate_succ], ?_⟩
      cases tab <;> decide
    have any_blanks : ∀ (n : Nat) (tab : Bool) (c : Char) (x : Str), isWordCh c = false →
        ∃ c' rest, blanksOf n tab ++ c :: x = c' :: rest ∧ isWordCh c' = false := by
      intro n tab c x hc
      cases n with
      | zero => exact ⟨c, x, by simp [blanksOf], hc⟩
      | succ n => exact blank_head n tab (c :: x)
    cases t with
    | word w =>
      obtain ⟨c, rest, h1, h2⟩ := blank_head l.blanks l.tab (l.spelling ++ render r)
      exact ⟨c, rest, by simpa [render, renderTok] using h1, h2⟩
    | raw kw text =>
      obtain ⟨c, rest, h1, h2⟩ := blank_head l.blanks l.tab (l.spelling ++ text ++ render r)
      exact ⟨c, rest, by simpa [render, renderTok] using h1, h2⟩
    | str s =>
      obtain ⟨c, rest, h1, h2⟩ := any_blanks l.blanks l.tab '"' (s ++ ['"'] ++ render r) (by decide)
      exact ⟨c, rest, by simpa [render, renderTok] using h1, h2⟩
    | sym ch =>
      obtain ⟨c, rest, h1, h2⟩ := any_blanks l.blanks l.tab ch (render r) hp.1
      exact ⟨c, rest, by simpa [render, renderTok] using h1, h2⟩
    | sym2 c1 c2 =>
      have hc1 : isWordCh c1 = false := by
        have h := hp
        simp only [TokOk, isOp2, isCmpCh, Bool.and_eq_true, Bool.or_eq_true, decide_eq_true_eq] at h
        rcases h.1.1 with (h1 | h1) | h1 <;> subst h1 <;> decide
      obtain ⟨c, rest, h1, h2⟩ := any_blanks l.blanks l.tab c1 (c2 :: render r) hc1
      exact ⟨c, rest, by simpa [render, renderTok] using h1, h2⟩
    | nl =>
      cases hcm : l.comment with
      | none =>
        obtain ⟨c, rest, h1, h2⟩ := any_blanks l.blanks l.tab '\n' (emptyLinesText l.emptyLines ++ render r) (by decide)
        exact ⟨c, rest, by simpa [render, renderTok, hcm, commentText] using h1, h2⟩
      | some t =>
        obtain ⟨c, rest, h1, h2⟩ := any_blanks l.blanks l.tab '\'' (t ++ ['\n'] ++ emptyLinesText l.emptyLines ++ render r) (by decide)
        exact ⟨c, rest, by simpa [render, renderTok, hcm, commentText] using h1, h2⟩

/-- a pending word followed by written tokens -/
theorem go_pending (w : Str) (hw : isRawKw w = false) (hne : w ≠ []) (a : Bool) (ts : List (Tok × Lay)) (hok : ∀ p ∈ ts, TokOk p) :
    go (.code w) a (render ts) = wordTok w :: go (.code []) false (render ts) := by
  rcases render_head ts hok with h | ⟨c, rest, h, hc⟩
  · rw [h]; simp [go_code_nil, flushW, hne]
  · rw [h, go_flush w hw a c rest hc]
    simp [flushW, hne]

/-- THE ROUND TRIP: reading any writing of a token stream gives the token stream -/
theorem noGlue_tail (p : Tok × Lay) (r : List (Tok × Lay)) (h : NoGlue (p :: r)) : NoGlue r := by
  cases r with
  | nil => trivial
  | cons q r' =>
    obtain ⟨t, l⟩ := p
    cases t <;> first | exact h | exact h.2

theorem go_render : ∀ (ts : List (Tok × Lay)) (a : Bool), (∀ p ∈ ts, TokOk p) → RawThenNl ts → NoGlue ts → NoEmptyLine a ts →
    go (.code []) a (render ts) = ts.map Prod.fst
  | [], a, _, _, _, _ => by simp [render, go_code_nil, flushW]
  | (.word w, l) :: r, a, hok, hraw, hglue, hnel => by
    obtain ⟨hne, hnr, hsp, hall⟩ := hok (.word w, l) (by simp)
    have hok' : ∀ p ∈ r, TokOk p := fun p hp => hok p (by simp [hp])
    have hraw' : RawThenNl r := by
      cases r with
      | nil => trivial
      | cons p r' => exact hraw
    have ih := go_render r false hok' hraw' (noGlue_tail _ r hglue) hnel
    simp only [render, renderTok, List.append_assoc, List.map_cons]
    rw [go_blanks, go_word l.spelling hall, List.nil_append, hsp, go_pending w hnr hne a r hok', ih]
    simp [wordTok, hnr]
  | (.str s, l) :: r, a, hok, hraw, hglue, hnel => by
    obtain ⟨hq, hn⟩ := hok (.str s, l) (by simp)
    have hok' : ∀ p ∈ r, TokOk p := fun p hp => hok p (by simp [hp])
    have hraw' : RawThenNl r := by
      cases r with
      | nil => trivial
      | cons p r' => exact hraw
    have ih := go_render r false hok' hraw' (noGlue_tail _ r hglue) hnel
    simp only [render, renderTok, List.append_assoc, List.map_cons, List.cons_append, List.nil_append]
    rw [go_blanks, go_code_cons]
    have h1 : isWordCh '"' = false := by decide
    have h2 : isBlank '"' = false := by decide
    simp only [h1, Bool.false_eq_true, if_false, isRawKw_nil, Bool.false_and, flushW, List.nil_append, h2]
    have h3 : ('"' = '\n') = False := by decide
    have h4 : ('"' = '\'') = False := by decide
    simp only [h3, h4, if_false, if_true]
    rw [go_str s hq hn, ih]
    simp
  | (.sym c, l) :: r, a, hok, hraw, hglue, hnel => by
    obtain ⟨hw, hb, hn, hq, hd⟩ := hok (.sym c, l) (by simp)
    have hok' : ∀ p ∈ r, TokOk p := fun p hp => hok p (by simp [hp])
    have hraw' : RawThenNl r := by
      cases r with
      | nil => trivial
      | cons p r' => exact hraw
    have ih := go_render r false hok' hraw' (noGlue_tail _ r hglue) hnel
    simp only [render, renderTok, List.append_assoc, List.map_cons, List.cons_append, List.nil_append]
    rw [go_blanks, go_code_cons]
    simp only [hw, Bool.false_eq_true, if_false, isRawKw_nil, Bool.false_and, flushW, List.nil_append, hb, hn, hq, hd]
    -- the character after the symbol does not glue with it
    cases hr : render r with
    | nil =>
      rw [hr] at ih
      simp only [go_code_nil, flushW] at ih
      simp [← ih]
    | cons d rest =>
      have hng : isOp2 c d = false := by
        cases r with
        | nil => simp [render] at hr
        | cons q r' =>
          have hg := hglue.1
          obtain ⟨t2, l2⟩ := q
          -- either a blank precedes the next token, or its first character is covered by NoGlue
          by_cases hcmp : isCmpCh d = true
          · -- d is one of < > = : the next token is written without a blank and starts with d
            have hq2 := hok' (t2, l2) (by simp)
            have hfirst : firstCh (t2, l2) = some d := by
              cases t2 with
              | word w2 =>
                simp only [render, renderTok, blanksOf, List.replicate_succ, List.cons_append, List.append_assoc] at hr
                have := (List.cons.inj hr).1
                cases hl : l2.tab <;> simp [hl] at this <;> subst this <;> simp [isCmpCh] at hcmp
              | raw kw2 tx2 =>
                simp only [render, renderTok, blanksOf, List.replicate_succ, List.cons_append, List.append_assoc] at hr
                have := (List.cons.inj hr).1
                cases hl : l2.tab <;> simp [hl] at this <;> subst this <;> simp [isCmpCh] at hcmp
              | str s2 =>
                cases hb2 : l2.blanks with
                | zero =>
                  simp only [render, renderTok, hb2, blanksOf, List.replicate_zero, List.nil_append, List.cons_append, List.append_assoc] at hr
                  have := (List.cons.inj hr).1
                  subst this; simp [isCmpCh] at hcmp
                | succ n =>
                  simp only [render, renderTok, hb2, blanksOf, List.replicate_succ, List.cons_append, List.append_assoc] at hr
                  have := (List.cons.inj hr).1
                  cases hl : l2.tab <;> simp [hl] at this <;> subst this <;> simp [isCmpCh] at hcmp
              | nl =>
                cases hb2 : l2.blanks with
                | zero =>
                  cases hc2 : l2.comment with
                  | none =>
                    simp only [render, renderTok, hb2, hc2, commentText, blanksOf, List.replicate_zero, List.nil_append, List.cons_append, List.append_assoc] at hr
                    have := (List.cons.inj hr).1
                    subst this; simp [isCmpCh] at hcmp
                  | some t =>
                    simp only [render, renderTok, hb2, hc2, commentText, blanksOf, List.replicate_zero, List.nil_append, List.cons_append, List.append_assoc] at hr
                    have := (List.cons.inj hr).1
                    subst this; simp [isCmpCh] at hcmp
                | succ n =>
                  simp only [render, renderTok, hb2, blanksOf, List.replicate_succ, List.cons_append, List.append_assoc] at hr
                  have := (List.cons.inj hr).1
                  cases hl : l2.tab <;> simp [hl] at this <;> subst this <;> simp [isCmpCh] at hcmp
              | sym c2 =>
                cases hb2 : l2.blanks with
                | zero =>
                  simp only [render, renderTok, hb2, blanksOf, List.replicate_zero, List.nil_append, List.cons_append] at hr
                  have := (List.cons.inj hr).1
                  subst this; simp [firstCh, hb2]
                | succ n =>
                  simp only [render, renderTok, hb2, blanksOf, List.replicate_succ, List.cons_append, List.append_assoc] at hr
                  have := (List.cons.inj hr).1
                  cases hl : l2.tab <;> simp [hl] at this <;> subst this <;> simp [isCmpCh] at hcmp
              | sym2 c2 c3 =>
                cases hb2 : l2.blanks with
                | zero =>
                  simp only [render, renderTok, hb2, blanksOf, List.replicate_zero, List.nil_append, List.cons_append] at hr
                  have := (List.cons.inj hr).1
                  subst this; simp [firstCh, hb2]
                | succ n =>
                  simp only [render, renderTok, hb2, blanksOf, List.replicate_succ, List.cons_append, List.append_assoc] at hr
                  have := (List.cons.inj hr).1
                  cases hl : l2.tab <;> simp [hl] at this <;> subst this <;> simp [isCmpCh] at hcmp
            exact hg d hfirst
          · have : isCmpCh d = false := by simpa using hcmp
            simp [isOp2, this]
      rw [hr] at ih
      simp [hng, ih]
  | (.sym2 c d, l) :: r, a, hok, hraw, hglue, hnel => by
    have hop : isOp2 c d = true := hok (.sym2 c d, l) (by simp)
    have hc : isCmpCh c = true := by
      simp only [isOp2, Bool.and_eq_true] at hop; exact hop.1.1
    have hw : isWordCh c = false := by
      simp only [isCmpCh, Bool.or_eq_true, decide_eq_true_eq] at hc
      rcases hc with (h | h) | h <;> subst h <;> decide
    have hb : isBlank c = false := by
      simp only [isCmpCh, Bool.or_eq_true, decide_eq_true_eq] at hc
      rcases hc with (h | h) | h <;> subst h <;> decide
    have hn : c ≠ '\n' := by
      simp only [isCmpCh, Bool.or_eq_true, decide_eq_true_eq] at hc
      rcases hc with (h | h) | h <;> subst h <;> decide
    have hq : c ≠ '\'' := by
      simp only [isCmpCh, Bool.or_eq_true, decide_eq_true_eq] at hc
      rcases hc with (h | h) | h <;> subst h <;> decide
    have hd : c ≠ '"' := by
      simp only [isCmpCh, Bool.or_eq_true, decide_eq_true_eq] at hc
      rcases hc with (h | h) | h <;> subst h <;> decide
    have hok' : ∀ p ∈ r, TokOk p := fun p hp => hok p (by simp [hp])
    have hraw' : RawThenNl r := by
      cases r with
      | nil => trivial
      | cons p r' => exact hraw
    have ih := go_render r false hok' hraw' (noGlue_tail _ r hglue) hnel
    simp only [render, renderTok, List.append_assoc, List.map_cons, List.cons_append, List.nil_append]
    rw [go_blanks, go_code_cons]
    simp only [hw, Bool.false_eq_true, if_false, isRawKw_nil, Bool.false_and, flushW, List.nil_append, hb, hn, hq, hd, hop, if_true]
    rw [ih]
  | (.nl, l) :: r, a, hok, hraw, hglue, hnel => by
    obtain ⟨hcm, hel⟩ := hok (.nl, l) (by simp)
    have hok' : ∀ p ∈ r, TokOk p := fun p hp => hok p (by simp [hp])
    have hraw' : RawThenNl r := by
      cases r with
      | nil => trivial
      | cons p r' => exact hraw
    obtain ⟨ha, hnel'⟩ := hnel
    subst ha
    have ih := go_render r true hok' hraw' (noGlue_tail _ r hglue) hnel'
    simp only [render, renderTok, List.append_assoc, List.map_cons]
    rw [go_blanks]
    cases hc : l.comment with
    | none =>
      simp only [commentText, List.nil_append, List.cons_append]
      rw [go_code_cons]
      have h1 : isWordCh '\n' = false := by decide
      have h2 : isBlank '\n' = false := by decide
      simp only [h1, Bool.false_eq_true, if_false, isRawKw_nil, Bool.false_and, flushW, List.nil_append, h2, if_true,
        decide_true, Bool.and_true]
      rw [go_empty_lines l.emptyLines hel, ih]
      simp
    | some t =>
      have htn := hcm t hc
      simp only [commentText, List.cons_append, List.append_assoc, List.nil_append]
      rw [go_code_cons]
      have h1 : isWordCh '\'' = false := by decide
      have h2 : isBlank '\'' = false := by decide
      have h3 : ('\'' = '\n') = False := by decide
      simp only [h1, Bool.false_eq_true, if_false, isRawKw_nil, Bool.false_and, flushW, List.nil_append, h2, h3, if_true,
        decide_true, Bool.and_true]
      rw [go_comment t htn, go_empty_lines l.emptyLines hel, ih]
      simp
  | (.raw kw text, l) :: r, a, hok, hraw, hglue, hnel => by
    obtain ⟨hkw, hsp, hall, hnt, hhead⟩ := hok (.raw kw text, l) (by simp)
    have hok' : ∀ p ∈ r, TokOk p := fun p hp => hok p (by simp [hp])
    have hkne : kw ≠ [] := by
      intro h; rw [h] at hkw; simp [isRawKw_nil] at hkw
    simp only [render, renderTok, List.append_assoc, List.map_cons]
    rw [go_blanks, go_word l.spelling hall, List.nil_append, hsp]
    -- what follows a DATA / REM line is the end of the text or a bare newline
    cases r with
    | nil =>
      simp only [render, List.append_nil, List.map_nil]
      cases text with
      | nil => simp [go_code_nil, flushW, hkne, wordTok, hkw]
      | cons c tx =>
        have hc : isWordCh c = false := hhead
        have hcn : c ≠ '\n' := fun h => hnt (by simp [noNl, h])
        rw [go_code_cons]
        have hcn' : (c != '\n') = true := by simpa using hcn
        simp only [hc, Bool.false_eq_true, if_false, hkw, hcn', Bool.and_self, if_true]
        have := go_raw tx (fun h => hnt (by simp [noNl] at h ⊢; simp [h])) kw [c] false [] (Or.inl rfl)
        simp only [List.append_nil] at this
        rw [this]
        simp
    | cons p r' =>
      obtain ⟨t2, l2⟩ := p
      obtain ⟨ht2, hb0, hcm0, hraw'⟩ := hraw
      subst ht2
      obtain ⟨hcm2, hel2⟩ := hok' (.nl, l2) (by simp)
      have hok'' : ∀ p ∈ r', TokOk p := fun p hp => hok' p (by simp [hp])
      have hraw'' : RawThenNl r' := by
        cases r' with
        | nil => trivial
        | cons p r'' => exact hraw'
      have hnel' : NoEmptyLine true r' := hnel.2
      have ih := go_render r' true hok'' hraw'' (noGlue_tail _ r' (noGlue_tail _ _ hglue)) hnel'
      have hrn : render ((Tok.nl, l2) :: r') = '\n' :: (emptyLinesText l2.emptyLines ++ render r') := by
        simp [render, renderTok, hb0, hcm0, blanksOf, commentText]
      rw [hrn]
      cases text with
      | nil =>
        simp only [List.nil_append]
        rw [go_code_cons]
        have h1 : isWordCh '\n' = false := by decide
        have h2 : isBlank '\n' = false := by decide
        simp only [h1, Bool.false_eq_true, if_false, hkw, bne_self_eq_false, Bool.and_false, flushW, hkne, h2, if_true]
        simp [hkne, go_empty_lines l2.emptyLines hel2, ih, wordTok, hkw]
      | cons c tx =>
        have hc : isWordCh c = false := hhead
        have hcn : c ≠ '\n' := fun h => hnt (by simp [noNl, h])
        simp only [List.cons_append]
        rw [go_code_cons]
        have hcn' : (c != '\n') = true := by simpa using hcn
        simp only [hc, Bool.false_eq_true, if_false, hkw, hcn', Bool.and_self, if_true]
        rw [go_raw tx (fun h => hnt (by simp [noNl] at h ⊢; simp [h])) kw [c] false _ (Or.inr ⟨_, rfl⟩)]
        simp only [List.cons_append, List.nil_append]
        rw [go_empty_lines l2.emptyLines hel2, ih]
        simp

theorem lex_render (ts : List (Tok × Lay)) (hok : ∀ p ∈ ts, TokOk p) (hraw : RawThenNl ts) (hglue : NoGlue ts)
    (hnel : NoEmptyLine true ts) (_scope : NoSignedExponent ts) : lex (render ts) = ts.map Prod.fst :=
  go_render ts true hok hraw hglue hnel

/-- two writings of the same token stream - different letter case, blanks, tabs, comments, empty lines - have the same
    tokens -/
theorem same_tokens (ts ts' : List (Tok × Lay)) (hsame : ts.map Prod.fst = ts'.map Prod.fst)
    (hok : ∀ p ∈ ts, TokOk p) (hok' : ∀ p ∈ ts', TokOk p) (hraw : RawThenNl ts) (hraw' : RawThenNl ts')
    (hglue : NoGlue ts) (hglue' : NoGlue ts') (hnel : NoEmptyLine true ts) (hnel' : NoEmptyLine true ts')
    (hexp : NoSignedExponent ts) (hexp' : NoSignedExponent ts') :
    lex (render ts) = lex (render ts') := by
  rw [lex_render ts hok hraw hglue hnel hexp, lex_render ts' hok' hraw' hglue' hnel' hexp', hsame]

/-- non-vacuity: `\t\t\tPrInT<> ' c` / blank line: a stream with a non-trivial layout meets every hypothesis -/
def demoStream : List (Tok × Lay) :=
  [(.word "print".toList, ⟨2, true, "PrInT".toList, none, []⟩), (.sym2 '<' '>', ⟨0, false, [], none, []⟩),
   (.nl, ⟨1, false, [], some " c".toList, [(3, none)]⟩)]

example : demoStream.map Prod.fst = [.word "print".toList, .sym2 '<' '>', .nl] := rfl
example : RawThenNl demoStream ∧ NoGlue demoStream ∧ NoEmptyLine true demoStream ∧ NoSignedExponent demoStream := by
  simp [demoStream, RawThenNl, NoGlue, NoEmptyLine, NoSignedExponent]
example : ∀ p ∈ demoStream, TokOk p := by
  intro p hp
  simp only [demoStream, List.mem_cons, List.mem_nil_iff, or_false] at hp
  rcases hp with h | h | h <;> subst h
  · refine ⟨by decide, by decide, by decide, ?_⟩
    decide
  · show isOp2 '<' '>' = true
    decide
  · refine ⟨?_, ?_⟩
    · intro t ht
      cases ht
      unfold noNl
      decide
    · intro p hp t ht
      simp at hp
      subst hp
      cases ht

end Qbee.Lex
