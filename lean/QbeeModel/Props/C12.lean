import QbeeModel.Lemmas.Dbg
/-
  C12  Debugger stepping and breakpoints are transparent and stop correctly.  Property theorems only.
  The machine (`Mach σ`: tick, pc, halted, frame, callSize, stmt) is a parameter: every theorem holds for every program,
  every instruction semantics and every command history.  `fuel` bounds the model's loops only; a result `.fuel`
  stands for a command that is still running (the free run does not terminate either: see `session_transparent`).
-/
namespace Qbee.Dbg

variable {σ : Type}

/-- TRANSPARENCY: whatever commands are issued, the machine is only ever advanced along its own free run -
    instruction by instruction, never skipping or repeating one, never executing on a halted machine.  Device
    interactions and the final outcome are functions of that instruction sequence, so they are those of the free run. -/
theorem exec_reach (M : Mach σ) (fuel : Nat) (d : DS σ) (c : Cmd) : Reach M d.s (exec M fuel d c).s := by
  cases c with
  | step =>
    simp only [exec, step]
    split
    · exact Reach.refl M _
    · exact run_reach M _ _ _ _
  | next => exact nextLoop_reach M _ _ _ _ _
  | stepi =>
    simp only [exec, stepi]
    split
    · exact Reach.refl M _
    · rename_i h
      exact Reach.tick M _ (by simpa using h)
  | nexti =>
    simp only [exec, nextiCmd]
    split
    · exact Reach.refl M _
    · rename_i h
      exact nexti_reach M _ _ _ (by simpa using h)
  | cont =>
    simp only [exec, cont]
    split
    · exact Reach.refl M _
    · exact run_reach M _ _ _ _
  | brk b => cases b <;> exact Reach.refl M _
  | del b => cases b <;> exact Reach.refl M _

theorem session_transparent (M : Mach σ) (fuel : Nat) (cmds : List Cmd) (d : DS σ) :
    Reach M d.s (cmds.foldl (exec M fuel) d).s := by
  induction cmds generalizing d with
  | nil => exact Reach.refl M _
  | cons c cs ih => exact Reach.trans M (exec_reach M fuel d c) (ih _)

/-- start-up runs along the free run to the first statement (or to the end of an empty program) -/
theorem start_transparent (M : Mach σ) (n : Nat) (s : σ) : Reach M s (start M n s) := start_reach M n s

/-- breakpoints are changed by break / delbr only -/
theorem bps_unchanged_by_running (M : Mach σ) (fuel : Nat) (d : DS σ) (c : Cmd)
    (h : c = .step ∨ c = .next ∨ c = .stepi ∨ c = .nexti ∨ c = .cont) : (exec M fuel d c).bps = d.bps := by
  rcases h with h | h | h | h | h <;> subst h <;> rfl

/-- STEP returns in a different source statement (when it returns through its own stop condition) ... -/
theorem step_stops_in_other_statement (M : Mach σ) (bps : List Bp) (fuel : Nat) (s : σ)
    (h : (step M bps fuel s).2 = .temp) :
    ∃ x, M.stmt (M.pc (step M bps fuel s).1) = some x ∧ M.stmt (M.pc s) ≠ some x := by
  unfold step at h ⊢
  by_cases hh : M.halted s = true
  · simp [hh] at h
  · simp only [hh, Bool.false_eq_true, if_false] at h ⊢
    obtain ⟨k, _, _, _, _, htemp, _⟩ := run_spec M bps (differentStmt M s) fuel s
    obtain ⟨_, ht, _, _⟩ := htemp h
    unfold differentStmt at ht
    split at ht
    · rename_i x hx
      exact ⟨x, hx, by simpa using ht⟩
    · simp at ht

/-- ... makes progress, and - with no user breakpoint in the way - passes over no state in which control was in another
    statement: repeated stepping stops in every statement the program executes, in execution order.
    Otherwise the program has finished or a user breakpoint stopped it. -/
theorem step_exact (M : Mach σ) (bps : List Bp) (fuel : Nat) (s : σ) (hs : M.halted s = false) :
    ∃ k, (step M bps fuel s).1 = iter M k s ∧
      (∀ j, 0 < j → j < k → M.halted (iter M j s) = false ∧ differentStmt M s (iter M j s) = false ∧
                            firstHit bps (M.pc (iter M j s)) = none) ∧
      ((step M bps fuel s).2 = .temp → 1 ≤ k) ∧
      ((step M bps fuel s).2 = .finished →
          M.halted (step M bps fuel s).1 = true ∨ M.pc (step M bps fuel s).1 ≥ M.codeLen) := by
  unfold step
  simp only [hs, Bool.false_eq_true, if_false]
  obtain ⟨k, hk, _, hmid, _, htemp, hfin⟩ := run_spec M bps (differentStmt M s) fuel s
  refine ⟨k, hk, ?_, ?_, hfin⟩
  · intro j h0 hj
    obtain ⟨a, b, c⟩ := hmid j h0 hj
    exact ⟨a, c, b⟩
  · intro h; exact (htemp h).1

/-- NEXTI / NEXT over a call: when the call-skipping run ends through its own stop condition, control is at the
    instruction after the call IN THE CALLING FRAME - never inside the called procedure or a nested invocation of it -/
theorem nexti_call_returns_to_calling_frame (M : Mach σ) (bps : List Bp) (fuel : Nat) (s : σ) (sz : Nat)
    (hc : M.callSize s = some sz) (h : (nexti M bps fuel s).2 = .temp) :
    M.frame (nexti M bps fuel s).1 = M.frame s ∧ M.pc (nexti M bps fuel s).1 = M.pc s + sz := by
  unfold nexti at h ⊢
  simp only [hc] at h ⊢
  obtain ⟨k, _, _, _, _, htemp, _⟩ :=
    run_spec M bps (fun t => M.pc t == M.pc s + sz && M.frame t == M.frame s) fuel s
  obtain ⟨_, ht, _, _⟩ := htemp h
  simp only [Bool.and_eq_true, beq_iff_eq] at ht
  exact ⟨ht.2, ht.1⟩

/-- the moves NEXT is made of: a single instruction that is not a call, or a whole call returning to the calling frame -/
inductive NextPath (M : Mach σ) : σ → σ → Prop where
  | refl (s : σ) : NextPath M s s
  | single (s t : σ) (h : M.callSize s = none) (hn : M.halted s = false) (r : NextPath M (M.tick s) t) : NextPath M s t
  | call (s u t : σ) (sz : Nat) (h : M.callSize s = some sz) (hf : M.frame u = M.frame s) (hp : M.pc u = M.pc s + sz)
      (hr : Reach M s u) (r : NextPath M u t) : NextPath M s t

/-- one move of NEXT -/
theorem nexti_move (M : Mach σ) (bps : List Bp) (fuel : Nat) (s s' t : σ) (hh : M.halted s = false)
    (hres : nexti M bps fuel s = (s', .temp)) (tail : NextPath M s' t) : NextPath M s t := by
  cases hcs : M.callSize s with
  | none =>
    have : s' = M.tick s := by
      have := congrArg Prod.fst hres
      simp [nexti, hcs] at this
      exact this.symm
    subst this
    exact NextPath.single s _ hcs hh tail
  | some sz =>
    have h2 : (nexti M bps fuel s).2 = .temp := by rw [hres]
    obtain ⟨hf, hpc⟩ := nexti_call_returns_to_calling_frame M bps fuel s sz hcs h2
    have hr := nexti_reach M bps fuel s hh
    rw [hres] at hf hpc hr
    exact NextPath.call s s' _ sz hcs hf hpc hr tail

/-- NEXT returns in a different source statement, and gets there by whole-call moves only: it never stops inside a
    procedure called by the statement it started in (nor by any statement it passed) -/
theorem nextLoop_path (M : Mach σ) (bps : List Bp) (fuel : Nat) (s0 : σ) (n : Nat) (s : σ)
    (h : (nextLoop M bps fuel s0 n s).2 = .temp) :
    NextPath M s (nextLoop M bps fuel s0 n s).1 ∧ differentStmt M s0 (nextLoop M bps fuel s0 n s).1 = true := by
  induction n generalizing s with
  | zero => simp [nextLoop] at h
  | succ n ih =>
    unfold nextLoop at h ⊢
    by_cases hh : M.halted s = true
    · simp [hh] at h
    · have hh' : M.halted s = false := by simpa using hh
      simp only [hh', Bool.false_eq_true, if_false] at h ⊢
      rcases hres : nexti M bps fuel s with ⟨s', w⟩
      rw [hres] at h
      cases w with
      | user i => simp at h
      | fuel => simp at h
      | finished => simp at h
      | temp =>
        simp only at h ⊢
        by_cases hd : differentStmt M s0 s' = true
        · simp only [hd, if_true] at h ⊢
          exact ⟨nexti_move M bps fuel s s' s' hh' hres (NextPath.refl _), trivial⟩
        · simp only [hd, Bool.false_eq_true, if_false] at h ⊢
          obtain ⟨hp, hdiff⟩ := ih s' h
          exact ⟨nexti_move M bps fuel s s' _ hh' hres hp, hdiff⟩

theorem next_stops_in_other_statement (M : Mach σ) (bps : List Bp) (fuel : Nat) (s : σ)
    (h : (next M bps fuel s).2 = .temp) :
    NextPath M s (next M bps fuel s).1 ∧
    ∃ x, M.stmt (M.pc (next M bps fuel s).1) = some x ∧ M.stmt (M.pc s) ≠ some x := by
  unfold next at h ⊢
  obtain ⟨hp, hd⟩ := nextLoop_path M bps fuel s fuel s h
  refine ⟨hp, ?_⟩
  unfold differentStmt at hd
  split at hd
  · rename_i x hx
    exact ⟨x, hx, by simpa using hd⟩
  · simp at hd

/-- CONTINUE stops at the first state (after at least one instruction) at which a user breakpoint matches:
    each time, and only when, control reaches a breakpoint address -/
theorem continue_exact (M : Mach σ) (bps : List Bp) (fuel : Nat) (s : σ) (hs : M.halted s = false) :
    ∃ k, (cont M bps fuel s).1 = iter M k s ∧
      (∀ j, 0 < j → j < k → M.halted (iter M j s) = false ∧ firstHit bps (M.pc (iter M j s)) = none) ∧
      (∀ i, (cont M bps fuel s).2 = .user i →
          1 ≤ k ∧ firstHit bps (M.pc (cont M bps fuel s).1) = some i) ∧
      (cont M bps fuel s).2 ≠ .temp := by
  unfold cont
  simp only [hs, Bool.false_eq_true, if_false]
  obtain ⟨k, hk, _, hmid, huser, htemp, _⟩ := run_spec M bps (fun _ => false) fuel s
  refine ⟨k, hk, ?_, ?_, ?_⟩
  · intro j h0 hj
    obtain ⟨a, b, _⟩ := hmid j h0 hj
    exact ⟨a, b⟩
  · intro i hi
    obtain ⟨a, b, _⟩ := huser i hi
    exact ⟨a, b⟩
  · intro h
    have := (htemp h).2.1
    simp at this

/-- firstHit reports a breakpoint of the list that matches the address, and none only when no breakpoint matches -/
theorem firstHit_some (bps : List Bp) (pc i : Nat) (h : firstHit bps pc = some i) :
    ∃ b, bps[i]? = some b ∧ b.hit pc = true := by
  unfold firstHit at h
  have hlt := List.findIdx?_eq_some_iff_getElem.mp h
  obtain ⟨hi, hb, _⟩ := hlt
  exact ⟨bps[i], by simp [hi], hb⟩

theorem firstHit_none (bps : List Bp) (pc : Nat) (h : firstHit bps pc = none) : ∀ b ∈ bps, b.hit pc = false := by
  unfold firstHit at h
  intro b hb
  have := List.findIdx?_eq_none_iff.mp h b hb
  simpa using this

/-- break / delbr keep the breakpoint list free of duplicates ... -/
theorem addBp_nodup (bps : List Bp) (b : Bp) (h : bps.Nodup) : (addBp bps b).Nodup := by
  unfold addBp
  split
  · exact h
  · rename_i hb
    exact List.nodup_append.mpr ⟨h, by simp, by
      intro a ha c hc
      simp at hc
      subst hc
      intro hac; subst hac; exact hb ha⟩

theorem delBp_nodup (bps : List Bp) (b : Bp) (h : bps.Nodup) : (delBp bps b).Nodup := h.erase b

theorem session_bps_nodup (M : Mach σ) (fuel : Nat) (cmds : List Cmd) (d : DS σ) (h : d.bps.Nodup) :
    (cmds.foldl (exec M fuel) d).bps.Nodup := by
  induction cmds generalizing d with
  | nil => exact h
  | cons c cs ih =>
    apply ih
    cases c with
    | brk b => cases b <;> simp [exec, h, addBp_nodup]
    | del b => cases b <;> simp [exec, h, delBp_nodup]
    | _ => exact h

/-- ... so a deleted breakpoint is gone: it is not in the list, and no later run reports it -/
theorem deleted_breakpoint_gone (bps : List Bp) (b : Bp) (h : bps.Nodup) : b ∉ delBp bps b := by
  unfold delBp
  exact fun hm => (List.Nodup.mem_erase_iff h).mp hm |>.1 rfl

theorem deleted_breakpoint_never_stops (M : Mach σ) (bps : List Bp) (b : Bp) (fuel : Nat) (s : σ) (i : Nat)
    (hnd : bps.Nodup) (h : (cont M (delBp bps b) fuel s).2 = .user i) :
    ∃ b', (delBp bps b)[i]? = some b' ∧ b' ≠ b ∧ b'.hit (M.pc (cont M (delBp bps b) fuel s).1) = true := by
  by_cases hs : M.halted s = true
  · simp [cont, hs] at h
  · have hs' : M.halted s = false := by simpa using hs
    obtain ⟨k, _, _, huser, _⟩ := continue_exact M (delBp bps b) fuel s hs'
    obtain ⟨_, hf⟩ := huser i h
    obtain ⟨b', hb', hhit⟩ := firstHit_some _ _ _ hf
    refine ⟨b', hb', ?_, hhit⟩
    intro heq
    subst heq
    exact deleted_breakpoint_gone bps b' hnd (List.mem_of_getElem? hb')

/-- `break <line>`: the breakpoint is placed on the first instruction of a statement that is at or after the line and
    has instructions, and no such statement comes earlier in the source -/
theorem resolveLine_spec (recs : List SRec) (line a : Nat) (h : resolveLine recs line = some (.exact a)) :
    ∃ r ∈ recs, r.s = a ∧ r.line ≥ line ∧ r.e > r.s ∧
      ∀ r' ∈ recs, r'.line ≥ line → r'.e > r'.s → r.srcOff ≤ r'.srcOff := by
  unfold resolveLine at h
  simp only [Option.map_eq_some_iff] at h
  obtain ⟨r, hfind, hr⟩ := h
  have hra : r.s = a := by simpa using hr
  let le := fun (x y : SRec) => decide (x.srcOff ≤ y.srcOff)
  have hperm := List.mergeSort_perm recs le
  have hsorted : (recs.mergeSort le).Pairwise (fun x y => le x y = true) :=
    List.pairwise_mergeSort (le := le)
      (by intro x y z hxy hyz; simp only [le, decide_eq_true_eq] at *; omega)
      (by intro x y; simp only [le, Bool.or_eq_true, decide_eq_true_eq]; omega) recs
  have hmem : r ∈ recs.mergeSort le := List.mem_of_find?_eq_some hfind
  have hp := List.find?_some hfind
  simp only [Bool.and_eq_true, decide_eq_true_eq] at hp
  refine ⟨r, hperm.mem_iff.mp hmem, hra, hp.1, hp.2, ?_⟩
  intro r' hr' hl he
  have hr'm : r' ∈ recs.mergeSort le := hperm.mem_iff.mpr hr'
  -- split the sorted list at the found element: everything before it fails the predicate
  obtain ⟨as, bs, heq, hbefore⟩ := List.find?_eq_some_iff_append.mp hfind |>.2
  rw [heq] at hr'm hsorted
  rcases List.mem_append.mp hr'm with hin | hin
  · have := hbefore r' hin
    simp [hl, he] at this
  · rcases List.mem_cons.mp hin with heq' | hin'
    · subst heq'; exact Nat.le_refl _
    · have := (List.pairwise_append.mp hsorted).2.1
      have := (List.pairwise_cons.mp this).1 r' hin'
      simpa [le] using this

/-- non-vacuity: a concrete machine (a counter that halts at 5, statements every two addresses) on which step stops
    in another statement and continue stops at a breakpoint -/
def demo : Mach Nat :=
  { tick := fun s => s + 1, pc := fun s => s, halted := fun s => decide (s ≥ 5), frame := fun _ => 0,
    callSize := fun _ => none, codeLen := 6, stmt := fun a => some (a / 2) }

example : step demo [] 10 0 = (2, .temp) := by decide
example : cont demo [.exact 3] 10 0 = (3, .user 0) := by decide
example : next demo [] 10 0 = (2, .temp) := by decide
example : cont demo (delBp [.exact 3] (.exact 3)) 10 0 = (5, .finished) := by decide

end Qbee.Dbg
