import QbeeModel.Lemmas.Digits
/-
  C16  Numbers survive conversion to text and back.  Property theorems only.

  INTEGER and LONG: proved outright for every Int (hence for all 65 536 INTEGER
  and all 2^32 LONG values).  SINGLE/DOUBLE: the digits come from CPython's
  `repr`/`round` (external contract); what is proved is the string surgery of
  `format_number` on every possible `repr` text.
-/
namespace Qbee.NumFmt

/-- PRINT / STR$ text of an INTEGER or LONG: plain decimal form (Lean's own `toString` for `Int`
    is the reference for "plain decimal"), with a leading blank for non-negative values and the
    minus sign otherwise. -/
theorem fmtInt_shape (i : Int) :
    fmtInt i = (if 0 ≤ i then [' '] else []) ++ (toString i).toList := by
  cases i with
  | ofNat n =>
    show fmtInt (n : Int) = _
    have : (toString (n : Int)).toList = Nat.toDigits 10 n := by
      show (Int.repr (Int.ofNat n)).toList = _
      simp [Int.repr, Nat.repr_eq_ofList_toDigits]
    have h0 : (0 : Int) ≤ Int.ofNat n := Int.natCast_nonneg n
    have this' : (toString (Int.ofNat n)).toList = Nat.toDigits 10 n := this
    simp only [fmtInt, intText, natText, Int.natCast_nonneg, if_true, this', h0]
    rfl
  | negSucc n =>
    have : ¬ (0 ≤ Int.negSucc n) := by omega
    simp only [fmtInt, this, if_false, intText, natText, List.nil_append]
    show _ = (toString (Int.negSucc n)).toList
    simp [toString, Int.repr, Nat.repr_eq_ofList_toDigits, String.toList_append, Nat.succ_eq_add_one]

/-- negative numbers start with '-', non-negative ones with a blank; the digits that follow are
    the decimal digits of |i|: a number and its negation show the same digits -/
theorem fmtInt_digits (i : Int) : (fmtInt i).tail = natText i.natAbs := by
  cases i with
  | ofNat n => simp [fmtInt, intText]
  | negSucc n =>
    have : ¬ (0 ≤ Int.negSucc n) := by omega
    simp [fmtInt, this, intText, Int.natAbs]

theorem neg_same_digits (i : Int) : (fmtInt (-i)).tail = (fmtInt i).tail := by
  rw [fmtInt_digits, fmtInt_digits, Int.natAbs_neg]

/-- READ and INPUT (Python `int()` on the item / field text) give the value back -/
theorem pyInt_fmtInt (i : Int) : pyInt (fmtInt i) = .ok i := by
  cases i with
  | ofNat n =>
    have hd : ∀ c ∈ natText n, isPyWs c = false := fun c hc => digit_not_ws (natText_digits hc)
    have hg : (natText n).any isGrayChar = false := by
      simp only [List.any_eq_false]; intro c hc; simp [digit_not_gray (natText_digits hc)]
    have hs : strip (fmtInt (Int.ofNat n)) = natText n := by
      simp only [fmtInt, intText, Int.ofNat_eq_natCast, Int.natCast_nonneg, if_true]
      rw [strip_blank_cons, strip_eq_self hd]
    unfold pyInt
    simp only [hs, hg, Bool.false_eq_true, if_false]
    cases h : natText n with
    | nil => exact absurd h (natText_ne_nil n)
    | cons c r =>
      have hc : c.isDigit = true := natText_digits (by rw [h]; simp)
      have h1 : c ≠ '+' := digit_ne hc '+' (by decide)
      have h2 : c ≠ '-' := digit_ne hc '-' (by decide)
      have ha := allDigits_natText n
      have hv := digitsVal_natText n
      rw [h] at ha hv
      split
      · next heq => simp at heq; exact absurd heq.1 h1
      · next heq => simp at heq; exact absurd heq.1 h2
      · simp [ha, hv]
  | negSucc n =>
    have hneg : ¬ (0 ≤ Int.negSucc n) := by omega
    have hall : ∀ c ∈ ('-' :: natText (n + 1)), isPyWs c = false := by
      intro c hc
      simp at hc
      rcases hc with rfl | hc
      · decide
      · exact digit_not_ws (natText_digits hc)
    have hg : ('-' :: natText (n + 1)).any isGrayChar = false := by
      simp only [List.any_eq_false]; intro c hc
      simp at hc
      rcases hc with rfl | hc
      · decide
      · simp [digit_not_gray (natText_digits hc)]
    have hs : strip (fmtInt (Int.negSucc n)) = '-' :: natText (n + 1) := by
      simp only [fmtInt, hneg, if_false, intText]
      exact strip_eq_self hall
    unfold pyInt
    simp only [hs, hg, Bool.false_eq_true, if_false, allDigits_natText, if_true, digitsVal_natText]
    congr 1

def InLong (i : Int) : Prop := -2147483648 ≤ i ∧ i ≤ 2147483647

/-- VAL gives the value back (`_exec_sdbl` then converts the integer to DOUBLE exactly) -/
theorem valParse_fmtInt (i : Int) (h : InLong i) : valParse (fmtInt i) = .int i := by
  obtain ⟨hlo, hhi⟩ := h
  cases i with
  | ofNat n =>
    obtain ⟨c, r, hnt, hc⟩ := head_natText n
    have hws : isPPWs c = false := digit_not_ppws hc
    have h3 : c ≠ '&' := digit_ne hc '&' (by decide)
    have hsc := scanNumLit_natText n
    have hlow := lower_natText n
    have hnoD : (natText n).contains 'd' = false := by
      simpa using not_mem_natText n 'd' (by decide)
    have hnoE : (natText n).contains 'e' = false := by
      simpa using not_mem_natText n 'e' (by decide)
    have hnoDot : (natText n).contains '.' = false := by
      simpa using not_mem_natText n '.' (by decide)
    have hv : signedVal (natText n) = n := by
      rw [hnt, signedVal_digit r hc, ← hnt, digitsVal_natText]
    have hdw : List.dropWhile isPPWs (' ' :: natText n) = natText n := by
      rw [hnt]; simp [List.dropWhile, isPPWs, hws]
      simp [isPPWs] at hws; simp [hws]
    simp only [valParse, fmtInt, intText, Int.ofNat_eq_natCast, Int.natCast_nonneg, if_true, hdw]
    split
    · next heq => rw [hnt] at heq; simp at heq; exact absurd heq.1 h3
    · simp only [hsc, hlow, hnoD, hnoE, hnoDot, hv]
      simp at hhi
      simp; omega
  | negSucc n =>
    have hneg : ¬ (0 ≤ Int.negSucc n) := by omega
    have hsc := scanNumLit_neg_natText (n + 1)
    have hlow := lower_natText (n + 1)
    have hnoD : (natText (n + 1)).contains 'd' = false := by
      simpa using not_mem_natText (n + 1) 'd' (by decide)
    have hnoE : (natText (n + 1)).contains 'e' = false := by
      simpa using not_mem_natText (n + 1) 'e' (by decide)
    have hnoDot : (natText (n + 1)).contains '.' = false := by
      simpa using not_mem_natText (n + 1) '.' (by decide)
    have hv : signedVal ('-' :: natText (n + 1)) = -((n + 1 : Nat) : Int) := by
      simp [signedVal, digitsVal_natText]
    simp only [valParse, fmtInt, hneg, if_false, intText]
    have hdw : List.dropWhile isPPWs ('-' :: natText (n + 1)) = '-' :: natText (n + 1) := by
      simp [List.dropWhile, isPPWs]
    rw [hdw]
    have hlo' : (n : Int) + 1 ≤ 2147483648 := by
      have : Int.negSucc n = -((n : Int) + 1) := by omega
      omega
    have hm1 : 'd' ∉ natText (n + 1) := not_mem_natText (n + 1) 'd' (by decide)
    have hm2 : 'e' ∉ natText (n + 1) := not_mem_natText (n + 1) 'e' (by decide)
    have hm3 : '.' ∉ natText (n + 1) := not_mem_natText (n + 1) '.' (by decide)
    have hneq : Int.negSucc n = -((n : Int) + 1) := by omega
    simp [hsc, lower, hlow, hv, hm1, hm2, hm3]
    rw [if_neg (by omega), hneq]

/-! ### SINGLE / DOUBLE: the surgery of `format_number`, for every `repr` text -/

theorem replaceE_no_e (c : Char) (hc : c ≠ 'e') (s : Str) : 'e' ∉ replaceE c s := by
  simp only [replaceE, List.mem_map, not_exists, not_and]
  intro x _ h
  by_cases hx : x = 'e'
  · simp [hx] at h; exact hc h
  · simp [hx] at h

/-- the text never contains a lower-case `e`: exponent form uses `D` (DOUBLE) or `E` (SINGLE) -/
theorem fmtFloat_exponent_letter (isD : Bool) (r : Str) (nn : Bool) :
    'e' ∉ fmtFloat isD r nn := by
  unfold fmtFloat
  have key : 'e' ∉ (if (stripDotZero r).contains 'e' then
      replaceE (if isD then 'D' else 'E') (stripDotZero r) else stripDotZero r) := by
    split
    · apply replaceE_no_e; cases isD <;> decide
    · next h => simpa using h
  cases nn
  · simpa using key
  · simp only [if_true, List.mem_cons, not_or]
    exact ⟨by decide, key⟩

/-- plain form: a repr text without exponent that does not end in ".0" is shown unchanged after
    the sign position -/
theorem fmtFloat_plain (isD : Bool) (r : Str) (h1 : 'e' ∉ r) (h2 : endsWithDotZero r = false) :
    fmtFloat isD r true = ' ' :: r ∧ fmtFloat isD r false = r := by
  have hs : stripDotZero r = r := by simp [stripDotZero, h2]
  simp [fmtFloat, hs]
  intro h; exact absurd h h1

/-- integral values: repr ends in ".0", which is dropped -/
theorem fmtFloat_strips_dot_zero (isD : Bool) (ip : Str) (h1 : 'e' ∉ ip) :
    fmtFloat isD (ip ++ ['.', '0']) true = ' ' :: ip := by
  have he : endsWithDotZero (ip ++ ['.', '0']) = true := by
    simp [endsWithDotZero]
  have hs : stripDotZero (ip ++ ['.', '0']) = ip := by
    simp [stripDotZero, he]
  simp [fmtFloat, hs]
  intro h; exact absurd h h1

theorem endsWithDotZero_neg (r : Str) : endsWithDotZero ('-' :: r) = endsWithDotZero r := by
  unfold endsWithDotZero
  rcases h : r.reverse with _ | ⟨a, _ | ⟨b, t⟩⟩
  · simp [h]
  · simp [h]
  · simp [h]

/-- CPython's `repr(-x)` is `'-' ++ repr(x)`; the surgery keeps that: a number and its negation
    show the same characters after the sign position -/
theorem fmtFloat_neg_same_digits (isD : Bool) (r : Str) :
    fmtFloat isD ('-' :: r) false = '-' :: (fmtFloat isD r true).tail := by
  have hs : stripDotZero ('-' :: r) = '-' :: stripDotZero r := by
    unfold stripDotZero
    rw [endsWithDotZero_neg]
    split
    · next h =>
      have : 2 ≤ r.length := by
        unfold endsWithDotZero at h
        rcases hr : r.reverse with _ | ⟨a, _ | ⟨b, t⟩⟩
        · simp [hr] at h
        · simp [hr] at h
        · have := congrArg List.length hr; simp at this; omega
      have : r.length + 1 - 2 = (r.length - 2) + 1 := by omega
      simp [this]
    · rfl
  have hc : ('-' :: stripDotZero r).contains 'e' = (stripDotZero r).contains 'e' := by
    simp
  simp only [fmtFloat, hs, hc]
  by_cases he : 'e' ∈ stripDotZero r
  · simp [he, replaceE]
  · simp [he]

example : fmtFloat true "1e+16".toList true = " 1D+16".toList := by decide
example : fmtFloat false "2.5".toList true = " 2.5".toList := by decide
example : fmtFloat true "-3.0".toList false = "-3".toList := by decide


-- non-vacuity
example : fmtInt (-32768) = "-32768".toList := by decide
example : valParse (fmtInt 2147483647) = .int 2147483647 := by decide
example : InLong (-2147483648) := by unfold InLong; omega

end Qbee.NumFmt
