import QbeeModel.Model.Effects
/-
  C20  Compilation and execution are deterministic.  Property theorems only.

  `current_tree_deterministic` is re-decided on every run over the effect summary regenerated from /repo's source:
  a new write to process-wide state inside a function, a new order-sensitive use of a set, or a new read of the
  process environment on the compile / run path makes it false.  `summary_sound` says what that buys: a computation all
  of whose non-read actions would have been reported produces the same output after any history of other computations,
  under any hash seed / clock / working directory (the oracles), in any process.
  The extraction itself (syntactic, no alias analysis, no call graph) and the allow list are in the trusted base.
-/
namespace Qbee.Effects
open Qbee.Gen

theorem quiet_of_covers {V : Type} (s : List Eff) (hd : Deterministic s = true) :
    ∀ (c : Comp V), Covers s c → Quiet c := by
  have hall : ∀ e ∈ s, e.allowed = true := by
    simpa [Deterministic, List.all_eq_true] using hd
  have none : ∀ (c : Comp V) kd, Covers s c → ¬ Occurs kd c := by
    intro c kd hc ho
    obtain ⟨e, he, _, hf⟩ := hc kd ho
    rw [hall e he] at hf
    cases hf
  intro c
  induction c with
  | ret out => intro _; exact Quiet.ret out
  | readShared l k ih =>
    intro hc
    refine Quiet.readShared l k (fun v => ih v ?_)
    intro kd ho
    exact hc kd (Occurs.inRead kd l k v ho)
  | writeShared l v k _ => intro hc; exact absurd (Occurs.writeHere l v k) (none _ _ hc)
  | ambient k _ => intro hc; exact absurd (Occurs.ambientHere k) (none _ _ hc)
  | setOrder k _ => intro hc; exact absurd (Occurs.orderHere k) (none _ _ hc)

/-- a quiet computation leaves the shared store alone and its output depends on the shared store only -/
theorem quiet_run {V : Type} (c : Comp V) (hq : Quiet c) (e e' : Env V) (hs : ∀ l, e.shared l = e'.shared l) :
    (run c e).1 = (run c e').1 ∧ (∀ l, (run c e).2.shared l = e.shared l) := by
  induction hq generalizing e e' with
  | ret out => exact ⟨rfl, fun _ => rfl⟩
  | readShared l k _ ih =>
    simp only [run]
    rw [hs l]
    obtain ⟨h1, h2⟩ := ih (e'.shared l) e e' hs
    exact ⟨h1, h2⟩

/-- running any history of quiet computations does not change the shared store -/
def runAll {V : Type} : List (Comp V) → Env V → Env V
  | [], e => e
  | c :: cs, e => runAll cs (run c e).2

theorem history_keeps_shared {V : Type} (cs : List (Comp V)) (hq : ∀ c ∈ cs, Quiet c) (e : Env V) :
    ∀ l, (runAll cs e).shared l = e.shared l := by
  induction cs generalizing e with
  | nil => intro l; rfl
  | cons c cs ih =>
    intro l
    simp only [runAll]
    rw [ih (fun c' hc' => hq c' (List.mem_cons_of_mem _ hc')) (run c e).2 l]
    exact (quiet_run c (hq c (List.mem_cons_self ..)) e e (fun _ => rfl)).2 l

/-- SOUNDNESS OF THE SUMMARY: if every effect extracted from the source is on the allow list, then a computation covered
    by the summary gives the same output in a fresh process and after any history of covered computations, whatever the
    hash seed, clock, random numbers and set orders of the two processes are - provided the two processes start from the
    same import-time state -/
theorem summary_sound {V : Type} (s : List Eff) (hd : Deterministic s = true)
    (c : Comp V) (hc : Covers s c) (history history' : List (Comp V))
    (hh : ∀ c' ∈ history, Covers s c') (hh' : ∀ c' ∈ history', Covers s c')
    (e e' : Env V) (hs : ∀ l, e.shared l = e'.shared l) :
    (run c (runAll history e)).1 = (run c (runAll history' e')).1 := by
  have hq := quiet_of_covers s hd c hc
  have h1 := history_keeps_shared history (fun c' h => quiet_of_covers s hd c' (hh c' h)) e
  have h2 := history_keeps_shared history' (fun c' h => quiet_of_covers s hd c' (hh' c' h)) e'
  exact (quiet_run c hq _ _ (fun l => by rw [h1 l, h2 l, hs l])).1

/-- the obligation on the CURRENT tree: every write to process-wide state, every order-sensitive use of a set and every
    read of the process environment found in the anchored files is on the allow list -/
theorem current_tree_deterministic : Deterministic effectSummary = true := by decide

/-- non-vacuity: a computation that reads shared state is covered by the current summary and is quiet;
    one that consults the clock is not covered -/
example : Covers (V := Nat) effectSummary (.readShared 0 fun v => .ret [v]) := by
  intro kd ho
  cases ho with
  | inRead _ _ _ v h => cases h
example : ¬ Covers (V := Nat) effectSummary (.ambient fun v => .ret [v]) := by
  intro h
  obtain ⟨e, he, _, hf⟩ := h .ambient (Occurs.ambientHere _)
  have : ∀ e ∈ effectSummary, e.allowed = true := by
    have := current_tree_deterministic
    simpa [Deterministic, List.all_eq_true] using this
  rw [this e he] at hf
  cases hf

end Qbee.Effects
