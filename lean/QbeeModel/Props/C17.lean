import QbeeModel.Model.Print
/-
  C17  PRINT lays out items, print zones and line ends as QBASIC prescribes.
  Property theorems only.  All statements quantify over every item sequence.
-/
namespace Qbee.Print

/-- the decoding loop of `_exec_print` inverts what `gen_print_stmt` pushes -/
theorem args_roundtrip (items : List Item) : decodeArgs (encodeItems items) = some items := by
  induction items with
  | nil => rfl
  | cons it r ih => cases it <;> simp [encodeItems, decodeArgs, ih]

/-- the count pushed last equals the number of cells pushed before it -/
theorem nargs_eq_length (items : List Item) : (encodeItems items).length = nargs items := by
  induction items with
  | nil => rfl
  | cons it r ih => cases it <;> simp [encodeItems, nargs, ih] <;> omega

theorem body_append (pre : List Item) (it : Item) : body (pre ++ [it]) = emit (body pre) it := by
  simp [body, List.foldl_append]

/-- each numeric item is its number text followed by one blank -/
theorem layout_num (pre : List Item) (t : Str) : body (pre ++ [.num t]) = body pre ++ t ++ [' '] := by
  rw [body_append]; rfl

/-- each string item is written verbatim -/
theorem layout_str (pre : List Item) (s : Str) : body (pre ++ [.str s]) = body pre ++ s := by
  rw [body_append]; rfl

/-- a semicolon adds nothing -/
theorem layout_semi (pre : List Item) : body (pre ++ [.semi]) = body pre := by
  rw [body_append]; rfl

/-- a comma pads with 1..14 blanks to the next multiple of 14 columns -/
theorem layout_comma (pre : List Item) :
    ∃ k, body (pre ++ [.comma]) = body pre ++ blanks k ∧ 1 ≤ k ∧ k ≤ 14 ∧
         ((body pre).length + k) % 14 = 0 := by
  refine ⟨14 - (body pre).length % 14, ?_, ?_, ?_, ?_⟩
  · rw [body_append]; rfl
  · have := Nat.mod_lt (body pre).length (by decide : 14 > 0); omega
  · omega
  · have := Nat.mod_lt (body pre).length (by decide : 14 > 0)
    omega

/-- the column after a comma is the *next* zone boundary: strictly beyond the
    current column and at most one zone away -/
theorem layout_comma_next_zone (pre : List Item) :
    (body pre).length < (body (pre ++ [.comma])).length ∧
    (body (pre ++ [.comma])).length ≤ (body pre).length + 14 ∧
    (body (pre ++ [.comma])).length % 14 = 0 := by
  obtain ⟨k, h, h1, h2, h3⟩ := layout_comma pre
  rw [h]; simp [blanks]; omega

/-- PRINT alone writes just a line break -/
theorem layout_empty : layout [] = crlf := rfl

/-- the output ends with a line break unless the statement ends in a separator -/
theorem layout_newline (pre : List Item) (last : Item) :
    layout (pre ++ [last]) =
      body (pre ++ [last]) ++ (if last.isSep then [] else crlf) := by
  simp [layout, wantsNewline]
  cases h : last.isSep <;> simp

theorem layout_trailing_sep (pre : List Item) :
    layout (pre ++ [.semi]) = body pre ∧
    ∃ k, layout (pre ++ [.comma]) = body pre ++ blanks k ∧ 1 ≤ k ∧ k ≤ 14 := by
  constructor
  · rw [layout_newline, layout_semi]; simp [Item.isSep]
  · obtain ⟨k, h, h1, h2, _⟩ := layout_comma pre
    exact ⟨k, by rw [layout_newline, h]; simp [Item.isSep], h1, h2⟩

/-- what reaches the terminal is a function of the decoded items only: two
    statements whose pushed cells decode to the same items print the same text -/
theorem layout_fn_of_items (a b : List Arg) (items : List Item)
    (ha : decodeArgs a = some items) (hb : decodeArgs b = some items) :
    (decodeArgs a).map layout = (decodeArgs b).map layout := by
  rw [ha, hb]

/-- end-to-end: pushing the items and decoding them prints `layout items` -/
theorem print_end_to_end (items : List Item) :
    (decodeArgs (encodeItems items)).map layout = some (layout items) := by
  rw [args_roundtrip]; rfl

-- non-vacuity: concrete sequences exercise the statements above
example : layout [.num " 1".toList, .comma, .str "ab".toList] =
    " 1 ".toList ++ blanks 11 ++ "ab\r\n".toList := by decide
example : (layout [.str "0123456789abcd".toList, .comma]).length = 28 := by decide

end Qbee.Print
