import QbeeModel.Lemmas.ExprC
import QbeeModel.Lemmas.StmtDepth
/-
  C03  Accepted programs are type- and stack-safe on the virtual machine.  Property theorems only.
-/
namespace Qbee.ExprC
open Qbee.Gen

/-- OBLIGATION over the generated tables (re-checked whenever BinaryOp.type, Pass2's operator check, gen_binary_op or a
    machine instruction's type rule changes): every accepted operator/type pair is compiled to code that brings both
    operands to one type the instruction accepts and leaves the static result type -/
theorem allBinOk_true : allBinOk = true := allBinOk_lem
theorem allUnOk_true : allUnOk = true := allUnOk_lem

/-- the code generated for a well-typed expression (every operator application accepted by the
    static check), run on ANY stack, leaves that stack with exactly one more entry, whose type is the
    expression's static type: no operand-type confusion, no underflow, no leftover -/
theorem compileE_stack_typed : ∀ (e : E) (t : Ty), ty e = some t →
    ∃ code, compileE e = some code ∧ ∀ st, absRun code st = some (t :: st)
  | .atom t0, t, h => by
    simp [ty] at h; subst h
    exact ⟨[tyMark t0], rfl, fun st => by simp [absRun, absStep_mark]⟩
  | .bin op a b, t, h => by
    simp only [ty] at h
    cases hta : ty a with
    | none => simp [hta] at h
    | some l =>
      cases htb : ty b with
      | none => simp [hta, htb] at h
      | some r =>
        simp only [hta, htb] at h
        cases hrow : binRow op l r with
        | none => simp [hrow] at h
        | some row =>
          obtain ⟨op', l', r', acc, res, code⟩ := row
          simp only [hrow] at h
          cases acc with
          | false => simp at h
          | true =>
            simp at h
            obtain ⟨_, _, hok⟩ := binRow_ok op l r op' l' r' res code hrow
            obtain ⟨ca, hca, hra⟩ := compileE_stack_typed a l hta
            obtain ⟨cb, hcb, hrb⟩ := compileE_stack_typed b r htb
            unfold binOkRow at hok
            rw [h] at hok
            cases hsp : splitBin code with
            | none => simp [hsp] at hok
            | some p =>
              obtain ⟨cl, cr⟩ := p
              simp only [hsp] at hok
              cases hcl : absRun cl [l] with
              | none => simp [hcl] at hok
              | some s1 =>
                simp only [hcl] at hok
                match s1, hok with
                | [l''], hok =>
                  have hcr : absRun cr [r, l''] = some [t] := of_decide_eq_true hok
                  refine ⟨ca ++ cl ++ cb ++ cr, ?_, ?_⟩
                  · simp [compileE, hta, htb, hca, hcb, hrow, hsp]
                  · intro st
                    have f1 := absRun_frame cl [l] [l''] st hcl
                    have f2 := absRun_frame cr [r, l''] [t] st hcr
                    simp only [List.cons_append, List.nil_append] at f1 f2
                    simp [absRun_append, hra, f1, hrb, f2]
  | .un op a, t, h => by
    simp only [ty] at h
    cases hta : ty a with
    | none => simp [hta] at h
    | some ta =>
      simp only [hta] at h
      cases hrow : unRow op ta with
      | none => simp [hrow] at h
      | some row =>
        obtain ⟨op', a', acc, res, code⟩ := row
        simp only [hrow] at h
        cases acc with
        | false => simp at h
        | true =>
          simp at h
          obtain ⟨_, hok⟩ := unRow_ok op ta op' a' res code hrow
          obtain ⟨ca, hca, hra⟩ := compileE_stack_typed a ta hta
          unfold unOkRow at hok
          rw [h] at hok
          cases hsp : splitUn code with
          | none => simp [hsp] at hok
          | some c =>
            simp only [hsp] at hok
            have hc : absRun c [ta] = some [t] := of_decide_eq_true hok
            refine ⟨ca ++ c, ?_, ?_⟩
            · simp [compileE, hta, hca, hrow, hsp]
            · intro st
              have f := absRun_frame c [ta] [t] st hc
              simp only [List.cons_append, List.nil_append] at f
              simp [absRun_append, hra, f]

-- non-vacuity: (INTEGER + DOUBLE) < SINGLE is well typed, its code is the generator's, result INTEGER
example : ty (.bin 10 (.bin 1 (.atom .i) (.atom .d)) (.atom .s)) = some .i := by decide
example : compileE (.bin 1 (.atom .i) (.atom .d)) = some [2000, 8, 2003, 2] := by decide



end Qbee.ExprC

namespace Qbee.StmtDepth

/-- "at every statement boundary the operand stack is back at the depth it had when the routine was entered plus one entry
    per active GOSUB": the depth the machine's bookkeeping (Model/StmtDepth.lean) cuts the stack back to when an error is
    handled is that depth, for a frame whose GOSUB return addresses lie directly on the routine's own -/
theorem statement_boundary_depth (f : Frame) (n : Nat) (h : f.marks = consec f.base n) : stmtDepth f = f.base + 1 + n :=
  stmtDepth_consec f n h

/-- the error-handling path keeps that depth: a handled error never leaves more on the stack than a statement boundary has -/
theorem handled_error_reaches_boundary_depth (s : St) (f : Frame) (rest : List Frame) (hf : s.frames = f :: rest) :
    (step s .handledNext).depth ≤ stmtDepth f := by
  simp only [step, hf]
  exact Nat.min_le_right _ _

example : stmtDepth { base := 3, marks := consec 3 2 } = 6 := by decide

end Qbee.StmtDepth
