import QbeeModel.Gen.InstrTable
import QbeeModel.Gen.Codes
import QbeeModel.Model.Util
import QbeeModel.Model.Print
import QbeeModel.Model.NumFmt
import QbeeModel.Props.C16
import QbeeModel.Props.C17
