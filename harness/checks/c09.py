"""C09  binary module, loader, disassembler and listing agree.

Theorems: Props/C09.lean (encode/decode round trips over the *generated* instruction table, module sections,
disassembler sizes, cp437).  Correspondence: the REAL module bytes of generated programs are parsed by the Lean model
and compared with four Python views (QModule.parse, get_instruction_at walk, disassemble(), str(code)); the structural
claims (targets are instruction starts, variable operands inside the frame, frame declaration = storage) are evaluated
on every real module.
"""
import re
import struct

from .. import core, real, progs
from qvm.instrs import op_code_to_instr, op_to_instr
from qbee.utils import Empty

LEAN_MODULE = 'QbeeModel.Props.C09'
REQUIRED = ['decode_encode', 'decodeAll_encodeAll', 'lit_roundtrip_failed_before_repair', 'table_opcodes_distinct',
            'table_mnemonics_distinct', 'table_opcodes_are_bytes', 'table_sizes', 'disasm_agrees', 'cp437_injective',
            'cp437_total', 'literals_roundtrip', 'data_roundtrip']


def operand_txt(cls_name, v):
    if cls_name in ('UInt8', 'Int16', 'UInt16', 'Int32'):
        return str(v)
    if cls_name == 'Label':
        return '@' + str(v)
    if cls_name == 'Float32':
        return 'f' + str(struct.unpack('>I', struct.pack('>f', v))[0])
    if cls_name == 'Float64':
        return 'd' + str(struct.unpack('>Q', struct.pack('>d', v))[0])
    raise ValueError(cls_name)


def views(src, o, g):
    """-> dict with the canonical dump built from the Python views of the real module, + structural findings"""
    st = real.try_compile(src, o, g, want_listing=True)
    if st[0] != 'ok':
        return {'status': st[0]}
    code, b = st[1], st[2]
    out = {'status': 'ok', 'hex': b.hex(), 'problems': []}
    mod = real.QModule.parse(b)
    lits = 'L ' + ' '.join([str(len(mod.literals))] + [l.encode('cp437').hex() for l in mod.literals])
    data = 'D ' + ' '.join([str(len(mod.data))] + [
        ' '.join([str(len(p))] + ['E' if it == Empty.value else 'S' + it.encode('cp437').hex() for it in p]) for p in mod.data])
    glob = f'G {mod.n_global_cells}'
    # view 2: the machine's decoder walking the code
    m = real.QvmMachine(mod, impl=real.RecImpl())
    cpu = m.cpu
    pc = 0
    instrs, starts = [], []
    raw = []
    while pc < len(mod.code):
        op_code = mod.code[pc]
        ins = op_code_to_instr.get(op_code)
        if ins is None:
            out['problems'].append(('undefined-opcode', pc, op_code))
            break
        ops = []
        idx = pc + 1
        vals = []
        for oc in ins.operands:
            bv = mod.code[idx:idx + oc.size]
            if oc.__name__ == 'StringLiteral':
                ops.append('$' + str(struct.unpack('>H', bv)[0]))
                vals.append(struct.unpack('>H', bv)[0])
            else:
                v = oc(mod.literals, mod.data, {}).decode(bv)
                ops.append(operand_txt(oc.__name__, v))
                vals.append(v)
            idx += oc.size
        _, operands, size = cpu.get_instruction_at(pc)
        if size != idx - pc:
            out['problems'].append(('decoder-size', pc))
        starts.append(pc)
        instrs.append(ins.op + (':' + ','.join(ops) if ops else ''))
        raw.append((pc, ins.op, vals))
        pc = idx
    code_txt = 'C ' + ' '.join([str(len(instrs))] + instrs) + ' | ' + ' '.join(map(str, starts)) + ' | same'
    out['dump'] = f'{lits} ; {data} ; {glob} ; {code_txt} ; ids ' + ' '.join(str(k) for k in real.split_sections(b))
    # what the compiler emitted
    if mod.literals != code._string_literals:
        out['problems'].append(('literals-differ-from-emitted',))
    if [list(p) for p in mod.data] != [list(p) for p in code._data.values()]:
        out['problems'].append(('data-differs-from-emitted',))
    # view 3: the disassembler
    dis = mod.disassemble().strip().split('\n') if mod.code else []
    dis_rows = []
    for line in dis:
        mm = re.match(r'^([0-9a-f]{8}): (\S+)\s*([^;]*?)\s*(?:;.*)?$', line)
        if not mm:
            out['problems'].append(('disasm-line', line))
            continue
        args = [a.strip() for a in mm.group(3).split(',')] if mm.group(3).strip() else []
        dis_rows.append((int(mm.group(1), 16), mm.group(2), args))
    if [(a, n) for a, n, _ in dis_rows] != [(a, n) for a, n, _ in raw]:
        out['problems'].append(('disasm-boundaries-or-mnemonics-differ',))
    else:
        for (a, n, dargs), (_, _, vals) in zip(dis_rows, raw):
            exp = []
            for v in vals:
                exp.append(str(v))
            if n in ('call', 'jmp', 'jz', 'errhand'):
                exp = [f'0x{vals[0]:x}']
            if n == 'push$':
                exp = [str(vals[0] & 0xffff)]
            if n in ('push!', 'push#'):
                ok = len(dargs) == 1 and float(dargs[0]) == vals[0]
            else:
                ok = dargs == exp
            if not ok:
                out['problems'].append(('disasm-operands-differ', a, n, dargs, exp))
                break
    # view 4: the listing
    listing = str(code).split('.code\n\n', 1)[1].split('\n') if '.code\n\n' in str(code) else []
    lrows = [l.strip() for l in listing if l.startswith('    ') and l.strip()]
    lm = [l.split()[0] for l in lrows]
    if lm != [n for _, n, _ in raw]:
        out['problems'].append(('listing-mnemonics-differ', len(lm), len(raw)))
    else:
        # resolve the listing: a label's address is the address of the next instruction row
        label_addr = {}
        k = 0
        for l in listing:
            if l.startswith('    ') and l.strip():
                k += 1
            elif l.strip().endswith(':'):
                label_addr[l.strip()[:-1]] = raw[k][0] if k < len(raw) else len(mod.code)
        for row, (a, n, vals) in zip(lrows, raw):
            parts = row.split(None, 1)
            if n in ('jmp', 'jz', 'call', 'errhand') and len(parts) == 2:
                tgt = parts[1].strip()
                want = int(tgt) if tgt.lstrip('-').isdigit() else label_addr.get(tgt)
                if want is None or want != vals[0]:
                    out['problems'].append(('listing-label-operand-differs-from-binary', a, row, vals[0], want))
                    break
            elif n.startswith('push') and n[-1] in '%&' and len(parts) == 2 and n[4:] in ('%', '&'):
                if int(parts[1]) != vals[0]:
                    out['problems'].append(('listing-operand-differs-from-binary', a, row, vals[0]))
                    break
    # structural claims
    sset = set(starts)
    frames = []
    for (a, n, vals) in raw:
        if n in ('jmp', 'jz', 'call') and vals[0] not in sset:
            out['problems'].append(('target-not-instruction-start', a, n, vals[0]))
        if n == 'errhand' and vals[0] not in (0, 1) and vals[0] not in sset:
            out['problems'].append(('errhand-target-not-instruction-start', a, vals[0]))
        if n == 'frame':
            frames.append((a, vals))
    # routine frames: each `frame p, v` belongs to the routine whose label precedes it
    cur = None
    fsize = None
    routine_at = {}
    off = 0
    for ins in code._instrs:
        op, *args = ins.final
        if op == '_label':
            nm = args[0]
            if nm.startswith('_sub_') or nm.startswith('_func_'):
                routine_at[nm] = nm.split('_', 2)[2]
    # declared vs needed storage, per frame instruction in order of routines
    routines = list(code._routines.values())
    comp = code.compilation
    main = code._main_routine
    order = [main] + [r for r in routines if r is not main] if main is not None else routines
    for (a, (p, v)), r in zip(frames, order):
        need_p = len(r.params)            # every argument arrives as one cell: a value or a reference (record, array)
        need_v = sum(own_type_size(comp, t) for t in r.local_vars.values())
        if (p, v) != (need_p, need_v):
            out['problems'].append(('frame-declaration-differs-from-storage', r.name, (p, v), (need_p, need_v)))
    # variable operands within frame / globals
    fi = -1
    cur_size = None
    frame_starts = [a for a, _ in frames]
    for (a, n, vals) in raw:
        if n == 'frame':
            cur_size = vals[0] + vals[1]
        base = None
        if n.startswith(('readl', 'storel', 'pushrefl', 'readidxl', 'storeidxl', 'initarrl')):
            idx = vals[0] + (vals[1] if n.startswith(('readidxl', 'storeidxl')) else 0)
            if cur_size is not None and idx >= cur_size:
                out['problems'].append(('local-operand-outside-frame', a, n, idx, cur_size))
        if n.startswith(('readg', 'storeg', 'pushrefg', 'readidxg', 'storeidxg', 'initarrg')):
            idx = vals[0] + (vals[1] if n.startswith(('readidxg', 'storeidxg')) else 0)
            if idx >= mod.n_global_cells:
                out['problems'].append(('global-operand-outside-globals', a, n, idx, mod.n_global_cells))
    out['n_instrs'] = len(raw)
    return out


def own_type_size(comp, ty):
    """cells a value of this type occupies, written from the language's storage rules (independent of qvm/memlayout.py):
    scalar 1; record = sum of its fields; static array = 3 header cells + 2 per dimension + elements; dynamic array 1"""
    if ty.is_array:
        if not ty.is_static_array:
            return 1
        n = 1
        for d in ty.array_dims:
            n *= d.static_ubound - d.static_lbound + 1
        return 3 + 2 * len(ty.array_dims) + n * own_type_size(comp, ty.array_base_type)
    if ty.is_user_defined:
        return sum(own_type_size(comp, ft) for ft in comp.user_types[ty.user_type_name].fields.values())
    return 1


def task(t):
    src, cfgs = t
    return real.big_frame(lambda: [views(src, o, g) for (o, g) in cfgs])


STRESS = [
    'TYPE pt\n  x AS INTEGER\n  y AS LONG\nEND TYPE\nDIM q AS pt\nDIM a(3) AS LONG\nCALL f(a(), q, 3)\nEND\nSUB f(a() AS LONG, q AS pt, m%)\n  PRINT a(1); q.y; m%\nEND SUB\n',
    'PRINT "' + ''.join(chr(c) for c in [0xe9, 0xdf, 0x2591, 0x2500, 0x3b1, 0xb1]) + '"\n',
    'x$ = ""\nPRINT x$; "a"; ""\n',
    'DATA ,,\nDATA "", x ,\nREAD a$, b$\n',
    'a: b: c: GOTO c\n',
    '\n'.join(f'l{i}: x = x + {i}' for i in range(40)) + '\nGOTO l39\n',
    'ON ERROR GOTO h\nPRINT 1\nEND\nh: RESUME NEXT\n',
    'ON ERROR RESUME NEXT\nON ERROR GOTO 0\n',
    'GOTO setup\nPRINT 1\nsetup:\nON ERROR GOTO setup\nGOSUB setup\nPRINT 2\n',
    '10 ON ERROR GOTO 10\nGOTO 10\nON ERROR GOTO 10\nGOTO 10\n',
    'PRINT 1.5!; 2.5#; 70000; -70000; 32767; -32768\n',
    '\n'.join(f'PRINT "s{i}"' for i in range(300)) + '\n',
    'DIM a(3, 2) AS LONG\na(1, 1) = 5\nSUB p(x AS LONG)\nx = 1\nEND SUB\n',
    # STATIC routines: named variables live in the globals, the hidden temporaries of FOR / SELECT CASE in the frame
    'PRINT total%(3)\nCALL classify(2)\nEND\nFUNCTION total% (n%) STATIC\n  FOR i% = 1 TO n%\n    s% = s% + i%\n  NEXT\n  total% = s%\nEND FUNCTION\n'
    'SUB classify (k%) STATIC\n  SELECT CASE k%\n  CASE 1 TO 3\n    PRINT "low"\n  CASE ELSE\n    PRINT "high"\n  END SELECT\n  calls% = calls% + 1\nEND SUB\n',
    'CALL w(2)\nEND\nSUB w (n%) STATIC\n  DIM t(2) AS LONG\n  FOR a% = 1 TO n%\n    FOR b% = a% TO n% STEP 1\n      t(1) = t(1) + b%\n    NEXT\n  NEXT\n  PRINT t(1)\nEND SUB\n',
]


def run(chk):
    rng = chk.rng
    chk.regen_and_build(LEAN_MODULE)
    chk.audit(LEAN_MODULE, REQUIRED)
    nprog = chk.n(50, 800)
    cfgs = real.CONFIGS
    srcs = list(STRESS)
    for _ in range(nprog):
        srcs.append(progs.gen_program(rng, size=rng.choice([2, 4, 6]), depth=rng.choice([1, 2]))[0])
    if chk.thorough():
        srcs += progs.load_repo_programs(core.REPO)
    tasks = [(s, cfgs if (chk.thorough() or i < len(STRESS)) else [cfgs[(i + chk.seed) % 6], cfgs[(i + 3 + chk.seed) % 6]])
             for i, s in enumerate(srcs)]
    res = real.pmap(task, tasks)
    reqs, exp, meta = [], [], []
    nmod = 0
    ninstr = 0
    skipped = 0
    for (src, cf), rs in zip(tasks, res):
        for (o, g), v in zip(cf, rs):
            if v['status'] != 'ok':
                skipped += 1
                continue
            nmod += 1
            ninstr += v['n_instrs']
            reqs.append('module ' + v['hex'])
            exp.append(v['dump'])
            meta.append((src, o, g))
            for pr in v['problems']:
                chk.finding('C09 ' + pr[0], str(pr), {'src': src, 'O': o, 'g': g, 'problem': list(map(str, pr))})
    bad = chk.corr('module-views', reqs, exp, describe=lambda i: {'src': meta[i][0], 'O': meta[i][1], 'g': meta[i][2]})
    for i in bad[:3]:
        chk.finding('C09 model parse of the real bytes differs from the loader/decoder views',
                    'Lean parse of the module image != QModule.parse / get_instruction_at', {'src': meta[i][0], 'O': meta[i][1], 'g': meta[i][2]})
    # the known literal-index finding, through the real operand class (quick) -- program level is thorough-tier
    from qvm.instrs import StringLiteral
    lits = [f's{i}' for i in range(40001)]
    op = StringLiteral(lits, [], {})
    enc = op.encode('s32769')
    back = op.decode(enc)
    if back != 's32769':
        chk.finding('C09 literal index written >H but read >h', f'literal #32769 reads back as {back!r}',
                    {'kind': 'operand', 'index': 32769})
    chk.samples += [{'program': meta[i][0][:300], 'O': meta[i][1], 'g': meta[i][2], 'dump': exp[i][:300]} for i in range(0, min(len(meta), 60), 25)]
    chk.cov['input_distribution'] = {'programs': len(srcs), 'modules': nmod, 'instructions': ninstr, 'not_accepted': skipped}
    return chk.finish(
        level='proof', level_text='',
        trusted_base=['Lean 4.33.0 kernel', 'axioms: ' + ', '.join(sorted({a for v in chk.theorems.values() for a in v})),
                      'translator harness/gen_tables.py (instruction table, disassembler sizes by execution, cp437 table)',
                      'Python struct / cp437 codec; the debug section is an opaque blob',
                      'correspondence harness harness/checks/c09.py'],
        checker_cmd='lake build QbeeModel.Props.C09 && lake env lean .lake/audit/Audit_C09.lean',
        rule='modules of generated programs (all statement kinds, cp437 literals >= 0x80, empty DATA items, many labels/routines) '
             'x compiler configurations; non-trivial = module with >= 10 instructions; distinct by module bytes',
        extra={'evaluations': nmod, 'distinct_nontrivial': len({r for r, e in zip(reqs, exp) if e.count(' ') > 30})})


def replay(data):
    r = data['replay']
    if r.get('kind') == 'operand':
        from qvm.instrs import StringLiteral
        lits = [f's{i}' for i in range(40001)]
        op = StringLiteral(lits, [], {})
        print(op.decode(op.encode('s32769')))
        return 0
    v = views(r['src'], r['O'], r['g'])
    print(v.get('problems'), v.get('dump', '')[:500])
    return 0
