"""C05  static errors are rejected at compile time with a located diagnostic.

Theorems (PARTIAL, Props/C05.lean): block structure - an accepting run has as many openers as terminators of every kind
(an unclosed block or a surplus terminator is never accepted, anywhere), every reported position is the position of a
statement of the program, properly nested statements are consumed wherever they stand; operator typing - an accepted
operator application has accepted operands and an accepted row, an ill-typed operand rejects the whole expression.
Correspondence: random statement sequences (openers, terminators, ELSE / ELSEIF / CASE, fields, plain statements; valid and
invalid) through the real parser vs Model/Blocks.lean: verdict, error class and line.
Oracle (fault injection): a catalogue of rule violations, each injected one at a time at every kind of site (main program,
inside nested blocks, inside a SUB, after other declarations, in a single-line IF) of valid programs; the real compiler at
every level and debug setting must reject with the category of the rule and a position on the line of the injected
construct; the same site with a valid neutral statement must stay accepted.
"""
import re

from .. import core, real, progs

LEAN_MODULE = 'QbeeModel.Props.C05'
REQUIRED = ['run_ok_counts', 'unbalanced_rejected', 'run_error_located', 'diagnostic_is_located', 'nest_consumed', 'nest_accepted',
            'ty_bin_inv', 'ill_typed_operand_rejects']

KINDS = {0: ('IF 1 THEN', 'END IF'), 1: ('SUB s{n}', 'END SUB'), 2: ('FUNCTION f{n}', 'END FUNCTION'), 3: ('TYPE t{n}', 'END TYPE'),
         4: ('DO', 'LOOP'), 5: ('FOR i{n} = 1 TO 2', 'NEXT'), 6: ('SELECT CASE 1', 'END SELECT'), 7: ('WHILE 0', 'WEND')}
MIDS = {0: 'ELSE', 1: 'ELSEIF 0 THEN', 2: 'CASE {n}', 3: 'CASE ELSE'}


def gen_tokens(rng, n):
    """a statement sequence: mostly well nested, then perturbed"""
    toks = []
    stack = []
    for _ in range(n):
        r = rng.random()
        if r < 0.3 and len(stack) < 4:
            k = rng.choice([0, 0, 4, 5, 6, 7, 3, 1, 2])
            if k in (1, 2) and stack:
                k = 5
            toks.append(f'S{k}')
            stack.append(k)
            if k == 6 and rng.random() < 0.8:
                toks.append('M2')
        elif r < 0.55 and stack:
            toks.append(f'E{stack.pop()}')
        elif r < 0.7 and stack and stack[-1] in (0, 6):
            toks.append('M' + str(rng.choice([0, 1]) if stack[-1] == 0 else rng.choice([2, 3])))
        elif stack and stack[-1] == 3:
            toks.append('F')
        else:
            toks.append('P')
    while stack and rng.random() < 0.85:
        toks.append(f'E{stack.pop()}')
    # perturbations
    for _ in range(rng.choice([0, 0, 1, 1, 2])):
        if not toks:
            break
        i = rng.randrange(len(toks))
        k = rng.random()
        if k < 0.35:
            del toks[i]
        elif k < 0.6:
            toks.insert(i, rng.choice(['E0', 'E4', 'E5', 'E6', 'E7', 'E3', 'M0', 'M1', 'M2', 'M3', 'P', 'S5', 'S0', 'S6']))
        elif k < 0.8 and len(toks) > 1:
            j = rng.randrange(len(toks))
            toks[i], toks[j] = toks[j], toks[i]
        else:
            toks[i] = rng.choice(['E0', 'E5', 'E7', 'M0', 'M2', 'P', 'F'])
    return toks


def render(toks):
    lines = []
    for n, t in enumerate(toks):
        if t[0] == 'S':
            lines.append(KINDS[int(t[1:])][0].format(n=n))
        elif t[0] == 'E':
            lines.append(KINDS[int(t[1:])][1])
        elif t[0] == 'M':
            lines.append(MIDS[int(t[1:])].format(n=n))
        elif t == 'F':
            lines.append(f'fld{n} AS INTEGER')
        else:
            lines.append('PRINT 1')
    return '\n'.join(lines)


def real_blocks(src):
    """the real parser on the statement sequence -> 'ok' | 'err <class> <line>'"""
    from qbee.parser import parse_string
    from qbee.exceptions import SyntaxError as QSyntaxError
    try:
        parse_string(src)
        return 'ok'
    except QSyntaxError as e:
        msg = str(getattr(e, 'msg', '') or e)
        line = src.count('\n', 0, e.loc_start) + 1 if e.loc_start is not None else -1
        m = msg.lower()
        if 'not closed' in m:
            cls = 'notclosed'
        elif m.startswith('expected'):
            cls = 'expected'
        elif 'after else' in m:
            cls = 'elseafter'
        elif 'between select case and case' in m:
            cls = 'beforecase'
        elif 'illegal in type' in m:
            cls = 'intype'
        elif 'field declaration outside type' in m:
            cls = 'fieldoutside'
        elif 'without' in m and (m.startswith('else') or m.startswith('case')):
            cls = 'midwithout'
        elif 'without' in m:
            cls = 'without'
        else:
            cls = 'other:' + msg[:40]
        return f'err {cls} {line}'
    except Exception as e:  # noqa: BLE001
        return 'internal ' + type(e).__name__


# ---- fault catalogue: (name, lines to insert, index of the offending line among them, expected category)
# categories: 'syntax' = SyntaxError; otherwise the ErrorCode name of CompileError
DECLS = ['TYPE zrec', '  za AS INTEGER', '  zb AS STRING', '  zc AS LONG', 'END TYPE', 'DIM SHARED zr AS zrec', 'DIM SHARED zarr%(3)', 'DIM SHARED zq%, zs$',
         'zq% = 1: zs$ = "s"', 'DIM SHARED zdyn%(zq%, 1 TO zq% + 1)', 'DIM SHARED zla&(2), zra(2) AS zrec, zl&']
FAULTS = [
    ('assign string to integer', ['zq% = "s"'], 0, 'TYPE_MISMATCH'),
    ('assign number to string', ['zs$ = 5'], 0, 'TYPE_MISMATCH'),
    ('string plus number', ['PRINT "a" + 1'], 0, 'TYPE_MISMATCH'),
    ('logical operator on string', ['PRINT 1 AND zs$'], 0, 'TYPE_MISMATCH'),
    ('comparison string / number', ['PRINT zs$ = 1'], 0, 'TYPE_MISMATCH'),
    ('unary minus on string', ['PRINT -zs$'], 0, 'TYPE_MISMATCH'),
    ('string condition in IF', ['IF zs$ THEN PRINT 1'], 0, 'TYPE_MISMATCH'),
    ('string condition in block IF', ['IF zs$ THEN', 'END IF'], 0, 'TYPE_MISMATCH'),
    ('string condition in WHILE', ['WHILE zs$', 'WEND'], 0, 'TYPE_MISMATCH'),
    ('string condition in DO WHILE', ['DO WHILE zs$', 'LOOP'], 0, 'TYPE_MISMATCH'),
    ('string condition in LOOP UNTIL', ['DO', 'LOOP UNTIL zs$'], 1, 'TYPE_MISMATCH'),
    ('string bound in FOR', ['FOR zi% = 1 TO zs$', 'NEXT'], 0, 'TYPE_MISMATCH'),
    ('constant string condition in IF', ['IF "s" THEN PRINT 1'], 0, 'TYPE_MISMATCH'),
    ('constant string condition in block IF', ['IF "a" + "b" THEN', 'END IF'], 0, 'TYPE_MISMATCH'),
    ('constant string condition in ELSEIF', ['IF zq% THEN', 'ELSEIF "s" THEN', 'END IF'], 1, 'TYPE_MISMATCH'),
    ('constant string condition in DO WHILE', ['DO WHILE "s"', 'LOOP'], 0, 'TYPE_MISMATCH'),
    ('constant string condition in LOOP UNTIL', ['DO', 'LOOP UNTIL "s"'], 1, 'TYPE_MISMATCH'),
    ('constant string bound in FOR', ['FOR zi% = 1 TO "9"', 'NEXT'], 0, 'TYPE_MISMATCH'),
    ('constant string step in FOR', ['FOR zi% = 1 TO 2 STEP "1"', 'NEXT'], 0, 'TYPE_MISMATCH'),
    ('constant string argument of COLOR', ['COLOR "x"'], 0, 'TYPE_MISMATCH'),
    ('constant string argument of LOCATE', ['LOCATE "1", 2'], 0, 'TYPE_MISMATCH'),
    ('string argument to numeric function', ['PRINT ABS(zs$)'], 0, 'TYPE_MISMATCH'),
    ('number argument to string function', ['PRINT LEN(5)'], 0, 'TYPE_MISMATCH'),
    ('string argument to integer parameter', ['CALL zsub(zs$)'], 0, 'TYPE_MISMATCH'),
    ('CASE value of another kind', ['SELECT CASE zq%', 'CASE "a"', 'END SELECT'], 1, 'TYPE_MISMATCH'),
    ('record used as a value', ['PRINT zr + 1'], 0, 'TYPE_MISMATCH'),
    ('undefined label', ['GOTO zznolabel'], 0, 'LABEL_NOT_DEFINED'),
    ('undefined label in GOSUB', ['GOSUB zznolabel'], 0, 'LABEL_NOT_DEFINED'),
    ('undefined label in ON ERROR', ['ON ERROR GOTO zznolabel'], 0, 'LABEL_NOT_DEFINED'),
    ('duplicate label', ['zzdup: PRINT 1', 'zzdup: PRINT 2'], 1, 'DUPLICATE_LABEL'),
    ('duplicate line number', ['64000 PRINT 1', '64000 PRINT 2'], 1, 'DUPLICATE_LABEL'),
    ('duplicate variable definition', ['DIM zdd%', 'DIM zdd%'], 1, 'DUPLICATE_DEFINITION'),
    ('duplicate constant', ['CONST zc1 = 1', 'CONST zc1 = 2'], 1, 'DUPLICATE_DEFINITION'),
    ('assignment to a constant', ['CONST zc2 = 1', 'zc2 = 2'], 1, 'DUPLICATE_DEFINITION'),
    ('too many arguments', ['CALL zsub(1, 2)'], 0, 'ARGUMENT_COUNT_MISMATCH'),
    ('too few arguments', ['CALL zsub'], 0, 'ARGUMENT_COUNT_MISMATCH'),
    ('wrong argument count of a builtin', ['PRINT LEN("a", 1)'], 0, 'ARGUMENT_COUNT_MISMATCH'),
    ('wrong array rank', ['zarr%(1, 2) = 1'], 0, 'WRONG_NUMBER_OF_DIMENSIONS'),
    ('wrong array rank in expression', ['PRINT zarr%(1, 2)'], 0, 'WRONG_NUMBER_OF_DIMENSIONS'),
    ('wrong rank of an array with run-time bounds', ['zdyn%(1) = 1'], 0, 'WRONG_NUMBER_OF_DIMENSIONS'),
    ('wrong rank of an array with run-time bounds in expression', ['PRINT zdyn%(1, 1, 1)'], 0, 'WRONG_NUMBER_OF_DIMENSIONS'),
    ('undefined type', ['DIM zv AS zznotype'], 0, 'TYPE_NOT_DEFINED'),
    ('undefined field', ['zr.zznofield = 1'], 0, 'ELEMENT_NOT_DEFINED'),
    ('undefined field in expression', ['PRINT zr.zznofield'], 0, 'ELEMENT_NOT_DEFINED'),
    ('field of a non-record', ['PRINT zq%.za'], 0, 'INVALID_IDENTIFIER'),
    ('undefined procedure', ['CALL zznoproc'], 0, 'SUBPROGRAM_NOT_FOUND'),
    ('undefined procedure with arguments', ['CALL zznoproc(1)'], 0, 'SUBPROGRAM_NOT_FOUND'),
    ('EXIT FOR outside FOR', ['EXIT FOR'], 0, 'INVALID_EXIT'),
    ('EXIT DO outside DO', ['EXIT DO'], 0, 'INVALID_EXIT'),
    ('misplaced ELSE', ['ELSE'], 0, 'syntax'),
    ('misplaced ELSEIF', ['ELSEIF 1 THEN'], 0, 'syntax'),
    ('misplaced CASE', ['CASE 1'], 0, 'syntax'),
    ('misplaced NEXT', ['NEXT'], 0, 'syntax'),
    ('misplaced WEND', ['WEND'], 0, 'syntax'),
    ('misplaced LOOP', ['LOOP'], 0, 'syntax'),
    ('misplaced END IF', ['END IF'], 0, 'syntax'),
    ('misplaced END SELECT', ['END SELECT'], 0, 'syntax'),
    ('unclosed FOR', ['FOR zi% = 1 TO 2'], 0, 'syntax'),
    ('unclosed WHILE', ['WHILE 0'], 0, 'syntax'),
    ('unclosed block IF', ['IF 1 THEN'], 0, 'syntax'),
    ('unclosed SELECT', ['SELECT CASE 1'], 0, 'syntax'),
    ('illegal numeric literal (too large)', ['PRINT 99999999999'], 0, 'syntax'),
    ('illegal numeric literal (exponent)', ['PRINT 1E400'], 0, 'syntax'),
    ('illegal numeric literal (integer suffix)', ['PRINT 70000%'], 0, 'syntax'),
    ('block terminator in a single-line IF', ['IF zq% THEN WEND'], 0, 'syntax'),
    ('block opener in a single-line IF', ['IF zq% THEN PRINT 1 ELSE DO'], 0, 'syntax'),
    ('CASE in a single-line IF', ['IF zq% THEN CASE 1'], 0, 'syntax'),
    ('field declaration outside TYPE', ['zzf AS INTEGER'], 0, 'syntax'),
    ('mismatched types in a constant expression', ['CONST zc5 = "s" + 1'], 0, 'TYPE_MISMATCH'),
    ('INPUT into a function', ['INPUT zfun%(1)'], 0, 'DUPLICATE_DEFINITION'),
    ('non-constant CONST', ['CONST zc3 = zq%'], 0, 'INVALID_CONSTANT'),
    ('non-constant CONST (function)', ['CONST zc4 = RND'], 0, 'INVALID_CONSTANT'),
    # an lvalue argument is passed by reference: its type must be the parameter's (a variable, an array element, a field,
    # a field of an array element; SUB and FUNCTION)
    ('LONG variable to INTEGER parameter', ['CALL zsub(zl&)'], 0, 'TYPE_MISMATCH'),
    ('LONG array element to INTEGER parameter', ['CALL zsub(zla&(1))'], 0, 'TYPE_MISMATCH'),
    ('LONG field to INTEGER parameter', ['CALL zsub(zr.zc)'], 0, 'TYPE_MISMATCH'),
    ('LONG field of an array element to INTEGER parameter', ['CALL zsub(zra(2).zc)'], 0, 'TYPE_MISMATCH'),
    ('STRING field of an array element to INTEGER parameter', ['CALL zsub(zra(2).zb)'], 0, 'TYPE_MISMATCH'),
    ('LONG array element to INTEGER parameter of a FUNCTION', ['zq% = zfun%(zla&(1))'], 0, 'TYPE_MISMATCH'),
    ('LONG variable to INTEGER parameter of a FUNCTION', ['zq% = zfun%(zl&)'], 0, 'TYPE_MISMATCH'),
    ('DIM of a constant name', ['CONST zc6 = 1', 'DIM zc6'], 1, 'DUPLICATE_DEFINITION'),
    ('wrong argument type of a builtin with several forms', ['PRINT INSTR("abc", 5)'], 0, 'TYPE_MISMATCH'),
    ('block statement after THEN on an ELSEIF line', ['IF zq% THEN', 'ELSEIF zq% THEN NEXT', 'END IF'], 1, 'syntax'),
    ('string constant with an untyped name as a number', ['CONST zc7 = "x"', 'zq% = zc7'], 1, 'TYPE_MISMATCH'),
]
NEUTRAL = ['zdyn%(1, 1) = zq%', 'zq% = zq% + 1', 'PRINT zs$;', 'zarr%(1) = zq%', 'zr.za = 2', 'CALL zsub(zq%)', 'IF zq% THEN zq% = 0',
           # arguments that are expressions are passed by value and converted: accepted
           'CALL zsub(zfun%(1))', 'CALL zsub((zl&))', 'CALL zsub(zl& + 0)', 'CALL zsub(+zq%)', 'CALL zsub(zarr%(1))', 'CALL zsub(zra(1).za)',
           'zq% = zfun%((zla&(1)))', 'zq% = zfun%(zfun%(zq%))']
SUBDEF = ['SUB zsub (p%)', 'END SUB', 'FUNCTION zfun% (p%)', '  zfun% = p%', 'END FUNCTION']
UNCLOSED = {'unclosed FOR', 'unclosed WHILE', 'unclosed block IF', 'unclosed SELECT'}
MISPLACED_TERMINATOR = {'misplaced NEXT', 'misplaced WEND', 'misplaced LOOP', 'misplaced END IF', 'misplaced END SELECT', 'misplaced ELSE',
                        'misplaced ELSEIF', 'misplaced CASE'}


def sites(lines):
    """insertion points (index = insert before that line) with their kind"""
    out = []
    depth = 0
    in_sub = False
    in_select_head = False
    in_type = False
    for i, l in enumerate(lines):
        s = l.strip().upper()
        first = (s.split() or [''])[0]
        if not in_type and not in_select_head and s and not s.startswith(('CASE', 'ELSE', 'END TYPE')) and not first == 'DATA':
            kind = 'sub' if in_sub else ('nested' if depth else 'main')
            out.append((i, kind))
        if first == 'TYPE':
            in_type = True
        if s.startswith('END TYPE'):
            in_type = False
        if s.startswith(('SUB ', 'FUNCTION ')):
            in_sub = True
        if s.startswith(('END SUB', 'END FUNCTION')):
            in_sub = False
        if first in ('FOR', 'WHILE', 'DO') or (first == 'IF' and s.endswith('THEN')) or s.startswith('SELECT CASE'):
            depth += 1
        if first in ('NEXT', 'WEND', 'LOOP') or s.startswith(('END IF', 'END SELECT')):
            depth = max(0, depth - 1)
        in_select_head = s.startswith('SELECT CASE')
    return out


def task(t):
    return real.big_frame(lambda: _task(t))


def line_of(src, loc):
    return src.count('\n', 0, loc) + 1


def _task(t):
    import random
    seed, nfaults = t
    rng = random.Random(seed)
    feats = {'subs', 'funcs', 'for', 'while', 'do', 'select', 'arrays', 'strings', 'ifline', 'gosub', 'goto'} & set(progs.ALL_FEATURES)
    base, inputs = progs.gen_program(rng, size=rng.choice([3, 5, 8]), depth=rng.choice([1, 2, 3]), features=feats)
    blines = base.rstrip('\n').split('\n')
    # declarations first, the helper SUB at the very end
    prog = DECLS + blines + SUBDEF
    if real.try_compile('\n'.join(prog) + '\n', 0, False)[0] != 'ok':
        return {'status': 'base-rejected', 'src': '\n'.join(prog)}
    ss = [(i, k) for i, k in sites(prog) if i >= len(DECLS) and i <= len(prog) - len(SUBDEF)]
    out = {'status': 'ok', 'problems': [], 'n': 0, 'by_kind': {}, 'neutral': 0}
    for _ in range(nfaults):
        name, flines, off, cat = rng.choice(FAULTS)
        i, kind = rng.choice(ss)
        if name in UNCLOSED:
            # an unclosed opener swallows what follows: only at the end of the main program / of a routine body is the
            # expected diagnostic unambiguous -> put it right before the helper SUB (end of main code)
            i, kind = len(prog) - len(SUBDEF), 'main-end'
        if name in MISPLACED_TERMINATOR or name.startswith('EXIT '):
            # inside a block of the same kind a terminator / ELSE / CASE is not misplaced: top level of the main program only
            tops = [(j, k2) for j, k2 in ss if k2 == 'main']
            if not tops:
                continue
            i, kind = rng.choice(tops)
        indent = ''
        ins = [indent + l for l in flines]
        # single-line IF variant for one-line faults in the main program
        variant = 'plain'
        if len(flines) == 1 and cat != 'syntax' and rng.random() < 0.2 and not flines[0].startswith(('CONST', 'DIM', 'zzdup', '64000')):
            ins = ['IF zq% >= 0 THEN ' + flines[0]]
            variant = 'ifline'
        src_lines = prog[:i] + ins + prog[i:]
        src = '\n'.join(src_lines) + '\n'
        want_line = i + off + 1
        o = rng.randrange(3)
        g = rng.random() < 0.5
        st = real.try_compile(src, o, g)
        out['n'] += 1
        out['by_kind'][kind + '/' + variant] = out['by_kind'].get(kind + '/' + variant, 0) + 1
        rep = {'fault': name, 'site': kind, 'variant': variant, 'O': o, 'g': g, 'src': src, 'want_line': want_line, 'want': cat}
        if st[0] == 'ok':
            out['problems'].append(('accepted', name, kind, variant, rep))
            continue
        if st[0] == 'internal':
            out['problems'].append(('internal', name, type(st[1]).__name__, variant, rep))
            continue
        e = st[1]
        got_cat = 'syntax' if st[0] == 'syntax' else e.code.name
        if got_cat != cat:
            out['problems'].append(('category', name, f'{cat}->{got_cat}', variant, rep))
            continue
        ls = e.loc_start
        if ls is None:
            out['problems'].append(('no-position', name, kind, variant, rep))
            continue
        got_line = line_of(src, ls)
        if got_line != want_line:
            out['problems'].append(('line', name, f'{got_line - want_line:+d}', variant, rep))
        # the same site with a valid statement stays accepted
        if rng.random() < 0.3:
            nsrc = '\n'.join(prog[:i] + [rng.choice(NEUTRAL)] + prog[i:]) + '\n'
            out['neutral'] += 1
            if real.try_compile(nsrc, o, g)[0] != 'ok':
                out['problems'].append(('valid-program-rejected', 'neutral statement', kind, 'plain',
                                        {'fault': 'neutral', 'src': nsrc, 'O': o, 'g': g, 'site': kind}))
    return out


def blocks_task(t):
    return real.big_frame(lambda: [(toks, real_blocks(render(toks))) for toks in t])


def run(chk):
    rng = chk.rng
    chk.regen_and_build(LEAN_MODULE)
    chk.audit(LEAN_MODULE, REQUIRED)
    # block correspondence
    seqs = [gen_tokens(rng, rng.choice([2, 4, 6, 10, 16])) for _ in range(chk.n(1500, 30000))]
    seqs += [['S5', 'P', 'E5'], ['S5', 'S7', 'E5', 'E7'], ['P', 'M0'], ['S0', 'M0', 'M1', 'E0'], ['S4', 'S5', 'P'], ['E5'], ['S6', 'P', 'M2', 'E6'],
             ['S3', 'F', 'P', 'E3'], ['S3', 'F', 'S0', 'E0', 'E3'], ['S0', 'M2', 'E0'], ['S6', 'M2', 'M0', 'E6'], []]
    chunks = [seqs[i:i + 200] for i in range(0, len(seqs), 200)]
    res = real.pmap(blocks_task, chunks)
    reqs, exp = [], []
    classes = {}
    for chunk in res:
        for toks, r in chunk:
            reqs.append('blocks ' + ' '.join(toks))
            # the model reports the kind with some classes; compare class and line only
            exp.append(r)
            classes[r.split()[1] if r != 'ok' else 'ok'] = classes.get(r.split()[1] if r != 'ok' else 'ok', 0) + 1
    got = chk.model.ask(reqs) if chk.model else []
    nb = 0
    for q, g_, e_ in zip(reqs, got, exp):
        gp = g_.split()
        g2 = 'ok' if g_ == 'ok' else f'err {gp[1]} {gp[3]}'
        if g2 != e_:
            nb += 1
            if nb <= 3:
                chk.broken.append(('correspondence', 'block-assembly', {'request': q, 'model': g_, 'real': e_}))
                chk.say('block-assembly disagree:', q, '| model', g_, '| real', e_)
    chk.stats['block-assembly'] = {'cases': len(reqs), 'disagree': nb}
    # search for a failing input among the disagreements: the model states the rule (as repaired); a sequence the model rejects
    # and the whole compiler accepts (or crashes on) is a static error that is not rejected with a diagnostic
    nsearch = 0
    for q, g_, e_ in zip(reqs, got, exp):
        if g_ == 'ok' or nsearch >= 40:
            continue
        gp = g_.split()
        if f'err {gp[1]} {gp[3]}' == e_:
            continue
        nsearch += 1
        src = render(q.split()[1:]) + '\n'
        st = real.big_frame(lambda: real.try_compile(src, 0, False))
        cls = {'without': 'block terminator without its opener', 'expected': 'block closed by the wrong terminator',
               'midwithout': 'ELSE / ELSEIF / CASE outside its block', 'notclosed': 'unclosed block', 'elseafter': 'ELSE after ELSE',
               'beforecase': 'statement between SELECT CASE and CASE', 'intype': 'statement illegal in TYPE', 'fieldoutside': 'field declaration outside TYPE'}.get(gp[1], gp[1])
        if st[0] == 'ok':
            chk.finding(f'C05 accepted: {cls} (statement sequence)', f'line {gp[3]} of {q}', {'kind': 'c05', 'src': src, 'O': 0, 'g': False,
                        'want': 'syntax', 'want_line': int(gp[3]), 'fault': cls, 'site': 'sequence'})
        elif st[0] == 'internal':
            chk.finding(f'C05 internal error instead of a diagnostic: {cls} (statement sequence)', f'{type(st[1]).__name__} on {q}',
                        {'kind': 'c05', 'src': src, 'O': 0, 'g': False, 'want': 'syntax', 'want_line': int(gp[3]), 'fault': cls, 'site': 'sequence'})
        elif getattr(st[1], 'loc_start', None) is not None and line_of(src, st[1].loc_start) != int(gp[3]):
            chk.finding(f'C05 diagnostic on another line: {cls} (statement sequence)', f'line {line_of(src, st[1].loc_start)} instead of {gp[3]}: {q}',
                        {'kind': 'c05', 'src': src, 'O': 0, 'g': False, 'want': 'syntax', 'want_line': int(gp[3]), 'fault': cls, 'site': 'sequence'})
    # fault injection
    tasks = [(rng.randrange(1 << 30), 12) for _ in range(chk.n(40, 800))]
    fres = real.pmap(task, tasks)
    ninj = nneutral = 0
    by_kind = {}
    best = {}
    for t, out in zip(tasks, fres):
        if out['status'] != 'ok':
            chk.broken.append(('harness', 'c05-base-rejected', {'src': out.get('src', '')[:300]}))
            continue
        ninj += out['n']
        nneutral += out['neutral']
        for k, v in out['by_kind'].items():
            by_kind[k] = by_kind.get(k, 0) + v
        for kind, name, detail, variant, rep in out['problems']:
            sig = {'accepted': f'C05 accepted: {name}', 'internal': f'C05 internal error instead of a diagnostic: {name} ({detail})',
                   'category': f'C05 wrong category: {name} ({detail})', 'no-position': f'C05 diagnostic without a position: {name}',
                   'line': f'C05 diagnostic on another line: {name} ({detail})',
                   'valid-program-rejected': 'C05 a valid statement is rejected at a site'}[kind]
            if variant == 'ifline' and kind in ('line',):
                sig += ' [single-line IF]'
            if sig not in best or len(rep['src']) < len(best[sig]['src']):
                best[sig] = rep
    for sig, rep in sorted(best.items()):
        chk.finding(sig, f"site {rep.get('site')}, -O{rep['O']}{' -g' if rep['g'] else ''}, expected {rep.get('want')} on line {rep.get('want_line')}",
                    {'kind': 'c05', **rep})
    chk.samples += [{'fault': FAULTS[i][0], 'lines': FAULTS[i][1], 'expected': FAULTS[i][3]} for i in (0, 17, 38)]
    chk.cov['input_distribution'] = {'block_sequences': len(reqs), 'block_verdicts': classes, 'fault_catalogue': len(FAULTS),
                                     'injections': ninj, 'sites': by_kind, 'neutral_insertions': nneutral}
    return chk.finish(
        level='proof', level_text='',
        trusted_base=['Lean 4.33.0 kernel', 'axioms: ' + ', '.join(sorted({a for v in chk.theorems.values() for a in v})),
                      'PARTIAL: proved for block structure and operator typing; names, labels, argument lists, array rank, CONST and the '
                      'positions of those diagnostics are decided by the fault-injection oracle only',
                      'the expected category and line of every catalogue entry are the property\'s wording applied by hand (FAULTS in '
                      'harness/checks/c05.py)',
                      'correspondence harness harness/checks/c05.py'],
        checker_cmd='lake build QbeeModel.Props.C05 && lake env lean .lake/audit/Audit_C05.lean',
        rule='statement sequences of length 2-16 over 8 block kinds, 4 middle statements, fields and plain statements (well nested, then '
             'perturbed) through the real parser; 55 catalogue faults injected one at a time at sites in the main program, in nested '
             'blocks, in SUB / FUNCTION bodies and as the THEN part of a single-line IF of generated valid programs, levels 0-2, with and '
             'without -g; non-trivial = an injection; distinct by (program, fault, site)',
        extra={'evaluations': len(reqs) + ninj, 'distinct_nontrivial': ninj})


def replay(data):
    r = data['replay']
    st = real.try_compile(r['src'], r['O'], r['g'])
    if st[0] == 'ok':
        print('accepted')
    else:
        e = st[1]
        print(st[0], type(e).__name__, getattr(getattr(e, 'code', None), 'name', None), 'line',
              line_of(r['src'], e.loc_start) if getattr(e, 'loc_start', None) is not None else None, '| expected', r.get('want'), r.get('want_line'))
    return 0
