"""C16  numbers to text and back.

Theorems: Props/C16.lean (every Int; float surgery on every repr-shaped text).
Correspondence: format_number / _exec_ntos / _exec_sdbl / DataDevice._exec_read / _exec_input vs Model/NumFmt.lean.
Oracle on the real code (floats, relative to the CPython contract): digit count, half-unit, read-back, PRINT = STR$,
negation shows the same digits.
"""
import ctypes
import math
import re
from fractions import Fraction

from .. import core, real, values
from qvm.utils import format_number
from qbee.utils import Empty

LEAN_MODULE = 'QbeeModel.Props.C16'
REQUIRED = ['fmtInt_shape', 'fmtInt_digits', 'neg_same_digits', 'pyInt_fmtInt', 'valParse_fmtInt',
            'fmtFloat_plain', 'fmtFloat_neg_same_digits', 'fmtFloat_strips_dot_zero', 'fmtFloat_exponent_letter']
CT = real.CellType
TYS = {'INTEGER': CT.INTEGER, 'LONG': CT.LONG, 'SINGLE': CT.SINGLE, 'DOUBLE': CT.DOUBLE}


_END = []


def bare_cpu(data=None):
    if not _END:
        _END.append(bytes(real.compile_src('END\n')))
    mod = real.QModule.parse(_END[0])
    if data is not None:
        mod.data = data
    impl = real.RecImpl()
    m = real.QvmMachine(mod, impl=impl)
    return m.cpu, impl


def real_val(text):
    """VAL via the real _exec_sdbl -> canonical answer"""
    cpu, _ = bare_cpu()
    cpu.push(CT.STRING, text)
    try:
        cpu._exec_sdbl()
    except Exception as e:  # noqa: BLE001
        return ('raises', type(e).__name__)
    c = cpu.stack[-1]
    return ('ok', c.type.name, c.value)


def real_read(text, ty):
    cpu, _ = bare_cpu(data=[[text]])
    cpu.push(CT.INTEGER, {'INTEGER': 1, 'LONG': 2, 'SINGLE': 3, 'DOUBLE': 4}[ty])
    try:
        cpu.devices['data']._exec_read()
    except real.Trapped as e:
        return ('trap', e.trap_code.name)
    c = cpu.stack[-1]
    return ('ok', c.type.name, c.value)


def real_input(text, ty):
    cpu, impl = bare_cpu()
    impl.inputs = [text]
    cpu.push(CT.INTEGER, 0)
    cpu.push(CT.STRING, '')
    cpu.push(CT.INTEGER, 0)
    cpu.push(CT.INTEGER, {'INTEGER': 1, 'LONG': 2, 'SINGLE': 3, 'DOUBLE': 4}[ty])
    cpu.push(CT.INTEGER, 1)
    try:
        cpu.devices['terminal']._exec_input()
    except real.OutOfScript:
        return ('rejected',)
    c = cpu.stack[-1]
    return ('ok', c.type.name, c.value)


def real_ntos(v, ty):
    cpu, _ = bare_cpu()
    cpu.push(TYS[ty], v)
    cpu._exec_ntos()
    return cpu.stack[-1].value


NUM_RE = re.compile(r'^( |-)(\d*)(?:\.(\d+))?(?:([ED])([+-]\d+))?$')


def analyse(text):
    """-> (sign, Fraction value, n significant digits, Fraction unit of the last significant digit) or None"""
    m = NUM_RE.match(text)
    if not m or (m.group(2) == '' and m.group(3) is None):
        return None
    ip, fp, ex = m.group(2), m.group(3) or '', int(m.group(5) or 0)
    digits = ip + fp
    scale = Fraction(10) ** (ex - len(fp))
    val = Fraction(int(digits or '0')) * scale
    sd = digits.lstrip('0')
    lead = len(sd)
    sd2 = sd.rstrip('0')
    trailing = lead - len(sd2)
    nsig = len(sd2)
    unit = scale * Fraction(10) ** trailing
    return (m.group(1), val, nsig, unit, m.group(4))


def run(chk):
    rng = chk.rng
    chk.regen_and_build(LEAN_MODULE)
    chk.audit(LEAN_MODULE, REQUIRED)
    dist = {}

    # ---- integers: all 65 536 INTEGER values, LONG landmarks + random
    ints = [('INTEGER', n) for n in range(-32768, 32768)]
    longs = set(values.LONG_LANDMARKS)
    for k in range(31):
        longs.update([2 ** k, -(2 ** k), 2 ** k - 1, -(2 ** k) - 1 if k < 31 else -(2 ** 31)])
    for k in range(10):
        longs.update([10 ** k, -(10 ** k), 10 ** k - 1])
    longs = {n for n in longs if -2 ** 31 <= n < 2 ** 31}
    nl = chk.n(3000, 150000)
    while len(longs) < nl:
        longs.add(rng.randint(-2 ** 31, 2 ** 31 - 1))
    ints += [('LONG', n) for n in sorted(longs)]
    reqs = [f'fmtint {n}' for _, n in ints]
    exp = [core.enc_str(format_number(n, TYS[t])) for t, n in ints]
    bad = chk.corr('format_number-int', reqs, exp)
    for i in bad[:3]:
        t, n = ints[i]
        chk.finding('C16 integer text is not the plain decimal form', f'format_number({n}, {t}) = {format_number(n, TYS[t])!r}',
                    {'kind': 'fmtint', 'type': t, 'value': n})
    dist['INTEGER_exhaustive'] = 65536
    dist['LONG'] = len(longs)
    # the text goes back through VAL / READ / INPUT on the real code (sample for INTEGER in quick, all in thorough)
    sample = ints if chk.thorough() else [ints[i] for i in range(0, len(ints), 7)] + ints[:40] + ints[65500:65700]
    rt_bad = 0
    reqv, expv, reqp, expp = [], [], [], []
    for t, n in sample:
        text = format_number(n, TYS[t])
        v = real_val(text)
        reqv.append('val ' + core.enc_str(text))
        expv.append(f'int {int(v[2])}' if v[0] == 'ok' and v[2] == int(v[2]) else str(v))
        r1 = real_read(text, t)
        r2 = real_input(text, t)
        reqp.append('pyint ' + core.enc_str(text))
        expp.append(f'ok {r1[2]}' if r1[0] == 'ok' else 'err')
        ok = (v[0] == 'ok' and v[2] == n and r1 == ('ok', t, n) and r2 == ('ok', t, n)
              and real_ntos(n, t) == text)
        if not ok:
            rt_bad += 1
            chk.finding('C16 integer text does not read back', f'{t} {n}: text {text!r} VAL={v} READ={r1} INPUT={r2}',
                        {'kind': 'int-roundtrip', 'type': t, 'value': n})
    chk.corr('val-int', reqv, expv)
    chk.corr('pyint-read', reqp, expp)
    dist['int_roundtrips'] = len(sample)

    # ---- the scanners on arbitrary text (model fidelity beyond the round-trip domain)
    alpha = '0123456789+-. eEdD_x&%'
    texts = set()
    for n in range(chk.n(4000, 60000)):
        L = rng.choice([0, 1, 2, 3, 4, 5, 6, 8, 12])
        texts.add(''.join(rng.choice(alpha) for _ in range(L)))
    texts = sorted(texts)
    reqs, exps = [], []
    for tx in texts:
        try:
            from qvm.utils import parse_int     # (the numerals READ / INPUT take for integral variables)
            v = parse_int(tx)
            e = f'ok {v}'
        except ValueError:
            e = 'err'
        reqs.append('pyint ' + core.enc_str(tx))
        exps.append(e)
    got = chk.model.ask(reqs) if chk.model else []
    nb = 0
    ngray = 0
    for i, (g, e) in enumerate(zip(got, exps)):
        if g == 'gray':
            ngray += 1
            continue
        if g != e:
            nb += 1
            if nb <= 3:
                chk.broken.append(('correspondence', 'pyint', {'request': texts[i], 'model': g, 'real': e}))
                chk.say('pyint disagree', repr(texts[i]), g, e)
    chk.stats['pyint'] = {'cases': len(reqs), 'disagree': nb, 'gray': ngray}
    reqs, exps = [], []
    for tx in texts:
        v = real_val(tx)
        reqs.append('val ' + core.enc_str(tx))
        exps.append(v)
    got = chk.model.ask(reqs) if chk.model else []
    nb = ngray = 0
    kinds = {}
    for i, (g, v) in enumerate(zip(got, exps)):
        kind = g.split()[0]
        kinds[kind] = kinds.get(kind, 0) + 1
        ok = True
        if kind == 'gray':
            ngray += 1
        elif kind == 'zero':
            ok = v[0] == 'ok' and v[2] == 0.0 and str(v[2]) == '0.0'
            # VAL("0") is also 0: 'zero' only claims the value
        elif kind == 'int':
            ok = v[0] == 'ok' and v[2] == float(int(g.split()[1]))
        elif kind == 'flt':
            tok = core.dec_str(g.split()[1])
            try:
                fv = float(tok)
                if math.isinf(fv):
                    # the numeral is beyond every DOUBLE: numeric overflow (no cell holds an infinity, as repaired)
                    ok = v == ('raises', 'Trapped')
                else:
                    ok = v[0] == 'ok' and v[2] == fv
            except ValueError:
                ok = False
        elif kind == 'raises':
            ok = v[0] == 'raises'
        if not ok:
            nb += 1
            if nb <= 3:
                chk.broken.append(('correspondence', 'val', {'request': texts[i], 'model': g, 'real': v}))
                chk.say('val disagree', repr(texts[i]), g, v)
    chk.stats['val'] = {'cases': len(reqs), 'disagree': nb, 'gray': ngray, 'kinds': kinds}

    # ---- floats: surgery correspondence + the property's own oracle on the real code
    fl = []
    for ty, lm in (('SINGLE', values.SINGLE_LANDMARKS), ('DOUBLE', values.DOUBLE_LANDMARKS)):
        vs = set()
        for x in lm:
            vs.update([x, -x])
        for k in range(-40, 40):
            vs.update([10.0 ** k, 2.0 ** k, -(2.0 ** k)])
        if ty == 'DOUBLE':
            for k in list(range(-320, 309, 7)) + [-323, -308, 308]:
                vs.add(10.0 ** k)
            for k in range(-1074, 1024):        # ALL powers of two (some have a 16-digit shortest repr that is not the
                vs.add(2.0 ** k)                # nearest 16-digit numeral: found by a sub-agent, not by the stride-37 sample)
        else:
            for k in range(-149, 128):
                vs.add(2.0 ** k)
        n = chk.n(2500, 100000)
        while len(vs) < n:
            vs.add(values.gen_float(rng, ty))
        for v in vs:
            if ty == 'SINGLE':
                v = values.f32(v)
            if math.isfinite(v):
                fl.append((ty, v))
        fl.append((ty, -0.0))      # the negation of zero is zero: same text
    reqs, exps = [], []
    viol_kinds = {}
    for ty, v in fl:
        text = format_number(v, TYS[ty])
        if ty == 'SINGLE':
            n1 = ctypes.c_float(abs(v) if v == 0 else v).value
            r1 = str(n1)
            r2 = r1
            if '.' in r1 and 'e' not in r1:
                r2 = str(round(n1, ndigits=7 - r1.lstrip('-').index('.')))
            t6 = '%.6e' % n1
        else:
            v0 = abs(v) if v == 0 else v
            r1 = str(v0)
            dg = r1.lstrip('-').split('e')[0].replace('.', '').lstrip('0')
            r2 = ('%.*e' % (len(dg) - 1, abs(v0))) if dg else ''
            t6 = '%.17g' % v0
        nn = '1' if v >= 0 else '0'
        reqs.append(f'fmtflt {ty[0]} {nn} {core.enc_str(r1)} {core.enc_str(r2)} {core.enc_str(t6)}')
        k = '-'
        if ty == 'SINGLE' and '.' in r1 and 'e' not in r1:
            k = str(7 - r1.lstrip('-').index('.'))
        exps.append(f'{k} {core.enc_str(text)}')
        # oracle
        a = analyse(text)
        sig = None
        if a is None:
            sig = 'not-a-decimal-numeral'
        else:
            sign, val, nsig, unit, letter = a
            true = Fraction(v)
            limit = 7 if ty == 'SINGLE' else 17
            if nsig > limit:
                sig = f'{ty.lower()}-more-than-{limit}-digits' + ('-exponent-form' if letter else '-plain-form')
            elif abs(abs(true) - val) * 2 > unit:
                sig = f'{ty.lower()}-not-within-half-unit'
            elif (sign == '-') != (v < 0):            # (the negation of zero is zero: no minus sign)
                sig = 'sign-wrong'
            elif letter and letter != ('E' if ty == 'SINGLE' else 'D'):
                sig = 'exponent-letter-wrong'
            else:
                # reading the text back gives the number the text denotes, as exactly as the type can hold it (the text
                # itself is within half a unit of the true value: together, "reproduces the value to that precision")
                denoted = -val if sign == '-' else val

                def near(x, cell_type):
                    ulp = Fraction(2) ** max(math.frexp(float(denoted) or 1.0)[1] - (24 if cell_type == 'SINGLE' else 53),
                                             -149 if cell_type == 'SINGLE' else -1074)      # (subnormal spacing)
                    return abs(Fraction(x) - denoted) <= ulp
                back = real_val(text)
                if back[0] == 'raises':
                    sig = 'val-raises-on-integral-text-beyond-long'
                elif not near(back[2], back[1]):
                    sig = f'{ty.lower()}-val-readback-off'
                else:
                    rb = real_read(text.strip(), ty)
                    ri = real_input(text, ty)
                    if rb[0] != 'ok' or ri[0] != 'ok':
                        sig = ('exponent-text-rejected-by-read-or-input' if letter else 'plain-text-rejected-by-read-or-input')
                    elif not near(rb[2], ty) or not near(ri[2], ty):
                        sig = f'{ty.lower()}-read-input-readback-off'
                neg = format_number(-v, TYS[ty])
                if v != 0 and neg[1:] != text[1:]:
                    sig = 'negation-shows-different-digits'
                if real_ntos(v, ty) != text:
                    sig = 'str$-differs-from-print'
        if sig:
            viol_kinds[sig] = viol_kinds.get(sig, 0) + 1
            chk.finding('C16 ' + sig, f'{ty} {v!r} prints as {text!r}', {'kind': 'float', 'type': ty, 'bits': real.fbits(v), 'value': repr(v), 'text': text})
    badf = chk.corr('format_number-float', reqs, exps)
    dist['floats'] = len(fl)
    dist['float_oracle_hits'] = viol_kinds
    chk.samples += [{'type': t, 'value': n, 'text': format_number(n, TYS[t])} for t, n in (ints[0], ints[40000], ints[-1])]
    chk.samples += [{'type': t, 'value': repr(v), 'text': format_number(v, TYS[t])} for t, v in fl[:4]]

    # ---- through compiled programs (PRINT x; STR$(x); VAL; READ; INPUT), a sample, 2 configurations in quick
    nprog = chk.n(25, 400)
    cfgs = real.CONFIGS if chk.thorough() else [(0, False), (2, True)]
    pbad = 0
    for _ in range(nprog):
        ty = rng.choice(['INTEGER', 'LONG', 'SINGLE', 'DOUBLE'])
        v = values.gen_value(rng, ty)
        tc = values.TYPE_CHAR[ty]
        if ty in ('INTEGER', 'LONG'):
            assign = f'x{tc} = {v}' if v > -2147483648 else f'x{tc} = -2147483647 - 1'
        else:
            lit = values.qb_float_literal(abs(v), ty)
            assign = f'x{tc} = {lit}' + (f'\nx{tc} = -x{tc}' if (v < 0) else '')
        text = format_number(v, TYS[ty])
        src = (f'{assign}\nPRINT x{tc}\nPRINT STR$(x{tc}); "|"\ny{tc} = VAL(STR$(x{tc}))\nPRINT y{tc}\n'
               f'INPUT z{tc}\nPRINT z{tc}\n')
        for (o, g) in cfgs:
            st = real.try_compile(src, o, g)
            if st[0] != 'ok':
                chk.finding('C16 program not accepted', f'{st[0]} {type(st[1]).__name__}', {'kind': 'prog', 'src': src, 'O': o, 'g': g})
                continue
            r = real.run_bytes(st[2], inputs=[text])
            out = real.text_of(r.trace)
            want_prefix = f'{text} \r\n{text}|\r\n'
            if not out.startswith(want_prefix):
                pbad += 1
                chk.finding('C16 PRINT and STR$ differ in a compiled program', f'{src!r} -> {out!r} {r.outcome}',
                            {'kind': 'prog', 'src': src, 'O': o, 'g': g})
                continue
            rest = out[len(want_prefix):].split('\r\n')
            if ty in ('INTEGER', 'LONG') and (rest[0] != text + ' ' or rest[1] != '? ' + text + ' '):
                pbad += 1
                chk.finding('C16 integer does not survive VAL/INPUT in a compiled program', f'{src!r} -> {out!r}',
                            {'kind': 'prog', 'src': src, 'O': o, 'g': g})
    dist['programs'] = nprog * len(cfgs)
    chk.cov['input_distribution'] = dist
    n_eval = sum(s['cases'] for s in chk.stats.values())
    return chk.finish(
        level='proof', level_text='',
        trusted_base=['Lean 4.33.0 kernel', 'axioms: ' + ', '.join(sorted({a for v in chk.theorems.values() for a in v})),
                      'CPython repr(float)/str(float), float(str), round(x, n), int(str) outside the ASCII fragment: external contracts',
                      'pyparsing executes the numeric_literal regex as written (scanner modelled in Model/NumFmt.lean, corresponded)',
                      'correspondence harness harness/checks/c16.py'],
        checker_cmd='lake build QbeeModel.Props.C16 && lake env lean .lake/audit/Audit_C16.lean',
        rule='all 65 536 INTEGER values; LONG/SINGLE/DOUBLE at powers of two and ten, type limits, subnormals, rounding '
             'neighbours and random bit patterns; random texts over the numeral alphabet for the scanners; non-trivial = '
             'distinct (type, value) pairs other than 0 and +-1',
        extra={'evaluations': n_eval, 'distinct_nontrivial': len(ints) + len(fl) - 6,
               'exhaustive_integer': True})


def replay(data):
    r = data['replay']
    if r['kind'] == 'float':
        import struct
        v = struct.unpack('>d', bytes.fromhex(r['bits']))[0]
        print(r['type'], repr(v), '->', repr(format_number(v, TYS[r['type']])))
    elif r['kind'] in ('fmtint', 'int-roundtrip'):
        t, n = r['type'], r['value']
        text = format_number(n, TYS[t])
        print(repr(text), real_val(text), real_read(text, t), real_input(text, t))
    else:
        st = real.try_compile(r['src'], r['O'], r['g'])
        print(st[0])
    return 0
