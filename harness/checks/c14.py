"""C14  spelling, spacing, comments and separators do not change the program.

Theorem (PARTIAL, Props/C14.lean): `lex_render` - however a token stream is written (letter case of keywords and
identifiers, blanks and tabs between tokens, trailing comments, empty and comment-only lines) the lexical layer of
Model/Lex.lean reads back exactly that stream; `same_tokens` - two such writings have the same tokens.
Tie: "the real grammar looks at nothing but these tokens": for random single edits of a program (case flip, blank / tab
inserted or removed anywhere, comment or empty line inserted, a character changed inside a string or a DATA line) the
model decides whether the token stream changed; whenever it did not, the real compiler must produce identical literal,
data, global and code sections (and the same verdict).
Oracle (metamorphic, also above the lexical layer): compositions of the property's rewritings - case, blanks, comments,
empty lines, colon joining / splitting of simple statements, LET, CALL forms, NEXT with / without variable, `><`, label and
line-number renaming - applied to generated and repository programs: identical sections 1-4, else identical behaviour.
"""
import re

from .. import core, real, progs

LEAN_MODULE = 'QbeeModel.Props.C14'
REQUIRED = ['lex_render', 'same_tokens', 'go_render', 'render_head']

KEYWORDS_NOT_IDENT = None


def sections(src, o, g):
    st = real.try_compile(src, o, g)
    if st[0] != 'ok':
        e = st[1]
        return (st[0], type(e).__name__, str(getattr(e, 'code', '')))
    secs = real.split_sections(st[2])
    return ('ok', secs.get(1), secs.get(2), secs.get(3), secs.get(4))


# ---------------------------------------------------------------- single edits (tie between model tokens and the grammar)

def random_edit(rng, src):
    """one small edit anywhere in the text (never between two comparison characters: see NoGlue)"""
    if not src:
        return src, 'none'
    for _ in range(20):
        k = rng.random()
        i = rng.randrange(len(src))
        if k < 0.25:
            c = src[i]
            if c.isalpha():
                return src[:i] + c.swapcase() + src[i + 1:], 'case'
        elif k < 0.45:
            # not inside a numeral with a signed exponent (1e-5 is one token of the grammar: NoSignedExponent)
            if re.search(r'\d[eEdD][+-]?$', src[max(0, i - 3):i]) or re.search(r'\d[eEdD]$', src[max(0, i - 2):i]):
                continue
            return src[:i] + rng.choice([' ', '\t', '  ']) + src[i:], 'blank+'
        elif k < 0.55:
            if src[i] in ' \t':
                return src[:i] + src[i + 1:], 'blank-'
        elif k < 0.65:
            j = src.find('\n', i)
            if j >= 0:
                return src[:j] + rng.choice([" ' note", "'x", " '"]) + src[j:], 'comment'
        elif k < 0.75:
            j = src.find('\n', i)
            if j >= 0:
                return src[:j + 1] + rng.choice(['\n', '   \n', "' only a comment\n", '\t\n']) + src[j + 1:], 'emptyline'
        elif k < 0.85:
            c = src[i]
            if c.isalnum():
                return src[:i] + rng.choice('aZ9') + src[i + 1:], 'char'
        else:
            return src[:i] + rng.choice(['"', "'", ':', ',', ';', '(', '=', '<']) + src[i:], 'punct'
    return src, 'none'


# ---------------------------------------------------------------- the property's rewritings

WORD = re.compile(r'"[^"\n]*"?|\'[^\n]*|[A-Za-z][A-Za-z0-9_.]*[%&!#$]?|\d[\d.]*(?:[eEdD][+-]?\d+)?[%&!#]?|\.\d+(?:[eEdD][+-]?\d+)?[%&!#]?|'
                  r'&[hHoO][0-9a-fA-F]+[%&]?|\n|[ \t]+|.', re.S)


def tokens_of_line(line):
    return WORD.findall(line)


def is_data_or_rem(line):
    s = line.strip().upper()
    body = re.sub(r'^(\d+|[A-Z][A-Z0-9_]*:)\s*', '', s)
    return body.startswith('DATA') or body.startswith('REM') or 'DATA ' in s or ': DATA' in s or s.startswith("'")


def rw_case(rng, src):
    out = []
    for line in src.split('\n'):
        if is_data_or_rem(line):
            out.append(line)
            continue
        toks = tokens_of_line(line)
        new = []
        for t in toks:
            if t[:1].isalpha():
                k = rng.random()
                new.append(t.upper() if k < 0.4 else t.lower() if k < 0.8 else ''.join(c.upper() if rng.random() < 0.5 else c.lower() for c in t))
            else:
                new.append(t)
        out.append(''.join(new))
    return '\n'.join(out)


def rw_blanks(rng, src):
    out = []
    for line in src.split('\n'):
        if is_data_or_rem(line):
            out.append(line)
            continue
        toks = tokens_of_line(line)
        new = []
        for i, t in enumerate(toks):
            if t.strip(' \t') == '' and t:
                new.append(rng.choice([' ', '  ', '\t', ' \t ']))
            else:
                prev = toks[i - 1] if i else ''
                glue = prev[-1:] in '<>=' and t[:1] in '<>='
                if i and not glue and rng.random() < 0.2 and not (prev[-1:].isalnum() and t[:1].isalnum()) \
                        and prev.strip(' \t') != '' and not prev.startswith(("'", '"')) and not t.startswith("'"):
                    if not (prev[-1:].isalnum() or prev[-1:] in '%&!#$' or t[:1].isalnum()) or True:
                        new.append(rng.choice([' ', '  ']))
                new.append(t)
        out.append(''.join(new) + rng.choice(['', ' ', '\t']))
    return '\n'.join(out)


def rw_comments(rng, src):
    out = []
    for line in src.split('\n'):
        if rng.random() < 0.15:
            out.append(rng.choice(['', '   ', "' a comment line", "REM a remark", "\t' indented"]))
        if line.strip() and not is_data_or_rem(line) and "'" not in line and '"' not in line and rng.random() < 0.2:
            line = line + rng.choice([" ' trailing", "'x", "  ' IF THEN ELSE"])
        out.append(line)
    return '\n'.join(out)


SIMPLE = re.compile(r'^\s*(PRINT|LET\s|[A-Za-z][A-Za-z0-9]*[%&!#$]?\s*=|CALL\s|GOSUB\s|BEEP|CLS)', re.I)
BLOCKY = re.compile(r'\b(IF|THEN|ELSE|ELSEIF|FOR|NEXT|WHILE|WEND|DO|LOOP|SELECT|CASE|END|SUB|FUNCTION|TYPE|DATA|REM|DIM|CONST|DECLARE|DEF|ON|'
                    r'RESUME|RETURN|GOTO|EXIT|INPUT|READ|RESTORE|STATIC|SHARED)\b', re.I)


def simple_line(line):
    return bool(SIMPLE.match(line)) and not BLOCKY.search(line) and "'" not in line and ':' not in line and line.strip() != ''


def rw_colons(rng, src):
    """join adjacent simple statements with ':' / split lines made only of simple statements"""
    lines = src.split('\n')
    out = []
    i = 0
    while i < len(lines):
        l = lines[i]
        if simple_line(l) and i + 1 < len(lines) and simple_line(lines[i + 1]) and rng.random() < 0.5:
            out.append(l.rstrip() + rng.choice([': ', ' : ', ':']) + lines[i + 1].lstrip())
            i += 2
            continue
        out.append(l)
        i += 1
    return '\n'.join(out)


def rw_let(rng, src):
    out = []
    for line in src.split('\n'):
        m = re.match(r'^(\s*)LET\s+(.*)$', line, re.I)
        if m and rng.random() < 0.7:
            line = m.group(1) + m.group(2)
        elif re.match(r'^\s*[A-Za-z][A-Za-z0-9]*[%&!#$]?(\([^()]*\))?\s*=[^=]', line) and not BLOCKY.search(line) and rng.random() < 0.4:
            line = re.sub(r'^(\s*)', r'\1LET ', line, count=1)
        out.append(line)
    return '\n'.join(out)


def rw_ne(rng, src):
    out = []
    for line in src.split('\n'):
        if is_data_or_rem(line) or '"' in line:
            out.append(line)
            continue
        line = re.sub(r'<>|><', lambda m: rng.choice(['<>', '><']), line)
        out.append(line)
    return '\n'.join(out)


def rw_call(rng, src):
    """CALL p(a, b)  <->  p a, b   (statement on its own line)"""
    out = []
    for line in src.split('\n'):
        m = re.match(r'^(\s*)CALL\s+([A-Za-z][A-Za-z0-9]*)\s*\((.*)\)\s*$', line, re.I)
        if m and rng.random() < 0.6 and m.group(3).count('(') == m.group(3).count(')') and '"' not in line:
            depth = 0
            ok = True
            for ch in m.group(3):
                depth += ch == '('
                depth -= ch == ')'
                if depth < 0:
                    ok = False
            if ok:
                line = f'{m.group(1)}{m.group(2)} {m.group(3)}'
        else:
            m = re.match(r'^(\s*)CALL\s+([A-Za-z][A-Za-z0-9]*)\s*$', line, re.I)
            if m and rng.random() < 0.6:
                line = f'{m.group(1)}{m.group(2)}'
        out.append(line)
    return '\n'.join(out)


def rw_next(rng, src):
    """NEXT v <-> NEXT (the innermost FOR's variable)"""
    out = []
    stack = []
    for line in src.split('\n'):
        m = re.match(r'^\s*FOR\s+([A-Za-z][A-Za-z0-9]*[%&!#]?)\s*=', line, re.I)
        if m:
            stack.append(m.group(1))
        m2 = re.match(r'^(\s*)NEXT(\s+([A-Za-z][A-Za-z0-9]*[%&!#]?))?\s*$', line, re.I)
        if m2 and stack:
            v = stack.pop()
            if m2.group(3) and rng.random() < 0.6:
                line = m2.group(1) + 'NEXT'
            elif not m2.group(3) and rng.random() < 0.6:
                line = m2.group(1) + 'NEXT ' + v
        out.append(line)
    return '\n'.join(out)


def zero_candidates(src):
    """the lines that may be renumbered to 0 without changing the meaning: every line but the target of an ON ERROR GOTO
    (ON ERROR GOTO 0 switches error handling off: that is the language, not a spelling)"""
    linenos = set(re.findall(r'^\s*(\d+)\s', src, re.M))
    if '0' in linenos:
        return []
    handlers = set(re.findall(r'\bON\s+ERROR\s+GOTO\s+(\d+)', src, re.I))
    refd = set(re.findall(r'\b(?:GOTO|GOSUB|RESTORE|RETURN|RESUME)\s+(\d+)', src, re.I)) & linenos
    return sorted((refd or linenos) - handlers, key=int)


def rw_labels(rng, src, zero=None):
    """rename every label / line number consistently (definitions and references)"""
    from .. import stmtfuzz
    kws = {w.lower() for k in stmtfuzz.KEYWORDS for w in k.split()} | {'cls', 'beep', 'end', 'stop', 'return', 'else', 'loop', 'wend', 'next',
                                                                      'do', 'system', 'randomize', 'restore', 'resume', 'data', 'rem', 'print'}
    labels = {l for l in re.findall(r'^\s*([A-Za-z][A-Za-z0-9_]*):', src, re.M) if l.lower() not in kws}
    linenos = set(re.findall(r'^\s*(\d+)\s', src, re.M))
    mapping = {}
    for i, l in enumerate(sorted(labels)):
        # (the new names sort in another order than the old ones: nothing may depend on the order of the names)
        mapping[l.lower()] = 'q' + ''.join(rng.choice('abcdefghijklmnopqrstuvwxyz') for _ in range(3)) + f'{i}x{rng.randint(0, 99)}'
    used = set()
    # line number 0 is a line number like any other: every third rewriting gives it to one of the lines
    if zero is None and linenos and '0' not in linenos and rng.random() < 0.34:
        zero = rng.choice(zero_candidates(src) or [None])
    for n in sorted(linenos, key=int):
        if n == zero:
            mapping[n] = '0'
            used.add('0')
            continue
        while True:
            v = str(rng.randint(1, 60000))
            if v not in used and v not in linenos:
                break
        used.add(v)
        mapping[n] = v
    if not mapping:
        return src
    out = []
    for line in src.split('\n'):
        if is_data_or_rem(line):
            # a label in front of DATA still has to be renamed
            m = re.match(r'^(\s*)([A-Za-z][A-Za-z0-9_]*):(.*)$', line)
            if m and m.group(2).lower() in mapping:
                line = f'{m.group(1)}{mapping[m.group(2).lower()]}:{m.group(3)}'
            m = re.match(r'^(\s*)(\d+)(\s.*)$', line)
            if m and m.group(2) in mapping:
                line = f'{m.group(1)}{mapping[m.group(2)]}{m.group(3)}'
            out.append(line)
            continue
        toks = tokens_of_line(line)
        new = []
        for i, t in enumerate(toks):
            prevw = next((x for x in reversed(toks[:i]) if x.strip(' \t')), '')
            nxt = next((x for x in toks[i + 1:] if x.strip(' \t')), '')
            if t.lower() in mapping and t[:1].isalpha() and (nxt == ':' and not any(x.strip(' \t') for x in toks[:i]) or
                                                            prevw.upper() in ('GOTO', 'GOSUB', 'RESTORE', 'RESUME', 'RETURN', 'THEN', 'ELSE')):
                new.append(mapping[t.lower()])
            elif t in mapping and t.isdigit() and (not any(x.strip(' \t') for x in toks[:i]) or
                                                   prevw.upper() in ('GOTO', 'GOSUB', 'RESTORE', 'RESUME', 'RETURN', 'THEN', 'ELSE')):
                new.append(mapping[t])
            else:
                new.append(t)
        out.append(''.join(new))
    return '\n'.join(out)


REWRITES = [('case', rw_case), ('blanks', rw_blanks), ('comments', rw_comments), ('colons', rw_colons), ('let', rw_let), ('ne', rw_ne),
            ('call', rw_call), ('next', rw_next), ('labels', rw_labels)]


# every place an identifier can be written in (declaration and use sites): the case rewriting respells all of them
SPECIAL = [
    'DIM things(3), cnt AS INTEGER, nm$\nthings(1) = 5: cnt = 1: nm$ = "x"\nCALL show(things(), cnt, nm$)\nPRINT twice(2); half!(3)\nEND\n'
    'SUB show (items(), n AS INTEGER, t$)\n  STATIC calls\n  calls = calls + 1\n  PRINT items(1); n; t$; calls\nEND SUB\n'
    'FUNCTION twice (v)\n  twice = v * 2\nEND FUNCTION\nFUNCTION half! (v AS SINGLE)\n  half! = v / 2\nEND FUNCTION\n',
    'TYPE point\n  xpos AS INTEGER\n  ypos AS LONG\nEND TYPE\nDIM SHARED origin AS point, grid(2) AS point\norigin.xpos = 3: grid(1).ypos = 70000\n'
    'CALL move(origin, grid())\nPRINT origin.xpos; grid(1).ypos\nEND\nSUB move (p AS point, cells() AS point)\n  p.xpos = p.xpos + 1\n'
    '  cells(1).ypos = cells(1).ypos + origin.xpos\nEND SUB\n',
    'DEFINT A-C\nDEFSTR S\nCONST limit = 3, tag$ = "t"\nalpha = 2: sname = "n"\nFOR count = 1 TO limit\n  IF count = alpha THEN GOTO skip\n'
    '  PRINT count; sname; tag$\nskip:\nNEXT count\nGOSUB finish\nEND\nfinish:\nPRINT "done"\nRETURN\n'.replace('CONST limit = 3, tag$ = "t"', 'CONST limit = 3\nCONST tag$ = "t"'),
    'DIM arr1%(2), Total&\nDATA 4, 5, 6\nFOR idx% = 0 TO 2\n  READ arr1%(idx%)\n  Total& = Total& + arr1%(idx%)\nNEXT\nPRINT Total&\n'
    'SELECT CASE Total&\nCASE 15\n  PRINT "fifteen"\nCASE ELSE\n  PRINT "other"\nEND SELECT\n',
    'ON ERROR GOTO handler\nx% = 1 \\ zero%\nPRINT "after"\nEND\nhandler:\nPRINT ERR\nRESUME NEXT\n',
    # identifiers that begin with a keyword, at the start of lines (a word that merely begins with REM, DATA, END, IF, FOR ... is an
    # identifier): LET / colon / CALL rewritings move them away from and back to the line start
    'remaining = 5\nremove% = 2\ndatum = remaining + remove%\nprinter$ = "p"\nendx = 1\niffy = 2\nfork = 3\nnextone = 4\ndox = 5\nloopy = 6\nelsewhere = 7\n'
    'thenx = 8\nletter = 10\ncallme = 11\ndimly = 12\nonward = 13\ngotox = 14\nnotes = 2\nandy = 3\norb = 4\nmodx = 5\nstepper = 6\nasx = 7\ntox = 8\nremaining = remaining + 1\n'
    'remover remaining\nCALL remover(datum)\nPRINT remaining; datum; printer$; endx; iffy; fork; nextone; dox; loopy; elsewhere\n'
    'PRINT thenx; letter; callme; dimly; onward; gotox; notes; andy; orb; modx; stepper; asx; tox\nEND\n'
    'SUB remover (x)\n  x = x + 1\n  remnant = x\n  PRINT remnant\nEND SUB\n',
    # every statement that names a line: the label rewriting renumbers them (one of them, every third time, to line number 0)
    '10 DATA 1, 2\n20 DATA 30, 40\n30 READ a, b, c\n40 RESTORE 20\n50 READ d\n60 PRINT a; b; c; d\n70 GOSUB 200\n80 PRINT "back"\n90 GOTO 300\n'
    '200 PRINT "sub"\n210 RETURN 250\n220 PRINT "not here"\n250 PRINT "to 250"\n260 GOTO 80\n300 ON ERROR GOTO 400\n310 x% = 1 \\ z%\n320 PRINT "end"\n330 END\n'
    '400 PRINT ERR\n410 RESUME NEXT\n',
    # RESTORE to a label / line that has no DATA of its own: the first DATA statement after it in the source is meant,
    # whatever the labels are called
    'start: DATA 1\nhollow: REM nothing here\nmore: DATA 2\nlast: DATA 3\nRESTORE hollow: READ a: PRINT a\nRESTORE more: READ b: PRINT b\nRESTORE start: READ c: PRINT c\n'
    'empty1:\nempty2:\nzz: DATA 4\nRESTORE empty2: READ d: PRINT d\nRESTORE empty1: READ e: PRINT e\n',
    '90 DATA 1\n100 REM nothing here\n110 DATA 2\n120 DATA 3\n130 RESTORE 100: READ a: PRINT a\n140 RESTORE 110: READ b: PRINT b\n150 RESTORE 90: READ c: PRINT c\n',
    '5 k% = k% + 1\n10 IF k% < 3 THEN GOTO 5\n20 IF k% = 3 THEN GOTO 40 ELSE GOTO 50\n30 PRINT "skipped"\n40 PRINT "forty": k% = 9: GOTO 20\n50 PRINT "fifty"; k%\n60 DATA 7\n70 DATA 8\n'
    '80 READ p%: RESTORE 70: READ q%: RESTORE 60: READ r%: PRINT p%; q%; r%\n',
]


def task(t):
    return real.big_frame(lambda: _task(t))


def _task(t):
    import random
    seed, kind = t
    rng = random.Random(seed)
    out = {'edits': [], 'meta': []}
    base = progs.load_repo_programs(core.REPO)
    for _ in range(6):
        if rng.random() < 0.25:
            src, inputs = rng.choice(SPECIAL), []
        elif rng.random() < 0.6:
            feats = set(progs.ALL_FEATURES) - {'input'} if rng.random() < 0.5 else None
            src, inputs = progs.gen_program(rng, size=rng.choice([3, 5, 8]), depth=rng.choice([1, 2]), features=feats)
        else:
            src, inputs = rng.choice(base), []
        o = rng.randrange(3)
        g = rng.random() < 0.5
        s0 = sections(src, o, g)
        if s0[0] != 'ok':
            continue
        # (1) single edits
        for _ in range(8):
            e, ek = random_edit(rng, src)
            if e == src:
                continue
            out['edits'].append((src, e, ek, o, g, s0 == sections(e, o, g)))
        # (2) compositions of the property's rewritings
        for _ in range(3):
            cur = src
            names = []
            for name, fn in rng.sample(REWRITES, rng.randint(1, 5)):
                cur = fn(rng, cur)
                names.append(name)
            if cur == src:
                continue
            s1 = sections(cur, o, g)
            same = s1 == s0
            beh = None
            if not same and s1[0] == 'ok':
                r0 = real.run_bytes(real.try_compile(src, o, g)[2], inputs=inputs, max_ticks=20000)
                r1 = real.run_bytes(real.try_compile(cur, o, g)[2], inputs=inputs, max_ticks=20000)
                beh = (r0.outcome, r0.trace) == (r1.outcome, r1.trace)
            out['meta'].append((src, cur, names, o, g, same, beh, s1[0]))
    return out


def zero_sweep(_):
    """every referenced line of the line-numbered programs becomes line number 0 in turn"""
    import random
    out = []
    for src in SPECIAL:
        for z in zero_candidates(src):
            cur = rw_labels(random.Random(int(z)), src, zero=z)
            for o, g in ((0, False), (2, True)):
                s0, s1 = sections(src, o, g), sections(cur, o, g)
                beh = None
                if s0 != s1 and s1[0] == 'ok' and s0[0] == 'ok':
                    r0 = real.run_bytes(real.try_compile(src, o, g)[2], inputs=[], max_ticks=20000)
                    r1 = real.run_bytes(real.try_compile(cur, o, g)[2], inputs=[], max_ticks=20000)
                    beh = (r0.outcome, r0.trace) == (r1.outcome, r1.trace)
                out.append((src, cur, ['labels', f'line {z} becomes line 0'], o, g, s0 == s1, beh, s1[0] if s0[0] == 'ok' else 'ok'))
    return {'edits': [], 'meta': out}


def run(chk):
    rng = chk.rng
    chk.regen_and_build(LEAN_MODULE)
    chk.audit(LEAN_MODULE, REQUIRED)
    tasks = [(rng.randrange(1 << 30), 'x') for _ in range(chk.n(32, 500))]
    res = real.pmap(task, tasks)
    zs = real.big_frame(lambda: zero_sweep(None))
    chk.stats['line-number-0-sweep'] = {'cases': len(zs['meta']), 'disagree': 0, 'identical_modules': sum(1 for m in zs['meta'] if m[5])}
    res = list(res) + [zs]
    reqs = []
    pairs = []
    for out in res:
        for (src, e, ek, o, g, same) in out['edits']:
            reqs.append('lex ' + core.enc_str(src))
            reqs.append('lex ' + core.enc_str(e))
            pairs.append((src, e, ek, o, g, same))
    got = chk.model.ask(reqs) if chk.model and reqs else []
    nb = 0
    kinds = {}
    neq = 0
    for i, (src, e, ek, o, g, same) in enumerate(pairs):
        if not got:
            break
        lexeq = got[2 * i] == got[2 * i + 1]
        k = kinds.setdefault(ek, [0, 0])
        k[0] += 1
        k[1] += lexeq
        if lexeq:
            neq += 1
            if not same:
                nb += 1
                # two texts with the same tokens compile differently: either the model's tokens are too coarse, or the
                # compiler is sensitive to spelling / spacing / comments: the latter is the property failing
                chk.finding(f'C14 texts with the same tokens compile differently ({ek})',
                            f'-O{o}{" -g" if g else ""}: edit kind {ek}', {'kind': 'edit', 'src': src, 'edited': e, 'O': o, 'g': g})
    chk.stats['tokens-decide-the-module'] = {'cases': len(pairs), 'disagree': nb, 'token_equal_pairs': neq}
    nmeta = 0
    used = {}
    for out in res:
        for (src, cur, names, o, g, same, beh, verdict) in out['meta']:
            nmeta += 1
            for n in names:
                used[n] = used.get(n, 0) + 1
            if same:
                continue
            rep = {'kind': 'rewrite', 'src': src, 'rewritten': cur, 'rewritings': names, 'O': o, 'g': g}
            if verdict != 'ok':
                chk.finding('C14 a rewritten program is rejected (' + '+'.join(sorted(set(names))) + ')', f'{verdict} after {names}', rep)
            elif beh is False:
                chk.finding('C14 a rewritten program behaves differently (' + '+'.join(sorted(set(names))) + ')', f'after {names}', rep)
            # sections differ but behaviour is identical: allowed by the property ("or at least ...")
    chk.samples += [{'edit': p[2], 'same_tokens': got[2 * i] == got[2 * i + 1]} for i, p in enumerate(pairs[:3])] if got else []
    chk.cov['input_distribution'] = {'single_edits': len(pairs), 'edit_kinds [n, token-equal]': kinds, 'rewritten_programs': nmeta,
                                     'rewritings_used': used}
    return chk.finish(
        level='proof', level_text='',
        trusted_base=['Lean 4.33.0 kernel', 'axioms: ' + ', '.join(sorted({a for v in chk.theorems.values() for a in v})),
                      'PARTIAL: the theorem is about the lexical layer of Model/Lex.lean; that the pyparsing grammar depends on nothing but '
                      'those tokens is sampled (single edits), not proved; colon / newline, LET, CALL forms, NEXT variable, >< and label '
                      'renaming are above the lexical layer and rest on the metamorphic oracle only',
                      'the rewriting functions of harness/checks/c14.py (regular-expression based; they skip lines they do not understand)',
                      'correspondence harness harness/checks/c14.py'],
        checker_cmd='lake build QbeeModel.Props.C14 && lake env lean .lake/audit/Audit_C14.lean',
        rule='generated and repository programs at levels 0-2 with and without -g; 8 random single edits each (case flip, blank / tab in or '
             'out, comment, empty line, character change, punctuation) judged by the model lexer; 3 random compositions of 1-5 of the 9 '
             'rewritings each; non-trivial = a rewritten program that differs from the original text; distinct by text pair',
        extra={'evaluations': len(pairs) + nmeta, 'distinct_nontrivial': nmeta})


def replay(data):
    r = data['replay']
    a = sections(r['src'], r['O'], r['g'])
    b = sections(r.get('edited') or r.get('rewritten'), r['O'], r['g'])
    print(a[0], b[0], 'sections equal:', a == b)
    return 0
