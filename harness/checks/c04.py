"""C04  storage layout: variables, array elements and record fields never overlap or leak.

Theorems: Props/C04.lean.  Correspondence: memlayout.get_*_idx / get_dotted_index / _exec_arridx vs Model/Layout.lean on
random declaration shapes.  Oracle on the real VM: sentinel programs (write a distinct value to every declared
location in a random order, read everything back in another order; by-reference / by-value arguments; recursion with
fresh locals; STATIC and SHARED).
"""
from .. import core, real, values
from qvm.memlayout import get_local_var_idx, get_global_var_idx, get_dotted_index, get_type_size, get_params_size, get_local_vars_size
from qvm.utils import format_number

LEAN_MODULE = 'QbeeModel.Props.C04'
REQUIRED = ['vars_disjoint', 'field_inside', 'fields_disjoint', 'elemOffset_inj', 'elem_inside', 'store_frame',
            'read_pure', 'unset_reads_default', 'assigned_reads_value', 'readIdxOld_clobbers', 'byref_aliases_exactly',
            'byval_aliases_nothing', 'fresh_locals', 'byval_temps_distinct', 'params_one_cell_each', 'param_slot_is_position',
            'param_reads_its_argument', 'local_behind_params', 'whole_record_sizing_was_wrong']
CT = real.CellType
TC = values.TYPE_CHAR
TYPES = values.TYPES


# ------------------------------------------------------------------ declaration shapes

def gen_types(rng):
    """-> (lines, {name: [(field, typename)]}) with nesting; typename is a builtin or an earlier record"""
    n = rng.randint(1, 3)
    types = {}
    lines = []
    for i in range(n):
        name = f'rt{i}'
        fields = []
        for j in range(rng.randint(1, 4)):
            if types and rng.random() < 0.35:
                ft = rng.choice(list(types))
            else:
                ft = rng.choice(TYPES)
            fields.append((f'f{j}', ft))
        types[name] = fields
        lines += [f'TYPE {name}'] + [f'  {f} AS {t}' for f, t in fields] + ['END TYPE']
    return lines, types


def bound_text(rng, n):
    """a constant array bound written as text: mostly the integer itself, sometimes a fractional constant that ROUNDS to it
    (DIM a(3.5) has the upper bound 4, DIM a(-0.6 TO 2) the lower bound -1; ties go to the even neighbour)"""
    if rng.random() < 0.8:
        return str(n)
    forms = [f'{n - 0.4:.1f}', f'{n + 0.4:.1f}', f'{n + 0.25}']
    if n % 2 == 0:
        forms += [f'{n + 0.5}', f'{n - 0.5}', f'({2 * n + 1} / 2)']
    else:
        forms += [f'({2 * n + 1} / 2 - 0.75)']
    t = rng.choice(forms)
    return t if not t.startswith('-') else f'({t})'


def gen_decl(rng, types, idx, allow_dyn=False, bias=None):
    """-> (name, declaration text, shape) ; shape = ('s', type) | ('a', type, dims) ; type = builtin name or record name.
    bias = a record type name: most declarations become arrays of that record (search mode)"""
    r = rng.random()
    if bias is not None and rng.random() < 0.6:
        rank = rng.choice([1, 1, 2])
        dims = []
        for _ in range(rank):
            lo = rng.choice([0, 1, -3, 10, -1])
            dims.append((lo, lo + rng.randint(0, 3)))
        name = f'av{idx}'
        dtxt = ', '.join(f'{bound_text(rng, lo)} TO {bound_text(rng, hi)}' for lo, hi in dims)
        return name, f'DIM {name}({dtxt}) AS {bias}', ('a', bias, dims)
    if r < 0.3:
        t = rng.choice(TYPES)
        return f'sv{idx}{TC[t]}', None, ('s', t)
    if r < 0.45 and types:
        t = rng.choice(list(types))
        return f'rv{idx}', f'DIM rv{idx} AS {t}', ('s', t)
    t = rng.choice(TYPES + list(types) if types else TYPES)
    rank = rng.choice([1, 1, 2, 2, 3])
    dims = []
    for _ in range(rank):
        lo = rng.choice([0, 1, -3, 10, -1])
        dims.append((lo, lo + rng.randint(0, 2)))
    name = f'av{idx}' + (TC[t] if t in TYPES else '')
    dtxt = ', '.join(f'{bound_text(rng, lo)} TO {bound_text(rng, hi)}' for lo, hi in dims)
    decl = f'DIM {name}({dtxt})' + (f' AS {t}' if t not in TYPES else '')
    return name, decl, ('a', t, dims)


def ftype_tokens(tname, types):
    if tname in TYPES:
        return ['C']
    fs = types[tname]
    out = ['R', str(len(fs))]
    for _, ft in fs:
        out += ftype_tokens(ft, types)
    return out


def qtype_tokens(ty, ctx):
    """real expr.Type -> model VType tokens"""
    def ft(t):
        if t.is_builtin:
            return ['C']
        st = ctx.user_types[t.name if not t.is_array else t.array_base_type.name]
        out = ['R', str(len(st.fields))]
        for f in st.fields.values():
            out += ft(f)
        return out
    if ty.is_array:
        if not ty.is_static_array:
            return ['Y']
        dims = []
        for d in ty.array_dims:
            dims += [str(d.static_lbound), str(d.static_ubound)]
        return ['A'] + ft(ty.array_base_type) + [str(len(ty.array_dims))] + dims
    return ['V'] + ft(ty)


def leaf_paths(tname, types):
    """all (path names, path indices, builtin type) of a record/builtin type"""
    if tname in TYPES:
        return [([], [], tname)]
    out = []
    for i, (f, ft) in enumerate(types[tname]):
        for (pn, pi, bt) in leaf_paths(ft, types):
            out.append(([f] + pn, [i] + pi, bt))
    return out


# ------------------------------------------------------------------ sentinel programs

def sentinel_program(rng, search=False):
    """-> (source, expected output text).  Every location gets a distinct value; reads come back in another order."""
    tlines, types = gen_types(rng)
    ndecl = rng.randint(2, 6)
    where = rng.choice(['main', 'sub', 'static', 'shared', 'param', 'param'])
    bias = rng.choice(list(types)) if search and types else None
    decls = [gen_decl(rng, types, i, bias=bias) for i in range(ndecl)]
    locs = []     # (lvalue text, builtin type)
    for name, decl, shape in decls:
        if shape[0] == 's':
            for (pn, _, bt) in leaf_paths(shape[1], types):
                locs.append((name + ''.join('.' + p for p in pn), bt))
        else:
            _, t, dims = shape
            import itertools
            idxs = list(itertools.product(*[range(lo, hi + 1) for lo, hi in dims]))
            rng.shuffle(idxs)
            for ix in idxs[:6]:
                base = f'{name}({", ".join(map(str, ix))})'
                for (pn, _, bt) in leaf_paths(t, types):
                    locs.append((base + ''.join('.' + p for p in pn), bt))
    if len(locs) > 28:
        rng.shuffle(locs)
        locs = locs[:28]
    # values
    vals = {}
    k = 0
    for lv, bt in locs:
        k += 1
        if rng.random() < 0.15:
            continue                       # never assigned: must read 0 / ""
        if bt == 'STRING':
            vals[lv] = f's{k}'
        elif bt in ('SINGLE', 'DOUBLE'):
            vals[lv] = k + 0.5
        else:
            vals[lv] = k
    writes = [lv for lv, _ in locs if lv in vals]
    rng.shuffle(writes)
    reads = list(locs)
    rng.shuffle(reads)
    body = []
    for name, decl, shape in decls:
        if decl:
            d = decl
            if where == 'shared':
                d = d.replace('DIM ', 'DIM SHARED ', 1)
            body.append(d)
    shared_scalars = [n for n, d, s in decls if d is None] if where == 'shared' else []
    wl = []
    for lv in writes:
        v = vals[lv]
        wl.append(f'{lv} = "{v}"' if isinstance(v, str) else f'{lv} = {v}')
    rl = []
    exp = ''
    # reading twice: the first read of an unset location must not disturb anything
    for lv, bt in reads + reads[:5]:
        v = vals.get(lv, '' if bt == 'STRING' else 0)
        if bt == 'STRING':
            rl.append(f'PRINT "[" + {lv} + "]"')
            exp += f'[{v}]\r\n'
        else:
            rl.append(f'PRINT {lv}')
            exp += format_number(v, CT[bt]) + ' \r\n'
    if where == 'main':
        src = tlines + body + wl + rl
    elif where == 'param':
        # declared in main, every variable handed to a SUB as a parameter (scalars, whole records, whole arrays, arrays of
        # records): the SUB writes through its parameters and reads some back, main reads everything afterwards
        ren = {}
        plist, args = [], []
        for k, (name, decl, shape) in enumerate(decls):
            if shape[0] == 's' and shape[1] in TYPES:
                pn = f'q{k}{TC[shape[1]]}'
                plist.append(pn)
                args.append(name)
            elif shape[0] == 's':
                pn = f'q{k}'
                plist.append(f'{pn} AS {shape[1]}')
                args.append(name)
            elif shape[1] in TYPES:
                pn = f'q{k}{TC[shape[1]]}'
                plist.append(f'{pn}()')
                args.append(f'{name}()')
            else:
                pn = f'q{k}'
                plist.append(f'{pn}() AS {shape[1]}')
                args.append(f'{name}()')
            ren[name] = pn

        def tr(line):
            for name, pn in ren.items():
                line = line.replace(name, pn)
            return line
        order = list(range(len(plist)))
        rng.shuffle(order)
        head = ', '.join(plist[i] for i in order)
        call = ', '.join(args[i] for i in order)
        nsub = rng.randint(0, min(6, len(rl)))
        sub_reads = rl[:nsub]
        exp_lines = exp.split('\r\n')
        exp = '\r\n'.join(exp_lines[:nsub] + exp_lines)
        src = tlines + body + [f'CALL w({call})'] + rl + ['END', f'SUB w({head})'] + ['  ' + tr(l) for l in wl + sub_reads] + ['END SUB']
    elif where in ('sub', 'static'):
        st = ' STATIC' if where == 'static' else ''
        src = tlines + ['CALL p', 'END', f'SUB p{st}'] + ['  ' + l for l in body + wl + rl] + ['END SUB']
    else:
        # declared SHARED in main, written in one SUB, read in another (scalars without DIM stay local to main: skip them)
        keep = lambda l: not any(l.startswith(s) or (' ' + s) in l or ('"' not in l and s in l) for s in shared_scalars)  # noqa: E731
        wl2 = [l for l in wl if keep(l)]
        pairs = [(l, lb) for l, lb in zip(rl, (reads + reads[:5])) if keep(l)]
        exp = ''
        for l, (lv, bt) in pairs:
            v = vals.get(lv, '' if bt == 'STRING' else 0)
            if lv not in [w.split(' = ')[0] for w in wl2]:
                v = '' if bt == 'STRING' else 0
            exp += (f'[{v}]\r\n' if bt == 'STRING' else format_number(v, CT[bt]) + ' \r\n')
        src = tlines + body + ['CALL w', 'CALL r', 'END', 'SUB w'] + ['  ' + l for l in wl2] + ['END SUB', 'SUB r'] + \
            ['  ' + l for l, _ in pairs] + ['END SUB']
    return '\n'.join(src) + '\n', exp


def alias_program(rng):
    """by-reference vs by-value arguments, recursion with fresh locals, STATIC persistence"""
    t = rng.choice(TYPES)
    tc = TC[t]
    lit = (lambda k: f'"v{k}"') if t == 'STRING' else (lambda k: str(k))
    show = (lambda k: f'[v{k}]\r\n') if t == 'STRING' else (lambda k: format_number(k, CT[t]) + ' \r\n')
    pr = (lambda x: f'PRINT "[" + {x} + "]"') if t == 'STRING' else (lambda x: f'PRINT {x}')
    kind = rng.choice(['scalar', 'elem', 'field'])
    pre = []
    if kind == 'scalar':
        a = f'x{tc}'
    elif kind == 'elem':
        lo = rng.choice([0, -2, 5])
        pre = [f'DIM arr{tc}({lo} TO {lo + 2})']
        a = f'arr{tc}({lo + 1})'
    else:
        pre = ['TYPE rr', '  g AS LONG', f'  h AS {t}', '  i AS LONG', 'END TYPE', 'DIM rec AS rr']
        a = 'rec.h'
    depth = rng.randint(1, 3)
    if t == 'STRING':
        idforms = [f'{a} + ""', f'"" + {a}']
    else:
        idforms = rng.sample([f'{a} + 0', f'0 + {a}', f'+{a}', f'1 * {a}', f'{a} * 1', f'{a} - 0', f'-(-{a})', f'{a} \\ 1' if t in ('INTEGER', 'LONG') else f'{a} / 1'], 4)
    src = pre + [
        f'{a} = {lit(1)}',
        f'nb1& = 111',
        f'CALL setit({a})', pr(a),                 # by reference: changed to 2
        f'CALL setit(({a}))', pr(a),               # parenthesised: copy, still 2
    ] + [line for form in idforms for line in (f'CALL setit3({form})', pr(a))] + [   # an expression argument aliases nothing
        f'CALL rec1({depth})',
        'CALL cnt', 'CALL cnt', 'CALL cnt',
        'PRINT nb1&',
        'END',
        f'SUB setit(p{tc})', f'  p{tc} = {lit(2)}', 'END SUB',
        f'SUB setit3(p{tc})', f'  p{tc} = {lit(3)}', 'END SUB',
        'SUB rec1(d%)',
        '  lcl& = lcl& + d%',                      # fresh local: 0 + d
        '  IF d% > 1 THEN CALL rec1(d% - 1)',
        '  PRINT lcl&',
        'END SUB',
        'SUB cnt STATIC', '  c& = c& + 1', '  PRINT c&', 'END SUB',
    ]
    exp = show(2) + show(2) + show(2) * len(idforms)
    for d in range(1, depth + 1):
        exp += format_number(d, CT.LONG) + ' \r\n'
    for c in (1, 2, 3):
        exp += format_number(c, CT.LONG) + ' \r\n'
    exp += format_number(111, CT.LONG) + ' \r\n'
    return '\n'.join(src) + '\n', exp


def run_one(t):
    src, exp, cfgs = t
    out = []
    for (o, g) in cfgs:
        st = real.try_compile(src, o, g)
        if st[0] != 'ok':
            out.append((o, g, 'compile', f'{st[0]} {type(st[1]).__name__}: {st[1]}'))
            continue
        r = real.run_bytes(st[2])
        text = real.text_of(r.trace)
        out.append((o, g, 'run', text, r.outcome))
    return out


def layout_case(t):
    """compile a declaration-only program and dump the real layout answers with the model requests"""
    src, types = t
    st = real.try_compile(src, 0, False)
    if st[0] != 'ok':
        return ('compile', f'{st[0]} {type(st[1]).__name__}: {st[1]}')
    code = st[1]
    comp = code.compilation
    reqs, exp = [], []
    for r in comp.routines.values():
        decls = list(r.params.items()) + list(r.local_vars.items())
        toks = []
        for n, ty in decls:
            toks += [n] + qtype_tokens(ty, comp)
        # the model is given the declared types; that a parameter takes one cell whatever it refers to is the model's
        # statement (Layout.routineFrame), compared here with memlayout
        total = get_params_size(r) + get_local_vars_size(r)
        for n, ty in decls:
            reqs.append(f'layout ridx {n} {len(r.params)} ' + ' '.join(toks))
            exp.append(f'{get_local_var_idx(r, n)} {total}')
    gdecls = list(comp.global_vars.items())
    toks = []
    for n, ty in gdecls:
        toks += [n] + qtype_tokens(ty, comp)
    total = sum(get_type_size(comp, ty) for _, ty in gdecls)
    for n, ty in gdecls:
        reqs.append('layout vidx ' + n + ' ' + ' '.join(toks))
        exp.append(f'{get_global_var_idx(comp, n)} {total}')
    # record fields: every path
    from qbee.expr import Type, BuiltinType
    for tname in types:
        base = Type(BuiltinType.USER_DEFINED, user_type_name=tname, is_array=False, array_dims=None, is_nodim_array=False)
        for (pn, pi, bt) in all_paths(tname, types):
            reqs.append('layout foff ' + ' '.join(ftype_tokens(tname, types)) + ' ' + ' '.join(map(str, pi)))
            exp.append(f'{get_dotted_index(base, pn, comp)} {get_type_size(comp, base)}')
    return ('ok', reqs, exp)


def all_paths(tname, types):
    """every field path (not only leaves)"""
    out = []
    if tname in TYPES:
        return out
    for i, (f, ft) in enumerate(types[tname]):
        out.append(([f], [i], ft))
        for (pn, pi, bt) in all_paths(ft, types):
            out.append(([f] + pn, [i] + pi, bt))
    return out


def arridx_cases(rng, n):
    """the real _exec_arridx on a frame with a real header vs the model's elemIndex"""
    code = real.compile_src('END\n')
    b = bytes(code)
    reqs, exp = [], []
    for _ in range(n):
        rank = rng.choice([1, 2, 3])
        esize = rng.choice([1, 1, 2, 3, 5])
        dims = []
        for _ in range(rank):
            lo = rng.choice([0, 1, -3, 10, -1, 100])
            dims.append((lo, lo + rng.randint(0, 3)))
        idxs = [rng.randint(lo - 1, hi + 1) if rng.random() < 0.2 else rng.randint(lo, hi) for lo, hi in dims]
        if rng.random() < 0.05:
            idxs = idxs[:-1] if len(idxs) > 1 else idxs + [0]
        mod = real.QModule.parse(b)
        m = real.QvmMachine(mod, impl=real.RecImpl())
        cpu = m.cpu
        from qvm.cpu import CallFrame
        base = rng.randint(0, 4)
        size = 1
        for lo, hi in dims:
            size *= hi - lo + 1
        fr = CallFrame(base + 3 + 2 * rank + size * esize + 2, None, 0, 0)
        cpu.cur_frame = fr
        for lo, hi in dims:
            cpu.push(CT.LONG, lo)
            cpu.push(CT.LONG, hi)
        cpu._exec_initarrl(base, rank, esize)
        for ix in idxs:
            cpu.push(CT.LONG, ix)
        cpu.push(CT.REFERENCE, real_ref(fr, base))
        try:
            cpu._exec_arridx(len(idxs))
            ref = cpu.stack[-1].value
            res = str(ref.index - base)
        except real.Trapped as e:
            res = 'none'
        reqs.append('layout eidx %d %d %s %d %s' % (esize, rank, ' '.join(f'{lo} {hi}' for lo, hi in dims), len(idxs),
                                                   ' '.join(map(str, idxs))))
        exp.append(res)
    return reqs, exp


def real_ref(seg, idx):
    from qvm.cell import Reference
    return Reference(segment=seg, index=idx)


def run(chk):
    rng = chk.rng
    chk.regen_and_build(LEAN_MODULE)
    chk.audit(LEAN_MODULE, REQUIRED)
    dist = {}
    # ---- (a) layout functions vs the model
    nshape = chk.n(60, 1200)
    tasks = []
    for i in range(nshape):
        tlines, types = gen_types(rng)
        decls = [gen_decl(rng, types, j) for j in range(rng.randint(1, 8))]
        main = [d for _, d, _ in decls[: len(decls) // 2 + 1] if d]
        sub = [d for _, d, _ in decls[len(decls) // 2 + 1:] if d]
        scal_main = [f'{n} = {n}' for n, d, s in decls[: len(decls) // 2 + 1] if d is None]
        scal_sub = [f'{n} = {n}' for n, d, s in decls[len(decls) // 2 + 1:] if d is None]
        plist = []
        for k in range(rng.randint(0, 4)):
            r_ = rng.random()
            if r_ < 0.5:
                plist.append(f'pp{k}{TC[rng.choice(TYPES)]}')
            elif r_ < 0.75:
                plist.append(f'pp{k} AS {rng.choice(list(types))}')
            elif r_ < 0.9:
                plist.append(f'pp{k}{TC[rng.choice(TYPES)]}()')
            else:
                plist.append(f'pp{k}() AS {rng.choice(list(types))}')
        params = ', '.join(plist)
        shared = 'DIM SHARED sh1(1 TO 2) AS LONG\nDIM SHARED sh2 AS STRING\n' if rng.random() < 0.5 else ''
        src = '\n'.join(tlines + main + scal_main) + '\n' + shared + f'END\nSUB q' + (f'({params})' if params else '') + (' STATIC' if rng.random() < 0.3 else '') + \
            '\n' + '\n'.join(sub + scal_sub) + '\nEND SUB\n'
        tasks.append((src, types))
    res = real.pmap(lambda t: real.big_frame(lambda: layout_case(t)), tasks) if False else [layout_case(t) for t in tasks]
    reqs, exp = [], []
    for (src, types), r in zip(tasks, res):
        if r[0] != 'ok':
            chk.finding('C04 declaration program not accepted', r[1], {'kind': 'decl', 'src': src})
            continue
        reqs += r[1]
        exp += r[2]
    chk.corr('memlayout', reqs, exp)
    dist['declaration_sets'] = nshape
    dist['layout_queries'] = len(reqs)
    ra, ea = arridx_cases(rng, chk.n(1500, 30000))
    chk.corr('arridx', ra, ea)
    dist['arridx_cases'] = len(ra)
    dist['arridx_out_of_range'] = sum(1 for e in ea if e == 'none')

    # ---- (b) sentinel and aliasing programs on the real VM
    nprog = chk.n(80, 1500)
    progs_ = []
    for i in range(nprog):
        src, exp_ = sentinel_program(rng) if rng.random() < 0.75 else alias_program(rng)
        cfgs = real.CONFIGS if chk.thorough() else [real.CONFIGS[(i + chk.seed) % 6], real.CONFIGS[(i + 2 + chk.seed) % 6]]
        progs_.append((src, exp_, cfgs))
    outs = real.pmap(lambda t: real.big_frame(lambda: run_one(t)), progs_) if False else real.pmap(run_one, progs_)
    nrun = 0
    for (src, exp_, cfgs), rs in zip(progs_, outs):
        for r in rs:
            nrun += 1
            if r[2] == 'compile':
                chk.finding('C04 sentinel program not accepted', r[3], {'kind': 'program', 'src': src, 'O': r[0], 'g': r[1]})
            elif r[3] != exp_ or r[4][0] != 'end':
                # locate the first differing line
                a, b = r[3].split('\r\n'), exp_.split('\r\n')
                k = next((i for i, (x, y) in enumerate(zip(a, b)) if x != y), min(len(a), len(b)))
                chk.finding('C04 a location does not read back what was stored (overlap, leak or alias)',
                            f'line {k}: got {a[k] if k < len(a) else None!r}, expected {b[k] if k < len(b) else None!r}; outcome {r[4]}',
                            {'kind': 'program', 'src': src, 'O': r[0], 'g': r[1], 'expected': exp_})
    # a proof obligation / the correspondence broke but no sentinel run failed yet: search with biased shapes
    rounds = 0
    while chk.broken and not chk.violations and rounds < chk.n(3, 8):
        rounds += 1
        chk.say(f'search round {rounds}: sentinel programs biased to several arrays of one record type')
        more = []
        for i in range(300):
            src, exp_ = sentinel_program(rng, search=True)
            more.append((src, exp_, [real.CONFIGS[i % 6]]))
        for (src, exp_, cfgs), rs in zip(more, real.pmap(run_one, more)):
            for r in rs:
                nrun += 1
                if r[2] == 'run' and (r[3] != exp_ or r[4][0] != 'end'):
                    a, b = r[3].split('\r\n'), exp_.split('\r\n')
                    k = next((i for i, (x, y) in enumerate(zip(a, b)) if x != y), min(len(a), len(b)))
                    chk.finding('C04 a location does not read back what was stored (overlap, leak or alias)',
                                f'line {k}: got {a[k] if k < len(a) else None!r}, expected {b[k] if k < len(b) else None!r}; outcome {r[4]}',
                                {'kind': 'program', 'src': src, 'O': r[0], 'g': r[1], 'expected': exp_})
    dist['sentinel_runs'] = nrun
    chk.samples += [{'program': progs_[0][0], 'expected': progs_[0][1]}, {'layout_request': reqs[0] if reqs else None, 'real': exp[0] if exp else None}]
    chk.cov['input_distribution'] = dist
    return chk.finish(
        level='proof', level_text='',
        trusted_base=['Lean 4.33.0 kernel', 'axioms: ' + ', '.join(sorted({a for v in chk.theorems.values() for a in v})),
                      'correspondence harness harness/checks/c04.py (memlayout, _exec_arridx, sentinel programs)'],
        checker_cmd='lake build QbeeModel.Props.C04 && lake env lean .lake/audit/Audit_C04.lean',
        rule='random declaration sets (scalars, arrays rank 1-3 with arbitrary bounds, records, nested records, arrays of '
             'records; main / SUB / STATIC / SHARED / parameters); sentinel programs writing a distinct value to every '
             'location in one random order and reading back in another; non-trivial = a layout query on a set with >= 2 '
             'declarations or a sentinel run; distinct by request text / source',
        extra={'evaluations': len(reqs) + len(ra) + nrun, 'distinct_nontrivial': len(set(reqs)) + len({p[0] for p in progs_})})


def replay(data):
    r = data['replay']
    if r['kind'] == 'program':
        print(run_one((r['src'], r.get('expected', ''), [(r['O'], r['g'])])))
    else:
        print(real.try_compile(r['src'], 0, False)[:2])
    return 0
