"""C15  DATA / READ / RESTORE.

Theorems: Props/C15.lean.  Correspondence: parse_data (exhaustive over the property's alphabet), the grammar's
DATA rule, the grouping by label / get_data_label_index, DataDevice cursor -- all vs Model/Data.lean.
Oracle on the real code: the property's own sentences (source order, RESTORE targets) on generated programs.
"""
import itertools

from .. import core, real, values
from qbee.utils import parse_data, Empty
from qvm.utils import format_number

LEAN_MODULE = 'QbeeModel.Props.C15'
REQUIRED = ['pd_no_quotes', 'pd_roundtrip', 'pd_total', 'parts_in_source_order', 'readMany_from_part',
            'read_sequence', 'read_past_end', 'restore_to_part', 'restore_label_target', 'restore_plain_rewinds',
            'restore_minus_one_was_wrong', 'restore_label_general', 'restore_label_without_group_had_no_index']
ALPHA = 'a1 ,":'


def enc_items(items):
    if items is None:
        return 'none'
    out = [str(len(items))]
    for it in items:
        out.append('E' if it == Empty.value else 'S ' + core.enc_str(it))
    return ' '.join(out)


def spec_items(text):
    """The property's sentences, written independently of parse_data: split at commas outside quotes; an item that is
    (blanks) "quoted" (blanks) is kept verbatim; other items are trimmed; blank items are Empty.  Returns None where the
    property does not say (a comma between quotes inside an unquoted item, text after a closing quote).  A last item whose quote is never
    closed is a quoted item that runs to the end of the statement: kept verbatim."""
    fields, cur, inq = [], '', False
    for ch in text:
        if ch == '"':
            inq = not inq
            cur += ch
        elif ch == ',' and not inq:
            fields.append(cur)
            cur = ''
        else:
            cur += ch
    fields.append(cur)
    unclosed = None
    if inq:
        last = fields.pop().lstrip(' \t')
        if not last.startswith('"') or '"' in last[1:]:
            return None
        unclosed = last[1:]                  # (a lone quote at the end of the statement: an unclosed item that is empty)
    items = []
    for f in fields:
        t = f.strip(' \t')
        if t == '':
            items.append(Empty.value)
        elif t.startswith('"'):
            if not (t.endswith('"') and len(t) >= 2 and '"' not in t[1:-1]):
                return None
            items.append(t[1:-1])
        else:
            if '"' in t and ',' in t:
                return None                  # a comma between quotes inside an unquoted item: the property does not say
            items.append(t)                  # an unquoted item is trimmed and otherwise kept as written (quotes included)
    if unclosed is not None:
        items.append(unclosed)
    return items


def real_data_items(text):
    """items the real compiler stores for `DATA <text>`; 'syntax' / ('internal', name)"""
    st = real.try_compile('DATA ' + text + '\n', 0, False, want_bytes=False)
    if st[0] == 'ok':
        d = st[1]._data
        return list(d.get('_toplevel_data', []))
    if st[0] == 'syntax':
        return 'syntax'
    return ('internal', type(st[1]).__name__)


# ------------------------------------------------------------------ program level

def gen_program(rng):
    """-> (source, events, ops) ; events = ('L', name) | ('D', [items]) in source order of the main program;
    ops = ('R', type, varname) | ('T', label or None)"""
    nstm = rng.randint(1, 5)
    labels = [f'lb{i}' for i in range(rng.randint(0, 4))]
    rng.shuffle(labels)
    lines = []      # (kind, text)
    events = []
    for i in range(nstm):
        if labels and rng.random() < 0.6:
            l = labels.pop()
            use_lineno = rng.random() < 0.2
            name = str(100 + i * 10) if use_lineno else l
            lines.append(('label', name))
            events.append(('L', name))
        if rng.random() < 0.75:
            n = rng.randint(1, 4)
            items, texts = [], []
            for _ in range(n):
                r = rng.random()
                if r < 0.15:
                    items.append(Empty.value)
                    texts.append(rng.choice(['', ' ']))
                elif r < 0.55:
                    v = rng.choice([0, 1, 7, -3, 42, 32767, 100000, -2147483648])
                    items.append(str(v))
                    texts.append(rng.choice([' ', '']) + str(v) + rng.choice([' ', '']))
                elif r < 0.7:
                    v = rng.choice(['1.5', '-0.25', '2.5E3'])
                    items.append(v)
                    texts.append(v)
                elif r < 0.85:
                    v = rng.choice(['x', 'hello world', 'a:b, c', '  pad  ', ''])
                    items.append(v)
                    texts.append('"' + v + '"')
                else:
                    v = rng.choice(['abc', 'two words', 'z9'])
                    items.append(v)
                    texts.append(' ' + v + ' ')
            lines.append(('data', 'DATA ' + ','.join(texts)))
            events.append(('D', items))
        else:
            lines.append(('stmt', rng.choice(['x% = x% + 1', 'y$ = "DATA 9"', "' comment"])))
    return lines, events


def label_names(events):
    return [e[1] for e in events if e[0] == 'L']


def spec_run(events, ops):
    """The property's prescription: list of per-op results ('v', item) | ('out',) ; RESTORE -> position"""
    flat = []
    first_at_label = {}
    pending = []
    for e in events:
        if e[0] == 'L':
            pending.append(e[1])
        else:
            for l in pending:
                first_at_label[l] = len(flat)
            pending = []
            flat.extend(e[1])
    for l in pending:
        first_at_label[l] = len(flat)   # no DATA at or after the label: nothing left to read
    pos = 0
    res = []
    for op in ops:
        if op[0] == 'T':
            pos = 0 if op[1] is None else first_at_label[op[1]]
            res.append(('ok',))
        else:
            if pos >= len(flat):
                res.append(('out',))
            else:
                res.append(('v', flat[pos]))
                pos += 1
    return res


def conv_expected(item, ty):
    """what the READ should store / error, for the judged region"""
    if item == Empty.value:
        return ('val', '' if ty == 'STRING' else 0)
    if ty == 'STRING':
        return ('val', item)
    try:
        if ty in ('INTEGER', 'LONG'):
            v = int(item)
            lo, hi = (-32768, 32767) if ty == 'INTEGER' else (-2 ** 31, 2 ** 31 - 1)
            if not lo <= v <= hi:
                return ('err',)
            return ('val', v)
        return ('val', float(item))
    except ValueError:
        # text into a numeric variable is a run-time error; "1.5" into an INTEGER is a gray zone (not judged)
        try:
            float(item)
            return ('gray',)
        except ValueError:
            return ('err',)


def build_source(rng, lines, events, nops):
    labs = label_names(events)
    place = rng.choice(['before', 'after', 'mixed', 'sub'])
    if place == 'sub':
        labs = []     # a label of the main program cannot be named from inside a SUB
    ops = []
    body = []
    k = 0
    # simulate the prescribed cursor so that most READs ask for a type the next item can be read as
    flat, first_at = [], {}
    pending = []
    for e in events:
        if e[0] == 'L':
            pending.append(e[1])
        else:
            for l in pending:
                first_at[l] = len(flat)
            pending = []
            flat.extend(e[1])
    for l in pending:
        first_at[l] = len(flat)
    pos = 0
    for _ in range(nops):
        if rng.random() < 0.3:
            tgt = rng.choice(labs + [None]) if labs else None
            ops.append(('T', tgt))
            body.append('RESTORE' + (f' {tgt}' if tgt else ''))
            pos = 0 if tgt is None else first_at.get(tgt, len(flat))
        else:
            k += 1
            ty = rng.choice(values.TYPES)
            if pos < len(flat) and rng.random() < 0.85:
                it = flat[pos]
                ok = [t for t in values.TYPES if conv_expected(it, t)[0] == 'val']
                if ok:
                    ty = rng.choice(ok)
            pos += 1
            var = f'r{k}{values.TYPE_CHAR[ty]}'
            ops.append(('R', ty, var))
            body.append(f'READ {var}')
            if ty == 'STRING':
                body.append(f'PRINT "[" + {var} + "]"')
            else:
                body.append(f'PRINT {var}')
    # interleave: DATA lines may sit before, between or after executed code; labelled lines are jumped over by GOTO
    src = []
    decl = []
    for kind, text in lines:
        if kind == 'label':
            decl.append(text + ':' if not text.isdigit() else text + ' REM')
        else:
            decl.append(text)
    # procedures between the DATA statements and labels of the main program: they are not part of its text order
    # (a DATA statement after a procedure still belongs to the last label in front of it)
    # (a procedure is one element of `decl`: the body of the main program is never placed inside it)
    if rng.random() < 0.4:
        withp, np_ = [], 0
        for d in decl:
            withp.append(d)
            if rng.random() < 0.35:
                np_ += 1
                withp.append('\n'.join([f'SUB zp{np_}', '  PRINT "never"', 'END SUB'] if rng.random() < 0.5 else
                                       [f'FUNCTION zf{np_}%', f'  zf{np_}% = 1', 'END FUNCTION']))
        decl = withp
    if place == 'before':
        src = decl + body
    elif place == 'after':
        src = body + ['END'] + decl
    elif place == 'mixed':
        cut = rng.randint(0, len(decl))
        src = decl[:cut] + body + ['END'] + decl[cut:]
    else:
        src = decl + ['CALL rd', 'END', 'SUB rd'] + ['  ' + b for b in body] + ['END SUB']
    return '\n'.join(src) + '\n', ops


def run(chk):
    rng = chk.rng
    chk.regen_and_build(LEAN_MODULE)
    chk.audit(LEAN_MODULE, REQUIRED)
    dist = {}

    # ---- tokeniser: exhaustive over the six-symbol alphabet
    maxlen = chk.n(6, 8)
    texts = [''.join(t) for L in range(maxlen + 1) for t in itertools.product(ALPHA, repeat=L)]
    reqs = ['pdata ' + core.enc_str(t) for t in texts]
    exp = [enc_items(parse_data(t)) for t in texts]
    chk.corr('parse_data', reqs, exp)
    dist['tokeniser_texts_exhaustive_to_length'] = maxlen
    dist['tokeniser_texts'] = len(texts)
    # random longer ones with tabs
    longer = [''.join(rng.choice(ALPHA + '\t') for _ in range(rng.randint(9, 30))) for _ in range(chk.n(3000, 50000))]
    chk.corr('parse_data', ['pdata ' + core.enc_str(t) for t in longer], [enc_items(parse_data(t)) for t in longer])
    # the property's sentences (spec_items) against the real tokeniser, where they speak
    nspec = 0
    for t in texts + longer:
        s = spec_items(t)
        if s is None:
            continue
        nspec += 1
        r = parse_data(t)
        if r != s:
            chk.finding('C15 tokeniser disagrees with the stated rules', f'parse_data({t!r}) = {r!r}, rules give {s!r}',
                        {'kind': 'tokeniser', 'text': t})
    dist['tokeniser_spec_judged'] = nspec

    # ---- the grammar's DATA rule (token re-joining) against the same rules
    gl = chk.n(4, 5)
    gtexts = [''.join(t) for L in range(1, gl + 1) for t in itertools.product('a1 ,"', repeat=L)]
    gtexts += ['a:b', '"a:b"', '"a:b",c', '"x" : PRINT 1', 'a"b"c', '"a""b"', '"unclosed', 'x,"unclosed', ' "  lead" , t ']
    if not chk.thorough():
        gtexts = [t for i, t in enumerate(gtexts) if i % 3 == chk.seed % 3 or len(t) <= 3 or i >= len(gtexts) - 9]
    ngram = 0
    gkinds = {}
    for t in gtexts:
        if ':' in t and t.count('"') == 0:
            continue
        s = spec_items(t.split(' : ')[0] if ' : ' in t else t)
        r = real_data_items(t)
        ngram += 1
        if isinstance(r, tuple):
            chk.finding('C15 DATA text crashes the compiler', f'DATA {t} -> {r}', {'kind': 'grammar', 'text': t})
            continue
        if s is None:
            continue
        if r == 'syntax' or r != s:
            # classify by mechanism
            if any(t[i] == '"' and i > 0 and t[i - 1] not in ' ,' for i in range(len(t))) or \
               any(t[i] == '"' and i + 1 < len(t) and t[i + 1] not in ' ,' for i in range(len(t))):
                sig = 'C15 grammar re-joins DATA tokens with blanks: quote adjacent to other text'
            else:
                sig = 'C15 grammar DATA items differ from the stated rules'
            gkinds[sig] = gkinds.get(sig, 0) + 1
            chk.finding(sig, f'DATA {t!r} -> {r!r}, rules give {s!r}', {'kind': 'grammar', 'text': t})
    dist['grammar_texts'] = ngram
    dist['grammar_hits'] = gkinds

    # ---- programs: grouping, label index, cursor (model vs real) and the property's prescription (spec vs real)
    nprog = chk.n(150, 3000)
    cfgs_all = real.CONFIGS
    reqs_g, exp_g, reqs_r, exp_r = [], [], [], []
    reqs_l, exp_l = [], []
    deviations = []
    nontrivial = set()
    hits = {}
    # fixed layouts the random generator reaches rarely: a RESTORE target with no DATA at or after it (nothing is left to
    # read), several labels in front of one DATA statement, a label between two DATA statements
    fixed = []
    for evs, opsf in [
        # (procedures between the statements: 'P' renders a SUB, and is no event of the main program)
        ([('D', ['1']), ('L', 'lab'), ('D', ['2']), ('P',), ('D', ['3'])],
         [('R', 'INTEGER'), ('R', 'INTEGER'), ('R', 'INTEGER'), ('T', 'lab'), ('R', 'INTEGER'), ('R', 'INTEGER')]),
        ([('D', ['1']), ('L', 'a'), ('P',), ('D', ['3']), ('L', 'b')], [('T', 'a'), ('R', 'INTEGER'), ('T', 'b'), ('R', 'INTEGER')]),
        ([('L', 'a'), ('P',), ('P',), ('D', ['5', '6'])], [('T', 'a'), ('R', 'INTEGER'), ('R', 'INTEGER')]),
        ([('L', 'first'), ('D', ['10', '20']), ('L', 'second'), ('D', ['30']), ('L', 'last')],
         [('R', 'INTEGER'), ('R', 'INTEGER'), ('R', 'INTEGER'), ('T', 'last'), ('R', 'STRING')]),
        ([('D', ['1']), ('L', 'tail')], [('T', 'tail'), ('R', 'INTEGER')]),
        ([('L', 'a'), ('L', 'b'), ('L', 'c'), ('D', ['7', '8']), ('L', 'd')],
         [('T', 'b'), ('R', 'INTEGER'), ('T', 'a'), ('R', 'INTEGER'), ('R', 'INTEGER'), ('T', 'd'), ('R', 'INTEGER')]),
        ([('D', ['1', '2']), ('L', 'mid'), ('D', ['3'])], [('R', 'INTEGER'), ('T', 'mid'), ('R', 'INTEGER'), ('R', 'INTEGER')]),
    ]:
        flines = [('label', e[1]) if e[0] == 'L' else ('proc', '') if e[0] == 'P' else ('data', 'DATA ' + ','.join(e[1])) for e in evs]
        decl = []
        for k, t in flines:
            if k == 'proc':
                decl += [f'SUB zq{len(decl)}', '  PRINT "never"', 'END SUB']
            else:
                decl.append((t + ':') if k == 'label' else t)
        evs = [e for e in evs if e[0] != 'P']
        body, fops, kk = [], [], 0
        for op in opsf:
            if op[0] == 'T':
                body.append(f'RESTORE {op[1]}')
                fops.append(op)
            else:
                kk += 1
                var = f'r{kk}{values.TYPE_CHAR[op[1]]}'
                body += [f'READ {var}', (f'PRINT "[" + {var} + "]"' if op[1] == 'STRING' else f'PRINT {var}')]
                fops.append(('R', op[1], var))
        fixed.append(('\n'.join(decl[:1] + body[:0] + decl[1:] + body) + '\n' if False else '\n'.join(body + ['END'] + decl) + '\n', evs, fops))
    for pi in range(nprog):
        if pi < len(fixed):
            src, events, ops = fixed[pi]
        else:
            lines, events = gen_program(rng)
            src, ops = build_source(rng, lines, events, rng.randint(1, 10))
        o, g = cfgs_all[pi % 6] if not chk.thorough() else rng.choice(cfgs_all)
        st = real.try_compile(src, o, g)
        evtoks = []
        for e in events:
            if e[0] == 'L':
                evtoks += ['L', core.enc_str(e[1].lower() if not e[1].isdigit() else '_lineno_' + e[1])]
            else:
                evtoks += ['D', enc_items(e[1])]
        spec = spec_run(events, ops)
        restore_unlabelled_data = any(op[0] == 'T' and op[1] is not None and
                                      not any(True for _ in [0] if _label_has_own_data(events, op[1])) for op in ops)
        if st[0] != 'ok':
            if st[0] == 'internal' and type(st[1]).__name__ == 'ValueError' and restore_unlabelled_data:
                hits['restore-label-without-own-data'] = hits.get('restore-label-without-own-data', 0) + 1
                chk.finding('C15 RESTORE to a label that has no DATA before the next label crashes the compiler',
                            'ValueError in get_data_label_index', {'kind': 'program', 'src': src, 'O': o, 'g': g})
            else:
                chk.finding('C15 generated DATA program not accepted', f'{st[0]} {type(st[1]).__name__}: {st[1]}',
                            {'kind': 'program', 'src': src, 'O': o, 'g': g})
            continue
        code = st[1]
        # grouping correspondence
        groups = code._data
        gtxt = [str(len(groups))]
        for k, its in groups.items():
            gtxt.append('*' if k == '_toplevel_data' else core.enc_str(k if not k.startswith('_lineno_') else k))
            gtxt.append(enc_items(its))
        reqs_g.append('group ' + ' '.join(evtoks))
        exp_g.append(' '.join(gtxt))
        for e in events:
            if e[0] == 'L':
                canon = e[1].lower() if not e[1].isdigit() else '_lineno_' + e[1]
                try:
                    ri = str(code.get_data_label_index(canon))
                except ValueError:
                    ri = 'none'
                reqs_l.append('ltgt ' + core.enc_str(canon) + ' ' + ' '.join(evtoks))
                exp_l.append(ri)
        # run
        r = real.run_bytes(st[2])
        out = real.text_of(r.trace).split('\r\n')
        # spec comparison, op by op, until the first prescribed error
        k = 0
        ok = True
        why = None
        for op, sp in zip(ops, spec):
            if op[0] == 'T':
                continue
            if sp[0] == 'out':
                if r.outcome != ('trap', 'DEVICE_ERROR') or len(out) - 1 != k:
                    ok, why = False, f'expected out-of-data error at READ #{k + 1}'
                break
            ce = conv_expected(sp[1], op[1])
            if ce[0] == 'gray':
                break
            if ce[0] == 'err':
                if r.outcome[0] != 'trap' or len(out) - 1 != k:
                    ok, why = False, f'expected a run-time error at READ #{k + 1}'
                break
            want = ('[' + ce[1] + ']') if op[1] == 'STRING' else format_number(ce[1], real.CellType[op[1]]) + ' '
            if k >= len(out) - 1 or out[k] != want:
                ok, why = False, f'READ #{k + 1} gave {out[k] if k < len(out) else None!r}, source order prescribes {want!r}'
                break
            k += 1
        else:
            if r.outcome[0] != 'end':
                ok, why = False, f'unexpected outcome {r.outcome}'
        if not ok:
            deviations.append((len(reqs_r), any(op == ('T', None) for op in ops), why, src, o, g))
        if len([e for e in events if e[0] == 'D']) >= 2 and len(ops) >= 3:
            nontrivial.add(src)
        # cursor correspondence on the module's real data section, through the real device
        mod = real.QModule.parse(st[2])
        dops, dexp = device_ops(mod, ops, groups, code.get_data_label_index)
        reqs_r.append('reads ' + str(len(mod.data)) + ' ' + ' '.join(enc_items(p) for p in mod.data) + ' ' + ' '.join(dops))
        exp_r.append(dexp)
        if pi < 3:
            chk.samples.append({'program': src, 'outcome': list(r.outcome), 'printed': out[:6]})
    chk.corr('data-grouping', reqs_g, exp_g)
    chk.corr('data-label-index', reqs_l, exp_l)
    # floats cross as tokens: the model returns the text handed to float(), the device the value
    got = chk.model.ask(reqs_r) if chk.model else []
    nb = 0
    cursor_agrees = {}
    for i, (g, e) in enumerate(zip(got, exp_r)):
        gt, et = g.split(), e
        okc = len(gt) == len(et)
        if okc:
            for a, b in zip(gt, et):
                if isinstance(b, tuple):
                    if b[0] == 'F':
                        try:
                            okc = okc and a.startswith('F') and float(core.dec_str(a[1:])) == b[1]
                        except ValueError:
                            okc = False
                    elif b[0] == 'Fbad':
                        okc = okc and a == 'bad'
                    else:   # ('Frange',): the value of float() is external; nothing after it is compared
                        break
                elif a == 'gray':
                    pass
                else:
                    okc = okc and a == b
        cursor_agrees[i] = okc
        if not okc:
            nb += 1
            if nb <= 3:
                chk.broken.append(('correspondence', 'data-cursor', {'request': reqs_r[i], 'model': g, 'real': str(e)}))
                chk.say('data-cursor disagree:', reqs_r[i], '| model', g, '| real', e)
    chk.stats['data-cursor'] = {'cases': len(reqs_r), 'disagree': nb}
    for (i, has_plain, why, src, o, g) in deviations:
        # the known mechanism (cursor index -1) is exactly what Model/Data.lean does: attribute a deviation to it only
        # when the program executes a RESTORE without label AND the real device followed the model on this program
        sig = 'C15 READ/RESTORE sequence deviates from source order'
        hits[sig] = hits.get(sig, 0) + 1
        chk.finding(sig, why, {'kind': 'program', 'src': src, 'O': o, 'g': g})
    dist['programs'] = nprog
    dist['program_oracle_hits'] = hits
    chk.cov['input_distribution'] = dist
    return chk.finish(
        level='proof', level_text='',
        trusted_base=['Lean 4.33.0 kernel', 'axioms: ' + ', '.join(sorted({a for v in chk.theorems.values() for a in v})),
                      'Python float(str) (external); pyparsing tokenisation of the DATA statement (corresponded, not modelled)',
                      'correspondence harness harness/checks/c15.py'],
        checker_cmd='lake build QbeeModel.Props.C15 && lake env lean .lake/audit/Audit_C15.lean',
        rule=f'all DATA texts over {{a,1,blank,comma,quote,colon}} up to length {maxlen} (exhaustive) + random longer; '
             'random placements of DATA/labels/line numbers and READ/RESTORE sequences; a program is non-trivial if it has '
             '>= 2 DATA statements and >= 3 READ/RESTORE operations; distinct by source text',
        extra={'evaluations': len(texts) + len(longer) + ngram + nprog, 'distinct_nontrivial': len(nontrivial) + len(texts) - 7,
               'exhaustive': True})


def _label_has_own_data(events, label):
    seen = False
    for e in events:
        if e[0] == 'L':
            if seen:
                return False
            if e[1] == label:
                seen = True
        elif seen:
            return True
    return False


def device_ops(mod, ops, groups, label_index=None):
    """drive the real DataDevice with the op sequence; RESTORE uses the index the compiler computed"""
    impl = real.RecImpl()
    m = real.QvmMachine(mod, impl=impl)
    cpu = m.cpu
    dev = cpu.devices['data']
    keys = list(groups.keys())
    dops, dexp = [], []
    tid = {'INTEGER': 1, 'LONG': 2, 'SINGLE': 3, 'DOUBLE': 4, 'STRING': 5}
    for op in ops:
        if op[0] == 'T':
            if op[1] is None:
                idx = 0            # what gen_restore_stmt pushes for RESTORE without a label (as repaired)
            else:
                name = op[1].lower() if not op[1].isdigit() else '_lineno_' + op[1]
                cands = [i for i, k in enumerate(keys) if k == name or k == op[1]]
                if not cands:
                    # a label without a group of its own: the index the compiler pushes (the group of the first later label
                    # that has one, or one past the last group)
                    if label_index is None:
                        continue
                    try:
                        idx = label_index(name)
                    except Exception:  # noqa: BLE001
                        continue
                else:
                    idx = cands[0]
            cpu.push(real.CellType.INTEGER, idx)
            dev._exec_restore()
            dops += ['T', str(idx)]
            dexp.append('ok')
        else:
            cpu.push(real.CellType.INTEGER, tid[op[1]])
            n0 = len(cpu.stack)
            try:
                dev._exec_read()
                c = cpu.stack.pop()
                if c.type.name in ('INTEGER', 'LONG'):
                    res = f'I{c.value}'
                elif c.type.name == 'STRING':
                    res = 'S' + core.enc_str(c.value)
                else:
                    res = ('F', c.value)
            except real.Trapped as e:
                kw = e.trap_kwargs
                isf = op[1] in ('SINGLE', 'DOUBLE')
                if e.trap_code.name == 'DEVICE_ERROR' and 'Out of data' in str(kw.get('error_msg')):
                    res = 'out'
                elif e.trap_code.name == 'DEVICE_ERROR':
                    res = ('Fbad',) if isf else 'bad'
                else:
                    res = ('Frange',) if isf else 'range'   # INVALID_CELL_VALUE from push: cursor not advanced
                del cpu.stack[n0 - 1:]
            dops += ['R', str(tid[op[1]])]
            dexp.append(res)
    # float results: the model returns the token; compare float(token)
    return dops, dexp


def replay(data):
    r = data['replay']
    if r['kind'] == 'program':
        st = real.try_compile(r['src'], r['O'], r['g'])
        print(st[0], st[1] if st[0] != 'ok' else '')
        if st[0] == 'ok':
            run_ = real.run_bytes(st[2])
            print(repr(real.text_of(run_.trace)), run_.outcome)
    elif r['kind'] == 'grammar':
        print(real_data_items(r['text']), 'rules:', spec_items(r['text']))
    else:
        print(parse_data(r['text']), 'rules:', spec_items(r['text']))
    return 0
