"""C10  ON ERROR, RESUME and RESUME NEXT follow statement-level semantics.

Theorems: Props/C10.lean over Model/Tick.lean (armed dispatch for any error in any instruction, ERR kinds, RESUME
re-executes, RESUME NEXT continues, ON ERROR RESUME NEXT skips, ON ERROR GOTO 0 restores default reporting).
Correspondence: every tick of every handler program is recorded on the real QvmCpu and replayed through the model
(same lock-step recorder as C07).
Oracle ("as if the failed statement had not been started"): a program P with statements failing on purpose and a handler
is compared with its straight-line reference R, in which each failing statement is replaced by what the handler does
(and, for RESUME, by the repaired statement): P and R must produce the same device interactions and outcome at every
optimisation level, and end with the same operand-stack depth.
"""
from .. import sdepth, core, real, tickrec

LEAN_MODULE = 'QbeeModel.Props.C10'
REQUIRED = ['armed_dispatch', 'armed_dispatch_from_procedure', 'err_reports_kind', 'resume_reexecutes', 'resume_next_continues', 'on_error_resume_next_skips',
            'on_error_goto_0_restores', 'boundary_depth_formula', 'gosub_keeps_boundary', 'return_keeps_boundary', 'body_keeps_frames',
            'failed_statement_leaves_nothing', 'failing_statements_do_not_accumulate', 'completed_statement_keeps_boundary', 'handler_starts_at_boundary', 'partial_results_stayed_before_repair', 'lazy_refines_eager', 'lazy_handled_depth']

FIXES = 'z% = 1 : k% = 1 : o% = 0 : c% = 65 : f$ = "##"'
# (assignment that makes it fail, statement, ERR value, name, leaves partial results on the operand stack: every PRINT has
# pushed its item-kind code, every call its earlier arguments, when the failing operand is evaluated)
TEMPLATES = [
    ('z% = 0', 'PRINT 10 \\ z%', 14, 'DIVISION_BY_ZERO', True),
    ('z% = 0', 'PRINT 1; 10 \\ z%; 2', 14, 'DIVISION_BY_ZERO', True),
    ('z% = 0', 'w% = 1 + (2 * (30 \\ z%))', 14, 'DIVISION_BY_ZERO', True),
    ('z% = 0', 'PRINT 7 MOD z%', 14, 'DIVISION_BY_ZERO', True),
    ('z% = 0', 'PRINT 1 / z%', 14, 'DIVISION_BY_ZERO', True),
    ('z% = 0', 'PRINT 2# / z%', 14, 'DIVISION_BY_ZERO', True),
    ('k% = 5', 'PRINT arr%(k%)', 11, 'INDEX_OUT_OF_RANGE', True),
    ('k% = 5', 'PRINT 1; arr%(k%); 2', 11, 'INDEX_OUT_OF_RANGE', True),
    ('k% = -1', 'arr%(k%) = 3', 11, 'INDEX_OUT_OF_RANGE', True),
    ('o% = 1', 'w% = 32767 + o%', 10, 'INVALID_CELL_VALUE', False),
    ('o% = 1', 'PRINT "a"; 32767 + o%', 10, 'INVALID_CELL_VALUE', True),
    ('o% = 1', 'w& = 2147483647 + o%', 10, 'INVALID_CELL_VALUE', False),
    ('c% = 300', 'PRINT CHR$(c%)', 9, 'INVALID_OPERAND_VALUE', True),
    ('c% = 300', 'x$ = "ab" + CHR$(c%)', 9, 'INVALID_OPERAND_VALUE', True),
    ('c% = -1', 'PRINT SPACE$(c%); "|"', 9, 'INVALID_OPERAND_VALUE', True),
    ('z% = 0', 'CALL show(10 \\ z%)', 14, 'DIVISION_BY_ZERO', True),
    ('z% = 0', 'PRINT twice%(10 \\ z%)', 14, 'DIVISION_BY_ZERO', True),
    ('f$ = "abc_"', 'PRINT USING f$; 5', 3, 'DEVICE_ERROR', True),
    ('f$ = "&"', 'PRINT USING f$; 5', 3, 'DEVICE_ERROR', True),
    # the statement has called a procedure (whose own statements started at other depths) before it fails
    ('z% = 0', 'w% = twice%(3) + (10 \\ z%)', 14, 'DIVISION_BY_ZERO', True),
    ('z% = 0', 'PRINT twice%(1); twice%(2) + 1 \\ z%; 3', 14, 'DIVISION_BY_ZERO', True),
    ('k% = 7', 'CALL show(twice%(2) + arr%(k%))', 11, 'INDEX_OUT_OF_RANGE', True),
    ('c% = 400', 'x$ = STR$(twice%(4)) + CHR$(c%)', 9, 'INVALID_OPERAND_VALUE', True),
]
OKS = ['PRINT "s{n}"', 'w% = {n}', 'PRINT w%; {n}', 'x$ = x$ + "{n}"', 'PRINT x$', 'CALL show({n})', 'PRINT twice%({n})', 'arr%(1) = {n}',
       'PRINT arr%(1); arr%(2)']
TAIL = '''SUB show (v%)
  PRINT "show"; v%
END SUB
FUNCTION twice% (v%)
  twice% = v% * 2
END FUNCTION
SUB bad (m%)
  DIM la%(2)
  IF m% = 1 THEN PRINT 5 \\ (m% - 1)
  IF m% = 2 THEN PRINT la%(m% + 5)
  IF m% = 3 THEN PRINT CHR$(m% + 300)
  PRINT "bad returns"
END SUB
'''
HEAD = 'DIM arr%(3)\nz% = 1 : k% = 1 : o% = 0 : c% = 65 : w% = 0\nx$ = "" : f$ = "##"\n'
BAD_ERR = {1: (14, 'DIVISION_BY_ZERO'), 2: (11, 'INDEX_OUT_OF_RANGE'), 3: (9, 'INVALID_OPERAND_VALUE')}


def gen_case(rng, mode=None, allow_deep=True):
    """-> (P, R, info).  Items are (kind, text): the layout (blocks, colon joins) is shared by P and R."""
    mode = mode or rng.choice(['next', 'resume', 'skip', 'goto0', 'proc', 'procnext', 'procresume'])
    n = rng.randint(2, 7)
    items = []          # ('ok', stmt) | ('fail', brk, stmt, err, name, deep)
    nfail = 0
    for i in range(n):
        if rng.random() < 0.45:
            while True:
                t = rng.choice(TEMPLATES)
                if allow_deep or not t[4]:
                    break
            items.append(('fail',) + t)
            nfail += 1
        else:
            items.append(('ok', rng.choice(OKS).format(n=i)))
    if nfail == 0:
        items.insert(rng.randint(0, len(items)), ('fail',) + TEMPLATES[0])
    cut = None
    if mode == 'goto0':
        cut = rng.randint(0, len(items) - 1)
        if not any(it[0] == 'fail' for it in items[cut:]):
            items.append(('fail',) + rng.choice(TEMPLATES))
    if mode in ('proc', 'procnext', 'procresume'):
        which = rng.randint(1, 3)
        pos = rng.randint(0, len(items))
        items.insert(pos, ('bad', which))
        if mode != 'proc' and rng.random() < 0.5:
            items.insert(rng.randint(0, len(items)), ('bad', rng.randint(1, 3)))
    p, r = [], []
    halted_with = None
    # optional block around a run of items
    blk = rng.choice([None, None, 'for', 'if', 'gosub', 'select', 'do', 'line', 'lineelse']) if not mode.startswith('proc') else None
    blk_from = rng.randint(0, len(items) - 1) if blk else None
    blk_to = rng.randint(blk_from, len(items) - 1) if blk else None
    if cut is not None and blk and blk_from <= cut <= blk_to:
        blk = None
    gos_p, gos_r = [], []
    armed = True

    def emit(pl, rl, idx, it):
        nonlocal halted_with, armed
        if cut is not None and idx == cut and armed:
            pl.append('ON ERROR GOTO 0')
            armed = False
        if it[0] == 'ok':
            pl.append(it[1])
            rl.append(it[1])
        elif it[0] == 'bad' and mode == 'procnext':
            # an error inside a procedure is accounted to the module-level CALL: RESUME NEXT goes on after it
            pl.append(f'CALL bad({it[1]})')
            rl.append(f'PRINT "H"; {BAD_ERR[it[1]][0]}')
        elif it[0] == 'bad' and mode == 'procresume':
            # ... and RESUME runs the CALL again (the handler has made it harmless)
            pl.append(f'bm% = {it[1]}')
            pl.append('CALL bad(bm%)')
            rl.append(f'PRINT "H"; {BAD_ERR[it[1]][0]}')
            rl.append('CALL bad(0)')
        elif it[0] == 'bad':
            pl.append(f'CALL bad({it[1]})')
            rl.append(f'PRINT "H"; {BAD_ERR[it[1]][0]}')
            rl.append('END')
        else:
            _, brk, st, err, name, deep = it
            pl.append(brk)
            rl.append(brk)
            if not armed:
                pl.append(st)
                rl.append(f'REM fatal {name}')
                rl.append('END')
                if halted_with is None:
                    halted_with = name
            elif mode in ('next', 'proc', 'procnext'):
                pl.append(st)
                rl.append(f'PRINT "H"; {err}')
            elif mode == 'goto0':
                pl.append(st)
                rl.append(f'PRINT "H"; {err}')
            elif mode in ('resume', 'procresume'):
                pl.append(st)
                rl.append(f'PRINT "H"; {err}')
                rl.append(FIXES)
                rl.append(st)
            elif mode == 'skip':
                pl.append(st)
    for idx, it in enumerate(items):
        if blk and idx == blk_from:
            if blk == 'for':
                p.append('FOR i% = 1 TO 2')
                r.append('FOR i% = 1 TO 2')
            elif blk == 'if':
                p.append('IF 1 THEN')
                r.append('IF 1 THEN')
            elif blk == 'select':
                for q in (p, r):
                    q += ['SELECT CASE w% * 0 + 4', 'CASE 1 TO 2', '  PRINT "no"', 'CASE 3, 4, 5']
            elif blk == 'do':
                for q in (p, r):
                    q += ['DO']
            elif blk in ('line', 'lineelse'):
                line_p, line_r = [], []
            elif blk == 'gosub':
                p.append('GOSUB body')
                r.append('GOSUB body')
                p.append('PRINT "after gosub"')
                r.append('PRINT "after gosub"')
        inblk = blk and blk_from <= idx <= blk_to
        if inblk and blk == 'gosub':
            emit(gos_p, gos_r, idx, it)
        elif inblk and blk in ('line', 'lineelse'):
            emit(line_p, line_r, idx, it)
        elif inblk:
            a, b = [], []
            emit(a, b, idx, it)
            p += ['  ' + x for x in a]
            r += ['  ' + x for x in b]
        else:
            emit(p, r, idx, it)
        if blk and idx == blk_to:
            if blk == 'for':
                p.append('NEXT')
                r.append('NEXT')
            elif blk == 'if':
                p.append('END IF')
                r.append('END IF')
            elif blk == 'select':
                for q in (p, r):
                    q += ['CASE ELSE', '  PRINT "else"', 'END SELECT']
            elif blk == 'do':
                for q in (p, r):
                    q += ['LOOP UNTIL w% = w%']
            elif blk in ('line', 'lineelse'):
                # a single-line IF: every statement of the run on one line, in the THEN or in the ELSE part
                head = 'IF z% + 2 THEN ' if blk == 'line' else 'IF z% * 0 THEN PRINT "no" ELSE '
                p.append(head + ' : '.join(line_p))
                r.append(head + ' : '.join(x for x in line_r if not x.startswith('REM')))
    # colon-join some adjacent simple statements identically in both (only outside blocks, same indices impossible:
    # P and R differ in length) - so join inside each separately but only 'ok' pairs that are equal in both
    on = {'next': 'ON ERROR GOTO h', 'resume': 'ON ERROR GOTO h', 'skip': 'ON ERROR RESUME NEXT', 'goto0': 'ON ERROR GOTO h',
          'proc': 'ON ERROR GOTO h', 'procnext': 'ON ERROR GOTO h', 'procresume': 'ON ERROR GOTO h'}[mode]
    handler = {'next': ['h: PRINT "H"; ERR', 'RESUME NEXT'], 'goto0': ['h: PRINT "H"; ERR', 'RESUME NEXT'],
               'resume': ['h: PRINT "H"; ERR', FIXES, 'RESUME'], 'skip': [],
               'proc': ['h: PRINT "H"; ERR', 'END'], 'procnext': ['h: PRINT "H"; ERR', 'RESUME NEXT'],
               'procresume': ['h: PRINT "H"; ERR', FIXES + ' : bm% = 0', 'RESUME']}[mode]
    if mode == 'proc':
        # the handler ends the program at the first error, whichever it is
        rr = []
        for line in r:
            rr.append(line)
            if line.strip().startswith('PRINT "H";'):
                rr.append('END')
                break
        r = rr
    if rng.random() < 0.3:
        p = join_some(rng, p)
    P = HEAD + on + '\n' + '\n'.join(p) + '\nPRINT "end"\nEND\n' + \
        ('body:\n' + '\n'.join(gos_p) + '\nRETURN\n' if blk == 'gosub' else '') + '\n'.join(handler) + '\n' + TAIL
    R = HEAD + '\n'.join(r) + '\nPRINT "end"\nEND\n' + \
        ('body:\n' + '\n'.join(gos_r) + '\nRETURN\n' if blk == 'gosub' else '') + TAIL
    return P, R, {'mode': mode, 'fatal': halted_with, 'block': blk, 'nfail': nfail,
                  'deep': any(it[0] == 'fail' and it[5] for it in items)}


def join_some(rng, lines):
    """join adjacent unindented simple statements with ' : ' (RESUME NEXT must continue on the same line)"""
    out = []
    for l in lines:
        simple = not l.startswith((' ', 'FOR', 'NEXT', 'IF', 'END IF', 'GOSUB', 'SELECT', 'CASE', 'END SELECT', 'DO', 'LOOP')) and not l.endswith(':')
        if out and simple and rng.random() < 0.5 and not out[-1].startswith((' ', 'FOR', 'NEXT', 'IF', 'END IF', 'ON ERROR', 'SELECT', 'CASE', 'END SELECT', 'DO', 'LOOP')) \
                and not out[-1].startswith('REM'):
            out[-1] = out[-1] + ' : ' + l
        else:
            out.append(l)
    return out


def task(t):
    return real.big_frame(lambda: _task(t))


def _task(t):
    P, R, o = t
    out = {}
    for name, src in (('P', P), ('R', R)):
        st = real.try_compile(src, o, True)
        if st[0] != 'ok':
            out[name] = {'status': st[0], 'err': str(st[1])[:100]}
            continue
        if name == 'P':
            r = tickrec.record(st[2], max_ticks=6000)
            out[name] = {'status': 'ok', 'outcome': r['outcome'], 'trace': r['trace'], 'depth': r['depth'], 'steps': r['steps']}
            sd = sdepth.record(st[2], max_ticks=6000)
            out[name]['sdepth'] = None if sd is None else sd[:3]
        else:
            r = real.run_bytes(st[2], max_ticks=6000)
            out[name] = {'status': 'ok', 'outcome': r.outcome, 'trace': r.trace, 'depth': r.stack_depth}
    return out


STACK_SIG = 'C10 partial results of the failed statement remain on the operand stack after resuming'


def run(chk):
    rng = chk.rng
    chk.regen_and_build(LEAN_MODULE)
    chk.audit(LEAN_MODULE, REQUIRED)
    ncase = chk.n(150, 3000)
    tasks, infos = [], []
    fixed_modes = ['next', 'resume', 'skip', 'goto0', 'proc', 'procnext', 'procresume']
    for i in range(ncase):
        mode = fixed_modes[i % 7] if i < 35 else None
        P, R, info = gen_case(rng, mode)
        tasks.append((P, R, i % 3))
        infos.append(info)
    # the stack defect repaired in 20d68b9 made visible: a failing statement with partial results inside a GOSUB body
    probe_p = HEAD + 'ON ERROR GOTO h\nGOSUB body\nPRINT "after gosub"\nPRINT "end"\nEND\nbody:\nk% = 5\nPRINT 1; arr%(k%); 2\nRETURN\n' \
        'h: PRINT "H"; ERR\nRESUME NEXT\n' + TAIL
    probe_r = HEAD + 'GOSUB body\nPRINT "after gosub"\nPRINT "end"\nEND\nbody:\nk% = 5\nPRINT "H"; 11\nRETURN\n' + TAIL
    tasks.append((probe_p, probe_r, 0))
    infos.append({'mode': 'next', 'probe': True, 'deep': True, 'fatal': None, 'block': 'gosub', 'nfail': 1})
    # a failing ELSEIF condition: RESUME evaluates the condition again (the statement, not the jump in front of it)
    for which, fix, after in (('z%', 'z% = 1', 'elseif'), ('z%', 'z% = -1', 'elseif'), ('k%', 'k% = 1', 'else')):
        cond = '2 \\ z%' if which == 'z%' else 'arr%(k%) > 0'
        bad = 'z% = 0' if which == 'z%' else 'k% = 9'
        blk = f'IF w% = 5 THEN\n  PRINT "if"\nELSEIF {cond} THEN\n  PRINT "elseif"\nELSE\n  PRINT "else"\nEND IF\n'
        ep = HEAD + f'ON ERROR GOTO h\n{bad}\n' + blk + 'PRINT "end"\nEND\n' + f'h: PRINT "H"; ERR\n{fix}\nRESUME\n' + TAIL
        er = HEAD + f'{bad}\nPRINT "H"; {14 if which == "z%" else 11}\n{fix}\n' + blk + 'PRINT "end"\nEND\n' + TAIL
        tasks.append((ep, er, 0))
        infos.append({'mode': 'resume', 'probe': True, 'deep': False, 'fatal': None, 'block': 'elseif', 'nfail': 1})
    res = real.pmap(task, tasks)
    reqs, exp, meta = [], [], []
    modes = {}
    ncmp = 0
    nontriv = set()
    for (P, R, o), info, out in zip(tasks, infos, res):
        p, r = out.get('P'), out.get('R')
        if p is None or r is None or p['status'] != 'ok' or r['status'] != 'ok':
            chk.broken.append(('harness', 'c10-program-rejected', {'P': P, 'R': R, 'p': p and p.get('err'), 'r': r and r.get('err')}))
            chk.say('generated program rejected:', (p or {}).get('err'), (r or {}).get('err'))
            continue
        ncmp += 1
        modes[info['mode']] = modes.get(info['mode'], 0) + 1
        for (q, e) in p['steps']:
            reqs.append(q)
            exp.append(e)
            meta.append((P, o))
        want_outcome = r['outcome'] if not info['fatal'] else ('trap', info['fatal'])
        rep = {'kind': 'pair', 'P': P, 'R': R, 'O': o, 'info': info}
        if len(p['steps']) > 30:
            nontriv.add(P)
        same = (p['trace'] == r['trace'] and p['outcome'] == want_outcome)
        if not same:
            if info['deep'] and info.get('probe'):
                chk.finding(STACK_SIG, f'GOSUB body probe: with handler {real.text_of(p["trace"])!r} {p["outcome"]}, reference '
                            f'{real.text_of(r["trace"])!r} {want_outcome}', rep)
            else:
                chk.finding(f'C10 behaviour with the handler differs from the reference program (mode {info["mode"]})',
                            f'-O{o}: with handler {real.text_of(p["trace"])[-120:]!r} {p["outcome"]}; reference '
                            f'{real.text_of(r["trace"])[-120:]!r} {want_outcome}', rep)
        elif p['depth'] != r['depth'] and not info['fatal'] and info['mode'] != 'proc':
            if info['deep']:
                chk.finding(STACK_SIG, f'final operand-stack depth {p["depth"]} with the handler, {r["depth"]} in the reference', rep)
            else:
                chk.finding('C10 operand-stack depth differs after resuming although no partial result was pending',
                            f'final depth {p["depth"]} vs {r["depth"]}', rep)
    chk.corr('tick', reqs, exp, describe=lambda i: {'src': meta[i][0][:300], 'O': meta[i][1]})
    # the operand stack across handled errors: the machine's bookkeeping (depth noted at statement starts, dropped when an
    # error is handled) against Model/StmtDepth.lean, event by event
    sreq, sexp, smeta, nhandled = [], [], [], 0
    for (P, R, o), out in zip(tasks, res):
        sd = (out.get('P') or {}).get('sdepth')
        if sd:
            sreq.append(sd[0])
            sexp.append(sd[1])
            smeta.append((P, o))
            nhandled += sd[2]
    chk.corr('stmt-depth', sreq, sexp, describe=lambda i: {'src': smeta[i][0][:400], 'O': smeta[i][1]})
    chk.stats['stmt-depth']['handled_errors'] = nhandled
    chk.samples += [{'program': tasks[i][0][:400], 'reference': tasks[i][1][:400], 'info': infos[i]} for i in (0, 1, 2) if i < len(tasks)]
    chk.cov['input_distribution'] = {'pairs': ncmp, 'modes': modes, 'ticks_corresponded': len(reqs),
                                     'with_partial_results': sum(1 for i in infos if i['deep']),
                                     'in_block': {b: sum(1 for i in infos if i['block'] == b) for b in ('for', 'if', 'gosub')}}
    return chk.finish(
        level='proof', level_text='',
        trusted_base=['Lean 4.33.0 kernel', 'axioms: ' + ', '.join(sorted({a for v in chk.theorems.values() for a in v})),
                      'find_stmt (C11) supplies the statement range to the tick model as a parameter',
                      'the clause "none of its partial results remain" is not a theorem: it is checked by the reference-program '
                      'oracle (final operand-stack depth, and a GOSUB body whose RETURN would take a partial result for its address); '
                      'repaired in 20d68b9',
                      'correspondence harness harness/checks/c10.py, harness/tickrec.py'],
        checker_cmd='lake build QbeeModel.Props.C10 && lake env lean .lake/audit/Audit_C10.lean',
        rule='handler programs (RESUME NEXT, RESUME after repair, ON ERROR RESUME NEXT, ON ERROR GOTO 0, errors inside procedures) '
             'with 1-7 statements failing by division, overflow, subscript, argument value or device error at several expression '
             'depths, inside FOR / IF / GOSUB bodies and colon-joined lines, levels 0-2 with -g; non-trivial = more than 30 ticks; '
             'distinct by source',
        extra={'evaluations': ncmp, 'distinct_nontrivial': len(nontriv)})


def replay(data):
    r = data['replay']
    out = _task((r['P'], r['R'], r['O']))
    for k in ('P', 'R'):
        x = out[k]
        print(k, x['status'], x.get('outcome'), x.get('depth'), repr(real.text_of(x.get('trace', [])))[:300])
    return 0
