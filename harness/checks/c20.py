"""C20  compilation and execution are deterministic.

Theorems: Props/C20.lean - `current_tree_deterministic` (decided by the kernel over the effect summary REGENERATED from the
Python AST of /repo on every run: harness/effects.py -> Gen/Effects.lean) and `summary_sound` (a computation whose non-read
actions are all reported gives the same output after any history, under any hash seed / clock / set order).
Tie: the translator; a new process-wide write, order-sensitive set use or ambient read breaks the build of the theorem.
Search: the same programs compiled and run in separate processes under different PYTHONHASHSEED values, working
directories and histories of earlier compilations (valid and failing) - sections 1-4, listing, device trace, outcome and
instruction count must be identical to the reference process.
"""
import json
import os
import subprocess
import tempfile

from .. import core, real, progs, effects

LEAN_MODULE = 'QbeeModel.Props.C20'
REQUIRED = ['current_tree_deterministic', 'summary_sound', 'quiet_of_covers', 'quiet_run', 'history_keeps_shared']

SPECIAL = [
    'DEFINT A-Z\nDEFSTR S\nDEFDBL D-F\nx = 5: s = "a": d = 1.5\nPRINT x; s; d\n',
    'DEFLNG A-M\nDEFSNG N-Z\n' + ''.join(f'{c}{c} = {i}\n' for i, c in enumerate('abcdefghijklmnopqrstuvwxyz')) + 'PRINT aa; zz\n',
    ''.join(f'l{i}: PRINT {i}\n' for i in range(30)) + 'GOTO l7\n',
    ''.join(f'SUB p{i}\nPRINT {i}\nEND SUB\n' for i in range(12)) + ''.join(f'CALL p{i}\n' for i in range(12)),
    'TYPE t\n a AS INTEGER\n b AS STRING\n c AS DOUBLE\nEND TYPE\nDIM v AS t\nv.a = 1: v.b = "x": v.c = 2.5\nPRINT v.a; v.b; v.c\n',
    'DATA 1, "two", 3.5\nREAD a, b$, c\nPRINT a; b$; c\nRANDOMIZE 5\nPRINT RND; TIMER\n',
    'CONST a = 1\nCONST b$ = "k"\nDIM SHARED g\nSTATIC\nPRINT a; b$\n',
]
FAILING = ['PRINT 1 +\n', 'x$ = 1\n', 'GOTO nowhere\n', 'NEXT\n', 'DEFINT A-\n', 'IF 1 THEN\n', 'DIM a(1)\nDIM a(2)\n']


def worker(job, hashseed, cwd):
    env = dict(os.environ)
    env['PYTHONHASHSEED'] = str(hashseed)
    env['VERIF_DIR'] = core.VERIF
    env['PYTHONPATH'] = core.REPO + os.pathsep + env.get('PYTHONPATH', '')
    p = subprocess.run(['/venv/bin/python', os.path.join(core.VERIF, 'harness', 'c20_worker.py')], input=json.dumps(job), text=True,
                       stdout=subprocess.PIPE, stderr=subprocess.PIPE, env=env, cwd=cwd, timeout=3000)
    if p.returncode != 0:
        raise core.Infra('c20 worker failed: ' + p.stderr[-1500:])
    return json.loads(p.stdout)


def run(chk):
    rng = chk.rng
    chk.regen_and_build(LEAN_MODULE)
    chk.audit(LEAN_MODULE, REQUIRED)
    effs = effects.extract(core.REPO)
    flagged = [e for e in effs if not e['allowed']]
    for e in flagged:
        chk.say('effect not on the allow list:', e['kind'], f"{e['file']}:{e['line']}", e['function'], e['detail'])
    if flagged and not any(b[1] == 'current_tree_deterministic' for b in chk.broken):
        chk.broken.append(('theorem', 'current_tree_deterministic', json.dumps(flagged[:5])))
    # targets
    targets = []
    for i, src in enumerate(SPECIAL):
        targets.append({'src': src, 'O': i % 3, 'g': bool(i % 2), 'inputs': []})
    for i in range(chk.n(25, 300)):
        feats = set(progs.ALL_FEATURES) if rng.random() < 0.5 else None
        src, inputs = progs.gen_program(rng, size=rng.choice([3, 5, 8]), depth=rng.choice([1, 2]), features=feats)
        if rng.random() < 0.3:
            src = rng.choice(['DEFINT A-Z\n', 'DEFLNG I-N\nDEFDBL A-C\n', 'DEFSTR S\nDEFSNG T-Z\n']) + src
        targets.append({'src': src, 'O': i % 3, 'g': bool((i // 3) % 2), 'inputs': inputs})
    # name collisions across compilations: the same TYPE / SUB / FUNCTION / CONST / label / SHARED name used differently
    for j in range(chk.n(5, 12)):
        nf = 1 + (j % 5)
        fields = ''.join(f'  f{k} AS {rng.choice(["INTEGER", "LONG", "DOUBLE", "STRING"])}\n' for k in range(nf))
        src = (f'TYPE rec\n{fields}END TYPE\nTYPE outer\n  a AS rec\n  z AS INTEGER\nEND TYPE\nCONST k = {j}\nDIM SHARED sh{j % 2}\n'
               f'DIM p AS rec, q AS INTEGER, o AS outer, arr(2) AS rec\nq = {j + 5}: o.z = {j}: sh{j % 2} = {j}\n'
               f'CALL w({j})\nPRINT q; o.z; k; sh{j % 2}; fn%({j})\nGOTO done\ndone: PRINT "d{j}"\nEND\n'
               f'SUB w (n%)\n  PRINT "w{j}"; n% + {j}\nEND SUB\nFUNCTION fn% (n%)\n  fn% = n% * {j + 1}\nEND FUNCTION\n')
        targets.append({'src': src, 'O': j % 3, 'g': bool(j % 2), 'inputs': []})
    hist_pool = [t['src'] for t in targets] + FAILING
    from concurrent.futures import ThreadPoolExecutor
    pool = ThreadPoolExecutor(max_workers=8)
    ref_f = pool.submit(worker, {'targets': targets}, 0, core.VERIF)
    variants = []
    pending = []
    nvar = chk.n(5, 14)
    tmp = tempfile.mkdtemp(prefix='c20_')
    try:
        for v in range(nvar):
            hist = [rng.choice(hist_pool) for _ in range(rng.choice([0, 3, 10, 25]))]
            order = list(range(len(targets)))
            if v % 2:
                rng.shuffle(order)          # targets compiled in another order: each one sees a different history
            job = {'history': hist, 'hist_opt': v % 3, 'targets': [targets[i] for i in order]}
            seed = [1, 2, 12345, 4294967295, 7, 99, 2 ** 31, 31337][v % 8] if v else 0
            cwd = tmp if v % 3 == 1 else ('/' if v % 3 == 2 else core.VERIF)
            pending.append((seed, cwd, len(hist), order, pool.submit(worker, job, seed, cwd)))
        ref = ref_f.result()
        for seed, cwd, nh, order, f in pending:
            variants.append((seed, cwd, nh, order, f.result()))
    finally:
        pool.shutdown(wait=True)
        try:
            os.rmdir(tmp)
        except OSError:
            pass
    ncmp = 0
    for seed, cwd, nh, order, out in variants:
        for pos, i in enumerate(order):
            a, b = ref['results'][i], out['results'][pos]
            ncmp += 1
            rep = {'kind': 'c20', 'target': targets[i], 'hashseed': seed, 'cwd': cwd, 'history_len': nh, 'position': pos}
            if a.get('status') != b.get('status') or a.get('err') != b.get('err'):
                chk.finding('C20 acceptance or diagnostic depends on the process', f'{a.get("status")} {a.get("err")} vs {b.get("status")} {b.get("err")}', rep)
                continue
            if a['status'] != 'ok':
                continue
            if a['sections'] != b['sections']:
                which = [k + 1 for k in range(4) if a['sections'][k] != b['sections'][k]]
                chk.finding(f'C20 module sections {which} differ between processes', f'hash seed {seed}, cwd {cwd}, history {nh}', rep)
            elif a['listing'] != b['listing']:
                chk.finding('C20 assembly listing differs between processes', f'hash seed {seed}, cwd {cwd}, history {nh}', rep)
            if a['run'] != b['run']:
                chk.finding('C20 run (trace, outcome, instruction count) differs between processes', f'{a["run"]} vs {b["run"]}', rep)
            if not a['rerun_same'] or not b['rerun_same']:
                chk.finding('C20 running the same module twice in one process gives different results', '', rep)
    chk.stats['translator'] = {'cases': len(effs), 'disagree': len(flagged)}
    chk.samples += [{'effect': e} for e in effs[:3]]
    chk.cov['input_distribution'] = {'targets': len(targets), 'processes': len(variants) + 1, 'comparisons': ncmp,
                                     'hash_seeds': sorted({v[0] for v in variants}), 'effects_extracted': len(effs),
                                     'effects_by_kind': {k: sum(1 for e in effs if e['kind'] == k) for k in 'WSA'}}
    return chk.finish(
        level='proof', level_text='',
        trusted_base=['Lean 4.33.0 kernel', 'axioms: ' + ', '.join(sorted({a for v in chk.theorems.values() for a in v})),
                      'the translator harness/effects.py: syntactic extraction from the Python AST of the anchored files (no alias '
                      'analysis, no call graph, third-party code such as pyparsing not scanned) and its allow list with reasons',
                      'the abstract semantics of Model/Effects.lean (interaction trees over a shared store and two oracles)',
                      'OS-level nondeterminism and hash-order effects inside third-party code are outside the model; the '
                      'multi-process differential runs are the only evidence there'],
        checker_cmd='lake build QbeeModel.Props.C20 && lake env lean .lake/audit/Audit_C20.lean',
        rule='generated and hand-written programs (DEFtype ranges, many labels / procedures / record fields, DATA, RND / TIMER) '
             'compiled at levels 0-2 with and without -g and run twice, in separate processes under different PYTHONHASHSEED, '
             'working directory, compilation order and histories of earlier (also failing) compilations; non-trivial = a '
             'comparison of an accepted program between two processes; distinct by (program, process)',
        extra={'evaluations': ncmp, 'distinct_nontrivial': ncmp})


def replay(data):
    r = data['replay']
    a = worker({'targets': [r['target']]}, 0, core.VERIF)
    b = worker({'targets': [r['target']]}, r['hashseed'], r['cwd'] if os.path.isdir(r['cwd']) else '/')
    print(a['results'][0])
    print(b['results'][0])
    return 0
