"""C08  debug information does not change what a program does.

Theorems: Props/C08.lean (assemble (erase s) = assemble s for every symbolic stream; markers on boundaries).
Correspondence: the REAL symbolic instruction stream (markers included) of every generated module is assembled by the
Lean model and must reproduce the real code bytes; with the markers erased it must reproduce the bytes of the module
compiled without -g (levels 0 and 1, before the peephole pass touches it); marker offsets = collector's offsets.
Oracle: -g vs no -g at every level: acceptance, sections 1-3, device trace and outcome.
"""
import struct

from .. import core, real, progs
from qvm.instrs import op_to_instr

LEAN_MODULE = 'QbeeModel.Props.C08'
REQUIRED = ['assemble_erase', 'marker_on_boundary']
LABEL_OPS = ('call', 'jmp', 'jz', 'errhand')


def stream_of(code, bcode):
    """the real symbolic stream as model tokens: operand bytes are taken from the real code bytes, label operands are
    left symbolic (the model resolves them itself)"""
    toks = []
    pc = 0
    markers = []
    for ins in code._instrs:
        op, *args = ins.final
        if op == '_label':
            toks += ['K', core.enc_str(args[0])]
        elif op == '_dbg_info_start':
            toks += ['M', '0']
            markers.append(('0', pc))
        elif op == '_dbg_info_end':
            toks += ['M', '1']
            markers.append(('1', pc))
        elif op == '_empty_block':
            toks += ['M', '2']
            markers.append(('2', pc))
        else:
            desc = op_to_instr[op]
            size = 1 + sum(o.size for o in desc.operands)
            raw = bcode[pc + 1:pc + size]
            if op in LABEL_OPS and not (op == 'errhand' and args[0] in (0, 1)):
                toks += ['I', str(desc.op_code), '1', 'L', core.enc_str(str(args[0]))]
            elif raw:
                toks += ['I', str(desc.op_code), '1', 'B', raw.hex()]
            else:
                toks += ['I', str(desc.op_code), '0']
            pc += size
    return toks, markers


def erased_finals(code):
    return [repr(i.final) for i in code._instrs if not i.final[0].startswith('_dbg') and i.final[0] != '_empty_block']


def chain_programs():
    """every IF / ELSEIF chain of 1-4 arms, with and without ELSE, under every truth assignment of its conditions (arms
    overlap: more than one condition may hold), and SELECT CASE with overlapping clauses: exactly one arm may run"""
    out = []
    for k in (1, 2, 3, 4):
        for has_else in (False, True):
            for bits in range(1 << k):
                L = [f'c{i}% = {-1 if bits >> i & 1 else 0}' for i in range(k)]
                for i in range(k):
                    L.append(('IF' if i == 0 else 'ELSEIF') + f' c{i}% THEN')
                    L.append(f'  PRINT "arm{i}"')
                if has_else:
                    L += ['ELSE', '  PRINT "else"']
                L += ['END IF', 'PRINT "done"']
                out.append('\n'.join(L) + '\n')
    for v in (1, 2, 3, 9):
        for has_else in (False, True):
            L = [f'v% = {v}', 'SELECT CASE v%', 'CASE 1, 2', '  PRINT "a"', 'CASE 2 TO 3', '  PRINT "b"', 'CASE IS > 0', '  PRINT "c"']
            if has_else:
                L += ['CASE ELSE', '  PRINT "e"']
            L += ['END SELECT', 'PRINT "done"']
            out.append('\n'.join(L) + '\n')
    return out


def task(t):
    return real.big_frame(lambda: _task(t))


def _task(t):
    src, inputs, levels = t
    out = {}
    for o in levels:
        rec = {}
        for g in (False, True):
            st = real.try_compile(src, o, g)
            r = {'status': st[0]}
            if st[0] == 'ok':
                code, b = st[1], st[2]
                secs = real.split_sections(b)
                r['s123'] = (secs.get(1), secs.get(2), secs.get(3))
                r['code'] = secs.get(4)
                toks, markers = stream_of(code, secs.get(4))
                r['stream'] = ' '.join(toks)
                r['markers'] = markers
                r['finals'] = erased_finals(code)
                run = real.run_bytes(b, inputs=inputs, max_ticks=30000)
                r['outcome'] = run.outcome
                r['trace'] = run.trace
                if g:
                    # the collector's view: offsets of every statement / routine record
                    dbg = real.QModule.parse(b).debug_info
                    r['rec_offsets'] = sorted({x.start_offset for x in dbg.stmts} | {x.end_offset for x in dbg.stmts})
            else:
                r['err'] = type(st[1]).__name__
            rec[g] = r
        out[o] = rec
    return out


def run(chk):
    rng = chk.rng
    chk.regen_and_build(LEAN_MODULE)
    chk.audit(LEAN_MODULE, REQUIRED)
    nprog = chk.n(70, 1200)
    levels = [0, 1, 2] if chk.thorough() else None
    tasks = []
    special = [
        'IF 1 THEN\nEND IF\nIF 0 THEN\nELSE\nEND IF\n',
        'IF x THEN PRINT 1 ELSE PRINT 2\nIF x THEN ELSE PRINT 3\n',
        'SELECT CASE 1\nCASE 1\nCASE 2\n  SELECT CASE 2\n  CASE ELSE\n  END SELECT\nEND SELECT\n',
        'PRINT 1\nEND\nPRINT 2\nGOTO 10\n10 PRINT 3\n',
        'WHILE 0\nWEND\nDO\nLOOP UNTIL 1\nFOR i = 1 TO 0\nNEXT\n',
        'ON ERROR GOTO h\nPRINT 1 \\ 0\nPRINT "after"\nEND\nh: RESUME NEXT\n',
        'CALL p\nSUB p\nEND SUB\nFUNCTION f\nEND FUNCTION\n',
        # unreachable code behind END / GOTO with a string literal of its own (the peephole pass deletes it without -g)
        'PRINT "total"\nGOSUB addit\nEND\nPRINT "not reached"\naddit:\nPRINT "in"\nRETURN\n',
        'GOTO 10\nPRINT "skipped"; "also"\n10 PRINT "shown"\nEND\nx$ = "dead"\nPRINT x$\n',
        'CALL p\nEND\nPRINT "tail"\nSUB p\n  PRINT "p"\n  EXIT SUB\n  PRINT "after exit"\nEND SUB\n',
        # handlers that never resume (no RESUME in the text: judged), entered while the failed statement had partial results on
        # the stack: what the machine keeps for resuming (it needs the debug section) must not show
        'ON ERROR GOTO h\nGOSUB s\nPRINT "back"\nEND\ns: x = 1 + (1 \\ z%)\nPRINT "not reached"\nRETURN\nh: PRINT "h"\nRETURN\n',
        'ON ERROR GOTO h\nPRINT 1; 2 \\ z%; 3\nPRINT "after"\nEND\nh: PRINT "h"; ERR\nGOTO fin\nfin: PRINT "fin"\n',
        'ON ERROR GOTO h\nCALL p(5 + f%(1))\nPRINT "after"\nEND\nh: PRINT "h"; ERR\nEND\nSUB p (a%)\n  PRINT a%\nEND SUB\n'
        'FUNCTION f% (a%)\n  f% = 7 + (a% \\ z%)\nEND FUNCTION\n',
    ]
    special += chain_programs()
    nprog += len(special)
    for i in range(nprog):
        if i < len(special):
            src, inputs = special[i], []
        else:
            feats = None
            if rng.random() < 0.4:
                feats = set(progs.ALL_FEATURES)          # including empty blocks, single-line IF, nested SELECT
            src, inputs = progs.gen_program(rng, size=rng.choice([3, 5, 8]), depth=rng.choice([1, 2, 3]), features=feats)
        lv = levels or [0, 2] if i % 2 else levels or [1, 2]
        tasks.append((src, inputs, lv))
    res = real.pmap(task, tasks)
    reqs, exp, meta = [], [], []
    nmod = 0
    nontriv = set()
    for (src, inputs, lv), out in zip(tasks, res):
        for o, rec in out.items():
            a, b = rec[False], rec[True]
            if a['status'] != b['status']:
                chk.finding('C08 acceptance depends on the debug setting', f'-O{o}: {a["status"]} without -g, {b["status"]} with -g',
                            {'kind': 'program', 'src': src, 'O': o})
                continue
            if a['status'] != 'ok':
                continue
            nmod += 1
            if len(b['finals']) > 20:
                nontriv.add(src)
            if a['s123'] != b['s123']:
                chk.finding('C08 literal/data/global sections differ with debug info', f'-O{o}', {'kind': 'program', 'src': src, 'O': o})
            uses_resume = 'RESUME' in src.upper()
            if (a['outcome'], a['trace']) != (b['outcome'], b['trace']) and not uses_resume:
                chk.finding('C08 behaviour differs with debug info', f'-O{o}: {a["outcome"]} vs {b["outcome"]}; traces equal: {a["trace"] == b["trace"]}',
                            {'kind': 'program', 'src': src, 'O': o, 'inputs': inputs})
            if o < 2 and a['finals'] != b['finals']:
                chk.broken.append(('correspondence', 'gen-erase', {'src': src, 'O': o}))
                chk.say('gen-erase: the -g stream without markers differs from the no -g stream at -O%d: %s' % (o, src[:80].replace('\n', ' / ')))
            # the model assembles the real stream
            reqs.append('asm ' + b['stream'])
            want_erased = a['code'].hex() if o < 2 else None
            exp.append((b['code'].hex(), want_erased, ' '.join(f'{k}:{off}' for k, off in b['markers'])))
            meta.append((src, o))
            # marker offsets reach the debug records: every record boundary is a marker offset
            mo = {off for _, off in b['markers']}
            if not set(b['rec_offsets']) <= mo:
                chk.broken.append(('correspondence', 'collector-offsets', {'src': src, 'O': o}))
    got = chk.model.ask(reqs) if chk.model else []
    nb = 0
    for i, (g, (code_hex, erased_hex, marks)) in enumerate(zip(got, exp)):
        parts = g.split(' | ')
        c = parts[0].split()
        ok = len(c) == 2 and c[0] == code_hex and (erased_hex is None or c[1] == erased_hex) and \
            (parts[1].strip() if len(parts) > 1 else '') == marks
        if not ok:
            nb += 1
            if nb <= 3:
                chk.broken.append(('correspondence', 'assembler-stream', {'src': meta[i][0], 'O': meta[i][1]}))
                chk.say('assembler-stream disagree:', meta[i][0][:100].replace('\n', ' / '), 'O', meta[i][1])
    chk.stats['assembler-stream'] = {'cases': len(reqs), 'disagree': nb}
    chk.samples += [{'program': tasks[i][0][:300], 'levels': tasks[i][2]} for i in (0, 1, 7) if i < len(tasks)]
    chk.cov['input_distribution'] = {'programs': len(tasks), 'module_pairs': nmod}
    return chk.finish(
        level='proof', level_text='',
        trusted_base=['Lean 4.33.0 kernel', 'axioms: ' + ', '.join(sorted({a for v in chk.theorems.values() for a in v})),
                      'operand bytes of non-label instructions are taken from the real code section (C09 covers their encoding)',
                      'correspondence harness harness/checks/c08.py'],
        checker_cmd='lake build QbeeModel.Props.C08 && lake env lean .lake/audit/Audit_C08.lean',
        rule='generated programs (biased to empty IF/ELSE/CASE bodies, single-line IF with ELSE, nested SELECT, code after END) '
             'compiled with and without -g at levels 0-2; non-trivial = module with > 20 instructions; distinct by source',
        extra={'evaluations': nmod, 'distinct_nontrivial': len(nontriv)})


def replay(data):
    r = data['replay']
    out = _task((r['src'], r.get('inputs', []), [r['O']]))
    for g in (False, True):
        x = out[r['O']][g]
        print(g, x['status'], x.get('outcome'), str(x.get('trace'))[:200])
    return 0
