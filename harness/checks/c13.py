"""C13  debugger expression evaluation agrees with the running program.

Theorem: Props/C13.lean - the debugger's evaluator (the compile-time evaluator applied to values read from memory) agrees
with the reference semantics of the compiled expression on INTEGER / LONG trees, and reports an error exactly when the
program traps.  Storage lookup: C04 (memlayout is shared by the code generator and the debugger).
Correspondence: the tree evaluator model vs the real debugger on generated integral expressions over live variables.
Oracle: generated programs with globals, SHARED, locals, parameters, STATIC, arrays, records, constants in the main
program, a SUB and a FUNCTION contain probe statements `PRINT "@"; <expr>`; the session steps through the program and,
stopped on a probe, asks the debugger for the same expression; the program then prints it.  Both texts must denote the
same typed value.  Unknown names and out-of-range subscripts must be reported as evaluation errors; print never changes
machine state and never raises, also after the program has finished.
"""
import contextlib
import io
import re
import traceback

from .. import core, real
from qvm.dbg import Cmd
from qvm.utils import format_number
from qvm.cell import CellType

LEAN_MODULE = 'QbeeModel.Props.C13'
REQUIRED = ['dbg_eval_agrees', 'dbg_eval_error_is_trap']
RANK = {'i': 0, 'l': 1, 's': 2, 'd': 3}
CT = {'i': CellType.INTEGER, 'l': CellType.LONG, 's': CellType.SINGLE, 'd': CellType.DOUBLE}


def wider(a, b):
    return a if RANK[a] >= RANK[b] else b


OPC = {'+': 1, '-': 2, '*': 3, '/': 4, 'MOD': 5, '\\': 6, '^': 7, '=': 8, '<>': 9, '<': 10, '>': 11, '<=': 12, '>=': 13,
       'NEG': 14, 'PLUS': 15, 'NOT': 16, 'AND': 17, 'OR': 18, 'XOR': 19, 'EQV': 20, 'IMP': 21}


class Gen:
    """typed expression generator; every expression comes with its tree: ('L', text, type) | ('B', op, a, b) | ('U', op, a)"""

    def __init__(self, rng, int_only=False):
        self.rng = rng
        self.int_only = int_only

    def expr(self, atoms, depth, want=None):
        """-> (text, type, tree) ; want in (None, 'num', 'str')"""
        rng = self.rng
        nums = [a for a in atoms if a[1] != 't' and (not self.int_only or a[1] in 'il')]
        strs = [a for a in atoms if a[1] == 't']
        if want == 'str' or (want is None and strs and rng.random() < 0.15 and not self.int_only):
            if depth <= 0 or rng.random() < 0.5 or not strs:
                a = rng.choice(strs) if strs and rng.random() < 0.8 else ('"q' + str(rng.randint(0, 9)) + '"', 't')
                return a[0], 't', ('L', a[0], 't')
            a, _, ta_ = self.expr(atoms, depth - 1, 'str')
            b, _, tb_ = self.expr(atoms, depth - 1, 'str')
            return f'{a} + {b}', 't', ('B', 1, ta_, tb_)
        if depth <= 0 or rng.random() < 0.25:
            if rng.random() < 0.25 or not nums:
                k = rng.random()
                if self.int_only:
                    if k < 0.7:
                        lit = (str(rng.choice([0, 1, 2, 3, 5, 7, 10, 100, 255, 1000, 30000, 32767])), 'i')
                    else:
                        lit = (rng.choice(['70000', '100000', '2000000000', '2147483647', '65536']), 'l')
                elif k < 0.6:
                    lit = (str(rng.choice([0, 1, 2, 3, 5, 7, 10, 100, 255, 1000])), 'i')
                elif k < 0.8:
                    lit = (rng.choice(['70000', '100000']), 'l')
                else:
                    lit = (rng.choice(['.5', '1.5', '2.25', '10.75']), 's')
                return lit[0], lit[1], ('L', lit[0], lit[1])
            a = rng.choice(nums)
            return a[0], a[1], ('L', a[0], a[1])
        k = rng.random()
        if k < 0.12:
            a, t, tr = self.expr(atoms, depth - 1, 'num')
            return f'-({a})', t, ('U', 14, tr)
        if k < 0.2:
            a, t, tr = self.expr(atoms, depth - 1, 'num')
            return f'NOT ({a})', ('i' if t == 'i' else 'l'), ('U', 16, tr)
        if k < 0.3 and strs and not self.int_only:
            a, _, ta_ = self.expr(atoms, depth - 1, 'str')
            b, _, tb_ = self.expr(atoms, depth - 1, 'str')
            op = rng.choice(["=", "<>", "<", ">", "<=", ">="])
            return f'({a}) {op} ({b})', 'i', ('B', OPC[op], ta_, tb_)
        a, ta, tra = self.expr(atoms, depth - 1, 'num')
        b, tb, trb = self.expr(atoms, depth - 1, 'num')
        op = rng.choice(['+', '-', '*', '+', '-', '\\', 'MOD', 'AND', 'OR', 'XOR', 'EQV', 'IMP', '=', '<>', '<', '>', '<=', '>=', '/'])
        if op == '/' and self.int_only:
            op = '*'
        if op in ('+', '-', '*'):
            t = wider(ta, tb)
        elif op == '/':
            t = wider(wider(ta, tb), 's')
            b = rng.choice(['2', '4', '8', '.5'])       # never zero
            trb = ('L', b, 's' if b == '.5' else 'i')
            if b == '.5':
                t = wider(t, 's')
        elif op in ('\\', 'MOD'):
            t = 'i' if ta == tb == 'i' else 'l'
            if not self.int_only or rng.random() < 0.7:
                b = rng.choice(['3', '7', '2', '16'])
                tb = 'i'
                trb = ('L', b, 'i')
                t = 'i' if ta == 'i' else 'l'
        elif op in ('AND', 'OR', 'XOR', 'EQV', 'IMP'):
            t = 'i' if ta == tb == 'i' else 'l'
        else:
            t = 'i'
        return f'({a}) {op} ({b})', t, ('B', OPC[op], tra, trb)


def leaves(tree, acc):
    if tree[0] == 'L':
        acc.append(tree)
    elif tree[0] == 'U':
        leaves(tree[2], acc)
    else:
        leaves(tree[2], acc)
        leaves(tree[3], acc)
    return acc


def enc_tree(tree, values):
    if tree[0] == 'L':
        return f'L {tree[2]} {values[tree[1]]}'
    if tree[0] == 'U':
        return f'U {tree[1]} ' + enc_tree(tree[2], values)
    return f'B {tree[1]} ' + enc_tree(tree[2], values) + ' ' + enc_tree(tree[3], values)


def gen_program(rng, int_only=False):
    """-> (src, probes{line: (expr, type)}, scopes{routine: atoms}, error_exprs)"""
    g = Gen(rng, False)      # probes stay within range: the program should run to its end
    v = lambda lo, hi: rng.randint(lo, hi)
    defint = rng.random() < 0.5
    L = []
    if defint:
        L.append('DEFINT I-K')
    gc, gd = v(2, 90), rng.choice(['2.5', '.25', '7.75'])
    L += [f'CONST gc% = {gc}', 'CONST gs$ = "cs"', f'CONST gd# = {gd}', f'CONST dup% = {v(100, 199)}', 'CONST dups$ = "outer"',
          'TYPE pt', '  x AS INTEGER', '  y AS LONG', 'END TYPE',
          'TYPE sgm', '  a AS pt', '  w AS SINGLE', '  b AS pt', 'END TYPE']
    slo = v(0, 2)
    shi = slo + v(1, 3)
    L += ['DIM SHARED sh AS LONG', f'DIM SHARED sarr({slo} TO {shi}) AS INTEGER', 'DIM SHARED spt AS pt']
    n1 = v(2, 5)
    L += ['DIM g1%, g2&, g3!, g4#, g5$', f'DIM garr%({n1}), g2d&(1 TO 2, 0 TO 2)', 'DIM gseg AS sgm', 'DIM gpts(2) AS pt', 'DIM plain AS LONG']
    L += [f'sh = {v(60000, 99999)}: sarr({slo}) = {v(1, 99)}: sarr({shi}) = {v(1, 99)}: spt.x = {v(1, 50)}: spt.y = {v(1, 99999)}',
          f'g1% = {v(1, 99)}: g2& = {v(40000, 90000)}: g3! = {rng.choice(["1.5", ".1", "3.25", "100.125"])}: '
          f'g4# = {rng.choice(["2.25", ".1", "1234.5678", "1D-3"])}: g5$ = "h{v(0, 9)}"',
          f'garr%(1) = {v(1, 99)}: garr%({n1}) = {v(1, 99)}: g2d&(2, 1) = {v(1, 99999)}: g2d&(1, 0) = {v(1, 9)}',
          f'gseg.a.x = {v(1, 99)}: gseg.a.y = {v(1, 99999)}: gseg.w = .5: gseg.b.y = {v(1, 99)}',
          f'gpts(1).x = {v(1, 99)}: gpts(2).y = {v(1, 99999)}', f'plain = {v(100000, 999999)}']
    main_atoms = [('g1%', 'i'), ('g2&', 'l'), ('g3!', 's'), ('g4#', 'd'), ('g5$', 't'), ('garr%(1)', 'i'), (f'garr%({n1})', 'i'),
                  ('garr%(0)', 'i'), ('g2d&(2, 1)', 'l'), ('g2d&(1, 0)', 'l'), ('gseg.a.x', 'i'), ('gseg.a.y', 'l'), ('gseg.w', 's'),
                  ('gseg.b.y', 'l'), ('gpts(1).x', 'i'), ('gpts(2).y', 'l'), ('plain', 'l'), ('sh', 'l'), (f'sarr({slo})', 'i'),
                  (f'sarr({shi})', 'i'), ('spt.x', 'i'), ('spt.y', 'l'), ('gc%', 'i'), ('gs$', 't'), ('gd#', 's'),
                  ('dup%', 'i'), ('dups$', 't'), ('garr%(g2d&(1, 0) MOD 2)', 'i'), ('g3! * gd#', 's'), ('gd# / 3', 's'), ('gc% * 1000', 'i')]
    if defint:
        L.append(f'i = {v(1, 50)}')
        main_atoms.append(('i', 'i'))
    else:
        L.append(f'u = {rng.choice(["1.25", "8"])}')
        main_atoms.append(('u', 's'))
    probes = {}

    def probe(atoms, indent=''):
        e, t, _ = g.expr(atoms, rng.choice([0, 1, 2, 3]))
        L.append(f'{indent}PRINT "@"; {e}')
        probes[len(L)] = (e, t)
    for _ in range(v(2, 4)):
        probe(main_atoms)
    static_kw = ' STATIC' if rng.random() < 0.3 else ''
    L.append('CALL p(g1%, gseg, g2&, "lit", garr%(), gpts(), gpts(1))')
    L.append('CALL p(g1% + 1, gseg, (g2&), g5$, garr%(), gpts(), spt)')
    for _ in range(v(1, 2)):
        probe(main_atoms)
    L.append('r# = f#(g4#, g2&)')
    probe(main_atoms + [('r#', 'd')])
    L.append('END')
    # whole records as parameters (one reference cell each, between the others)
    L.append(f'SUB p (a%, rp AS sgm, b&, c$, arr%(), pts() AS pt, ep AS pt){static_kw}')
    L += ['  DIM l1 AS LONG, larr#(2), lpt AS pt', '  STATIC st%', f'  CONST lc% = {v(2, 9)}', f'  CONST dup% = {v(200, 299)}',
          '  CONST dups$ = "inner"',
          f'  l1 = {v(100000, 200000)}: larr#(1) = 6.5: larr#(2) = {v(1, 9)}: lpt.x = {v(1, 9)}: lpt.y = {v(1, 99999)}: st% = st% + {v(1, 5)}']
    sub_atoms = [('a%', 'i'), ('b&', 'l'), ('c$', 't'), ('arr%(1)', 'i'), (f'arr%({n1})', 'i'), ('pts(1).x', 'i'), ('pts(2).y', 'l'),
                 ('l1', 'l'), ('larr#(1)', 'd'), ('larr#(2)', 'd'), ('lpt.x', 'i'), ('lpt.y', 'l'), ('st%', 'i'), ('lc%', 'i'),
                 ('gc%', 'i'), ('gs$', 't'), ('gd#', 's'), ('sh', 'l'), (f'sarr({slo})', 'i'), ('spt.y', 'l'), ('arr%(lpt.x MOD 2)', 'i'),
                 ('dup%', 'i'), ('dups$', 't'), ('rp.a.x', 'i'), ('rp.a.y', 'l'), ('rp.w', 's'), ('rp.b.y', 'l'), ('ep.x', 'i'), ('ep.y', 'l')]
    if defint:
        L.append(f'  k = {v(1, 9)}')
        sub_atoms.append(('k', 'i'))
    else:
        L.append(f'  w = {rng.choice(["1.75", "3"])}')
        sub_atoms.append(('w', 's'))
    for _ in range(v(2, 4)):
        probe(sub_atoms, '  ')
    L.append('  a% = a% + 1: arr%(0) = arr%(0) + 1')
    probe(sub_atoms, '  ')
    L.append('END SUB')
    # a parameter named like a SHARED variable hides it inside the routine
    L.append('FUNCTION f# (x#, sh AS LONG)')
    L += ['  DIM t AS DOUBLE', '  t = x# * 2']
    fn_atoms = [('x#', 'd'), ('t', 'd'), ('gc%', 'i'), ('gd#', 's'), ('sh', 'l'), ('spt.x', 'i'), ('dup%', 'i'), ('dups$', 't')]
    for _ in range(v(1, 2)):
        probe(fn_atoms, '  ')
    L += ['  f# = t + 1', 'END FUNCTION']
    scopes = {'main': main_atoms, 'p': sub_atoms, 'f': fn_atoms}
    errors = ['nosuch%', 'zz$', f'garr%({n1 + 1})', 'garr%(-1)', f'sarr({shi + 1})', f'sarr({slo - 1})', 'gpts(3).x', 'g2d&(3, 0)', 'g2d&(1, 3)',
              'arr%(77)', 'pts(9).y', 'larr#(3)', 'lpt.q', 'gseg.a.q']
    return '\n'.join(L) + '\n', probes, scopes, errors


def snapshot(cpu):
    frames = []
    f = cpu.cur_frame
    while f is not None:
        frames.append([str(c) for c in f.cells])
        f = f.prev_frame
    return (cpu.pc, cpu.halted, cpu.halt_reason.name, [str(c) for c in cpu.stack], [str(c) for c in cpu.globals_segment.cells], frames,
            cpu.trap_target, cpu.error_handler_active, cpu.trapped_addr)


INT_RE = re.compile(r'^-?\d+$')


def same_value(dbg_text, prog_text, t):
    """does the debugger's output denote the typed value the program printed?"""
    v = dbg_text.rstrip('\n')
    if t == 't':
        return prog_text == v, v
    if t in 'il':
        if not INT_RE.match(v):
            return False, v
        return prog_text == format_number(int(v), CT[t]) + ' ', v
    if INT_RE.match(v):
        return False, v
    try:
        x = float(v)
    except ValueError:
        return False, v
    if t == 's' and x == x and abs(x) != float('inf'):
        import struct
        if struct.unpack('>f', struct.pack('>f', x))[0] != x:
            return False, v           # a SINGLE value was computed at higher precision
    return prog_text == format_number(x, CT[t]) + ' ', v


def off_end_probe(o):
    """a program without END runs off its code: no call frame is left; the debugger must still answer (a value where the
    expression needs no frame, an evaluation error otherwise) and must not raise"""
    src = 'CONST kc% = 4\nDIM SHARED sh AS LONG\nDIM arr%(3)\nsh = 70000: x% = 5: arr%(1) = 9\nPRINT x%\n'
    st = real.try_compile(src, o, True)
    problems = []
    if st[0] != 'ok':
        return [('off-end-program-rejected', str(st[1])[:80])]
    mod = real.QModule.parse(st[2])
    sink = io.StringIO()
    with contextlib.redirect_stdout(sink):
        m = real.QvmMachine(mod, impl=real.RecImpl())
        d = Cmd(m, mod)
        d.onecmd('autostatus off')
        d.onecmd('continue')
    for e in ['x%', 'sh', 'arr%(1)', 'kc% * 2', '1 + 2', 'nosuch%', 'x% + sh']:
        b = io.StringIO()
        try:
            with contextlib.redirect_stdout(b):
                d.onecmd('print ' + e)
        except Exception as ex:  # noqa: BLE001
            tb = traceback.extract_tb(ex.__traceback__)
            problems.append(('debugger-raised', type(ex).__name__, f'{tb[-1].name}:{tb[-1].lineno}', f'print {e} after the program ran off its end'))
            continue
        if not b.getvalue().strip():
            problems.append(('no-answer-after-finish', e))
    return problems


def task(t):
    return real.big_frame(lambda: _task(t))


def _task(t):
    import random
    seed, o, int_only = t
    rng = random.Random(seed)
    src, probes, scopes, errors = gen_program(rng, int_only)
    st = real.try_compile(src, o, True)
    if st[0] != 'ok':
        return {'status': st[0], 'err': str(st[1])[:200], 'src': src}
    mod = real.QModule.parse(st[2])
    impl = real.RecImpl()
    out = {'status': 'ok', 'src': src, 'O': o, 'problems': [], 'nprobe': 0, 'nerr': 0, 'nextra': 0, 'stops': 0, 'pairs': []}
    sink = io.StringIO()

    def ask(d, e):
        b = io.StringIO()
        with contextlib.redirect_stdout(b):
            d.onecmd('print ' + e)
        return b.getvalue()
    with contextlib.redirect_stdout(sink):
        m = real.QvmMachine(mod, impl=impl)
        cpu = m.cpu
        d = Cmd(m, mod)
        d.onecmd('autostatus off')
    pending = []          # (expr, type, debugger text) in the order the probes execute
    g = Gen(rng, int_only)
    try:
        for _ in range(600):
            if cpu.halted:
                break
            stt = d.find_stmt(cpu.pc)
            line = stt.source_start_line if stt else None
            out['stops'] += 1
            routine = d.find_routine(cpu.cur_frame.code_start).name if cpu.cur_frame else '_main'
            scope = scopes.get('main' if routine == '_main' else routine)
            is_probe_stmt = line in probes and stt is not None and 'PRINT' in src.split('\n')[line - 1]
            before = snapshot(cpu)
            if is_probe_stmt and (not pending or pending[-1][3] != (line, len(impl.calls))):
                e, ty = probes[line]
                pending.append((e, ty, ask(d, e), (line, len(impl.calls))))
                out['nprobe'] += 1
            if scope and rng.random() < 0.3 and line is not None and line > 22:
                e, ty, tree = g.expr(scope, rng.choice([1, 2, 3]))
                txt = ask(d, e)
                out['nextra'] += 1
                if int_only:
                    # leaf values as the debugger itself reads them; the model combines them
                    vals = {}
                    okl = True
                    for lf in leaves(tree, []):
                        if lf[1] not in vals:
                            lv = lf[1] if INT_RE.match(lf[1]) else ask(d, lf[1]).strip()
                            if not INT_RE.match(lv):
                                okl = False
                                break
                            vals[lf[1]] = lv
                    if okl:
                        out['pairs'].append(('dbgeval ' + enc_tree(tree, vals), txt.strip(), e))
            if rng.random() < 0.2:
                e = rng.choice(errors)
                txt = ask(d, e)
                out['nerr'] += 1
                known_here = (e.startswith(('arr%', 'pts', 'larr', 'lpt')) and routine != 'p')
                if not txt.startswith('Eval error') and len(out['problems']) < 5:
                    out['problems'].append(('no-evaluation-error', e, txt[:80], routine))
                del known_here
            if snapshot(cpu) != before and len(out['problems']) < 5:
                out['problems'].append(('print-changed-machine-state', line))
            with contextlib.redirect_stdout(sink):
                d.onecmd('step')
        # after the program has finished
        for e in ['g1%', 'sh + 1', 'nosuch%', 'gc% * 2', 'garr%(1)']:
            txt = ask(d, e)
            if not txt.strip() and len(out['problems']) < 5:
                out['problems'].append(('no-answer-after-finish', e))
    except Exception as ex:  # noqa: BLE001
        tb = traceback.extract_tb(ex.__traceback__)
        out['problems'].append(('debugger-raised', type(ex).__name__, f'{tb[-1].name}:{tb[-1].lineno}', str(ex)[:80]))
    # the program's own answers: the probe PRINT calls, in order
    texts = [c[1] for c in impl.calls if c[0] == 'terminal_print' and c[1].startswith('@')]
    for i, (e, ty, dtxt, _) in enumerate(pending):
        if i >= len(texts):
            # the program never printed it: it trapped evaluating the expression
            if not dtxt.startswith('Eval error') and i == len(texts) and cpu.halted and cpu.halt_reason.name == 'TRAP':
                if len(out['problems']) < 5:
                    out['problems'].append(('program-trapped-but-debugger-gave-a-value', e, dtxt[:60], cpu.last_trap.name))
            break
        ptxt = texts[i][1:]
        if ptxt.endswith('\r\n'):
            ptxt = ptxt[:-2]
        ok, v = same_value(dtxt, ptxt, ty)
        if not ok and len(out['problems']) < 5:
            out['problems'].append(('value-differs', e, ty, dtxt[:80], ptxt[:80]))
    out['nprinted'] = len(texts)
    out['outcome'] = (cpu.halt_reason.name, cpu.last_trap.name if cpu.last_trap else None)
    return out


def run(chk):
    rng = chk.rng
    chk.regen_and_build(LEAN_MODULE)
    chk.audit(LEAN_MODULE, REQUIRED)
    tasks = [(rng.randrange(1 << 30), i % 3, i % 4 == 3) for i in range(chk.n(60, 1500))]
    res = real.pmap(task, tasks)
    nprobe = nextra = nerr = nstops = nprog = 0
    hits = {}
    for o_ in (0, 1, 2):
        for pr in off_end_probe(o_):
            sig = 'C13 ' + pr[0] + (' ' + pr[1] + ' in ' + pr[2] if pr[0] == 'debugger-raised' else '')
            hits[sig] = hits.get(sig, 0) + 1
            chk.finding(sig, str(pr), {'kind': 'off-end', 'O': o_})
    outcomes = {}
    for t, out in zip(tasks, res):
        if out['status'] != 'ok':
            chk.broken.append(('harness', 'c13-program-rejected', {'err': out.get('err'), 'src': out.get('src', '')[:400]}))
            chk.say('generated program rejected:', out.get('err'))
            continue
        nprog += 1
        nprobe += out['nprobe']
        nextra += out['nextra']
        nerr += out['nerr']
        nstops += out['stops']
        outcomes[str(out['outcome'])] = outcomes.get(str(out['outcome']), 0) + 1
        for pr in out['problems']:
            sig = 'C13 ' + pr[0]
            if pr[0] == 'debugger-raised':
                sig += f' {pr[1]} in {pr[2].split(":")[0]}'
            hits[sig] = hits.get(sig, 0) + 1
            chk.finding(sig, str(pr), {'kind': 'c13', 'seed': t[0], 'O': t[1], 'int_only': t[2], 'src': out['src']})
    reqs, exp, meta = [], [], []
    for t, out in zip(tasks, res):
        if out['status'] != 'ok':
            continue
        for req, txt, e in out['pairs']:
            reqs.append(req)
            exp.append(txt)
            meta.append((e, t))
    got = chk.model.ask(reqs) if chk.model and reqs else []
    nbad = nuns = nval = nerrs = 0
    for g_, e_, m_ in zip(got, exp, meta):
        parts = g_.split()
        if parts[0] == 'unsupported':
            nuns += 1
            continue
        if parts[0] == 'val':
            nval += 1
            ok = e_ == parts[2]
        else:
            nerrs += 1
            ok = e_.startswith('Eval error: Overflow') or e_.startswith('Eval error: Division by zero')
        if not ok:
            nbad += 1
            if nbad <= 3:
                chk.broken.append(('correspondence', 'debugger-evaluator', {'expr': m_[0], 'model': g_, 'real': e_, 'seed': m_[1][0]}))
                chk.say('debugger-evaluator disagree:', m_[0], 'model', g_, 'real', e_)
    chk.stats['debugger-evaluator'] = {'cases': len(reqs), 'disagree': nbad, 'values': nval, 'errors': nerrs, 'outside_fragment': nuns}
    chk.samples += [{'program': res[0].get('src', '')[:600]}] if res else []
    chk.cov['input_distribution'] = {'programs': nprog, 'stops': nstops, 'probes_compared': nprobe, 'extra_evaluations': nextra,
                                     'error_expressions': nerr, 'oracle_hits': hits, 'outcomes': outcomes}
    return chk.finish(
        level='proof', level_text='',
        trusted_base=['Lean 4.33.0 kernel', 'axioms: ' + ', '.join(sorted({a for v in chk.theorems.values() for a in v})),
                      'the theorem covers INTEGER / LONG expression trees (every arithmetic, logic and comparison operator, both unary '
                      'operators); SINGLE / DOUBLE / STRING expressions and the reading of variables from memory are covered by the '
                      'probe oracle only (storage layout: C04)',
                      'format_number turns the debugger value into the text the program prints (C16)',
                      'correspondence harness harness/checks/c13.py'],
        checker_cmd='lake build QbeeModel.Props.C13 && lake env lean .lake/audit/Audit_C13.lean',
        rule='generated programs (main, SUB called twice - once with expression arguments -, FUNCTION; globals, SHARED, STATIC, '
             'parameters, locals, arrays, 2-D arrays, nested records, arrays of records, constants, DEFINT names) stepped statement '
             'by statement at levels 0-2; at every probe the debugger value is compared with the program\'s; non-trivial = probe '
             'expression with at least one operator; distinct by (program, probe)',
        extra={'evaluations': nprobe + nextra + nerr, 'distinct_nontrivial': nprobe})


def replay(data):
    r = data['replay']
    out = _task((r['seed'], r['O'], r.get('int_only', False)))
    print(out['status'], out.get('problems'), out.get('outcome'))
    return 0
