"""C11  the debug map attributes every instruction to its source statement.

Theorems: Props/C11.lean (well-bracketed marker streams give laminar records inside their span; the lookup returns the
innermost record; covered addresses are attributed; records sit on instruction boundaries).
Correspondence: the collector model on the REAL marker events of every -g module; findStmt model vs DebugInfo.find_stmt
at every instruction start.
Oracle on the real modules: boundaries, laminarity, routine records, and attribution of every instruction to the
statement whose start/end markers enclose it innermost (line numbers recomputed from the source text).
"""
from .. import core, real, progs
from qvm.instrs import op_to_instr, op_code_to_instr

LEAN_MODULE = 'QbeeModel.Props.C11'
REQUIRED = ['laminar', 'findStmt_innermost', 'findStmt_covers', 'records_on_boundaries']
CLAUSE = ('SimpleCaseClause', 'RangeCaseClause', 'CompareCaseClause', 'ArrayDimRange', 'VarDeclClause', 'AnyVarDeclClause',
          'PrintSep', 'ElseClause')


MUTABLE = ('AssignmentStmt', 'PrintStmt', 'CallStmt', 'IfBeginStmt', 'ElseIfStmt', 'IfStmt', 'ForStmt', 'LoopStmt', 'DoStmt',
           'WhileStmt', 'CaseStmt', 'SelectStmt', 'ReturnValueSetStmt', 'LocateStmt', 'ColorStmt', 'SoundStmt', 'PokeStmt')
NOT_AFTER = ('THEN', 'ELSE', 'GOTO', 'GOSUB', 'RESTORE', 'RESUME', 'RETURN', 'TO', 'STEP')


def literal_sites(src):
    """positions of one-digit integer literals 3..9 standing alone as an operand, outside strings and comments"""
    import re
    out = []
    for m in re.finditer(r'(?<![\w.#&!%$"])[3-9](?![\w.#&!%$"])', src):
        p = m.start()
        ls = src.rfind('\n', 0, p) + 1
        before = src[ls:p]
        if before.count('"') % 2 or "'" in before or 'REM' in before.upper() or 'DATA' in before.upper():
            continue
        if not before.strip() or before.strip()[-1] == ':' and before.strip()[:-1].isdigit():
            continue        # a line number
        w = before.upper().split()
        if w and w[-1] in NOT_AFTER[:7]:
            continue        # a line-number operand
        out.append(p)
    return out


def analyse(t):
    return real.big_frame(lambda: _analyse(t))


def _analyse(t):
    src, inputs, o, nmut_max = t
    from qbee.stmt import Stmt, Block
    st = real.try_compile(src, o, True)
    if st[0] != 'ok':
        return {'status': st[0]}
    code, b = st[1], st[2]
    mod = real.QModule.parse(b)
    dbg = mod.debug_info
    cpu = real.QvmMachine(mod, impl=real.RecImpl()).cpu
    # instruction starts
    starts = []
    pc = 0
    while pc < len(mod.code):
        starts.append(pc)
        ins = op_code_to_instr[mod.code[pc]]
        pc += 1 + sum(x.size for x in ins.operands)
    sset = set(starts) | {len(mod.code)}
    out = {'status': 'ok', 'problems': [], 'n_instr': len(starts)}
    # marker events with offsets, node ids by identity
    ids = {}
    evs = []
    enclosing = {}       # instruction start -> innermost enclosing simple-statement node (by the marker stream)
    stack = []
    k = 0
    for ins in code._instrs:
        op, *args = ins.final
        off = starts[k] if k < len(starts) else len(mod.code)
        if op == '_dbg_info_start':
            nid = ids.setdefault(id(args[0]), len(ids))
            evs.append(f'S {nid} {off}')
            stack.append(args[0])
        elif op == '_dbg_info_end':
            nid = ids.setdefault(id(args[0]), len(ids))
            evs.append(f'E {nid} {off}')
            if stack:
                stack.pop()
        elif not op.startswith('_'):
            inner = None
            for nd in reversed(stack):
                if isinstance(nd, Stmt) and type(nd).__name__ not in CLAUSE:
                    # a block: the instruction belongs to its (synthesised) start or end statement;
                    # a simple statement: the instruction belongs to it
                    inner = nd
                    break
            enclosing[starts[k]] = inner
            k += 1
    out['events'] = ' '.join(evs)
    from qbee.node import Node as _Node
    out['simple_ids'] = sorted(nid for key, nid in ids.items()
                               if any(id(a[0]) == key and isinstance(a[0], Stmt) and not isinstance(a[0], Block)
                                      for a in [i.final[1:] for i in code._instrs if i.final[0] == '_dbg_info_start']))
    # real records (statements) in the real order
    recs = [(i, r.start_offset, r.end_offset) for i, r in enumerate(dbg.stmts)]
    out['recs'] = recs
    out['starts'] = starts
    # oracle 1: boundaries
    for i, s, e in recs:
        if s not in sset or e not in sset:
            out['problems'].append(('record-not-on-instruction-boundary', s, e, type(dbg.stmts[i].node).__name__))
            break
    for name, r in dbg.routines.items():
        if r.start_offset not in sset or r.end_offset not in sset:
            out['problems'].append(('routine-record-not-on-boundary', name))
    # oracle 2: laminarity of the statement ranges
    rs = sorted({(s, e) for _, s, e in recs if e > s})
    for a in range(len(rs)):
        for b_ in range(a + 1, len(rs)):
            s1, e1 = rs[a]
            s2, e2 = rs[b_]
            if s2 >= e1:
                break
            if not (s1 <= s2 and e2 <= e1):
                out['problems'].append(('ranges-overlap-without-nesting', rs[a], rs[b_]))
                break
        else:
            continue
        break
    # real find_stmt at every instruction start
    found = []
    lines = src.split('\n')
    for a in starts:
        try:
            r = dbg.find_stmt(a, cpu)
        except Exception as e:  # noqa: BLE001
            out['problems'].append(('find_stmt-raises', a, type(e).__name__))
            r = None
        found.append(next((i for i, x in enumerate(dbg.stmts) if x is r), None) if r is not None else None)
    out['found'] = found
    # oracle 3: attribution -- the record's statement is the one whose markers enclose the instruction innermost
    in_routine = set()
    for name, r in dbg.routines.items():
        in_routine.update(a for a in starts if r.start_offset <= a < r.end_offset)
    main_start = None
    ins0 = op_code_to_instr[mod.code[0]]
    if ins0.op == 'call':
        main_start = cpu.get_instruction_at(0)[1][0]
    sub_starts = sorted(r.start_offset for r in dbg.routines.values())
    main_end = min([s for s in sub_starts if main_start is not None and s > main_start] + [len(mod.code)])
    nattr = 0
    for a, fi in zip(starts, found):
        body = a in in_routine or (main_start is not None and main_start <= a < main_end)
        if not body or a == 0:
            continue
        want = enclosing.get(a)
        opn = op_code_to_instr[mod.code[a]].op
        if fi is None:
            if want is not None and len(out['problems']) < 6:
                out['problems'].append(('instruction-not-attributed', a, opn, type(want).__name__))
            continue
        nattr += 1
        rec = dbg.stmts[fi]
        ws, we = getattr(want, 'loc_start', None), getattr(want, 'loc_end', None)
        rs_, re_ = rec.source_start_offset, rec.source_end_offset
        inside = None not in (ws, we, rs_, re_) and ws <= rs_ and re_ <= we
        if want is not None and ws is not None and not inside:
            # the record's text must be (part of) the text of the statement whose markers enclose the instruction
            if not isinstance(rec.node, Block) and len(out['problems']) < 6:
                out['problems'].append(('instruction-attributed-to-another-statement', a, opn,
                                        type(want).__name__, getattr(want, 'loc_start', None),
                                        type(rec.node).__name__, rec.source_start_line))
        # the recorded line is the line of the node's text
        ls = getattr(rec.node, 'loc_start', None)
        if ls is not None:
            line = src.count('\n', 0, ls) + 1
            if rec.source_start_line != line and len(out['problems']) < 6:
                out['problems'].append(('recorded-line-differs-from-source-position', a, rec.source_start_line, line))
    out['n_attributed'] = nattr
    # oracle 4: each routine record covers exactly that routine's code
    for name, r in dbg.routines.items():
        nxt = min([s for s in sub_starts if s > r.start_offset] + [len(mod.code)])
        if r.end_offset != nxt and len(out['problems']) < 6:
            out['problems'].append(('routine-record-does-not-cover-the-routine', name, r.start_offset, r.end_offset, nxt))
    # oracle 5: changing a literal changes code only inside the record of the statement it is written in
    # (ties record offsets to source TEXT independently of which node the markers were emitted for)
    import random as _r
    rng = _r.Random(len(src) * 7919 + o)
    sites = literal_sites(src)
    rng.shuffle(sites)
    nmut = 0
    for pos in sites[:nmut_max]:
        cands = [r for r in dbg.stmts if type(r.node).__name__ in MUTABLE and r.source_start_offset is not None
                 and r.source_end_offset is not None and r.source_start_offset <= pos < r.source_end_offset]
        if not cands:
            # no statement record's source extract contains this literal: harmless if the literal generates no code
            # (a DIM bound, a CONST), a wrong source position if changing it changes the code
            anyrec = [r for r in dbg.stmts if r.source_start_offset is not None and r.source_end_offset is not None
                      and r.source_start_offset <= pos < r.source_end_offset]
            if not anyrec:
                new0 = rng.choice([d for d in '3456789' if d != src[pos]])
                st0 = real.try_compile(src[:pos] + new0 + src[pos + 1:], o, True)
                if st0[0] == 'ok':
                    c2 = real.split_sections(st0[2]).get(4)
                    c1 = real.split_sections(b).get(4)
                    line_txt = src[src.rfind('\n', 0, pos) + 1:src.find('\n', pos)]
                    if c2 is not None and len(c2) == len(c1) and c1 != c2 and not line_txt.lstrip().upper().startswith(('DIM', 'CONST', 'DATA')) \
                            and len(out['problems']) < 6:
                        out['problems'].append(('code-changing-literal-is-in-no-statement-record', pos, line_txt[:60]))
            continue
        rec = min(cands, key=lambda r: r.source_end_offset - r.source_start_offset)
        # a block statement can have two records (the collector's own and the one finalize synthesises for the block's
        # start): the statement's code is the union of the records with that source range
        same = [r for r in cands if (r.source_start_offset, r.source_end_offset) == (rec.source_start_offset, rec.source_end_offset)]
        new = rng.choice([d for d in '3456789' if d != src[pos]])
        st2 = real.try_compile(src[:pos] + new + src[pos + 1:], o, True)
        if st2[0] != 'ok':
            continue
        code2 = real.split_sections(st2[2]).get(4)
        code1 = real.split_sections(b).get(4)
        if code2 is None or len(code2) != len(code1) or code1 == code2:
            continue
        nmut += 1
        diffs = [i for i in range(len(code1)) if code1[i] != code2[i]]
        outside = [i for i in diffs if not any(r.start_offset <= i < r.end_offset for r in same)]
        if outside and len(out['problems']) < 6:
            out['problems'].append(('literal-change-alters-code-outside-the-record-of-its-statement', type(rec.node).__name__,
                                    rec.source_start_line, (rec.start_offset, rec.end_offset), outside[:3],
                                    src[rec.source_start_offset:rec.source_end_offset][:60]))
    out['n_mutations'] = nmut
    return out


def run(chk):
    rng = chk.rng
    chk.regen_and_build(LEAN_MODULE)
    chk.audit(LEAN_MODULE, REQUIRED)
    nprog = chk.n(70, 1200)
    tasks = []
    special = ['SELECT CASE 0\nCASE 3, 7\n  PRINT 1\nEND SELECT\n', 'IF 1 THEN\nEND IF\n',
               'x = 1: y = 2: PRINT x; y\nIF x THEN PRINT 1 ELSE PRINT 2\n',
               'FOR i = 1 TO 2: PRINT i: NEXT\nCALL p\nEND\nSUB p\nPRINT "p"\nEND SUB\nFUNCTION f\nf = 1\nEND FUNCTION\n']
    for i in range(nprog):
        if i < len(special):
            src, inputs = special[i], []
        else:
            src, inputs = progs.gen_program(rng, size=rng.choice([3, 5, 8]), depth=rng.choice([1, 2, 3]))
        tasks.append((src, inputs, i % 3, chk.n(3, 10)))
    # blocks with an empty body whose opening / closing statement carries code of its own (the literal-change oracle
    # then ties that code to the line it is written on), at every level
    for src in ['z = 5\nDO\nLOOP UNTIL 4 \\ z\nPRINT 1\n', 'x = 1\nDO\nLOOP WHILE x > 7\n', 'x = 9\nWHILE x < 5\nWEND\n',
                'x = 9\nDO WHILE x < 5\nLOOP\nDO UNTIL x > 3\nLOOP\n', 'FOR i = 3 TO 1\nNEXT\nFOR j = 1 TO 4 STEP 5\nNEXT j\n',
                'x = 2\nIF x > 4 THEN\nELSEIF x > 6 THEN\nELSE\nEND IF\n',
                'x = 1\nIF x THEN\n  x = 2\nEND IF\nDO\nLOOP UNTIL x < 8\n',
                'x = 1\nIF x THEN\nELSE\nEND IF\nDO\nLOOP UNTIL x < 8\nWHILE x > 6\nWEND\n',
                'SELECT CASE 5\nCASE 4\nCASE 6 TO 7\nCASE ELSE\nEND SELECT\n',
                'CALL p\nSUB p\n  DO\n  LOOP UNTIL 3 > q\n  FOR k = 4 TO 3\n  NEXT\nEND SUB\n',
                # statements written on the ELSEIF / CASE / IF line itself, on a line other than the first
                'x = 3\ny = 2\nw = 0\nIF x = 1 THEN\n  PRINT 4\nELSEIF y = 2 THEN PRINT 5: z = 8 / (w + 1)\nELSE\n  PRINT 6\nEND IF\n',
                'x = 3\nSELECT CASE x\nCASE 3: PRINT 7: y = 9\nCASE ELSE: PRINT 4\nEND SELECT\n',
                'x = 3\nPRINT 1\nIF x = 3 THEN PRINT 5: y = 6 ELSE PRINT 7: y = 8\n']:
        for o in (0, 1, 2):
            tasks.append((src, [], o, 10))
    for k in chk.known:
        if k.get('example'):
            tasks.append((k['example'] + '\n', [], 2, 0))
    res = real.pmap(analyse, tasks)
    reqs_c, exp_c, reqs_f, exp_f, meta = [], [], [], [], []
    hits = {}
    nmod = 0
    ninstr = 0
    nmutations = 0
    for (src, inputs, o, _), out in zip(tasks, res):
        if out['status'] != 'ok':
            continue
        nmod += 1
        nmutations += out.get('n_mutations', 0)
        ninstr += out['n_instr']
        for pr in out['problems']:
            sig = 'C11 ' + pr[0]
            if pr[0] == 'instruction-not-attributed' and o == 2 and pr[3].endswith('Block'):
                sig += ' (block emptied by the peephole pass)'
            if pr[0] == 'instruction-attributed-to-another-statement':
                sig += f' ({pr[3]} -> {pr[5]})'
            hits[sig] = hits.get(sig, 0) + 1
            chk.finding(sig, str(pr), {'kind': 'program', 'src': src, 'O': o})
        # collector model on the real events: accepted, and its records are the real simple-statement records
        reqs_c.append('dbgmap collect ' + out['events'])
        exp_c.append((sorted({(s, e) for _, s, e in out['recs']}), set(out['simple_ids'])))
        # lookup model vs real find_stmt
        addrs = out['starts']
        reqs_f.append('dbgmap find %d %s %s' % (len(addrs), ' '.join(map(str, addrs)), ' '.join(f'{i} {s} {e}' for i, s, e in out['recs'])))
        exp_f.append(' '.join('-' if f is None else str(f) for f in out['found']))
        meta.append((src, o))
    got_c = chk.model.ask(reqs_c) if chk.model else []
    nb = 0
    for i, (g, (real_ranges, simple)) in enumerate(zip(got_c, exp_c)):
        ok = g.startswith('ok')
        if ok:
            # every range the collector model pairs for a simple statement node is a real statement record
            rr = set(real_ranges)
            for x in g.split()[1:]:
                nid, s_, e_ = map(int, x.split(':'))
                if nid in simple and (s_, e_) not in rr:
                    ok = False
        if not ok:
            nb += 1
            if nb <= 3:
                chk.broken.append(('correspondence', 'collector', {'src': meta[i][0], 'O': meta[i][1], 'model': g[:80]}))
    chk.stats['collector'] = {'cases': len(reqs_c), 'disagree': nb}
    # address 0 is special-cased by find_stmt (follows the initial call): skip position 0
    got_f = chk.model.ask(reqs_f) if chk.model else []
    nbf = 0
    for i, (g, e) in enumerate(zip(got_f, exp_f)):
        gs, es = g.split(), e.split()
        if gs[1:] != es[1:]:
            nbf += 1
            if nbf <= 3:
                k = next(j for j in range(1, min(len(gs), len(es))) if gs[j] != es[j]) if len(gs) == len(es) else -1
                chk.broken.append(('correspondence', 'find_stmt', {'src': meta[i][0], 'O': meta[i][1], 'at': k,
                                                                    'model': gs[k] if k >= 0 else len(gs), 'real': es[k] if k >= 0 else len(es)}))
                chk.say('find_stmt disagree:', meta[i][0][:80].replace('\n', ' / '), 'position', k)
    chk.stats['find_stmt'] = {'cases': sum(len(e.split()) for e in exp_f), 'disagree': nbf}
    chk.samples += [{'program': meta[i][0][:300], 'O': meta[i][1], 'records': exp_c[i][0][:8]} for i in range(min(3, len(meta)))]
    chk.cov['input_distribution'] = {'modules': nmod, 'instructions': ninstr, 'oracle_hits': hits,
                                     'literal_mutations_localised': nmutations}
    return chk.finish(
        level='proof', level_text='',
        trusted_base=['Lean 4.33.0 kernel', 'axioms: ' + ', '.join(sorted({a for v in chk.theorems.values() for a in v})),
                      'that the code generator emits a well-bracketed marker stream is checked per module (collector model accepts '
                      'the real events), not proved for the generator',
                      'correspondence harness harness/checks/c11.py'],
        checker_cmd='lake build QbeeModel.Props.C11 && lake env lean .lake/audit/Audit_C11.lean',
        rule='-g modules of generated programs at levels 0-2; every instruction start is looked up; non-trivial = module with '
             '> 20 instructions; distinct by source',
        extra={'evaluations': ninstr, 'distinct_nontrivial': len({m[0] for m, e in zip(meta, exp_f) if len(e.split()) > 20})})


def replay(data):
    r = data['replay']
    out = _analyse((r['src'], [], r['O'], 10))
    print(out.get('problems'))
    return 0
