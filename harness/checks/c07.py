"""C07  the virtual machine is total: every run ends in a halt or a trap.

Theorems: Props/C07.lean (control skeleton: interrupt at any boundary, tick lets nothing escape except an instruction's
own host exception, unarmed traps halt; arithmetic: trap class = cause, no host exception
on well-typed integral operands).
Correspondence: the real QvmCpu.tick is recorded in lock-step on generated and error-provoking programs (state before,
what the instruction did, state after) and replayed through Model/Tick.lean; interrupts are injected at every
instruction boundary of small programs.
Search: any host exception escaping tick() on a compiler-produced module is a finding (signature: class + site).
"""
from .. import core, real, progs, tickrec, values, vmops

LEAN_MODULE = 'QbeeModel.Props.C07'
REQUIRED = ['tick_interrupt', 'tick_interrupt_clears', 'unarmed_trap_halts', 'tick_total', 'division_by_zero_traps',
            'float_division_by_zero_traps', 'overflow_traps', 'mk_no_host', 'int_arith_no_host', 'unop_numeric_no_host',
            'conv_no_host', 'unop_no_host', 'cmp_mismatch_traps', 'non_finite_traps', 'double_overflow_was_silent']

# statements that fail on purpose, with the trap the property prescribes
FAILING = [
    ('PRINT 1 \\ z%', 'DIVISION_BY_ZERO'), ('PRINT 7 MOD z%', 'DIVISION_BY_ZERO'), ('PRINT 1 / z!', 'DIVISION_BY_ZERO'),
    ('PRINT 1# / z#', 'DIVISION_BY_ZERO'), ('w% = 32767 + o%', 'INVALID_CELL_VALUE'), ('w& = 2147483647 + o%', 'INVALID_CELL_VALUE'),
    ('w% = 200 * 200', 'INVALID_CELL_VALUE'), ('w% = 70000', 'INVALID_CELL_VALUE'), ('w% = -32768 - o%', 'INVALID_CELL_VALUE'),
    ('w! = 1E38 * 1E30', 'INVALID_CELL_VALUE'), ('PRINT arr%(5)', 'INDEX_OUT_OF_RANGE'), ('arr%(-1) = 1', 'INDEX_OUT_OF_RANGE'),
    ('PRINT ASC("")', 'INVALID_OPERAND_VALUE'), ('PRINT CHR$(300)', 'INVALID_OPERAND_VALUE'), ('PRINT SPACE$(-1)', 'INVALID_OPERAND_VALUE'),
    ('PRINT MID$("abc", 0, 1)', 'INVALID_OPERAND_VALUE'), ('PRINT LEFT$("abc", -1)', 'INVALID_OPERAND_VALUE'),
    ('PRINT RIGHT$("abc", -2)', 'INVALID_OPERAND_VALUE'), ('PRINT STRING$(-1, 65)', 'INVALID_OPERAND_VALUE'),
    ('READ q1%, q2%, q3%', 'DEVICE_ERROR'), ('READ a1$, a2$, a3$, a4$, a5$', 'DEVICE_ERROR'), ('PRINT USING "#"; "a"', 'DEVICE_ERROR'),
    ('PRINT USING "abc_"; 1', 'DEVICE_ERROR'), ('PRINT USING "## ##"; 1', 'DEVICE_ERROR'), ('PRINT CINT(40000.5)', 'INVALID_CELL_VALUE'),
    ('PRINT CLNG(3E10)', 'INVALID_CELL_VALUE'), ('DIM dyn%(1 TO z%)', 'INDEX_OUT_OF_RANGE'),
    # just beyond the largest SINGLE (between FLT_MAX + half an ulp and 2^128): still a numeric overflow
    ('big# = 3.4028236D+38: w! = big#', 'INVALID_CELL_VALUE'), ('w! = 3.4028234E+38: w! = w! + 2E+31', 'INVALID_CELL_VALUE'),
    ('big# = 3.40282357D+38: PRINT CSNG(big#)' if False else 'big# = 3.40282357D+38: w! = big# * 1', 'INVALID_CELL_VALUE'),
    # DOUBLE results beyond the largest DOUBLE (the host's float arithmetic yields inf / nan silently)
    ('big# = 1D308: w# = big# * 10', 'INVALID_CELL_VALUE'), ('big# = 1.7D308: w# = big# + big#', 'INVALID_CELL_VALUE'),
    ('big# = -1D308: w# = big# / 1D-10', 'INVALID_CELL_VALUE'), ('big# = -1.7D308: w# = big# - 1.7D308', 'INVALID_CELL_VALUE'),
    ('PRINT 1D308 * 10', 'INVALID_CELL_VALUE'), ('big# = 1D308: PRINT big# * big# - big# * big#', 'INVALID_CELL_VALUE'),
]
# statements that exercise the instructions outside the models (strings, devices, float power ...)
EXOTIC = ['PRINT 2 ^ 0.5', 'PRINT 10# ^ 400', 'PRINT (-8) ^ 0.5', 'PRINT 0 ^ -1', 'PRINT VAL("99999999999")', 'PRINT VAL("1e999")',
          'PRINT STRING$(3, 300)', 'PRINT STRING$(2, "")', 'PRINT INSTR(0, "abc", "b")', 'PRINT INSTR(5, "abc", "")',
          'PRINT CINT(1E30 * 1E30)', 'PRINT INT(1E38 * 1E38 - 1E38 * 1E38)', 'PRINT USING "##"; 1; 2', 'PRINT USING "## ##"; 1',
          'PRINT USING "&"; 1', 'PRINT USING "abc_"; 1', 'PRINT USING "#"; "a"', 'PRINT LCASE$(CHR$(255)); UCASE$("ß")',
          'PRINT LEN(STR$(1E-10)); STR$(-0.0)', 'LOCATE 1, 1', 'COLOR 1, 2', 'BEEP', 'SOUND 10, 1', 'SOUND 100, 70000',
          'PRINT PEEK(0)', 'POKE 0, 300', 'DEF SEG = 70000', 'PRINT TIMER; RND; RND(-1); RND(0)', 'RANDOMIZE 5', 'PRINT INKEY$',
          'CLS', 'WIDTH 80, 25', 'VIEW PRINT 1 TO 10', 'SCREEN 0', 'PLAY "abc"', 'PRINT LBOUND(arr%); UBOUND(arr%, 1)',
          'PRINT UBOUND(arr%, 2)', 'PRINT LTRIM$("  a"); RTRIM$("a  "); MID$("abcdef", 2)', 'PRINT ABS(-32768&); -z%; NOT o%',
          'PRINT 5 \\ 0.4', 'PRINT 5 MOD 0.4', 'PRINT 1E30 \\ 3', 'PRINT 3000000000# MOD 7', 'PRINT 2 ^ 31; 2& ^ 31; 2% ^ 15',
          'PRINT z% ^ -o%', 'PRINT z# ^ (0 - 1)', 'PRINT z! ^ -.5', 'PRINT (z% - 8) ^ .5', 'PRINT ERR', 'w% = ERR + 1: PRINT w%']


# whole programs around constructs the generator does not produce
SPECIAL = [
    'DIM b(3) AS INTEGER\nb(1) = 9\nCALL f(b())\nPRINT b(2)\nEND\nSUB f(a() AS INTEGER)\nCALL g(a())\nEND SUB\n'
    'SUB g(c() AS INTEGER)\nPRINT c(1)\nc(2) = 5\nPRINT UBOUND(c)\nEND SUB\n',
    'n% = 3\nDIM d(n%) AS INTEGER\nd(1) = 7\nCALL g(d())\nPRINT d(2)\nEND\nSUB g(c() AS INTEGER)\nPRINT c(1)\nc(2) = 5\nPRINT LBOUND(c)\nEND SUB\n',
    'TYPE r\n a AS INTEGER\n b AS STRING\nEND TYPE\nDIM v(2) AS r\nv(1).a = 3\nCALL f(v())\nEND\nSUB f(q() AS r)\nCALL g(q())\nEND SUB\n'
    'SUB g(q() AS r)\nPRINT q(1).a; q(5).a\nEND SUB\n',
    'CALL r(1)\nEND\nSUB r(n%)\nIF n% < 300 THEN CALL r(n% + 1)\nEND SUB\n',
    'PRINT f%(3)\nEND\nFUNCTION f%(n%)\nf% = 1 \\ (n% - 3)\nEND FUNCTION\n',
    'ON ERROR GOTO h\nCALL p\nPRINT "back"\nEND\nh: PRINT ERR\nRESUME NEXT\nSUB p\nPRINT 1 \\ 0\nPRINT "in p"\nEND SUB\n',
    'GOSUB 10\nEND\n10 RETURN\nRETURN\n',
    'RETURN\n',
    'DIM a(2) AS INTEGER\nFOR i% = 0 TO 3\na(i%) = i%\nNEXT\n',
    'x$ = "a"\nFOR i% = 1 TO 14\nx$ = x$ + x$\nNEXT\nPRINT LEN(x$)\n',
    'INPUT a%, b$\nPRINT a%; b$\nLINE INPUT c$\nPRINT c$\n',
    # a DIM statement that is jumped over (static and dynamic), and an array no host can allocate
    'GOTO 10\nDIM a%(5)\n10 a%(1) = 3\nPRINT a%(1)\n',
    'GOTO 10\nDIM a%(5)\n10 PRINT a%(1); LBOUND(a%)\n',
    'n% = 5\nGOTO 10\nDIM a%(n%)\n10 a%(1) = 3\nPRINT a%(1)\n',
    'CALL p(1)\nEND\nSUB p(k%)\nIF k% = 1 THEN GOTO 10\nDIM loc&(4)\n10 loc&(2) = 5\nPRINT loc&(2)\nEND SUB\n',
    'n& = 30000\nDIM a#(n&, n&, n&)\nPRINT 1\n',
    'ON ERROR GOTO h\nn& = 30000\nDIM a#(n&, n&, n&)\nPRINT "after"\nEND\nh: PRINT ERR\nRESUME NEXT\n',
    'PRINT ERR\nON ERROR GOTO h\nPRINT 1 \\ z%\nPRINT ERR\nEND\nh: PRINT ERR\nRESUME NEXT\n',
]


def gen_failing_program(rng, armed=False):
    lines = ['DIM arr%(3)', 'z% = 0', 'z! = 0', 'z# = 0', 'o% = 1', 'DATA 1, 2', 'DATA "abc", "def"']
    n = rng.randint(1, 3)
    exp = None
    for i in range(n):
        if rng.random() < 0.5:
            st, trap = rng.choice(FAILING)
            lines.append(st)
            exp = exp or trap
        else:
            lines.append(rng.choice(EXOTIC))
        lines.append(f'PRINT "s{i}"')
    where = rng.choice(['main', 'sub'])
    if where == 'sub':
        lines = lines[:1] + ['CALL p', 'END', 'SUB p'] + ['  ' + l for l in lines[1:] if not l.startswith('DATA')] + ['END SUB'] + \
            [l for l in lines if l.startswith('DATA')]
        lines[4] = '  DIM arr%(3)' if False else lines[4]
    return '\n'.join(lines) + '\n'


def rec_task(t):
    return real.big_frame(lambda: _rec_task(t))


def _rec_task(t):
    src, inputs, o, g, irq = t
    st = real.try_compile(src, o, g)
    if st[0] != 'ok':
        return {'status': st[0], 'err': type(st[1]).__name__}
    r = tickrec.record(st[2], inputs=inputs, max_ticks=3000, interrupt_at=irq)
    r['status'] = 'ok'
    del r['trace']
    return r


def run(chk):
    rng = chk.rng
    chk.regen_and_build(LEAN_MODULE)
    chk.audit(LEAN_MODULE, REQUIRED)
    tasks = []
    ngen = chk.n(60, 1000)
    for i in range(ngen):
        src, inputs = progs.gen_program(rng, size=rng.choice([3, 5]), depth=rng.choice([1, 2]))
        tasks.append((src, inputs, i % 3, bool(i % 2), None))
    nfail = chk.n(120, 2500)
    for i in range(nfail):
        tasks.append((gen_failing_program(rng), [], i % 3, bool(i % 2), None))
    for st_ in EXOTIC:       # every exotic statement once on its own
        tasks.append(('DIM arr%(3)\nz% = 0\no% = 1\n' + st_ + '\nPRINT "after"\n', [], 0, False, None))
    for src in SPECIAL:
        for o in (0, 2):
            tasks.append((src, ['1, x', 'line'], o, True, None))
    # interrupts at every instruction boundary of small programs (exhaustive per program)
    small = ['x% = 1\nPRINT x%\nx% = x% + 1\nPRINT x%\n', 'FOR i% = 1 TO 2\nPRINT i%\nNEXT\n',
             'ON ERROR GOTO h\nPRINT 1\nPRINT 2\nEND\nh: PRINT "h"\nRESUME NEXT\n', 'ON ERROR RESUME NEXT\nPRINT 1\nPRINT 2\n',
             'CALL p\nPRINT "m"\nEND\nSUB p\nPRINT "p"\nEND SUB\n']
    for _ in range(chk.n(2, 25)):
        small.append(progs.gen_program(rng, size=2, depth=1)[0])
    nirq = 0
    for src in small:
        st = real.try_compile(src, 0, True)
        if st[0] != 'ok':
            continue
        base = tickrec.record(st[2], max_ticks=400)
        for k in range(min(base['ticks'] + 1, chk.n(60, 400))):
            tasks.append((src, [], 0, True, k))
            nirq += 1
    res = real.pmap(rec_task, tasks)
    reqs, exp, meta = [], [], []
    outcomes = {}
    hosts = {}
    for t, r in zip(tasks, res):
        if r['status'] != 'ok':
            continue
        outcomes[r['outcome'][0]] = outcomes.get(r['outcome'][0], 0) + 1
        for (q, e) in r['steps']:
            reqs.append(q)
            exp.append(e)
            meta.append(t)
        for (cls, where, pc, opn) in r['hosts']:
            sig = f'C07 host {cls} in {where.split(":")[0]} ({opn})'
            hosts[sig] = hosts.get(sig, 0) + 1
            chk.finding(sig, f'{cls} at {where}, instruction {opn} at pc {pc}', {'kind': 'program', 'src': t[0], 'O': t[2], 'g': t[3], 'irq': t[4]})
        if t[4] is not None and r['outcome'] not in (('trap', 'KEYBOARD_INTERRUPT'),) and 'ON ERROR' not in t[0] and r['ticks'] > t[4]:
            chk.finding('C07 an interrupt at an instruction boundary did not stop the run with KEYBOARD_INTERRUPT',
                        f'interrupt before tick {t[4]}: outcome {r["outcome"]}', {'kind': 'program', 'src': t[0], 'O': t[2], 'g': t[3], 'irq': t[4]})
        if t[4] is not None and 'ON ERROR' not in t[0] and r['ticks'] > t[4] + 1:
            # "before any further instruction executes": the tick that finds the request pending is the last one
            chk.finding('C07 an instruction executed after the interrupt request was pending',
                        f'interrupt before tick {t[4]}: the run went on for {r["ticks"] - t[4]} ticks', {'kind': 'program', 'src': t[0], 'O': t[2], 'g': t[3], 'irq': t[4]})
    bad = chk.corr('tick', reqs, exp, describe=lambda i: {'src': meta[i][0][:200], 'O': meta[i][2], 'g': meta[i][3], 'irq': meta[i][4]})
    # expected trap class of the single-failure programs
    ncls = 0
    for st_, trap in FAILING:
        src = 'DIM arr%(3)\nz% = 0\nz! = 0\nz# = 0\no% = 1\nDATA 1, 2\nDATA "abc", "def"\n' + st_ + '\n'
        c = real.try_compile(src, 0, False)
        if c[0] != 'ok':
            chk.finding('C07 failing-statement program not accepted', f'{st_}: {c[0]} {c[1]}', {'kind': 'stmt', 'stmt': st_})
            continue
        r = real.run_bytes(c[2])
        ncls += 1
        if r.outcome != ('trap', trap):
            chk.finding('C07 reported error category does not match the cause', f'{st_}: expected trap {trap}, got {r.outcome}',
                        {'kind': 'stmt', 'stmt': st_, 'expected': trap})
    # every operand-less instruction through the real tick() on well-typed boundary operands
    ninstr = 0
    kinds = {}
    special = {'i': [0, 1, -1, 2, -2, 255, 256, 32767, -32768], 'l': [0, 1, -1, 2147483647, -2147483648, 65536],
               's': [0.0, -0.0, 1.0, -1.0, 0.5, -0.5, 3.4028234663852886e38, 1.401298464324817e-45, 2.028240960365167e31,
                     -3.4028234663852886e38],
               'd': [0.0, -0.0, 1.0, -1.0, 0.5, -0.5, 1.7976931348623157e308, -1.7976931348623157e308, 5e-324, 400.0, 3.4028236e38,
                     3.40282357e38, -3.4028236e38, 3.4028235677973366e38],
               't': ['', 'a', 'abc', ' 12 ', '1e999', '99999999999', '&HFFFF', chr(255)]}
    for name, sigs in sorted(vmops.SIGS.items()):
        for sig in sigs:
            combos = []
            if len(sig) <= 2:
                import itertools
                combos = list(itertools.product(*[special[k] for k in sig]))
            for _ in range(chk.n(10, 200)):
                combos.append(tuple(vmops.gen_cell(rng, k)[1] for k in sig))
            for vals in combos:
                res = vmops.tick_instr(name, list(zip(sig, vals)))
                ninstr += 1
                kinds[res.split()[0]] = kinds.get(res.split()[0], 0) + 1
                if res.startswith('host'):
                    _, cls, site = (res.split() + [''])[:3]
                    chk.finding(f'C07 host {cls} in {site} ({name})', f'instruction {name} on operands {list(zip(sig, map(repr, vals)))}',
                                {'kind': 'instr', 'name': name, 'sig': list(sig), 'vals': [repr(v) for v in vals]})
    # ... and on operands of the WRONG kind (reachable only through another defect, e.g. a clobbered cell): the machine's
    # own type checks must answer with a trap, and reporting that trap must not raise either
    nill = 0
    for name, sigs in sorted(vmops.SIGS.items()):
        for sig in sigs:
            for pos in range(len(sig)):
                for wrong in 'ilsdt':
                    if wrong == sig[pos]:
                        continue
                    sg = sig[:pos] + (wrong,) + sig[pos + 1:]
                    vals = tuple(vmops.gen_cell(rng, k)[1] for k in sg)
                    res = vmops.tick_instr(name, list(zip(sg, vals)))
                    nill += 1
                    if res.startswith('host'):
                        _, cls, site = (res.split() + [''])[:3]
                        chk.finding(f'C07 host {cls} in {site} ({name}, ill-typed operand)', f'instruction {name} on operands {list(zip(sg, map(repr, vals)))}',
                                    {'kind': 'instr', 'name': name, 'sig': list(sg), 'vals': [repr(v) for v in vals]})
    for probe in vmops.frame_probes():
        res = vmops.tick_frame_instr(*probe)
        nill += 1
        if res.startswith('host'):
            _, cls, site = (res.split() + [''])[:3]
            chk.finding(f'C07 host {cls} in {site} ({probe[0]}, ill-typed cell)', f'instruction {probe[0]} {probe[1]} on a frame holding {probe[2]!r}',
                        {'kind': 'frame-instr', 'probe': [probe[0], probe[1], list(probe[2])]})
    chk.samples += [{'request': reqs[i], 'real': exp[i]} for i in (0, len(reqs) // 2, len(reqs) - 1) if reqs]
    chk.cov['input_distribution'] = {'programs': len(tasks), 'interrupt_runs': nirq, 'ticks_corresponded': len(reqs), 'ill_typed_single_instruction_ticks': nill,
                                     'outcomes': outcomes, 'host_exceptions': hosts, 'trap_class_cases': ncls,
                                     'single_instruction_ticks': ninstr, 'single_instruction_outcomes': kinds}
    return chk.finish(
        level='proof', level_text='',
        trusted_base=['Lean 4.33.0 kernel', 'axioms: ' + ', '.join(sorted({a for v in chk.theorems.values() for a in v})),
                      'the effect of ordinary instructions is a parameter of the tick model; string, array, device and float-power '
                      'instructions are not modelled (searched for host exceptions only)',
                      'OS-level delivery of SIGINT to signal_handler is not modelled: the flag is set by the harness',
                      'correspondence harness harness/checks/c07.py, harness/tickrec.py'],
        checker_cmd='lake build QbeeModel.Props.C07 && lake env lean .lake/audit/Audit_C07.lean',
        rule='every tick of generated programs, of programs with statements failing on purpose (every error kind) and of '
             'statements using the unmodelled instructions; interrupts injected at every instruction boundary of small programs; '
             'non-trivial = a tick whose instruction trapped, raised, or was errhand/errres/errresn/interrupted; distinct by request',
        extra={'evaluations': len(reqs), 'distinct_nontrivial': len({q for q in reqs if ' plain ' not in q})})


def replay(data):
    r = data['replay']
    if r['kind'] == 'instr':
        vals = [eval(v, {'inf': float('inf'), 'nan': float('nan')}) for v in r['vals']]
        print(vmops.tick_instr(r['name'], list(zip(r['sig'], vals))))
        return 0
    if r['kind'] == 'stmt':
        src = 'DIM arr%(3)\nz% = 0\nz! = 0\nz# = 0\no% = 1\nDATA 1, 2\nDATA "abc", "def"\n' + r['stmt'] + '\n'
        c = real.try_compile(src, 0, False)
        print(real.run_bytes(c[2]).outcome if c[0] == 'ok' else c[:2])
        return 0
    out = _rec_task((r['src'], [], r['O'], r['g'], r.get('irq')))
    print(out.get('outcome'), out.get('hosts'))
    return 0
