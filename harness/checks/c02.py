"""C02  optimisation and compile-time evaluation never change behaviour.

Theorems: Props/C02.lean (integral folding = run-time value; folder gives up exactly when the machine traps; the
value-level peephole rules on integral operands).
Correspondence: Model/Fold.lean vs the real BinaryOp/UnaryOp fold and vs QvmCode.optimize on instruction windows.
Oracle on the real code: every level (0-3) must agree on acceptance and on behaviour, for constant expressions over
every operator / type pair / boundary value and for generated whole programs.
"""
import math

from .. import core, real, progs, values, vmops
from .c01 import gen_valued_tree
from .c03 import TCH

LEAN_MODULE = 'QbeeModel.Props.C02'
REQUIRED = ['fold_operand_conv_agrees', 'fold_agrees_int', 'fold_never_invents_failure', 'fold_cmp_agrees', 'fold_unary_agrees', 'ph_push_conv_int',
            'ph_push_push_binop_int', 'ph_push_unary_int', 'long_overflow_was_folded_before_repair']
LEVELS = [0, 1, 2, 3]
OPMAP = {'add': 'ADD', 'sub': 'SUB', 'mul': 'MUL', 'idiv': 'INTDIV', 'mod': 'MOD', 'and': 'AND', 'or': 'OR', 'xor': 'XOR',
         'eqv': 'EQV', 'imp': 'IMP', 'exp': 'EXP'}
CMPS = {'CMP_EQ': lambda c: c == 0, 'CMP_NE': lambda c: c != 0, 'CMP_LT': lambda c: c < 0, 'CMP_GT': lambda c: c > 0,
        'CMP_LE': lambda c: c <= 0, 'CMP_GE': lambda c: c >= 0}


def real_fold_bin(opname, t, a, b):
    from qbee import expr
    ty = expr.Type.INTEGER if t == 'i' else expr.Type.LONG
    node = expr.BinaryOp(expr.NumericLiteral(a, ty), expr.NumericLiteral(b, ty), expr.Operator[opname])
    try:
        r = node.fold()
    except Exception as e:  # noqa: BLE001
        return 'host ' + type(e).__name__
    if r is node:
        return 'unfolded'
    return f'lit {"i" if r.type == expr.Type.INTEGER else "l" if r.type == expr.Type.LONG else r.type.name} {r.value}'


def real_fold_un(kind, t, a):
    from qbee import expr
    ty = expr.Type.INTEGER if t == 'i' else expr.Type.LONG
    node = expr.UnaryOp(expr.NumericLiteral(a, ty), expr.Operator.NEG if kind == 'neg' else expr.Operator.NOT)
    try:
        r = node.fold()
    except Exception as e:  # noqa: BLE001
        return 'host ' + type(e).__name__
    if r is node:
        return 'unfolded'
    return f'lit {"i" if r.type == expr.Type.INTEGER else "l"} {r.value}'


def real_window(instrs):
    """run the real peephole pass on a window; -> list of final tuples or ('host', cls)"""
    from qbee.qvm_codegen import QvmCode
    code = QvmCode()
    code.add(*instrs)
    try:
        code.optimize()
    except Exception as e:  # noqa: BLE001
        return ('host', type(e).__name__)
    return [i.final for i in code._instrs]


def push_of(t, n):
    """the final form of a push of an integral value"""
    tc = '%' if t == 'i' else '&'
    if n in (-2, -1, 0, 1, 2):
        return ({2: 'push2', 1: 'push1', 0: 'push0', -1: 'pushm1', -2: 'pushm2'}[n] + tc,)
    return ('push' + tc, n)


def const_task(t):
    return real.big_frame(lambda: _const_task(t))


def _const_task(t):
    """compile `PRINT <constant expr>` at every level; -> [(level, result)]"""
    text = t
    from qvm.machine import TerminalDevice
    out = []
    src = f'PRINT {text}\n'
    for o in LEVELS:
        st = real.try_compile(src, o, False)
        if st[0] != 'ok':
            out.append((o, 'reject' if st[0] in ('compile', 'syntax') else f'internal {type(st[1]).__name__}'))
            continue
        snaps = []
        orig = TerminalDevice._exec_print

        def spy(self, _orig=orig, _snaps=snaps):
            _snaps.append(list(self.cpu.stack))
            _orig(self)
        TerminalDevice._exec_print = spy
        try:
            r = real.run_bytes(st[2])
        finally:
            TerminalDevice._exec_print = orig
        if r.outcome[0] == 'end' and len(snaps) == 1 and len(snaps[0]) >= 3:
            out.append((o, vmops.canon_nan('ok ' + vmops.enc_cellvalue(snaps[0][-2]))))
        elif r.outcome[0] == 'trap':
            out.append((o, 'trap ' + r.outcome[1]))
        elif r.outcome[0] == 'host':
            out.append((o, 'host ' + r.outcome[1]))
        else:
            out.append((o, 'other ' + str(r.outcome)))
    return out


def lit_text(k, v):
    if k == 't':
        return '"' + v.replace('"', '') + '"'
    if k in 'il':
        s = str(abs(v)) + ('%' if k == 'i' and abs(v) <= 32767 else '&' if abs(v) <= 2147483647 else '#')
        return f'(-{s})' if v < 0 else s
    lit = values.qb_float_literal(abs(v), 'SINGLE' if k == 's' else 'DOUBLE')
    return f'(-{lit})' if (v < 0 or math.copysign(1, v) < 0) else lit


def gen_const_expr(rng, depth):
    """constant expression text over literals of every type (boundary-biased)"""
    toks, text, env = gen_valued_tree(rng, depth, want_str=rng.random() < 0.06)
    for name, (k, v) in env.items():
        if k in 'sd' and not math.isfinite(v):
            v = 2.5
        text = text.replace(name, lit_text(k, v))
    return text


def run(chk):
    rng = chk.rng
    chk.regen_and_build(LEAN_MODULE)
    chk.audit(LEAN_MODULE, REQUIRED)
    dist = {}
    # ---- (1) the folder on integral constants: model vs real
    reqs, exp = [], []
    n1 = chk.n(4000, 80000)
    for _ in range(n1):
        t = rng.choice('il')
        a = values.gen_int(rng, 'INTEGER' if t == 'i' else 'LONG')
        b = values.gen_int(rng, 'INTEGER' if t == 'i' else 'LONG')
        r = rng.random()
        if r < 0.7:
            op = rng.choice(list(OPMAP))
            if op == 'exp':
                b = rng.randint(-2, 40)
            if op in ('idiv', 'mod') and rng.random() < 0.1:
                b = 0
            reqs.append(f'fold b {op} {t} {a} {b}')
            exp.append(real_fold_bin(OPMAP[op], t, a, b))
        elif r < 0.85:
            cm = rng.choice(list(CMPS))
            reqs.append(f'fold b cmp {t} {a} {b}')
            rf = real_fold_bin(cm, t, a, b)
            # the model folds the three-way cmp; derive the operator's truth value from it
            exp.append(('cmp', cm, rf))
        else:
            k = rng.choice(['neg', 'not'])
            reqs.append(f'fold u {k} {t} {a}')
            exp.append(real_fold_un(k, t, a))
    got = chk.model.ask(reqs) if chk.model else []
    nb = 0
    for r_, g, e in zip(reqs, got, exp):
        if isinstance(e, tuple):
            c = int(g.split()[2])
            want = f'lit i {-1 if CMPS[e[1]](c) else 0}'
            ok = e[2] == want
            e = e[2] + f' (model cmp {c} -> {want})'
        else:
            ok = g == e
        if not ok:
            nb += 1
            if nb <= 3:
                chk.broken.append(('correspondence', 'fold-int', {'request': r_, 'model': g, 'real': e}))
                chk.say('fold-int disagree:', r_, '| model', g, '| real', e)
    chk.stats['fold-int'] = {'cases': len(reqs), 'disagree': nb}

    # ---- (1b) float operands of integral operations: the folder's operand conversion vs the model, at the boundaries
    from qbee import expr as _expr
    bvals = []
    for lim in (2147483647, -2147483648, 32767, -32768, 0, 1, 16777216):
        for d_ in (-1.5, -1.0, -0.75, -0.5, -0.25, 0.0, 0.25, 0.5, 0.75, 1.0, 1.5):
            bvals.append(float(lim) + d_)
    bvals += [values.gen_float(rng, 'DOUBLE') for _ in range(chk.n(300, 5000))]
    oreqs, oexp = [], []
    for x in bvals:
        if not math.isfinite(x):
            continue
        node = _expr.BinaryOp(_expr.NumericLiteral(x, _expr.Type.DOUBLE), _expr.NumericLiteral(-1, _expr.Type.LONG), _expr.Operator.AND)
        try:
            r = node.fold()
            e = 'none' if r is node else f'some {r.value}'
        except Exception as ex:  # noqa: BLE001
            e = 'host ' + type(ex).__name__
        oreqs.append(f'fold opconv l {vmops.dbits(x)}')
        oexp.append(e)
    chk.corr('fold-operand-conv', oreqs, oexp)

    # ---- (2) peephole windows: real optimize vs the model's rules
    nw = 0
    nbw = 0
    wreqs, wexp = [], []
    for _ in range(chk.n(2500, 40000)):
        t = rng.choice('il')
        tc = '%' if t == 'i' else '&'
        a = values.gen_int(rng, 'INTEGER' if t == 'i' else 'LONG')
        b = values.gen_int(rng, 'INTEGER' if t == 'i' else 'LONG')
        r = rng.random()
        if r < 0.55:
            op = rng.choice([o for o in OPMAP])
            if op == 'exp':
                b = rng.randint(0, 20)
            if op in ('idiv', 'mod') and rng.random() < 0.1:
                b = 0
            win = [('push' + tc, a), ('push' + tc, b), (op,)]
            wreqs.append(f'fold b {op} {t} {a} {b}')
            wexp.append((win, 'bin'))
        elif r < 0.75:
            k = rng.choice(['neg', 'not'])
            win = [('push' + tc, a), (k,)]
            wreqs.append(f'fold u {k} {t} {a}')
            wexp.append((win, 'un'))
        else:
            d = 'l' if t == 'i' else 'i'
            dc = '%' if d == 'i' else '&'
            win = [('push' + tc, a), (f'conv{tc}{dc}',)]
            wreqs.append(f'fold conv {d} {a}')
            wexp.append((win, ('conv', d)))
    wgot = chk.model.ask(wreqs) if chk.model else []
    for r_, g, (win, kind) in zip(wreqs, wgot, wexp):
        realw = real_window(win)
        base = [push_of('i' if w[0][4] == '%' else 'l', w[1]) if w[0].startswith('push') else w for w in win]
        if g.startswith('lit'):
            _, t2, n2 = g.split()
            want = [push_of(t2, int(n2))]
        elif g.startswith('some'):
            want = [push_of(kind[1], int(g.split()[1]))]
        elif g in ('unfolded', 'none'):
            want = base
        else:
            want = ('host', g.split()[1])
        nw += 1
        if realw != want and not (isinstance(want, tuple) and isinstance(realw, tuple)):
            nbw += 1
            if nbw <= 3:
                chk.broken.append(('correspondence', 'peephole-window', {'window': win, 'model': want, 'real': realw}))
                chk.say('peephole-window disagree:', win, '| model', want, '| real', realw)
    chk.stats['peephole-window'] = {'cases': nw, 'disagree': nbw}

    # ---- (3) constant expressions of every type at every level
    nconst = chk.n(250, 5000)
    texts = [gen_const_expr(rng, rng.choice([1, 1, 2, 2, 3])) for _ in range(nconst)]
    # boundary operands of the integral operations, DOUBLE and (not single-representable) SINGLE literals
    for opx in ('\\', 'MOD', 'AND', 'OR', 'XOR', 'EQV', 'IMP'):
        for lit in ('2147483647.5#', '2147483647.25#', '2147483648#', '(-2147483648.5#)', '(-2147483648.75#)', '32767.5#',
                    '16777217.0', '2147483600.0', '0.1', '33554433!', '2.5#', '3.5#', '(-0.5#)'):
            texts.append(f'({lit} {opx} 3)')
            texts.append(f'(5 {opx} {lit})')
    # comparisons of constants of different types whose values differ only by a fraction (the operands must be compared at
    # the wider type, exactly as the generated code does)
    pairs = [('2&', '2.5'), ('70000', '70000.3'), ('3%', '2.5#'), ('2&', '2.4!'), ('100000&', '100000.4'), ('3', '3.4999'), ('(-2&)', '(-2.5)'),
             ('16777217&', '16777217!'), ('2.5', '2.5#'), ('0.1', '0.1#'), ('1&', '1.0000001#'), ('33554433&', '33554432!')]
    for a_, b_ in pairs:
        for cmp_ in ('=', '<>', '<', '>', '<=', '>='):
            texts.append(f'({a_} {cmp_} {b_})')
            texts.append(f'({b_} {cmp_} {a_})')
    nconst = len(texts)
    cres = real.pmap(const_task, texts)
    hits = {}
    nontriv = set()
    for text, outs in zip(texts, cres):
        base = outs[0][1]
        if base.startswith('ok') and text.count('(') >= 2:
            nontriv.add(text)
        for o, res in outs[1:]:
            if res != base:
                if base == 'reject' or res == 'reject' or res.startswith('internal') or base.startswith('internal'):
                    sig = 'C02 levels disagree on acceptance of a constant expression'
                    if '^' in text:
                        sig += ' (operator ^)'
                elif '^' in text:
                    sig = 'C02 folded constant differs from the run-time value (operator ^)'
                else:
                    sig = 'C02 folded constant differs from the run-time value'
                hits[sig] = hits.get(sig, 0) + 1
                chk.finding(sig, f'PRINT {text}: -O0 {base}, -O{o} {res}', {'kind': 'const', 'text': text, 'levels': [0, o]})
                break
    dist['constant_expressions'] = nconst
    dist['constant_hits'] = hits

    # ---- (4) whole programs at levels 0-3
    nprog = chk.n(50, 1000)
    ptasks = []
    for i in range(nprog):
        src, inputs = progs.gen_program(rng, size=rng.choice([3, 5, 8]), depth=rng.choice([1, 2, 2]))
        ptasks.append((src, inputs, [(o, False) for o in LEVELS], 30000, set()))
    if chk.thorough():
        for src in progs.load_repo_programs(core.REPO):
            ptasks.append((src, ['1', '2', '3'], [(o, False) for o in LEVELS], 30000, set()))
    pres = real.pmap(real.run_task, ptasks)
    for (src, inputs, _, _, _), recs in zip(ptasks, pres):
        base = None
        for rec in recs:
            if rec['status'] == 'ok' and rec['outcome'][0] == 'timeout':
                break
            sig = (rec['status'], rec.get('outcome'), tuple(map(tuple, rec.get('trace', []))) if rec['status'] == 'ok' else rec['status'])
            if base is None:
                base = (rec['cfg'], sig)
            elif sig != base[1]:
                chk.finding('C02 a program behaves differently at two optimisation levels',
                            f'-O{base[0][0]} vs -O{rec["cfg"][0]}: {str(base[1])[:160]} / {str(sig)[:160]}',
                            {'kind': 'program', 'src': src, 'inputs': inputs, 'levels': [base[0][0], rec['cfg'][0]]})
                break
    dist['programs'] = len(ptasks)
    chk.samples += [{'constant_expression': texts[i], 'levels': cres[i]} for i in range(3)]
    chk.cov['input_distribution'] = dist
    return chk.finish(
        level='proof', level_text='',
        trusted_base=['Lean 4.33.0 kernel', 'axioms: ' + ', '.join(sorted({a for v in chk.theorems.values() for a in v})),
                      'ctypes c_short/c_int wrap-around modelled as two\'s-complement wrap (corresponded)',
                      'float folding, jump/halt peephole rules and whole-program lifting are validated, not proved',
                      'correspondence harness harness/checks/c02.py'],
        checker_cmd='lake build QbeeModel.Props.C02 && lake env lean .lake/audit/Audit_C02.lean',
        rule='integral constant folds and peephole windows on boundary-biased operands (model vs real); constant expressions '
             'over literals of all types and whole generated programs compiled at levels 0,1,2,3 and compared; non-trivial = '
             'constant expression with >= 2 operators that evaluates; distinct by text',
        extra={'evaluations': len(reqs) + nw + nconst * 4 + len(ptasks) * 4, 'distinct_nontrivial': len(nontriv)})


def replay(data):
    r = data['replay']
    if r['kind'] == 'const':
        print(_const_task(r['text']))
    else:
        for o in r['levels']:
            st = real.try_compile(r['src'], o, False)
            if st[0] == 'ok':
                run_ = real.run_bytes(st[2], inputs=r.get('inputs', []))
                print(o, repr(real.text_of(run_.trace))[:300], run_.outcome)
            else:
                print(o, st[0], st[1])
    return 0
