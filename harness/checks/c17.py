"""C17  PRINT layout: theorems over Model/Print.lean; correspondence with
TerminalDevice._exec_print (direct) and with compiled PRINT statements (6 configurations)."""
import json

from .. import core, real, values
from qvm.utils import format_number

LEAN_MODULE = 'QbeeModel.Props.C17'
REQUIRED = ['args_roundtrip', 'nargs_eq_length', 'layout_num', 'layout_str', 'layout_semi', 'layout_comma',
            'layout_comma_next_zone', 'layout_empty', 'layout_newline', 'layout_trailing_sep',
            'layout_fn_of_items', 'print_end_to_end']

CT = {'INTEGER': real.CellType.INTEGER, 'LONG': real.CellType.LONG, 'SINGLE': real.CellType.SINGLE,
      'DOUBLE': real.CellType.DOUBLE, 'STRING': real.CellType.STRING}


CONTROL = '\t\n\r'


def qb_string(v, raw_tab=False):
    """a QBASIC expression whose value is the string v (control characters through CHR$; a TAB may also stand in the literal)"""
    if not any(c in CONTROL for c in v):
        return '"' + v + '"'
    if raw_tab and '\n' not in v and '\r' not in v:
        return '"' + v + '"'
    parts, cur = [], ''
    for c in v:
        if c in CONTROL:
            if cur:
                parts.append('"' + cur + '"')
                cur = ''
            parts.append(f'CHR$({ord(c)})')
        else:
            cur += c
    if cur:
        parts.append('"' + cur + '"')
    return ' + '.join(parts)


def gen_items(rng, maxn=8):
    """item = ('v', type, value) | (';',) | (',',)"""
    n = rng.choice([0, 1, 1, 2, 3, 4, 5, 6, maxn])
    items = []
    for _ in range(n):
        r = rng.random()
        if r < 0.25:
            items.append((';',))
        elif r < 0.5:
            items.append((',',))
        else:
            ty = rng.choice(values.TYPES)
            v = values.gen_value(rng, ty)
            if ty == 'STRING':
                v = v.replace('"', '')
                if rng.random() < 0.3:
                    v = v * rng.randint(1, 3)
                if rng.random() < 0.12:
                    # a string item is written verbatim, whatever it contains: a TAB, LF or CR is one character of it
                    k = rng.randint(0, len(v))
                    v = v[:k] + rng.choice(CONTROL) + v[k:]
            items.append(('v', ty, v))
    return items


def gen_items_dense(rng):
    """value, separator, value, separator, ... (search mode: many adjacent value pairs, many strings)"""
    items = []
    for k in range(rng.randint(2, 5)):
        if rng.random() < 0.6:
            v = values.gen_str(rng, 16).replace('"', '')
            items.append(('v', 'STRING', v))
        else:
            ty = rng.choice(['INTEGER', 'LONG', 'SINGLE', 'DOUBLE'])
            items.append(('v', ty, values.gen_value(rng, ty)))
        items.append((rng.choice([';', ',']),))
    if rng.random() < 0.6:
        items.pop()
    return items


def item_tokens(items):
    """model request tokens; number text of floats comes from the real format_number (external repr)"""
    toks = []
    for it in items:
        if it[0] == 'v':
            _, ty, v = it
            if ty == 'STRING':
                toks += ['S', core.enc_str(v)]
            elif ty in ('INTEGER', 'LONG'):
                toks += ['I', str(v)]
            else:
                toks += ['N', core.enc_str(format_number(v, CT[ty]))]
        else:
            toks.append(it[0])
    return toks


def device_print(items):
    """push what gen_print_stmt would push and call the real device op"""
    code = real.compile_src('END\n')
    mod = real.QModule.parse(bytes(code))
    impl = real.RecImpl()
    m = real.QvmMachine(mod, impl=impl)
    cpu = m.cpu
    nargs = 0
    cells = []
    for it in items:
        if it[0] == 'v':
            cpu.push(real.CellType.INTEGER, 0)
            cpu.push(CT[it[1]], it[2])
            nargs += 2
            cells += ['I 0', ('S ' + core.enc_str(it[2])) if it[1] == 'STRING' else
                      ('N ' + core.enc_str(format_number(it[2], CT[it[1]])))]
        else:
            code_ = 1 if it[0] == ';' else 2
            cpu.push(real.CellType.INTEGER, code_)
            nargs += 1
            cells.append(f'I {code_}')
    cpu.push(real.CellType.INTEGER, nargs)
    cpu.devices['terminal']._exec_print()
    return real.text_of(impl.calls), cells, nargs, len(cpu.stack)


def literal(ty, v):
    if ty == 'STRING':
        return '"' + v + '"'
    if ty in ('INTEGER', 'LONG'):
        return None  # via variable (negative literals are unary expressions)
    return None


def program_for(rng, items, literal_bias=0.4):
    """a program printing `items` through variables / expressions, in a random context"""
    lines = []
    exprs = []
    k = 0
    for it in items:
        if it[0] != 'v':
            exprs.append(it[0])
            continue
        _, ty, v = it
        k += 1
        name = f'v{k}{values.TYPE_CHAR[ty]}'
        how = rng.random()
        if ty == 'STRING':
            if any(c in CONTROL for c in v):
                if how < 0.5:
                    exprs.append('(' + qb_string(v, rng.random() < 0.5) + ')')
                else:
                    lines.append(f'{name} = {qb_string(v, rng.random() < 0.5)}')
                    exprs.append(name)
            elif how < literal_bias:
                exprs.append('"' + v + '"')
            elif how < 0.7 and len(v) >= 2:
                lines.append(f'{name} = "{v[:1]}" + "{v[1:]}"')
                exprs.append(name)
            else:
                lines.append(f'{name} = "{v}"')
                exprs.append(name)
        elif ty in ('INTEGER', 'LONG'):
            if v >= 0 and how < 0.3:
                exprs.append(f'{v}{values.TYPE_CHAR[ty]}')
            elif how < 0.6 and -30000 < v < 30000 and ty == 'INTEGER':
                lines.append(f'{name} = {v - 1}')
                exprs.append(f'{name} + 1')
            else:
                lines.append(f'{name} = {v}' if v != -2147483648 else f'{name} = -2147483647 - 1')
                exprs.append(name)
        else:
            lit = values.qb_float_literal(abs(v), ty)
            lines.append(f'{name} = {lit}')
            if v < 0 or str(v).startswith('-'):
                lines.append(f'{name} = -{name}')   # unary minus on a variable: not folded (C02 has its own findings)
            exprs.append(name)
    stmt = 'PRINT ' + ' '.join(exprs) if exprs else 'PRINT'
    # adjacent expressions need a separator in the source: insert ';' markers where two values meet
    out = []
    prev_val = False
    for e, it in zip(exprs, items):
        isval = it[0] == 'v'
        if isval and prev_val:
            return None  # not expressible without an extra separator
        out.append(e)
        prev_val = isval
    stmt = ('PRINT ' + ' '.join(out)).rstrip()
    ctx = rng.choice(['plain', 'sub', 'if', 'for', 'gosub'])
    if ctx == 'plain':
        body = lines + [stmt]
    elif ctx == 'sub':
        body = ['CALL p', 'END', 'SUB p'] + ['  ' + l for l in lines] + ['  ' + stmt, 'END SUB']
    elif ctx == 'if':
        body = lines + ['IF 1 THEN', '  ' + stmt, 'END IF']
    elif ctx == 'for':
        body = lines + ['FOR i% = 1 TO 1', '  ' + stmt, 'NEXT']
    else:
        body = lines + ['GOSUB pr', 'END', 'pr:', stmt, 'RETURN']
    return '\n'.join(body) + '\n'


def compiled_case(task):
    """worker: (src, items) -> ([(O, g, text)], [(encoded cells at the io instruction, O, g)])"""
    src, items = task
    from qvm.machine import TerminalDevice
    texts, protos = [], []
    for (o, g) in real.CONFIGS:
        st = real.try_compile(src, o, g)
        if st[0] != 'ok':
            texts.append((o, g, 'compile:' + st[0] + ':' + type(st[1]).__name__))
            continue
        snaps = []
        orig = TerminalDevice._exec_print

        def spy(self, _orig=orig, _snaps=snaps):
            _snaps.append([(c.type.name, c.value) for c in self.cpu.stack])
            _orig(self)
        TerminalDevice._exec_print = spy
        try:
            r = real.run_bytes(st[2])
        finally:
            TerminalDevice._exec_print = orig
        texts.append((o, g, real.text_of(r.trace) if r.outcome[0] == 'end' else 'outcome:' + str(r.outcome)))
        if len(snaps) == 1:
            cells = snaps[0]
            n = cells[-1][1] if cells and cells[-1][0] == 'INTEGER' else -1
            args = cells[-1 - n:-1] if 0 <= n < len(cells) else None
            enc = []
            for (t, v) in (args or []):
                if t == 'INTEGER' and (not enc or enc[-1] != 'I 0'):
                    enc.append(f'I {v}')
                elif t == 'STRING':
                    enc.append('S ' + core.enc_str(v))
                else:
                    enc.append('N ' + core.enc_str(format_number(v, CT[t])))
            protos.append(((' '.join(enc) + f' I {n}').strip(), o, g))
    return texts, protos


def run(chk):
    rng = chk.rng
    chk.regen_and_build(LEAN_MODULE)
    chk.audit(LEAN_MODULE, REQUIRED)

    # ---- correspondence A: the device operation, directly
    nA = chk.n(1500, 30000)
    cases = [gen_items(rng) for _ in range(nA)]
    cases[:6] = [[], [(';',)], [(',',)], [('v', 'STRING', 'x' * 14), (',',)], [('v', 'INTEGER', -32768)],
                 [(',',), (',',), ('v', 'DOUBLE', 0.1), (';',)]]
    reqs, exp, reqs2, exp2 = [], [], [], []
    distinct = set()
    dist = {'items': 0, 'num': 0, 'str': 0, 'semi': 0, 'comma': 0, 'trailing_sep': 0, 'empty': 0, 'long_str': 0}
    for items in cases:
        text, cells, nargs, depth = device_print(items)
        reqs.append('print ' + ' '.join(item_tokens(items)))
        exp.append(core.enc_str(text))
        reqs2.append('pencode ' + ' '.join(item_tokens(items)))
        exp2.append((' '.join(cells) + f' I {nargs}').strip())
        key = json.dumps(items)
        if len(items) >= 2 and any(i[0] != 'v' for i in items):
            distinct.add(key)
        dist['items'] += len(items)
        for it in items:
            if it[0] == 'v':
                dist['str' if it[1] == 'STRING' else 'num'] += 1
                if it[1] == 'STRING' and len(it[2]) > 14:
                    dist['long_str'] += 1
            else:
                dist['semi' if it[0] == ';' else 'comma'] += 1
        if items and items[-1][0] != 'v':
            dist['trailing_sep'] += 1
        if not items:
            dist['empty'] += 1
        if depth != 0:
            chk.finding('C17 print leaves cells on the stack', f'stack depth {depth} after PRINT', {'items': items})
    bad = chk.corr('print-device', reqs, exp)
    for i in bad[:3]:
        chk.finding('C17 device print text differs from the specified layout',
                    'TerminalDevice._exec_print text != layout(items)',
                    {'kind': 'device', 'items': cases[i], 'real': core.dec_str(exp[i])})
    # the argument protocol: the cells pushed for these items == model's encodeItems (floats: text compared)
    m2 = []
    for r in reqs2:
        m2.append(r)
    got = [g.strip() for g in chk.model.ask(m2)] if chk.model else []
    # model prints integers as N <text>; the harness prints them as N <format_number text> too
    badp = [i for i, (g, e) in enumerate(zip(got, exp2)) if g != e]
    chk.stats['print-protocol'] = {'cases': len(m2), 'disagree': len(badp)}
    for i in badp[:3]:
        chk.broken.append(('correspondence', 'print-protocol', {'request': m2[i], 'model': got[i], 'real': exp2[i]}))
        chk.say('print-protocol', m2[i], '|', got[i], '|', exp2[i])
    chk.samples += [{'items': cases[i], 'text': core.dec_str(exp[i])} for i in (3, 5, 7, 9) if i < len(cases)]

    # ---- correspondence B: compiled PRINT statements, all six configurations
    meta_all = []

    # item lists at the edges of the protocol: empty strings (as literals) first, last, alone, between separators
    E = ('v', 'STRING', '')
    A = ('v', 'STRING', 'ab')
    N7 = ('v', 'INTEGER', 7)
    T1, T2, T3 = ('v', 'STRING', 'a\tb'), ('v', 'STRING', 'abc\nde'), ('v', 'STRING', 'abcdef\r')
    EDGE = [[A, (';',), E], [N7, (',',), E], [(';',), E], [A, (';',), (';',), E, (';',), E], [E], [E, (';',)], [E, (',',), E], [E, (';',), A],
            [A, (',',), E, (',',), N7], [E, (';',), E, (';',), E], [N7, (';',), E, (';',)], [(',',), (',',), E], [A, (';',), E, (',',)],
            [E, (';',), N7], [N7, (';',), E, (';',), N7],
            # control characters inside string items (one character each, written verbatim; zones count them as one column)
            [T1], [T1, (',',), A], [A, (';',), T1, (',',), N7], [T2, (',',), A], [T3, (',',), N7], [T1, (';',)], [A, (',',), T2, (',',), T3]]
    edge_done = []

    def compiled_round(n, literal_bias):
        tasks = []
        tries = 0
        if not edge_done:
            edge_done.append(1)
            for items in EDGE:
                for _ in range(3):
                    src = program_for(rng, items, 1.0)
                    if src is not None:
                        tasks.append((src, items))
        while len(tasks) < n and tries < n * 20:
            tries += 1
            items = gen_items_dense(rng) if literal_bias > 0.5 and rng.random() < 0.7 else gen_items(rng, 6)
            src = program_for(rng, items, literal_bias if literal_bias <= 0.5 else 0.5)
            if src is not None:
                tasks.append((src, items))
        res = real.pmap(compiled_case, tasks)
        reqsB, expB, meta, protoB = [], [], [], []
        for (src, items), (texts, protos) in zip(tasks, res):
            for (o, g, t) in texts:
                reqsB.append('print ' + ' '.join(item_tokens(items)))
                expB.append(core.enc_str(t))
                meta.append((src, o, g, items))
            for (enc, o, g) in protos:
                protoB.append(('pencode ' + ' '.join(item_tokens(items)), enc, src, o, g))
        badB = chk.corr('print-compiled', reqsB, expB, describe=lambda i: {'src': meta[i][0], 'O': meta[i][1], 'g': meta[i][2]})
        for i in badB[:3]:
            src, o, g, items = meta[i]
            chk.finding('C17 compiled PRINT text differs from the specified layout',
                        'text passed to terminal_print != layout(items)',
                        {'kind': 'compiled', 'src': src, 'O': o, 'g': g, 'items': items,
                         'real': core.dec_str(expB[i]) if not expB[i].startswith('c') else expB[i]})
        if chk.model and protoB:
            gotp = [g.strip() for g in chk.model.ask([p[0] for p in protoB])]
            badp = [i for i, g in enumerate(gotp) if g != protoB[i][1]]
            st = chk.stats.setdefault('print-protocol-compiled', {'cases': 0, 'disagree': 0})
            st['cases'] += len(protoB)
            st['disagree'] += len(badp)
            for i in badp[:3]:
                chk.broken.append(('correspondence', 'print-protocol-compiled',
                                   {'request': protoB[i][0], 'model': gotp[i], 'real': protoB[i][1], 'src': protoB[i][2]}))
            if badp:
                chk.say('print-protocol-compiled disagrees, e.g.', protoB[badp[0]][2].replace('\n', ' / '))
        meta_all.extend(meta)
        return len(tasks), len(reqsB)

    progs, nreq = compiled_round(chk.n(60, 1200), 0.4)
    nB_total = nreq
    # a proof obligation / the correspondence broke without a concrete wrong text yet: search the real code for one
    rounds = 0
    while chk.broken and not chk.violations and rounds < chk.n(3, 8):
        rounds += 1
        chk.say(f'search round {rounds}: more compiled PRINT statements (literal-heavy) for a failing input')
        p2, n2 = compiled_round(400, 0.75)
        progs += p2
        nB_total += n2
    reqsB = [None] * nB_total
    meta = meta_all
    if meta:
        chk.samples.append({'program': meta[0][0], 'configs': 6})
    chk.cov['input_distribution'] = dist
    chk.cov['programs'] = progs
    return chk.finish(
        level='proof',
        level_text='',
        trusted_base=['Lean 4.33.0 kernel', 'axioms: ' + ', '.join(sorted({a for v in chk.theorems.values() for a in v})) ,
                      'correspondence harness (harness/checks/c17.py) ties Model/Print.lean to TerminalDevice._exec_print '
                      'and gen_print_stmt', 'format_number text of SINGLE/DOUBLE supplied by the real code (C16)'],
        checker_cmd='lake build QbeeModel.Props.C17 && lake env lean .lake/audit/Audit_C17.lean',
        rule='random item sequences (values of all five types at type boundaries, strings of length 0..>28, '
             'leading/repeated/trailing separators); a case is non-trivial if it has >= 2 items and at least one separator; '
             'distinct by item list',
        extra={'evaluations': len(reqs) + len(reqsB) + len(m2), 'distinct_nontrivial': len(distinct)})


def replay(data):
    r = data['replay']
    if r.get('kind') == 'compiled':
        st = real.try_compile(r['src'], r['O'], r['g'])
        if st[0] != 'ok':
            print('compile', st[0]); return 1
        run_ = real.run_bytes(st[2])
        print(repr(real.text_of(run_.trace)))
    else:
        items = [tuple(i) for i in r['items']]
        print(repr(device_print(items)[0]))
    return 0
