"""C01  compiled programs do what their source says.

Theorems: Props/C01.lean -- compileC_correct (all expressions) over the regenerated operator tables.
Correspondence: (1) Model/Arith.lean vs the real machine instructions on boundary values; (2) the reference value of
generated expression trees (refEval, executed in Lean) vs the value the real compiled program leaves on the stack,
in all six configurations.
Oracle beyond the proved subset: generated whole programs must behave identically in all six configurations (a
necessary condition of "does what the source says"), and the repository's own expected outputs must hold.
"""
import math

from .. import core, real, progs, values, vmops
from .c03 import gen_tree, TCH

LEAN_MODULE = 'QbeeModel.Props.C01'
REQUIRED = ['exit_do_leaves_this_loop', 'for_passes_exit_do', 'exit_for_leaves_this_loop', 'do_passes_exit_for', 'execList_stops',
            'for_empty_range', 'while_false_skips', 'do_until_nonzero_skips', 'call_byval_preserves_caller', 'call_writes_only_refs',
            'call_ref_gets_callee_value', 'exit_sub_returns', 'end_in_sub_ends_program', 'call_unfold', 'more_fuel_same_result', 'result_independent_of_fuel', 'add_is_machine_add', 'sub_is_machine_sub', 'mul_is_machine_mul', 'idiv_is_machine_idiv', 'mod_is_machine_mod', 'lt_is_machine_cmp_lt', 'gt_is_machine_cmp_gt', 'le_is_machine_cmp_le', 'ge_is_machine_cmp_ge', 'eq_is_machine_cmp_eq', 'ne_is_machine_cmp_ne', 'idx_out_of_range_traps', 'assign_out_of_range_traps', 'elemCell_injective', 'assignIdx_then_idx', 'assignIdx_frame'] + ['allSpecOk_true', 'decodeTableOk_true', 'compileC_correct', 'idiv_is_truncation', 'floored_division_was_wrong']
KIND = {'i': 'i', 'l': 'l', 's': 's', 'd': 'd', 'str': 't'}


def gen_valued_tree(rng, depth, want_str=False):
    """-> (model tokens with concrete leaf cells, QBASIC text over variables, {var: (kind, value)})"""
    from qbee.expr import Operator
    env = {}

    def leaf(t):
        k = KIND[t]
        cell = vmops.gen_cell(rng, k)
        if k in 'sd' and (not math.isfinite(cell[1])):
            cell = (k, 1.5)
        if k == 's':
            cell = (k, values.f32(cell[1]))
        if k == 't':
            cell = (k, cell[1].replace('"', ''))
        name = f'q{len(env)}{TCH[t]}'
        env[name] = cell
        return ['A', vmops.enc_cell(*cell)], name

    def go(d, ws):
        if d <= 0 or rng.random() < 0.25:
            return leaf('str' if ws else rng.choice(['i', 'l', 's', 'd']))
        if ws:
            a, at = go(d - 1, True)
            b, bt = go(d - 1, True)
            return ['B', str(Operator.ADD.value)] + a + b, f'({at} + {bt})'
        r = rng.random()
        if r < 0.12:
            op = rng.choice([Operator.NEG, Operator.NOT, Operator.PLUS])
            a, at = go(d - 1, False)
            sym = {'NEG': '-', 'NOT': 'NOT ', 'PLUS': '+'}[op.name]
            return ['U', str(op.value)] + a, f'({sym}{at})'
        if r < 0.2:
            op = rng.choice([Operator.CMP_EQ, Operator.CMP_LT, Operator.CMP_NE, Operator.CMP_GE])
            a, at = go(d - 1, True)
            b, bt = go(d - 1, True)
            sym = {'CMP_EQ': '=', 'CMP_LT': '<', 'CMP_NE': '<>', 'CMP_GE': '>='}[op.name]
            return ['B', str(op.value)] + a + b, f'({at} {sym} {bt})'
        ops = {'ADD': '+', 'SUB': '-', 'MUL': '*', 'DIV': '/', 'MOD': 'MOD', 'INTDIV': '\\', 'CMP_EQ': '=',
               'CMP_NE': '<>', 'CMP_LT': '<', 'CMP_GT': '>', 'CMP_LE': '<=', 'CMP_GE': '>=', 'AND': 'AND', 'OR': 'OR',
               'XOR': 'XOR', 'EQV': 'EQV', 'IMP': 'IMP'}
        name = rng.choice(list(ops))
        a, at = go(d - 1, False)
        b, bt = go(d - 1, False)
        return ['B', str(Operator[name].value)] + a + b, f'({at} {ops[name]} {bt})'
    toks, text = go(depth, want_str)
    return toks, text, env


def expr_task(t):
    return real.big_frame(lambda: _expr_task(t))


def _expr_task(t):
    """run `<assignments> : PRINT <expr>` in the given configurations; -> [(O, g, result string)]"""
    text, env, cfgs = t[:3]
    inline = len(t) > 3 and t[3]
    from qvm.machine import TerminalDevice
    lines = []
    if inline:
        # the same tree with its leaves written as literals: the compile-time evaluator and the peephole pass see constants
        # (longest names first: q1% must not be replaced inside q10%)
        for name, (k, v) in sorted(env.items(), key=lambda kv: -len(kv[0])):
            if k == 't':
                lit = f'"{v}"'
            elif k in 'il':
                if v < 0:
                    continue            # a negative literal is a unary minus: keep the variable
                lit = f'{v}{"%" if k == "i" else "&"}'
            else:
                if v < 0 or (v == 0 and math.copysign(1, v) < 0):
                    continue
                lit = values.qb_float_literal(v, 'SINGLE' if k == 's' else 'DOUBLE')
            text = text.replace(name, lit)
            env = {n: c for n, c in env.items() if n != name}
    for name, (k, v) in env.items():
        if k == 't':
            lines.append(f'{name} = "{v}"')
        elif k in 'il':
            lines.append(f'{name} = {v}' if v != -2147483648 else f'{name} = -2147483647 - 1')
        else:
            lit = values.qb_float_literal(abs(v), 'SINGLE' if k == 's' else 'DOUBLE')
            lines.append(f'{name} = {lit}')
            if v < 0 or (v == 0 and math.copysign(1, v) < 0):
                lines.append(f'{name} = -{name}')
    src = '\n'.join(lines + [f'PRINT {text}']) + '\n'
    out = []
    for (o, g) in cfgs:
        st = real.try_compile(src, o, g)
        if st[0] != 'ok':
            out.append((o, g, 'reject' if st[0] == 'compile' else f'{st[0]} {type(st[1]).__name__}'))
            continue
        snaps = []
        orig = TerminalDevice._exec_print

        def spy(self, _orig=orig, _snaps=snaps):
            _snaps.append(list(self.cpu.stack))
            _orig(self)
        TerminalDevice._exec_print = spy
        try:
            r = real.run_bytes(st[2])
        finally:
            TerminalDevice._exec_print = orig
        if r.outcome[0] == 'end' and len(snaps) == 1 and len(snaps[0]) >= 3:
            out.append((o, g, vmops.canon_nan('ok ' + vmops.enc_cellvalue(snaps[0][-2]))))
        elif r.outcome[0] == 'trap':
            out.append((o, g, 'trap ' + r.outcome[1]))
        elif r.outcome[0] == 'host':
            out.append((o, g, 'host ' + r.outcome[1]))
        else:
            out.append((o, g, 'other ' + str(r.outcome)))
    return src, out


def src_task(t):
    return real.big_frame(lambda: _src_task(t))


def _src_task(t):
    import random
    from .. import srcgen
    import sys
    seed, n = t
    rng = random.Random(seed)
    out = []
    sys.setrecursionlimit(max(sys.getrecursionlimit(), 30000))      # deeply parenthesised expressions (C06: bounded nesting)
    import time as _t
    _t0 = _t.time()
    for _ in range(n):
        prog = srcgen.gen(rng, depth=rng.choice([2, 3, 3]))
        src = srcgen.to_source(prog)
        if src.count('\n') > 60:
            continue
        runs = []
        for cfg in real.CONFIGS:
            st = real.try_compile(src, cfg[0], cfg[1])
            if st[0] != 'ok':
                runs.append((cfg, f'rejected {st[0]} {st[1]}'))
                continue
            r = real.run_bytes(st[2], max_ticks=15000)
            if r.outcome[0] == 'timeout':
                # a program that does not end within the budget is of no use in any configuration
                runs = [(c, None) for c in real.CONFIGS]
                break
            nums = []
            for c in r.trace:
                if c[0] == 'terminal_print':
                    nums += c[1].split()
            tail = 'end' if r.outcome[0] == 'end' else ('trap ' + r.outcome[1] if r.outcome[0] == 'trap' else str(r.outcome))
            runs.append((cfg, ' '.join(nums) + ' | ' + tail))
        out.append((srcgen.to_request(prog), src, runs))
        import time as _t
        out[-1] = out[-1] + (round(_t.time() - _t0, 2),)
        _t0 = _t.time()
    return out


def classify_src(src):
    ks = [k for k in ('CALL', 'EXIT SUB', 'EXIT DO', 'EXIT FOR', 'DO UNTIL', 'DO WHILE', 'LOOP UNTIL', 'LOOP WHILE', 'WHILE', 'FOR', 'SELECT CASE', 'IF') if k in src]
    return ', '.join(ks[:4]) or 'straight line'


def run(chk):
    rng = chk.rng
    chk.regen_and_build(LEAN_MODULE)
    chk.audit(LEAN_MODULE, REQUIRED)
    dist = {}
    # ---- (1) the machine's arithmetic instructions vs Model/Arith.lean
    reqs, exp = [], []
    for _ in range(chk.n(6000, 120000)):
        r = rng.random()
        if r < 0.55:
            op = rng.choice(vmops.BINOPS)
            k = rng.choice('ilsdt') if rng.random() < 0.9 else None
            a = vmops.gen_cell(rng, k or rng.choice('ilsdt'))
            b = vmops.gen_cell(rng, k or rng.choice('ilsdt'))
            if op in ('idiv', 'mod', 'div') and rng.random() < 0.1:
                b = (b[0], 0 if b[0] in 'il' else (0.0 if b[0] in 'sd' else ''))
            if op == 'exp' and a[0] in 'il' and b[0] in 'il':
                b = (b[0], rng.randint(-2, 12))
            reqs.append(f'arith b {op} {vmops.enc_cell(*a)} {vmops.enc_cell(*b)}')
            exp.append(vmops.exec_instr(op, [a, b]))
        elif r < 0.8:
            op = rng.choice(vmops.UNOPS)
            a = vmops.gen_cell(rng, rng.choice('ilsdt'))
            reqs.append(f'arith u {op} {vmops.enc_cell(*a)}')
            exp.append(vmops.exec_instr(op, [a]))
        else:
            s, d = rng.sample('ilsd', 2)
            a = vmops.gen_cell(rng, rng.choice('ilsd') if rng.random() < 0.1 else s)
            reqs.append(f'arith c {s} {d} {vmops.enc_cell(*a)}')
            exp.append(vmops.exec_instr(f'conv{vmops.CONV[s]}{vmops.CONV[d]}', [a]))
    got = [vmops.canon_nan(g) for g in chk.model.ask(reqs)] if chk.model else []
    nb = next_ = 0
    for r_, g, e in zip(reqs, got, exp):
        if g.startswith('host external'):
            next_ += 1
            continue
        if g == 'host NonFinite' and e in ('host OverflowError', 'host ValueError'):
            continue
        if g != e:
            nb += 1
            if nb <= 3:
                chk.broken.append(('correspondence', 'vm-arith', {'request': r_, 'model': g, 'real': e}))
                chk.say('vm-arith disagree:', r_, '| model', g, '| real', e)
    chk.stats['vm-arith'] = {'cases': len(reqs), 'disagree': nb, 'external_pow': next_}

    # ---- (2) reference value of expression trees vs compiled programs, six configurations
    ntree = chk.n(150, 3000)
    tasks, toks_l = [], []
    for i in range(ntree):
        toks, text, env = gen_valued_tree(rng, rng.choice([1, 2, 2, 3]), want_str=rng.random() < 0.08)
        cfgs = real.CONFIGS if chk.thorough() else [real.CONFIGS[(i + chk.seed) % 6], real.CONFIGS[(i + 3 + chk.seed) % 6]]
        tasks.append((text, env, cfgs, i % 3 == 2))          # every third tree with literal leaves
        toks_l.append(toks)
    res = real.pmap(expr_task, tasks)
    refs = [vmops.canon_nan(g) for g in chk.model.ask(['refeval ' + ' '.join(t) for t in toks_l])] if chk.model else []
    nbad = 0
    kinds = {}
    nontrivial = set()
    for (text, env, cfgs, _inl), (src, outs), ref, toks in zip(tasks, res, refs, toks_l):
        parts = [p.strip() for p in ref.split('|')]
        refv = parts[0]
        kinds[refv.split()[0]] = kinds.get(refv.split()[0], 0) + 1
        if len(parts) == 2 and parts[0] != parts[1] and refv != 'reject':
            chk.broken.append(('theorem-instance', 'compileC_correct', {'tree': toks, 'ref': parts[0], 'code': parts[1]}))
        if refv.startswith('ok') and text.count('(') >= 2:
            nontrivial.add(text + repr(sorted(env.items())))
        for (o, g, realv) in outs:
            ok = realv == refv or (refv == 'host NonFinite' and realv.startswith('host'))
            if not ok:
                nbad += 1
                if nbad <= 3:
                    chk.broken.append(('correspondence', 'expr-value', {'src': src, 'O': o, 'g': g, 'model': refv, 'real': realv}))
                    chk.say('expr-value disagree:', src.replace('\n', ' / '), f'O{o} g={g}', '| reference', refv, '| real', realv)
                # the reference semantics is the oracle: a disagreement is a failing input
                chk.finding('C01 compiled expression value differs from the reference semantics',
                            f'{text}: reference {refv}, real {realv} at O{o} g={g}', {'kind': 'expr', 'src': src, 'O': o, 'g': g, 'reference': refv})
    chk.stats['expr-value'] = {'cases': sum(len(t[2]) for t in tasks), 'disagree': nbad, 'reference_outcomes': kinds}
    dist['expression_trees'] = ntree

    chk.say('phase 1-2 done at', round(__import__('time').time() - chk.t0, 1))
    # ---- (3) whole programs: identical behaviour in all six configurations; repository expectations (thorough)
    nprog = chk.n(40, 800)
    ptasks = []
    for i in range(nprog):
        src, inputs = progs.gen_program(rng, size=rng.choice([3, 5, 8]), depth=rng.choice([1, 2, 2]))
        ptasks.append((src, inputs, real.CONFIGS, 30000, set()))
    pres = real.pmap(real.run_task, ptasks)
    ndis = 0
    for (src, inputs, _, _, _), recs in zip(ptasks, pres):
        base = None
        for rec in recs:
            sig = (rec['status'], rec.get('outcome'), tuple(map(tuple, rec.get('trace', []))) if rec['status'] == 'ok' else rec.get('err', ('',))[0])
            if rec['status'] == 'ok' and rec['outcome'][0] == 'timeout':
                base = None
                break
            if base is None:
                base = (rec['cfg'], sig)
            elif sig != base[1]:
                # RESUME needs debug info: the only permitted difference (C08)
                if 'RESUME' in src and rec['cfg'][1] != base[0][1]:
                    continue
                ndis += 1
                chk.finding('C01 a program behaves differently in two compiler configurations',
                            f'{base[0]} vs {rec["cfg"]}: {str(base[1])[:150]} / {str(sig)[:150]}', {'kind': 'program', 'src': src, 'inputs': inputs,
                                                                                              'cfgs': [list(base[0]), list(rec['cfg'])]})
                break
    dist['programs'] = nprog

    chk.say('phase 3 done at', round(__import__('time').time() - chk.t0, 1))
    # ---- (4) statement level: structured programs through the reference semantics (Model/Src.lean) and through the real
    # compiler + machine in all six configurations
    stasks = [(rng.randrange(1 << 30), chk.n(12, 40)) for _ in range(chk.n(16, 200))]
    sres = real.pmap(src_task, stasks)
    sreqs, sexp, smeta = [], [], []
    for out in sres:
        for req, src, runs, dt in out:
            if dt > 20:
                chk.say('slow structured program', dt, 's:', src[:300].replace('\n', ' / '))
            sreqs.append(req)
            sexp.append(runs)
            smeta.append(src)
    chk.say('phase 4 runs done at', round(__import__('time').time() - chk.t0, 1))
    sgot = chk.model.ask(sreqs) if chk.model and sreqs else []
    nsd = nfuel = 0
    sig_kinds = {}
    for g_, runs, src in zip(sgot, sexp, smeta):
        if g_ == 'fuel' or g_ == 'bad-op':
            nfuel += 1
            if g_ == 'bad-op':
                chk.broken.append(('harness', 'src-request-rejected', {'src': src[:200]}))
            continue
        sig_kinds[g_.split('|')[1].strip().split()[0]] = sig_kinds.get(g_.split('|')[1].strip().split()[0], 0) + 1
        for cfg, real_txt in runs:
            if real_txt is None:
                continue
            if ' '.join(real_txt.split()) != ' '.join(g_.split()):
                nsd += 1
                chk.finding('C01 a structured program does not do what the reference semantics says (' + classify_src(src) + ')',
                            f'-O{cfg[0]}{" -g" if cfg[1] else ""}: real {real_txt[:120]!r}, reference {g_[:120]!r}',
                            {'kind': 'src', 'src': src, 'cfg': list(cfg), 'reference': g_, 'real': real_txt})
                break
    chk.stats['statement-semantics'] = {'cases': len(sreqs), 'disagree': nsd, 'out_of_fuel': nfuel, 'reference_outcomes': sig_kinds}
    dist['structured_programs'] = len(sreqs)
    dist['structured_programs_with_procedures'] = sum(1 for x in smeta if 'SUB p' in x)
    dist['structured_programs_with_arrays'] = sum(1 for x in smeta if 'DIM a0%' in x)
    dist['structured_programs_with_recursion'] = sum(1 for x in smeta if any(f'SUB p{i}' in x and f'CALL p{i}' in x.split(f'SUB p{i}')[1].split('END SUB')[0] for i in range(3)))
    chk.samples += [{'expr': tasks[i][0], 'leaves': {k: list(v) for k, v in tasks[i][1].items()}, 'reference': refs[i]} for i in range(3)]
    chk.cov['input_distribution'] = dist
    chk.cov['proved_subset'] = 'expressions (all operators x operand types, conversions, any depth); statements are validated, not proved'
    return chk.finish(
        level='proof', level_text='',
        trusted_base=['Lean 4.33.0 kernel', 'axioms: ' + ', '.join(sorted({a for v in chk.theorems.values() for a in v})),
                      'translator harness/gen_tables.py (operator tables, instruction table)',
                      'Lean Float (IEEE binary64 +,-,*,/, comparisons, binary32 rounding, floor) as the executable float instance; '
                      'float ** float is external (not modelled)',
                      'correspondence harness harness/checks/c01.py'],
        checker_cmd='lake build QbeeModel.Props.C01 && lake env lean .lake/audit/Audit_C01.lean',
        rule='machine instructions on boundary-biased cells; operator trees (depth 1-3, all operators and operand types) with '
             'boundary-biased leaf values, compiled and run in 2 (quick) / 6 (thorough) configurations; whole generated programs '
             'in six configurations; non-trivial = tree with >= 2 operators whose reference value is defined; distinct by text+leaves',
        extra={'evaluations': len(reqs) + sum(len(t[2]) for t in tasks) + nprog * 6, 'distinct_nontrivial': len(nontrivial)})


def replay(data):
    r = data['replay']
    if r['kind'] == 'src':
        st = real.try_compile(r['src'], r['cfg'][0], r['cfg'][1])
        if st[0] != 'ok':
            print('rejected', st[:2])
            return 0
        rr = real.run_bytes(st[2], max_ticks=60000)
        print('real:', real.text_of(rr.trace).split(), rr.outcome, '| reference:', r['reference'])
        return 0
    if r['kind'] == 'expr':
        st = real.try_compile(r['src'], r['O'], r['g'])
        print(st[0])
        if st[0] == 'ok':
            run_ = real.run_bytes(st[2])
            print(repr(real.text_of(run_.trace)), run_.outcome, 'reference:', r.get('reference'))
    else:
        for cfg in r['cfgs']:
            st = real.try_compile(r['src'], cfg[0], cfg[1])
            if st[0] == 'ok':
                run_ = real.run_bytes(st[2], inputs=r.get('inputs', []))
                print(cfg, repr(real.text_of(run_.trace))[:300], run_.outcome)
            else:
                print(cfg, st[0], st[1])
    return 0
