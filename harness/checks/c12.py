"""C12  debugger stepping and breakpoints are transparent and stop correctly.

Theorems: Props/C12.lean over Model/Dbg.lean, for ANY machine, program and command history (session_transparent, step /
next stop in another statement, next moves by whole calls and returns to the calling frame, continue stops at the first
breakpoint hit and only there, a deleted breakpoint never stops it, line resolution).
Correspondence: real debugger sessions (qvm.dbg.Cmd.onecmd on a QvmMachine with scripted devices) are replayed through
the model instantiated with the recorded free run of the same module: after every command the number of instructions
executed so far and the breakpoint count must agree; start-up point too.
Oracle on the real code alone: the device calls after every command are a prefix of the free run's calls (exactly the
ones the free run has made after the same number of instructions), and a finished session has the free run's outcome.
"""
import contextlib
import io
import itertools
import traceback

from .. import core, real, progs
from qvm.dbg import Cmd, Breakpoint
from qvm.instrs import op_code_to_instr

LEAN_MODULE = 'QbeeModel.Props.C12'
REQUIRED = ['session_transparent', 'start_transparent', 'step_stops_in_other_statement', 'step_exact',
            'nexti_call_returns_to_calling_frame', 'next_stops_in_other_statement', 'continue_exact', 'firstHit_some',
            'firstHit_none', 'session_bps_nodup', 'deleted_breakpoint_never_stops', 'resolveLine_spec',
            'bps_unchanged_by_running']
MAXT = 4000


def free_run(bcode, inputs):
    """-> dict(trace=[(pc, frame, callsz)], halt_idx, calls_at=[number of device calls after i ticks], calls, outcome)"""
    mod = real.QModule.parse(bcode)
    impl = real.RecImpl(inputs=inputs)
    buf = io.StringIO()
    frames = {}
    keep = []

    def fid(f):
        if id(f) not in frames:
            frames[id(f)] = len(frames)
            keep.append(f)      # keep alive: ids must not be reused
        return frames[id(f)]
    with contextlib.redirect_stdout(buf):
        m = real.QvmMachine(mod, impl=impl)
        cpu = m.cpu
        trace, calls_at, stmt_at = [], [], []
        host = None
        n = 0
        while True:
            pc = cpu.pc
            ins = op_code_to_instr.get(mod.code[pc]) if pc < len(mod.code) else None
            csz = (1 + sum(o.size for o in ins.operands)) if ins is not None and ins.op == 'call' else 0
            trace.append((pc, fid(cpu.cur_frame), csz))
            st_ = mod.debug_info.find_stmt(pc, cpu) if pc < len(mod.code) else None
            stmt_at.append(None if st_ is None else stmt_index(mod.debug_info, st_))
            calls_at.append(len(impl.calls))
            if cpu.halted or pc >= len(mod.code) or n >= MAXT:
                break
            try:
                cpu.tick()
            except real.OutOfScript:
                host = 'OutOfScript'
                break
            except Exception as e:  # noqa: BLE001
                host = type(e).__name__
                break
            n += 1
    entry = None
    i0 = op_code_to_instr.get(mod.code[0]) if mod.code else None
    if i0 is not None and i0.op == 'call':
        entry = int.from_bytes(mod.code[1:5], 'big')
    dbg = mod.debug_info
    recs = [(r.start_offset, r.end_offset, r.source_start_line or 0, r.source_start_offset or 0) for r in dbg.stmts]
    routines = {name: (r.start_offset, r.end_offset) for name, r in dbg.routines.items()}
    frame_first, frame_parent = {}, {}
    for i, (pc, f, c) in enumerate(trace):
        if f not in frame_first:
            frame_first[f] = i
            frame_parent[f] = trace[i - 1][1] if i else None
    return {'stmt_at': stmt_at, 'frame_first': frame_first, 'frame_parent': frame_parent, 'trace': trace, 'halted': cpu.halted, 'halt_idx': len(trace) - 1 if cpu.halted else None, 'calls_at': calls_at,
            'calls': list(impl.calls), 'host': host, 'entry': entry, 'recs': recs, 'routines': routines, 'code_len': len(mod.code),
            'outcome': (cpu.halt_reason.name, cpu.last_trap.name if cpu.last_trap else None),
            'nlines': dbg.source_code.count('\n') + 1,
            'starts': [a for a in instr_starts(mod)]}


def stmt_index(dbg, st_):
    for i, r in enumerate(dbg.stmts):
        if r is st_:
            return i
    return -1


def spec_resolve_line(fr, line):
    """the property's rule, written independently of the debugger: the first statement in source order that starts at
    or after the line and has at least one instruction"""
    best = None
    for (s, e, ln, off) in fr['recs']:
        if ln >= line and e > s and (best is None or off < best[1]):
            best = (s, off)
    return None if best is None else ('e', best[0])


def spec_hit(bps, pc):
    return any((b[0] == 'e' and pc == b[1]) or (b[0] == 'r' and b[1] <= pc < b[2]) for b in bps)


def judge(fr, cmds, points):
    """the property's claims evaluated on the free run: -> list of (signature, text)"""
    out = []
    tr, st, hi = fr['trace'], fr['stmt_at'], fr['halt_idx']
    bps = []
    for k, c in enumerate(cmds):
        i, j = points[k][0], points[k + 1][0]
        kind = c[0]
        if kind[0] in 'bd' and len(kind) == 2 and kind not in ('bx', 'dx'):
            if kind[1] == 'l':
                b = spec_resolve_line(fr, c[1])
            elif kind[1] == 'a':
                b = ('e', c[1])
            else:
                r = fr['routines'].get(str(c[1]).lower())
                b = None if r is None else ('r', r[0], r[1])
            if b is not None:
                if kind[0] == 'b' and b not in bps:
                    bps.append(b)
                if kind[0] == 'd':
                    bps = [x for x in bps if x != b]
            if j != i:
                out.append(('C12 break / delbr executed instructions', f'command #{k} {c}: {i} -> {j}'))
            continue
        if i >= hi:
            if j != i:
                out.append(('C12 a command advanced a finished program', f'command #{k} {c}: {i} -> {j}'))
            continue
        if j <= i:
            out.append(('C12 a command made no progress', f'command #{k} {c} at instruction {i} (pc {tr[i][0]})'))
            continue

        def first(pred):
            for x in range(i + 1, hi + 1):
                if x == hi or pred(x):
                    return x
            return hi
        if kind == 'cont':
            want = first(lambda x: spec_hit(bps, tr[x][0]))
            if j != want:
                what = 'stopped where no breakpoint is set' if j < want else 'ran past a set breakpoint'
                out.append((f'C12 continue {what}', f'command #{k}: stopped after {j} instructions (pc {tr[j][0]}), expected {want} '
                            f'(pc {tr[want][0]}); breakpoints {bps}'))
        elif kind == 'step':
            want = first(lambda x: spec_hit(bps, tr[x][0]) or (st[x] is not None and st[x] != st[i]))
            if j != want:
                out.append(('C12 step did not stop at the next statement the program executes',
                            f'command #{k}: stopped after {j} instructions (pc {tr[j][0]}, statement {st[j]}), expected {want} '
                            f'(pc {tr[want][0]}, statement {st[want]}); started in statement {st[i]}'))
        elif kind == 'stepi':
            if j != i + 1:
                out.append(('C12 stepi did not execute exactly one instruction', f'command #{k}: {i} -> {j}'))
        if kind in ('next', 'nexti') and j < hi and not spec_hit(bps, tr[j][0]):
            if kind == 'next' and (st[j] is None or st[j] == st[i]):
                out.append(('C12 next returned in the same statement or outside any statement with the program not finished',
                            f'command #{k}: from statement {st[i]} (pc {tr[i][0]}) to statement {st[j]} (pc {tr[j][0]})'))
            f = tr[j][1]
            while f is not None:
                # the frame was created by `frame` (index first-1) right after a `call` (index first-2)
                if fr['frame_first'][f] - 2 >= i and fr['frame_first'][f] >= 2:
                    out.append((f'C12 {kind} stopped inside a procedure called during the command',
                                f'command #{k}: from pc {tr[i][0]} to pc {tr[j][0]} in a frame entered at instruction {fr["frame_first"][f]}'))
                    break
                f = fr['frame_parent'][f]
    return out


def instr_starts(mod):
    a = 0
    out = []
    while a < len(mod.code):
        ins = op_code_to_instr.get(mod.code[a])
        out.append(a)
        a += 1 + (sum(o.size for o in ins.operands) if ins else 0)
    return out


def cmd_text(c):
    k = c[0]
    if k in ('step', 'next', 'stepi', 'nexti'):
        return k
    if k == 'cont':
        return 'continue'
    verb = 'break' if k[0] == 'b' else 'delbr'
    if k[1] == 'l':
        return f'{verb} {c[1]}'
    if k[1] == 'a':
        return f'{verb} 0x{c[1]:x}'
    return f'{verb} {c[1]}'       # routine name


def cmd_token(c, routines):
    k = c[0]
    if k in ('step', 'next', 'stepi', 'nexti', 'cont'):
        return k
    if k[1] == 'l':
        return f'{k} {c[1]}'
    if k[1] == 'a':
        return f'{k} {c[1]}'
    r = routines.get(str(c[1]).lower())
    if r is None:
        return k[0] + 'x'
    return f'{k[0]}r {r[0]} {r[1]}'


def session(bcode, inputs, cmds):
    """run the real debugger; -> list of (ticks, pc, nbps, ncalls, halted) after start-up and after each command"""
    mod = real.QModule.parse(bcode)
    impl = real.RecImpl(inputs=inputs)
    buf = io.StringIO()
    out = []
    err = None
    with contextlib.redirect_stdout(buf):
        m = real.QvmMachine(mod, impl=impl)
        cpu = m.cpu
        n = [0]
        orig = cpu.tick

        def counted():
            n[0] += 1
            return orig()
        cpu.tick = counted
        try:
            d = Cmd(m, mod)
            out.append((n[0], cpu.pc, 0, len(impl.calls), cpu.halted))
            for c in cmds:
                d.onecmd(cmd_text(c))
                nb = sum(1 for b in cpu.breakpoints if isinstance(b, Breakpoint))
                out.append((n[0], cpu.pc, nb, len(impl.calls), cpu.halted))
                if len(cpu.breakpoints) != nb:
                    err = ('leftover temporary breakpoint', cmd_text(c))
                    break
        except real.OutOfScript:
            err = ('OutOfScript', '')
        except Exception as e:  # noqa: BLE001
            tb = traceback.extract_tb(e.__traceback__)
            err = (type(e).__name__, f'{tb[-1].name}:{tb[-1].lineno}' if tb else '')
    return {'points': out, 'err': err, 'calls': list(impl.calls),
            'outcome': (cpu.halt_reason.name, cpu.last_trap.name if cpu.last_trap else None), 'halted': cpu.halted}


def gen_cmds(rng, fr, n):
    cmds = []
    lines = list(range(1, fr['nlines'] + 2))
    names = list(fr['routines']) + ['nosuch']
    for _ in range(n):
        r = rng.random()
        if r < 0.30:
            cmds.append(('step',))
        elif r < 0.50:
            cmds.append(('next',))
        elif r < 0.57:
            cmds.append(('stepi',))
        elif r < 0.64:
            cmds.append(('nexti',))
        elif r < 0.76:
            cmds.append(('cont',))
        elif r < 0.90:
            k = rng.random()
            if k < 0.6:
                cmds.append(('bl', rng.choice(lines)))
            elif k < 0.8:
                cmds.append(('ba', rng.choice(fr['starts'])))
            else:
                cmds.append(('bn', rng.choice(names)))
        else:
            prev = [c for c in cmds if c[0][0] == 'b' and len(c) > 1]
            if prev and rng.random() < 0.8:
                c = rng.choice(prev)
                cmds.append(('d' + c[0][1],) + c[1:])
            else:
                cmds.append(('dl', rng.choice(lines)))
    return cmds


# programs with a line whose breakpoint must fire a KNOWN number of times (counted by reading the program, not from the debug
# map): (source, line, stops expected for `break <line>` followed by `continue` until the program ends)
COUNTED = [
    # the ELSEIF condition is evaluated for i = 2, 3, 4 (for i = 1 the IF arm runs and the ELSEIF is skipped)
    ('FOR i% = 1 TO 4\n  IF i% = 1 THEN\n    PRINT "one"\n  ELSEIF i% = 2 THEN\n    PRINT "two"\n  ELSE\n    PRINT "more"\n  END IF\nNEXT\n', 4, 3),
    # the statement in the ELSE arm runs for i = 3, 4
    ('FOR i% = 1 TO 4\n  IF i% = 1 THEN\n    PRINT "one"\n  ELSEIF i% = 2 THEN\n    PRINT "two"\n  ELSE\n    PRINT "more"\n  END IF\nNEXT\n', 7, 2),
    ('FOR i% = 1 TO 3\n  PRINT i%\nNEXT\nPRINT "end"\n', 2, 3),
    ('x% = 0\nDO\n  x% = x% + 1\nLOOP UNTIL x% = 5\nPRINT x%\n', 3, 5),
    ('CALL p\nCALL p\nEND\nSUB p\n  PRINT "in"\nEND SUB\n', 5, 2),
]


def counted_probe(src, line, want, o):
    st = real.try_compile(src, o, True)
    if st[0] != 'ok':
        return ('counted-program-rejected', str(st[1])[:80])
    mod = real.QModule.parse(st[2])
    buf = io.StringIO()
    stops = 0
    with contextlib.redirect_stdout(buf):
        m = real.QvmMachine(mod, impl=real.RecImpl())
        d = Cmd(m, mod)
        d.onecmd(f'break {line}')
        for _ in range(want + 10):
            d.onecmd('continue')
            if m.cpu.halted and m.cpu.halt_reason.name != 'BREAKPOINT':
                break
            stops += 1
    return None if stops == want else ('line-breakpoint-stop-count', f'break {line}: {stops} stops, {want} expected')


def task(t):
    return real.big_frame(lambda: _task(t))


def _task(t):
    src, inputs, o, cmd_lists, seed = t
    st = real.try_compile(src, o, True)
    if st[0] != 'ok':
        return {'status': st[0]}
    fr = free_run(st[2], inputs)
    if fr['host'] or not fr['halted']:
        return {'status': 'skip', 'why': fr['host'] or 'timeout'}
    import random
    rng = random.Random(seed)
    if cmd_lists is None:
        cmd_lists = [gen_cmds(rng, fr, rng.choice([3, 6, 10, 16])) for _ in range(4)]
        ln = rng.randint(1, fr['nlines'])
        names = list(fr['routines'])
        cmd_lists.append([('bl', ln), ('bl', ln), ('dl', ln), ('cont',), ('cont',)])
        cmd_lists.append([('bl', ln), ('cont',), ('cont',), ('dl', ln), ('cont',)])
        cmd_lists.append([('step',)] * rng.randint(1, 4) + [('bl', ln), ('step',), ('next',), ('cont',), ('cont',)])
        if names:
            nm = rng.choice(names)
            cmd_lists.append([('bn', nm), ('cont',), ('bn', nm), ('dn', nm), ('cont',), ('next',), ('next',)])
            cmd_lists.append([('bn', nm), ('cont',), ('cont',), ('step',), ('cont',)])
    elif cmd_lists == 'exhaustive':
        alpha = [('step',), ('next',), ('cont',), ('nexti',), ('bl', min(3, fr['nlines'])), ('dl', min(3, fr['nlines'])), ('bl', 1)]
        cmd_lists = [list(p) for k in (1, 2, 3) for p in itertools.product(alpha, repeat=k)]
    sess = []
    for cmds in cmd_lists:
        s = session(st[2], inputs, cmds)
        sess.append((cmds, s))
    tr = ' '.join(f'{a} {b} {c}' for a, b, c in fr['trace'])
    recs = ' '.join(f'{a} {b} {c} {d}' for a, b, c, d in fr['recs'])
    head = f"dbg {fr['code_len']} {'-' if fr['entry'] is None else fr['entry']} {fr['halt_idx']} T {len(fr['trace'])} {tr} " \
           f"R {len(fr['recs'])} {recs} C "
    reqs = [head + ' '.join(cmd_token(c, fr['routines']) for c in cmds) for cmds, _ in sess]
    fr_small = {k: fr[k] for k in ('calls_at', 'calls', 'outcome', 'halt_idx')}
    verdicts = []
    for cmds, s in sess:
        ok_prefix = not s['err'] and all(p[0] < len(fr['calls_at']) for p in s['points'])
        verdicts.append(judge(fr, cmds, s['points']) if ok_prefix else [])
    return {'status': 'ok', 'free': fr_small, 'sessions': sess, 'reqs': reqs, 'nticks': len(fr['trace']), 'verdicts': verdicts}


SPECIAL = [
    'PRINT 1\nCALL p\nPRINT 2\nSUB p\nPRINT 5\nEND SUB\n',
    'CALL r(3)\nPRINT "done"\nEND\nSUB r (n%)\n  IF n% > 0 THEN CALL r(n% - 1)\n  PRINT n%\nEND SUB\n',
    'PRINT 1\nEND\nPRINT 2\nPRINT 3\n',
    'z% = 0\nPRINT "a"\nPRINT 1 \\ z%\nPRINT "after"\n',
    'FOR i% = 1 TO 3\n  GOSUB s\nNEXT\nEND\ns: PRINT i%\nRETURN\n',
    'PRINT f%(2)\nEND\nFUNCTION f% (n%)\n  IF n% = 0 THEN\n    f% = 1\n  ELSE\n    f% = n% * f%(n% - 1)\n  END IF\nEND FUNCTION\n',
    'i% = 0\nDO\n  i% = i% + 1\n  IF i% = 2 THEN EXIT DO\nLOOP\nPRINT i%: PRINT "x": PRINT "y"\n',
    'ON ERROR GOTO h\nPRINT 1 \\ 0\nPRINT "next"\nEND\nh: PRINT "H"\nRESUME NEXT\n',
    '\n\n\' comment\nPRINT 1\n\nREM x\nPRINT 2\n',
    '',
    # procedures written BEFORE the module-level code: code order differs from source order
    'SUB foo\n  PRINT "in foo"\n  PRINT "still foo"\nEND SUB\nPRINT "main 1"\nCALL foo\nPRINT "main 2"\nCALL foo\n',
    'FUNCTION twice% (n%)\n  twice% = n% * 2\nEND FUNCTION\nSUB show (v%)\n  PRINT v%\nEND SUB\nx% = twice%(2)\nCALL show(x%)\nFOR i% = 1 TO 2\n  CALL show(i%)\nNEXT\n',
    'SELECT CASE 2\nCASE 1\n  PRINT "one"\nCASE 2\n  PRINT "two"\nCASE ELSE\nEND SELECT\nWHILE w% < 2\n  w% = w% + 1\nWEND\n',
]


def run(chk):
    rng = chk.rng
    chk.regen_and_build(LEAN_MODULE)
    chk.audit(LEAN_MODULE, REQUIRED)
    tasks = []
    for i, src in enumerate(SPECIAL):
        tasks.append((src, [], i % 3, None, rng.randrange(1 << 30)))
        if i < chk.n(3, len(SPECIAL)):
            tasks.append((src, [], 0, 'exhaustive', 0))
    for i in range(chk.n(50, 900)):
        feats = None
        if rng.random() < 0.5:
            feats = {'subs', 'funcs', 'gosub', 'for', 'while', 'do', 'select', 'recursion', 'ifline', 'goto', 'arrays', 'strings'} & set(progs.ALL_FEATURES)
        src, inputs = progs.gen_program(rng, size=rng.choice([3, 5, 8]), depth=rng.choice([1, 2]), features=feats)
        tasks.append((src, inputs, i % 3, None, rng.randrange(1 << 30)))
    res = real.pmap(task, tasks)
    reqs, exp, meta = [], [], []
    nsess = ncmd = 0
    hist = {}
    skipped = {}
    nontriv = set()
    for t, out in zip(tasks, res):
        if out['status'] != 'ok':
            skipped[out.get('why', out['status'])] = skipped.get(out.get('why', out['status']), 0) + 1
            continue
        fr = out['free']
        for (cmds, s), req, verdict in zip(out['sessions'], out['reqs'], out['verdicts']):
            nsess += 1
            ncmd += len(cmds)
            rep = {'kind': 'session', 'src': t[0], 'inputs': t[1], 'O': t[2], 'cmds': [list(c) for c in cmds]}
            for c in cmds:
                hist[c[0]] = hist.get(c[0], 0) + 1
            if s['err']:
                chk.finding(f'C12 debugger command failed: {s["err"][0]} in {s["err"][1].split(":")[0]}',
                            f'{s["err"]} during {[cmd_text(c) for c in cmds]}', rep)
                continue
            # oracle on the real code: the session is a prefix of the free run
            bad = None
            for k, (n, pc, nb, ncalls, halted) in enumerate(s['points']):
                if n >= len(fr['calls_at']) or ncalls != fr['calls_at'][n]:
                    bad = (k, n, ncalls)
                    break
            if bad or s['calls'] != fr['calls'][:len(s['calls'])]:
                chk.finding('C12 device interactions under the debugger differ from the free run',
                            f'after command #{bad and bad[0]} ({bad}): commands {[cmd_text(c) for c in cmds]}', rep)
                continue
            if s['halted'] and (s['outcome'] != fr['outcome'] or s['points'][-1][0] != fr['halt_idx']):
                chk.finding('C12 a finished debugging session ends differently from the free run',
                            f'{s["outcome"]} after {s["points"][-1][0]} instructions vs {fr["outcome"]} after {fr["halt_idx"]}', rep)
                continue
            for sig, text in verdict:
                chk.finding(sig, text + f'; commands {[cmd_text(c) for c in cmds]}', rep)
            reqs.append(req)
            exp.append(f"{s['points'][0][0]} | " + ' '.join(f'{p[0]}:{p[2]}' for p in s['points'][1:]))
            meta.append(rep)
            if len(cmds) >= 3 and out['nticks'] > 30:
                nontriv.add((t[0], tuple(cmds)))
    for src_, line_, want_ in COUNTED:
        for o_ in (0, 2):
            pr = counted_probe(src_, line_, want_, o_)
            if pr is not None:
                chk.finding('C12 ' + pr[0], pr[1], {'kind': 'counted', 'src': src_, 'line': line_, 'want': want_, 'O': o_})
    got = chk.model.ask(reqs) if chk.model and reqs else []
    nbad = 0
    for i, (g, e) in enumerate(zip(got, exp)):
        g2 = ' | '.join(x.strip() for x in g.split('|')[:2]).strip()
        if g2 != e.strip():
            nbad += 1
            if nbad <= 3:
                chk.broken.append(('correspondence', 'debugger-session', meta[i]))
                chk.say('debugger-session disagree: model', g2[:200], 'real', e[:200], 'cmds', meta[i]['cmds'], 'src', meta[i]['src'][:120].replace('\n', ' / '))
            # is it a property violation on the real code?  the oracle above already compared with the free run
    chk.stats['debugger-session'] = {'cases': len(reqs), 'disagree': nbad}
    chk.samples += [{'commands': meta[i]['cmds'], 'program': meta[i]['src'][:200], 'real': exp[i][:200]} for i in (0, len(meta) // 2) if meta]
    chk.cov['input_distribution'] = {'programs': len(tasks), 'sessions': nsess, 'commands': ncmd, 'command_kinds': hist, 'skipped': skipped}
    return chk.finish(
        level='proof', level_text='',
        trusted_base=['Lean 4.33.0 kernel', 'axioms: ' + ', '.join(sorted({a for v in chk.theorems.values() for a in v})),
                      'the machine is a parameter of the model; in the correspondence it is the recorded free run of the same module '
                      '(determinism of the machine under scripted devices: C20)',
                      'find_stmt is the C11 lookup model; frame identity = identity of cpu.cur_frame',
                      'the text the debugger prints is not compared',
                      'correspondence harness harness/checks/c12.py'],
        checker_cmd='lake build QbeeModel.Props.C12 && lake env lean .lake/audit/Audit_C12.lean',
        rule='random command histories (step, next, stepi, nexti, continue, break line/address/routine, delbr) of length 3-16 on '
             'generated and hand-written programs (recursion, GOSUB, END in the middle, fatal error, handler, empty program), levels '
             '0-2; all histories up to length 3 over 7 commands on the small programs; non-trivial = at least 3 commands on a run '
             'of more than 30 instructions; distinct by (program, history)',
        extra={'evaluations': nsess, 'distinct_nontrivial': len(nontriv)})


def replay(data):
    r = data['replay']
    cmds = [tuple(c) for c in r['cmds']]
    out = _task((r['src'], r.get('inputs', []), r['O'], [cmds], 0))
    if out['status'] != 'ok':
        print(out)
        return 0
    cm, s = out['sessions'][0]
    print('commands', [cmd_text(c) for c in cm])
    print('real points (ticks, pc, breakpoints, device calls, halted):', s['points'], s['err'], s['outcome'])
    print('free run: halt after', out['free']['halt_idx'], out['free']['outcome'])
    return 0
