"""C18  INPUT.  Theorems: Props/C18.lean.  Correspondence: TerminalDevice._exec_input with scripted response
histories vs Model/Input.lean; compiled INPUT statements followed by a continuation, against the property's own rules."""
import math
import re

from .. import core, real, values
from qvm.utils import format_number

LEAN_MODULE = 'QbeeModel.Props.C18'
REQUIRED = ['rejected_line_no_effect', 'accepted_assigns_in_order', 'accepted_of_all_ok', 'rejected_of_count',
            'tryLineOld_leaves_cells', 'prompt_shown', 'any_number_of_retries', 'args_roundtrip']
CT = real.CellType
TID = {'INTEGER': 1, 'LONG': 2, 'SINGLE': 3, 'DOUBLE': 4, 'STRING': 5}
TNAME = {v: k for k, v in TID.items()}

_END = []


def bare_cpu(inputs):
    if not _END:
        _END.append(bytes(real.compile_src('END\n')))
    mod = real.QModule.parse(_END[0])
    impl = real.RecImpl(inputs=inputs)
    m = real.QvmMachine(mod, impl=impl)
    return m.cpu, impl


def gen_field(rng, ty, good):
    if ty == 'STRING':
        return rng.choice(['abc', '', 'two words', ' x ', '12', '"q"'])
    if good:
        if ty in ('INTEGER', 'LONG'):
            v = values.gen_int(rng, ty)
            return rng.choice(['', ' ', '  ']) + rng.choice(['', '+'] if v >= 0 else ['']) + str(v) + rng.choice(['', ' '])
        v = rng.choice(['1.5', '-0.25', '2.5E3', '1e-3', '.5', '7', '+3.', '0', '123456789', '1E10'])
        return rng.choice(['', ' ']) + v
    r = rng.random()
    if ty in ('INTEGER', 'LONG'):
        if r < 0.35:
            return rng.choice(['x', '1x', '', ' ', '--1', '1 2', '+', '-', '1.0', '1e3', '$5'])
        lim = 32768 if ty == 'INTEGER' else 2 ** 31
        return str(rng.choice([lim, -lim - 1, lim * 10, 99999999999999]))
    return rng.choice(['x', '1..2', 'e5', '', ' ', '1e', '1e+', '--1', '1 2', '1,5'.replace(',', ';'), '.', '+.e1'])


def gen_line(rng, tys, kind):
    """kind: good | count | badfield"""
    if kind == 'good':
        fs = [gen_field(rng, t, True) for t in tys]
    elif kind == 'count':
        n = rng.choice([len(tys) - 1, len(tys) + 1, len(tys) + 2, 0])
        n = max(0, n)
        fs = [gen_field(rng, rng.choice(tys), True) for _ in range(n)]
        if n == 0:
            return ''
        if len(fs) == len(tys):
            fs.append('1')
    else:
        numeric = [i for i, t in enumerate(tys) if t != 'STRING']
        if not numeric:
            return gen_line(rng, tys, 'count')
        bad = rng.choice(numeric)
        fs = [gen_field(rng, t, i != bad) for i, t in enumerate(tys)]
    fs = [f.replace(',', ';') for f in fs]
    return ','.join(fs)


def gen_history(rng, tys):
    nbad = rng.choice([0, 0, 1, 1, 2, 3, 5])
    lines = [gen_line(rng, tys, rng.choice(['count', 'badfield', 'badfield'])) for _ in range(nbad)]
    if rng.random() < 0.93:
        lines.append(gen_line(rng, tys, 'good'))
    return lines


def real_device(prompt, question, same_line, tys, lines):
    cpu, impl = bare_cpu(lines)
    cpu.push(CT.STRING, 'sentinel')
    cpu.push(CT.INTEGER, -1 if same_line else 0)
    cpu.push(CT.STRING, prompt)
    cpu.push(CT.INTEGER, -1 if question else 0)
    for t in tys:
        cpu.push(CT.INTEGER, TID[t])
    cpu.push(CT.INTEGER, len(tys))
    status = 'done'
    try:
        cpu.devices['terminal']._exec_input()
    except real.OutOfScript:
        status = 'starved'
    except real.Trapped:
        status = 'deverr'
    calls = []
    for c in impl.calls:
        if c[0] == 'terminal_print':
            calls.append('P' + core.enc_str(c[1]))
        elif c[0] == 'terminal_input':
            calls.append('IN')
    cells = cpu.stack[1:] if cpu.stack and cpu.stack[0].value == 'sentinel' else None
    return status, calls, cells


def cell_matches(model_tok, cell):
    """model cell token vs real CellValue"""
    if model_tok.startswith('S'):
        return cell.type == CT.STRING and cell.value == core.dec_str(model_tok[1:])
    kind, rest = model_tok[0], model_tok[1:]
    ty, payload = rest.split(':', 1)
    if cell.type != CT[TNAME[int(ty)]]:
        return False
    if kind == 'I':
        return cell.value == int(payload)
    v = float(core.dec_str(payload))
    if int(ty) == 3:
        v = values.f32(v)
    return cell.value == v or (math.isnan(v) and math.isnan(cell.value))


NUM_INT = re.compile(r'^[+-]?\d+$')
NUM_FLT = re.compile(r'^[+-]?(\d+(\.\d*)?|\.\d+)([eE][+-]?\d+)?$')


def spec_line(tys, line):
    """the property's acceptance rule, judged region only: -> ('ok', values) | ('no',) | ('gray',)"""
    fs = [f.strip(' ') for f in line.split(',')]
    if any(ch in line for ch in '_\t') or not line.isascii():
        return ('gray',)
    if len(fs) != len(tys):
        return ('no',)
    vals = []
    verdict = 'ok'
    for f, t in zip(fs, tys):
        if t == 'STRING':
            vals.append(f)
        elif t in ('INTEGER', 'LONG'):
            if NUM_INT.match(f):
                v = int(f)
                lo, hi = (-32768, 32767) if t == 'INTEGER' else (-2 ** 31, 2 ** 31 - 1)
                if lo <= v <= hi:
                    vals.append(v)
                else:
                    verdict = 'no'
            elif NUM_FLT.match(f):
                return ('gray',)       # "1.5" into an INTEGER: QBASIC rounds, this dialect refuses -- not judged
            else:
                verdict = 'no'
        else:
            if NUM_FLT.match(f):
                v = float(f)
                if t == 'SINGLE':
                    try:
                        import struct
                        struct.pack('>f', v)
                    except OverflowError:
                        verdict = 'no'
                    v = values.f32(v) if verdict == 'ok' else v
                vals.append(v)
            elif f.lower().lstrip('+-') in ('inf', 'nan', 'infinity'):
                return ('gray',)
            else:
                verdict = 'no'
    return ('ok', vals) if verdict == 'ok' else ('no',)


def run(chk):
    rng = chk.rng
    chk.regen_and_build(LEAN_MODULE)
    chk.audit(LEAN_MODULE, REQUIRED)
    dist = {'lines': 0, 'good': 0, 'count': 0, 'bad': 0, 'starved': 0, 'vars': {}}

    # ---- A: the device, directly
    nA = chk.n(1500, 30000)
    reqs, reals, cases = [], [], []
    distinct = set()
    for _ in range(nA):
        k = rng.choice([1, 1, 2, 2, 3, 4])
        tys = [rng.choice(values.TYPES) for _ in range(k)]
        prompt = rng.choice(['', 'Name', 'a, b', 'Enter: ', '?'])
        question = rng.random() < 0.5
        same_line = rng.random() < 0.2
        lines = gen_history(rng, tys)
        status, calls, cells = real_device(prompt, question, same_line, tys, lines)
        reqs.append(' '.join(['input', '1' if question else '0', core.enc_str(prompt), str(k)] +
                             [str(TID[t]) for t in tys] + [str(len(lines))] + [core.enc_str(l) for l in lines]))
        reals.append((status, calls, cells))
        cases.append((prompt, question, same_line, tys, lines))
        dist['lines'] += len(lines)
        dist['vars'][k] = dist['vars'].get(k, 0) + 1
        if status == 'starved':
            dist['starved'] += 1
        if len(lines) >= 2:
            distinct.add((tuple(tys), tuple(lines)))
    got = chk.model.ask(reqs) if chk.model else []
    nb = ngray = 0
    for i, (g, (status, calls, cells)) in enumerate(zip(got, reals)):
        if g == 'gray':
            ngray += 1
            continue
        parts = [p.strip() for p in g.split('|')]
        head = parts[0].split()
        ok = head[0] == status
        if ok and status in ('done', 'starved'):
            ok = parts[1].split() == calls and cells is not None
            left = int(head[1])
            mcells = parts[2].split() if len(parts) > 2 else []
            if ok and status == 'done':
                ok = left + len(mcells) == len(cells) and all(cell_matches(m, c) for m, c in zip(mcells, cells[left:]))
            elif ok:
                ok = left == len(cells)
        if not ok:
            # a SINGLE field that float() accepts but the type cannot hold is outside the model (value external)
            if any(t == 'SINGLE' for t in cases[i][3]) and any(re.search(r'[eE][+]?\d{2,}', l) for l in cases[i][4]):
                ngray += 1
                continue
            nb += 1
            if nb <= 3:
                chk.broken.append(('correspondence', 'input-device', {'request': reqs[i], 'model': g,
                                                                       'real': [status, calls, str(cells)]}))
                chk.say('input-device disagree:', cases[i], '| model', g, '| real', status, calls, cells)
    chk.stats['input-device'] = {'cases': len(reqs), 'disagree': nb, 'gray': ngray}

    # the property on the device: rejected lines leave nothing; acceptance follows the rule; prompt rule
    for (prompt, question, same_line, tys, lines), (status, calls, cells) in zip(cases, reals):
        exp_calls = []
        vals = None
        gray = False
        for l in lines:
            exp_calls += ['P' + core.enc_str(prompt)] + (['P' + core.enc_str('? ')] if question else []) + ['IN']
            sp = spec_line(tys, l)
            if sp[0] == 'gray':
                gray = True
                break
            if sp[0] == 'ok':
                vals = sp[1]
                dist['good'] += 1
                break
            dist['bad'] += 1
            exp_calls.append('P' + core.enc_str('Redo from start\r\n'))
        if gray:
            continue
        if vals is None:
            exp_calls += ['P' + core.enc_str(prompt)] + (['P' + core.enc_str('? ')] if question else []) + ['IN']
            good = status == 'starved' and calls == exp_calls and cells == []
            sig = 'C18 refused lines leave cells on the stack or are not re-prompted'
        else:
            good = status == 'done' and calls == exp_calls and cells is not None and len(cells) == len(tys) and \
                all(c.type == CT[t] and c.value == v for c, t, v in zip(reversed(cells), tys, vals))
            sig = 'C18 accepted line not assigned in order / leftovers / wrong prompt protocol'
        if not good:
            chk.finding(sig, f'{tys} {lines!r} -> {status} {calls} {cells}',
                        {'kind': 'device', 'prompt': prompt, 'question': question, 'same_line': same_line, 'tys': tys, 'lines': lines})
    chk.samples += [{'tys': c[3], 'prompt': c[0], 'question': c[1], 'lines': c[4]} for c in cases[:4]]

    # ---- B: compiled INPUT statements with scalar / element / field targets and a continuation
    nB = chk.n(60, 1500)
    cfgs = real.CONFIGS
    hitsB = 0
    for pi in range(nB):
        k = rng.choice([1, 2, 2, 3])
        tys = [rng.choice(values.TYPES) for _ in range(k)]
        targets = []
        decl = ['TYPE rec', '  fi AS INTEGER', '  fl AS LONG', '  fs AS SINGLE', '  fd AS DOUBLE', '  ft AS STRING', 'END TYPE']
        fld = {'INTEGER': 'fi', 'LONG': 'fl', 'SINGLE': 'fs', 'DOUBLE': 'fd', 'STRING': 'ft'}
        body = ['DIM r AS rec']
        for i, t in enumerate(tys):
            how = rng.choice(['scalar', 'elem', 'field'])
            tc = values.TYPE_CHAR[t]
            if how == 'scalar':
                targets.append(f'v{i}{tc}')
            elif how == 'elem':
                body.append(f'DIM a{i}{tc}(3)')
                targets.append(f'a{i}{tc}(2)')
            else:
                targets.append('r.' + fld[t])
                if any(x == targets[-1] for x in targets[:-1]):
                    targets[-1] = f'w{i}{tc}'
        # the prompt protocol: text, then "? " exactly when there is no prompt or it is followed by a semicolon (an empty
        # prompt text followed by a comma shows nothing at all); a leading semicolon (stay on the line) changes nothing shown
        prompt = rng.choice([None, 'Value', 'x, y', '', '', '?', ' '])
        sep = rng.choice([';', ','])
        lead = rng.choice(['', '', '; '])
        if prompt is None:
            stmt = 'INPUT ' + lead + ', '.join(targets)
            shown, q = '', True
        else:
            stmt = f'INPUT {lead}"{prompt}"{sep} ' + ', '.join(targets)
            shown, q = prompt, sep == ';'
        body.append(stmt)
        for t, tg in zip(tys, targets):
            body.append(f'PRINT "[" + {tg} + "]"' if t == 'STRING' else f'PRINT {tg}')
        where = rng.choice(['main', 'sub'])
        if where == 'main':
            src = '\n'.join(decl + body + ['PRINT "after"']) + '\n'
        else:
            src = '\n'.join(decl + ['CALL p', 'PRINT "after"', 'END', 'SUB p'] + ['  ' + b for b in body] + ['END SUB']) + '\n'
        lines = gen_history(rng, tys)
        # expectation from the property's rule
        exp = ''
        vals = None
        gray = False
        for l in lines:
            exp += shown + ('? ' if q else '')
            sp = spec_line(tys, l)
            if sp[0] == 'gray':
                gray = True
                break
            if sp[0] == 'ok':
                vals = sp[1]
                break
            exp += 'Redo from start\r\n'
        if gray or vals is None:
            continue
        for t, v in zip(tys, vals):
            exp += ('[' + v + ']' if t == 'STRING' else format_number(v, CT[t]) + ' ') + '\r\n'
        exp += 'after\r\n'
        o, g = cfgs[pi % 6]
        for (o, g) in ([(o, g)] if not chk.thorough() else cfgs):
            st = real.try_compile(src, o, g)
            if st[0] != 'ok':
                chk.finding('C18 INPUT program not accepted', f'{st[0]} {type(st[1]).__name__}: {st[1]}', {'kind': 'program', 'src': src, 'O': o, 'g': g, 'lines': lines})
                break
            r = real.run_bytes(st[2], inputs=lines)
            out = real.text_of(r.trace)
            if out != exp or r.outcome[0] != 'end' or r.stack_depth not in (0, 1):
                hitsB += 1
                chk.finding('C18 compiled INPUT deviates from the stated rules',
                            f'outcome {r.outcome} depth {r.stack_depth}; printed {out!r}; rules give {exp!r}',
                            {'kind': 'program', 'src': src, 'O': o, 'g': g, 'lines': lines})
        if pi == 0:
            chk.samples.append({'program': src, 'lines': lines})
    dist['programs'] = nB
    chk.cov['input_distribution'] = dist
    return chk.finish(
        level='proof', level_text='',
        trusted_base=['Lean 4.33.0 kernel', 'axioms: ' + ', '.join(sorted({a for v in chk.theorems.values() for a in v})),
                      'Python int()/float() outside the ASCII fragment and the value of float(): external',
                      'correspondence harness harness/checks/c18.py'],
        checker_cmd='lake build QbeeModel.Props.C18 && lake env lean .lake/audit/Audit_C18.lean',
        rule='INPUT requests with 1-4 variables of every type x response histories of valid lines, wrong field counts, '
             'non-numeric and out-of-range fields (0-5 refused lines, then usually a valid one); non-trivial = history of '
             '>= 2 lines; distinct by (types, history)',
        extra={'evaluations': len(reqs) + nB, 'distinct_nontrivial': len(distinct)})


def replay(data):
    r = data['replay']
    if r['kind'] == 'device':
        print(real_device(r['prompt'], r['question'], r['same_line'], r['tys'], r['lines']))
    else:
        st = real.try_compile(r['src'], r['O'], r['g'])
        if st[0] == 'ok':
            run_ = real.run_bytes(st[2], inputs=r['lines'])
            print(repr(real.text_of(run_.trace)), run_.outcome, run_.stack_depth)
        else:
            print(st[0], st[1])
    return 0
