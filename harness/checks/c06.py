"""C06  the compiler is total: any text yields a module or a diagnostic.

Theorems (PARTIAL, Props/C06.lean): every expression the static check accepts has code and compilation of an expression
fails only where the static check does (over the tables regenerated from the real passes and generator); the assembler's
two passes are total on every stream whose label operands are defined and fail only on an undefined label.
Correspondence: the real symbolic stream of every accepted module is assembled by the model to the real bytes.
Search (the part that reaches the grammar, the statement passes and the statement generators, which are NOT modelled):
every statement form with missing / extra / wrongly-typed operands in three positions (main, nested block, SUB), token-level
mutations of generated and repository programs, at 3 levels x 2 debug settings; Compiler.compile, bytes(code), str(code).
Finding = any exception other than SyntaxError / CompileError (signature: class + raising function of /repo), or a
diagnostic without a position inside the text.
"""
import traceback

from .. import core, real, progs, stmtfuzz
from . import c08

LEAN_MODULE = 'QbeeModel.Props.C06'
REQUIRED = ['accepted_expression_compiles', 'expression_compile_fails_only_on_type_error', 'assemble_total',
            'assemble_fails_only_on_undefined_label']


def classify(src, o, g):
    st = real.try_compile(src, o, g, want_listing=True)
    if st[0] == 'internal' and isinstance(st[1], RecursionError):
        # the interpreter's recursion limit, not the compiler: the property bounds nesting; retry with room to spare
        import sys
        old = sys.getrecursionlimit()
        sys.setrecursionlimit(max(old, 30000))
        try:
            st = real.try_compile(src, o, g, want_listing=True)
        finally:
            sys.setrecursionlimit(old)
    if st[0] == 'internal':
        e = st[1]
        tb = traceback.extract_tb(e.__traceback__)
        site = next((f.name for f in reversed(tb) if '/repo/' in f.filename or f.filename.startswith(core.REPO)), tb[-1].name if tb else '?')
        return ('internal', type(e).__name__, site, str(e)[:100])
    if st[0] in ('syntax', 'compile'):
        e = st[1]
        ls = getattr(e, 'loc_start', None)
        if ls is None or not (0 <= ls <= len(src)):
            return ('nopos', type(e).__name__, str(getattr(e, 'code', '') or getattr(e, 'msg', ''))[:60], str(e)[:100])
        return (st[0],)
    # accepted: the symbolic stream for the assembler correspondence
    code, b = st[1], st[2]
    secs = real.split_sections(b)
    toks, _ = c08.stream_of(code, secs.get(4))
    return ('ok', ' '.join(toks), secs.get(4).hex())


def task(t):
    return real.big_frame(lambda: _task(t))


def _task(t):
    import random
    seed, n, kind = t
    rng = random.Random(seed)
    out = []
    base = progs.load_repo_programs(core.REPO) if kind == 'mutate' else None
    sweep = []
    if kind == 'sweep':
        # every template once in the nested position and once in the main program at -O2 -g (the configuration with the most
        # passes), slice `n` of 8
        sweep = [(tm, pos) for tm in stmtfuzz.TEMPLATES[n::8] for pos in (0.7, 0.1)]
        # ... and written inside a single-line IF (after THEN / after ELSE / nested), main program
        sweep += [(f, 0.1) for tm in stmtfuzz.TEMPLATES[n::8] for f in stmtfuzz.single_line_if_forms(tm)]
        # ... and whole programs of shapes no placement produces, at every configuration
        sweep += [(w, ('whole', o_, g_)) for w in stmtfuzz.WHOLE[n::8] for o_ in (0, 1, 2) for g_ in (False, True)]
    for k in range(len(sweep) if kind == 'sweep' else n):
        o = rng.randrange(3)
        g = rng.random() < 0.5
        if kind in ('stmt', 'sweep'):
            tmpl = rng.choice(stmtfuzz.TEMPLATES)
            w = rng.random()
            if kind == 'sweep':
                tmpl, w = sweep[k]
                o, g = 2, True
            st_ = stmtfuzz.fill(rng, tmpl)
            if isinstance(w, tuple):
                _, o, g = w
                src = st_
            elif w < 0.6:
                src = stmtfuzz.HEAD + st_ + stmtfuzz.TAIL
            elif w < 0.8:
                src = stmtfuzz.HEAD + 'IF 1 THEN\nFOR i% = 1 TO 2\n' + st_ + '\nNEXT\nEND IF' + stmtfuzz.TAIL
            else:
                src = stmtfuzz.HEAD + stmtfuzz.TAIL + 'SUB host\n' + st_ + '\nEND SUB\n'
            label = st_
        else:
            if rng.random() < 0.5:
                src0, _ = progs.gen_program(rng, size=rng.choice([2, 3, 5]), depth=rng.choice([1, 2]))
            else:
                src0 = rng.choice(base)
            src = stmtfuzz.mutate(rng, src0)
            label = None
        r = classify(src, o, g)
        out.append((r, src if r[0] in ('internal', 'nopos') else None, label, o, g, tmpl if kind in ('stmt', 'sweep') else None))
    return out


def run(chk):
    rng = chk.rng
    chk.regen_and_build(LEAN_MODULE)
    chk.audit(LEAN_MODULE, REQUIRED)
    tasks = [(rng.randrange(1 << 30), 60, 'stmt') for _ in range(chk.n(24, 400))] + \
            [(rng.randrange(1 << 30), 30, 'mutate') for _ in range(chk.n(12, 200))] + \
            [(rng.randrange(1 << 30), k, 'sweep') for k in range(8)]
    res = real.pmap(task, tasks)
    verdicts = {}
    reqs, exp, meta = [], [], []
    templates_hit = set()
    best = {}
    ntotal = 0
    for t, out in zip(tasks, res):
        for r, src, label, o, g, tmpl in out:
            ntotal += 1
            verdicts[r[0]] = verdicts.get(r[0], 0) + 1
            if tmpl:
                templates_hit.add(tmpl)
            if r[0] == 'internal':
                sig = f'C06 internal {r[1]} in {r[2]}'
                if r[2] in ('assembled', 'gen_code_for_node'):
                    # generic sites: the message tells the defects apart
                    import re as _re
                    msg = r[3].strip('"').replace('<', '').replace('>', '')
                    mm = _re.search(r'node: (\w+)', msg)
                    sig += ' (' + ('Cannot generate code for node: ' + mm.group(1) if mm else msg[:60]) + ')'
                if sig not in best or len(label or src) < len(best[sig][0]):
                    best[sig] = (label or src, r, src, o, g)
            elif r[0] == 'nopos':
                sig = f'C06 diagnostic without a position in the text: {r[1]} {r[2]}'
                if sig not in best or len(label or src) < len(best[sig][0]):
                    best[sig] = (label or src, r, src, o, g)
            elif r[0] == 'ok' and len(reqs) < chk.n(150, 2000):
                reqs.append('asm ' + r[1])
                exp.append(r[2])
                meta.append(None)
    for sig, (shown, r, src, o, g) in sorted(best.items()):
        chk.finding(sig, f'{r[3]!r} on {shown[:120]!r} (-O{o}{" -g" if g else ""})', {'kind': 'c06', 'src': src, 'O': o, 'g': g})
    got = chk.model.ask(reqs) if chk.model and reqs else []
    nb = 0
    for g_, e_ in zip(got, exp):
        if g_.split(' | ')[0].split()[:1] != [e_]:
            nb += 1
            if nb <= 3:
                chk.broken.append(('correspondence', 'assembler-stream', {'model': g_[:80], 'real': e_[:80]}))
    chk.stats['assembler-stream'] = {'cases': len(reqs), 'disagree': nb}
    chk.samples += [{'signature': s, 'input': v[0][:200]} for s, v in list(best.items())[:3]]
    chk.cov['input_distribution'] = {'inputs': ntotal, 'verdicts': verdicts, 'statement_templates': len(stmtfuzz.TEMPLATES),
                                     'templates_exercised': len(templates_hit), 'internal_signatures': len(best)}
    return chk.finish(
        level='proof', level_text='',
        trusted_base=['Lean 4.33.0 kernel', 'axioms: ' + ', '.join(sorted({a for v in chk.theorems.values() for a in v})),
                      'PARTIAL: the pyparsing grammar, the statement-level passes and the statement code generators are not modelled; '
                      'totality there rests on the search only',
                      'termination of the real parser on adversarial nesting (RecursionError) is in scope of the search only',
                      'correspondence harness harness/checks/c06.py'],
        checker_cmd='lake build QbeeModel.Props.C06 && lake env lean .lake/audit/Audit_C06.lean',
        rule='238 statement templates x operands drawn from well-typed / wrongly-typed / missing / malformed expressions, targets and '
             'labels, placed in the main program, in a nested block and in a SUB; token-level mutations (delete, insert, replace, '
             'swap, duplicate 1-3 tokens) of generated and repository programs; levels 0-2, with and without -g; non-trivial = an '
             'input that is not a plain syntax error; distinct by text',
        extra={'evaluations': ntotal, 'distinct_nontrivial': ntotal - verdicts.get('syntax', 0)})


def replay(data):
    r = data['replay']
    print(classify(r['src'], r['O'], r['g'])[:4])
    return 0
