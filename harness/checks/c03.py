"""C03  accepted programs are type- and stack-safe on the VM.

Theorems: Props/C03.lean -- obligations over the REGENERATED tables (static result type, pass acceptance, emitted
conversions/operators, the machine's dynamic type rules) and their lifting to all expressions (compileE_stack_typed).
Correspondence: the model's expression scheme vs the real code generator on generated typed expressions.
Oracle on the real VM: a run-time monitor on generated programs (no machine-level fault trap; every store writes a
cell of the declared type of its slot; stack depth at statement starts = depth at routine entry + active GOSUBs).
"""
from .. import core, real, progs, values
from qvm.instrs import op_to_instr, op_code_to_instr
from qvm.memlayout import get_type_size

LEAN_MODULE = 'QbeeModel.Props.C03'
REQUIRED = ['allBinOk_true', 'allUnOk_true', 'compileE_stack_typed', 'statement_boundary_depth', 'handled_error_reaches_boundary_depth']
TYN = {'INTEGER': 'i', 'LONG': 'l', 'SINGLE': 's', 'DOUBLE': 'd', 'STRING': 'str'}
TCH = {'i': '%', 'l': '&', 's': '!', 'd': '#', 'str': '$'}
MARK = {'i': 2000, 'l': 2001, 's': 2002, 'd': 2003, 'str': 2004}
FAULTS = {'TYPE_MISMATCH', 'STACK_EMPTY', 'INVALID_OP_CODE', 'INVALID_LOCAL_VAR_IDX', 'INVALID_GLOBAL_VAR_IDX',
          'NULL_REFERENCE', 'UNINITIALIZED_MEM'}


def gen_tree(rng, depth, want_str=False):
    """random operator tree over typed atoms; returns (tokens, qbasic text)"""
    from qbee.expr import Operator
    if depth <= 0 or rng.random() < 0.25:
        t = 'str' if want_str else rng.choice(['i', 'l', 's', 'd'])
        if rng.random() < 0.6:
            return ['A', t], f'v{t}{TCH[t]}'
        lit = {'i': '7', 'l': '70000', 's': '1.5', 'd': '2.5#', 'str': '"ab"'}[t]
        return ['A', t], lit
    if want_str:
        a, at = gen_tree(rng, depth - 1, True)
        b, bt = gen_tree(rng, depth - 1, True)
        return ['B', str(Operator.ADD.value)] + a + b, f'({at} + {bt})'
    r = rng.random()
    if r < 0.12:
        op = rng.choice([Operator.NEG, Operator.NOT, Operator.PLUS])
        a, at = gen_tree(rng, depth - 1)
        sym = {'NEG': '-', 'NOT': 'NOT ', 'PLUS': '+'}[op.name]
        return ['U', str(op.value)] + a, f'({sym}{at})'
    if r < 0.2:
        # string comparison yields a number
        op = rng.choice([Operator.CMP_EQ, Operator.CMP_LT, Operator.CMP_NE, Operator.CMP_GE])
        a, at = gen_tree(rng, depth - 1, True)
        b, bt = gen_tree(rng, depth - 1, True)
        sym = {'CMP_EQ': '=', 'CMP_LT': '<', 'CMP_NE': '<>', 'CMP_GE': '>='}[op.name]
        return ['B', str(op.value)] + a + b, f'({at} {sym} {bt})'
    ops = {'ADD': '+', 'SUB': '-', 'MUL': '*', 'DIV': '/', 'MOD': 'MOD', 'INTDIV': '\\', 'EXP': '^', 'CMP_EQ': '=',
           'CMP_NE': '<>', 'CMP_LT': '<', 'CMP_GT': '>', 'CMP_LE': '<=', 'CMP_GE': '>=', 'AND': 'AND', 'OR': 'OR',
           'XOR': 'XOR', 'EQV': 'EQV', 'IMP': 'IMP'}
    name = rng.choice(list(ops))
    op = Operator[name]
    a, at = gen_tree(rng, depth - 1)
    b, bt = gen_tree(rng, depth - 1)
    return ['B', str(op.value)] + a + b, f'({at} {ops[name]} {bt})'


def real_expr_code(text):
    """compile `PRINT <expr>` at -O0 and return the instruction codes of the expression (leaves as type markers)"""
    st = real.try_compile('PRINT ' + text + '\n', 0, False, want_bytes=False)
    if st[0] != 'ok':
        return st[0] if st[0] != 'internal' else 'internal:' + type(st[1]).__name__
    fin = [i.final for i in st[1]._instrs]
    # locate: ... ('push0%',) <expr> ('push%', 2) ('io','terminal','print')
    try:
        end = max(k for k, f in enumerate(fin) if f[0] == 'io')
        start = max(k for k, f in enumerate(fin[:end]) if f == ('push0%',) and k < end - 1 and True)
        # the tag push0% is the LAST push0% that precedes the expression: search from the frame instruction
        fr = max(k for k, f in enumerate(fin[:end]) if f[0] == 'frame')
        start = fr + 1
    except ValueError:
        return 'shape'
    body = fin[start + 1:end - 1]
    out = []
    for f in body:
        op = f[0]
        if op.startswith(('readl', 'readg')):
            out.append(MARK[{'%': 'i', '&': 'l', '!': 's', '#': 'd', '$': 'str'}[op[-1]]])
        elif op.startswith('push') and op[-1] in '%&!#$' and op[:7] not in ('pushref',):
            out.append(MARK[{'%': 'i', '&': 'l', '!': 's', '#': 'd', '$': 'str'}[op[-1]]])
        elif op in op_to_instr and len(f) == 1:
            out.append(op_to_instr[op].op_code)
        else:
            out.append(9999)
    return out


# ------------------------------------------------------------------ run-time monitor

def cell_type_map(comp, decls):
    """declared CellType name per cell index for a list of (name, Type) declarations; None = not judged"""
    out = []

    def ft(t):
        if t.is_builtin:
            return [t.name.upper()]
        st = comp.user_types[t.name]
        r = []
        for f in st.fields.values():
            r += ft(f)
        return r
    for _, ty in decls:
        if ty.is_array:
            if not ty.is_static_array:
                out.append('REFERENCE')
                continue
            n = 1
            for d in ty.array_dims:
                n *= d.static_ubound - d.static_lbound + 1
            out += [None] + ['LONG'] * (2 + 2 * len(ty.array_dims)) + ft(ty.array_base_type) * n
        else:
            out += ft(ty)
    return out


def monitored_run(task):
    src, inputs, o = task
    return real.big_frame(lambda: _monitored_run(src, inputs, o))


def _monitored_run(src, inputs, o):
    """compile with debug info and run under the monitor -> list of problems (picklable)"""
    import contextlib
    import io
    st = real.try_compile(src, o, True)
    if st[0] != 'ok':
        return [('not-accepted', st[0], type(st[1]).__name__, str(st[1])[:100])]
    code, b = st[1], st[2]
    comp = code.compilation
    mod = real.QModule.parse(b)
    dbg = mod.debug_info
    clause = ('SimpleCaseClause', 'RangeCaseClause', 'CompareCaseClause', 'ArrayDimRange', 'VarDeclClause',
              'AnyVarDeclClause', 'PrintSep', 'ElseClause')
    # (CASE and CASE ELSE are statements: since 413459d their record is the test with its jump, and it starts at a boundary)
    # statement starts = code offsets of the start markers the code generator emitted for statements (not for the
    # clauses inside a statement, whose code runs while the statement's operands are on the stack)
    from qbee.stmt import Stmt, Block
    starts = []
    pc0 = 0
    while pc0 < len(mod.code):
        starts.append(pc0)
        ins0 = op_code_to_instr[mod.code[pc0]]
        pc0 += 1 + sum(o.size for o in ins0.operands)
    stmt_starts = set()
    k = 0
    for ins_ in code._instrs:
        op_, *args_ = ins_.final
        if op_ == '_dbg_info_start':
            nd = args_[0]
            if isinstance(nd, Stmt) and not isinstance(nd, Block) and type(nd).__name__ not in clause and k < len(starts):
                stmt_starts.add(starts[k])
        elif not op_.startswith('_'):
            k += 1
    # routine of a frame: the frame instruction is the first instruction of the routine
    rstart = {}
    for name, rec in dbg.routines.items():
        rstart[rec.start_offset] = name
    # the main program starts where the initial call goes
    if op_code_to_instr[mod.code[0]].op == 'call':
        import struct as _st
        rstart.setdefault(_st.unpack('>I', mod.code[1:5])[0], '_main')
    gtypes = cell_type_map(comp, list(code._globals.items()))
    ftypes = {}
    for name, r in comp.routines.items():
        # parameters are references to the caller's location (or to a temporary): one cell each, whatever they refer to
        ftypes[name] = ['REFERENCE'] * len(r.params) + cell_type_map(comp, list(r.local_vars.items()))
    problems = []
    impl = real.RecImpl(inputs=inputs)
    buf = io.StringIO()
    with contextlib.redirect_stdout(buf):
        m = real.QvmMachine(mod, impl=impl)
        cpu = m.cpu
        frames = {}        # id(frame) -> [routine name, depth at entry, active gosubs]
        ticks = 0
        try:
            while not cpu.halted and ticks < 30000 and cpu.pc < len(mod.code):
                pc = cpu.pc
                fr = cpu.cur_frame
                info = frames.get(id(fr)) if fr is not None else None
                if info is not None and pc in stmt_starts and mod.code[pc] != op_to_instr['frame'].op_code:
                    want = info[1] + info[2]
                    if len(cpu.stack) != want and len(problems) < 5:
                        kind = 'stack-depth-at-statement-start'
                        if cpu.last_trap is not None:
                            kind = 'stack-depth-at-statement-start-after-a-handled-error'
                        if not any(p[0] == kind for p in problems):
                            problems.append((kind, pc, len(cpu.stack), want, info[0]))
                op_code = mod.code[pc]
                ins = op_code_to_instr.get(op_code)
                opn = ins.op if ins else '?'
                pending_ref = None
                if opn == 'storeref' and cpu.stack and cpu.stack[-1].type.name == 'REFERENCE':
                    pending_ref = cpu.stack[-1].value          # where the store is about to land
                cpu.tick()
                ticks += 1
                if pending_ref is not None and not cpu.halted:
                    # a store through a reference (array element, record field, by-reference parameter): the cell it lands in
                    # must be declared with the type of the value stored
                    seg, ridx = pending_ref.segment, pending_ref.index
                    rmap = gtypes if seg is cpu.globals_segment else (ftypes.get(frames[id(seg)][0]) if id(seg) in frames else None)
                    if rmap is not None and ridx is not None and ridx < len(rmap) and rmap[ridx] is not None:
                        cell = seg.get_cell(ridx)
                        if cell is not None and cell.type.name != rmap[ridx] and len(problems) < 5:
                            problems.append(('stored-cell-type-differs-from-declared-type', pc, opn, ridx, cell.type.name, rmap[ridx],
                                             info[0] if info else None))
                if opn == 'frame' and not cpu.halted:
                    nf = cpu.cur_frame
                    frames[id(nf)] = [rstart.get(pc, '?'), len(cpu.stack), 0]
                elif opn == 'call' and not cpu.halted:
                    # GOSUB: the target is not a frame instruction
                    tgt = cpu.pc
                    tins = op_code_to_instr.get(mod.code[tgt]) if tgt < len(mod.code) else None
                    if tins is not None and tins.op != 'frame' and info is not None:
                        info[2] += 1
                elif opn == 'ijmp' and info is not None and not cpu.halted:
                    info[2] -= 1
                elif opn == 'pop' and info is not None and pc + 1 < len(mod.code) and \
                        op_code_to_instr.get(mod.code[pc + 1]) and op_code_to_instr[mod.code[pc + 1]].op == 'jmp' and info[2] > 0:
                    info[2] -= 1        # RETURN <label>
                elif opn in ('storel', 'storeidxl', 'storeg', 'storeidxg') and not cpu.halted:
                    _, operands, _ = cpu.get_instruction_at(pc)
                    idx = operands[0] + (operands[1] if len(operands) > 1 else 0)
                    if opn.endswith('l'):
                        seg = fr
                        tmap = ftypes.get(info[0]) if info else None
                    else:
                        seg = cpu.globals_segment
                        tmap = gtypes
                    if tmap is not None and idx < len(tmap) and tmap[idx] is not None:
                        cell = seg.get_cell(idx)
                        if cell is not None and cell.type.name != tmap[idx] and len(problems) < 5:
                            problems.append(('stored-cell-type-differs-from-declared-type', pc, opn, idx, cell.type.name, tmap[idx],
                                             info[0] if info else None))
        except real.OutOfScript:
            pass
        except RecursionError:
            problems.append(('host', 'RecursionError'))
        except Exception as e:  # noqa: BLE001
            problems.append(('host', type(e).__name__))
    if cpu.halted and cpu.halt_reason == real.HaltReason.TRAP and cpu.last_trap.name in FAULTS:
        problems.append(('fault-trap', cpu.last_trap.name, buf.getvalue().strip()[-120:]))
    return problems


def border_programs():
    out = []
    head = 'DIM big(9) AS LONG\nt$ = "s": n% = 1: big(1) = 5\n'
    for jump in ('GOTO {l}', 'GOSUB {l}', 'RETURN {l}', 'RESTORE {l}', 'ON ERROR GOTO {l}', 'RESUME {l}', 'IF n% THEN {l}', 'IF n% THEN GOTO {l}'):
        # from inside a SUB / FUNCTION to a module-level label
        out.append(head + 'CALL p(2)\nPRINT "back"; t$; big(1)\nfinish:\nPRINT "fin"; t$\nEND\nDATA 1, 2\nSUB p (a%)\n  DIM loc$(2)\n  loc$(1) = "x"\n  '
                   + jump.format(l='finish') + '\n  PRINT "in p"\nEND SUB\n')
        out.append(head + 'PRINT f%(2)\nfinish:\nPRINT "fin"; t$\nEND\nFUNCTION f% (a%)\n  ' + jump.format(l='finish') + '\n  f% = a%\nEND FUNCTION\n')
        # from module level into a routine
        out.append(head + jump.format(l='inside') + '\nPRINT "main"\nEND\nSUB p (a%)\n  inside:\n  PRINT a%\nEND SUB\n')
        # between two routines
        out.append(head + 'CALL q\nEND\nSUB p (a%)\n  there:\n  PRINT a%\nEND SUB\nSUB q\n  ' + jump.format(l='there') + '\nEND SUB\n')
    for bad in ('EXIT SUB', 'EXIT FUNCTION', 'EXIT DO', 'EXIT FOR', 'RETURN', 'END SUB', 'END FUNCTION'):
        out.append(head + bad + '\nPRINT "x"\n')
        out.append(head + 'CALL p(1)\nEND\nSUB p (a%)\n  ' + bad + '\n  PRINT a%\nEND SUB\n')
        out.append(head + 'PRINT f%(1)\nEND\nFUNCTION f% (a%)\n  ' + bad + '\n  f% = 1\nEND FUNCTION\n')
    # (expressions that are nearly lvalues, of another numeric type than the parameter: passed by value and converted, whatever
    # a folder reduces them to)
    for arg in ('big()', 'big', 'big(1)', 't$', '(n%)', 'n% + 0', '1.5', '"s"', 'n%, n%', '', '+big(1)', '+n%', '+(big(1))', '-(-big(1))',
                '0 + big(1)', '+big(n%)', '+1.5', '(big(1))', 'big(1) * 1', '+ +big(1)'):
        out.append(head + f'CALL p({arg})\nPRINT n%; big(1)\nEND\nSUB p (a%)\n  a% = a% + 1\n  PRINT a%\nEND SUB\n')
        out.append(head + f'CALL pa({arg})\nPRINT n%; big(1)\nEND\nSUB pa (a() AS LONG)\n  a(2) = 7\n  PRINT a(1)\nEND SUB\n')
    # constant array bounds that are not whole numbers (the frame is sized at compile time, the header is written at run time:
    # both must round the same way), with a neighbour of another type behind the array
    for dim, last in (('3.5', 4), ('2.6', 3), ('7 / 2', 4), ('-0.6 TO 2', -1), ('-1.5 TO 0', -2), ('3.4999999999', 4), ('1 TO 2.5', 2)):
        for nb, val in (('s AS STRING', '"x"'), ('d AS DOUBLE', '1.5'), ('l AS LONG', '70000')):
            nm = nb.split()[0]
            out.append(f'DIM a({dim}) AS INTEGER\nDIM {nb}\n{nm} = {val}\na({last}) = 7\nPRINT a({last}); {nm}\n')
            out.append(f'CALL p\nEND\nSUB p\n  DIM a({dim}) AS INTEGER\n  DIM {nb}\n  {nm} = {val}\n  a({last}) = 7\n  PRINT a({last}); {nm}\nEND SUB\n')
    # a parameter as FOR variable (it is a reference, not a number)
    for ty in ('%', '&', '!'):
        out.append(f'n{ty} = 5\nCALL s(n{ty})\nPRINT n{ty}\nEND\nSUB s (i{ty})\n  FOR i{ty} = 1 TO 3\n    PRINT i{ty};\n  NEXT\nEND SUB\n')
        out.append(f'CALL s((4))\nEND\nSUB s (i{ty})\n  FOR i{ty} = 3 TO 1 STEP -1\n  NEXT\n  PRINT i{ty}\nEND SUB\n')
    return out


def run(chk):
    rng = chk.rng
    chk.regen_and_build(LEAN_MODULE)
    chk.audit(LEAN_MODULE, REQUIRED)
    dist = {}
    # ---- the expression scheme: model vs the real code generator
    n = chk.n(500, 8000)
    reqs, exp, texts = [], [], []
    decl = ''
    kinds = {}
    for _ in range(n):
        toks, text = gen_tree(rng, rng.choice([1, 2, 2, 3]))
        rc = real_expr_code(text)
        if isinstance(rc, list):
            e = 'ok ' + ' '.join(map(str, rc))
            kinds['accepted'] = kinds.get('accepted', 0) + 1
        elif rc == 'compile':
            e = 'reject'
            kinds['rejected'] = kinds.get('rejected', 0) + 1
        else:
            e = rc
            kinds[rc] = kinds.get(rc, 0) + 1
        reqs.append('cexpr ' + ' '.join(toks))
        exp.append(e)
        texts.append(text)
    got = chk.model.ask(reqs) if chk.model else []
    nb = 0
    for i, (g, e) in enumerate(zip(got, exp)):
        gg = g.split()
        if gg and gg[0] == 'ok':
            g2 = 'ok ' + ' '.join(gg[2:])       # drop the type
        else:
            g2 = g
        if g2 != e:
            nb += 1
            if nb <= 3:
                chk.broken.append(('correspondence', 'expr-codegen', {'request': reqs[i], 'expr': texts[i], 'model': g, 'real': e}))
                chk.say('expr-codegen disagree:', texts[i], '| model', g, '| real', e)
            if e.startswith('internal') or e == 'shape':
                chk.finding('C03 typed expression crashes the code generator', f'PRINT {texts[i]} -> {e}', {'kind': 'expr', 'text': texts[i]})
    chk.stats['expr-codegen'] = {'cases': len(reqs), 'disagree': nb, 'kinds': kinds}
    dist['expressions'] = kinds

    # ---- run-time monitor on generated programs (debug info gives the statement starts)
    nprog = chk.n(80, 1500)
    tasks = []
    for i in range(nprog):
        src, inputs = progs.gen_program(rng, size=rng.choice([3, 5, 8]), depth=rng.choice([1, 2, 2]))
        tasks.append((src, inputs, (i + chk.seed) % 3))
    # expression-heavy programs: the operators on mixed types, stored into variables of every type
    for i in range(chk.n(40, 600)):
        lines = ['vi% = 3', 'vl& = 70000', 'vs! = 1.5', 'vd# = 2.25', 'vstr$ = "ab"']
        for _ in range(4):
            toks, text = gen_tree(rng, 2)
            tgt = rng.choice(['ri%', 'rl&', 'rs!', 'rd#'])
            lines.append(f'{tgt} = {text}')
            lines.append(f'PRINT {text}')
        tasks.append(('\n'.join(lines) + '\n', [], i % 3))
    # programs on the border of what is accepted: jumps and label references across routine boundaries, EXIT / RETURN in the
    # wrong routine, arguments of the wrong shape.  The unchanged compiler rejects most of them (nothing to monitor); whatever
    # a compiler accepts must still be safe on the machine
    for b in border_programs():
        for o in (0, 2):
            tasks.append((b, [], o))
    res = real.pmap(monitored_run, tasks)
    hits = {}
    nacc = 0
    for (src, inputs, o), probs in zip(tasks, res):
        if probs and probs[0][0] == 'not-accepted':
            continue
        nacc += 1
        for pr in probs:
            if pr[0] == 'host':
                continue            # host exceptions are C07's subject
            sig = 'C03 ' + pr[0] + (' ' + pr[1] if pr[0] in ('fault-trap', 'host') else '')
            hits[sig] = hits.get(sig, 0) + 1
            chk.finding(sig, str(pr), {'kind': 'program', 'src': src, 'O': o, 'inputs': inputs})
    # the listed known findings are replayed on the real code on every run
    for k in chk.known:
        ex = k.get('example')
        if ex and 'PRINT' in ex:
            for pr in _monitored_run(ex if ex.endswith('\n') else ex + '\n', [], 0):
                if pr[0] != 'host':
                    chk.finding('C03 ' + pr[0] + (' ' + pr[1] if pr[0] == 'fault-trap' else ''), str(pr), {'kind': 'program', 'src': ex, 'O': 0})
    dist['monitored_programs'] = nacc
    dist['monitor_hits'] = hits
    chk.samples += [{'expr': texts[i], 'real_code': exp[i]} for i in range(3)] + [{'program': tasks[0][0][:400]}]
    chk.cov['input_distribution'] = dist
    return chk.finish(
        level='proof', level_text='',
        trusted_base=['Lean 4.33.0 kernel', 'axioms: ' + ', '.join(sorted({a for v in chk.theorems.values() for a in v})),
                      'translator harness/gen_tables.py: BinaryOp.type / UnaryOp.type / Pass2 operator checks / gen_binary_op / '
                      'gen_unary_op evaluated on stub operands for every operator and type pair; _exec_* executed on one '
                      'representative per operand type (type behaviour assumed value-independent)',
                      'correspondence harness harness/checks/c03.py'],
        checker_cmd='lake build QbeeModel.Props.C03 && lake env lean .lake/audit/Audit_C03.lean',
        rule='typed operator trees (depth 1-3, every operator, every operand type pair reachable) compiled by the real code '
             'generator vs the model; generated programs run under a monitor (fault traps, declared type of every stored '
             'cell, stack depth at statement starts); non-trivial = expression with >= 2 operators / program accepted and run; '
             'distinct by text',
        extra={'evaluations': len(reqs) + nacc, 'distinct_nontrivial': len({t for t in texts if t.count('(') >= 2}) + nacc})


def replay(data):
    r = data['replay']
    if r['kind'] == 'expr':
        print(real_expr_code(r['text']))
    else:
        print(_monitored_run(r['src'], r.get('inputs', []), r['O']))
    return 0
