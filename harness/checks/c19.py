"""C19  PRINT USING.  Theorems: Props/C19.lean.  Correspondence: PrintUsingFormatter (scanner exhaustive over the
property's alphabet; renderer on boundary values) vs Model/Using.lean; compiled PRINT USING statements.
Oracle: the property's sentences for plain numeric fields on the real code."""
import itertools
import re
from decimal import Decimal, ROUND_HALF_EVEN

from .. import core, real, values
from qvm.using import PrintUsingFormatter

LEAN_MODULE = 'QbeeModel.Props.C19'
REQUIRED = ['num_width', 'num_width_uses_sign_position', 'overflow_mark', 'amp_bang', 'literal_copied',
            'escape_copied', 'consume_in_order', 'num_width_trailing_sign', 'edge_points']
ALPHA = '#.,+-&!_a '
VALUES = [0, 1, -1, 7, 12, -12, 999, 1000, 1234567, -1234567, 0.5, 1.5, 2.5, -2.5, 9.995, -9.995, 0.045, 99.99, 99.995,
          0.001, -0.001, 1234.5678, 1e10, 123456789.125, 0.999, 9.5, 10.0, -0.5, 5e-7]
STRS = ['', 'x', 'hello', 'two words']


def real_scan(fmt):
    try:
        f = PrintUsingFormatter(fmt)
    except Exception as e:  # noqa: BLE001
        return 'host ' + type(e).__name__, None
    out = []
    for p in f.fmt_parts:
        if p[0] == 'non':
            out.append('non:' + core.enc_str(p[1]))
        elif p[0] == 'str':
            out.append(f'str:{ord(p[1])}')
        else:
            o = p[2]
            sign = o.get('sign')
            out.append('num:%d:%s:%s:%d:%s:%d:%d' % (
                len(p[1]), 'e' if sign and sign[0] == 'end' else 'b', str(ord(sign[1])) if sign else '-',
                1 if o.get('comma') else 0, str(o['decimal_point']) if 'decimal_point' in o else '-', o['real_sharps'],
                o.get('decimals', 0)))
    return ('ok ' + ' '.join(out)).strip(), f


def fields_of(scan_answer):
    """field descriptors from a model/real scan answer"""
    fs = []
    for tok in scan_answer.split()[1:]:
        if tok.startswith('str:'):
            fs.append(('str', chr(int(tok[4:]))))
        elif tok.startswith('num:'):
            _, w, pos, ch, comma, dp, real_, dec = tok.split(':')
            fs.append(('num', int(w), pos, ch, comma == '1', None if dp == '-' else int(dp), int(dec)))
    return fs


def body_for(field, v):
    _, w, pos, ch, comma, dp, dec = field
    # (as repaired: a field without a decimal point asks for no decimals; the decimals are the '#' after the point)
    spec = '{:' + (',' if comma else '') + (('.%df' % dec) if dp is not None else '.0f') + '}'
    return spec.format(abs(v))


def val_tokens(fields, vals):
    """values -> model tokens; the body of a number is computed for the field it meets (i-th value, i-th field)"""
    toks = []
    for i, v in enumerate(vals):
        if isinstance(v, str):
            toks += ['S', core.enc_str(v)]
        else:
            f = fields[i] if i < len(fields) and fields[i][0] == 'num' else ('num', 1, 'b', '-', False, None, 0)
            toks += ['N', '1' if v < 0 else '0', core.enc_str(body_for(f, v))]
    return toks


def real_format(formatter, vals):
    try:
        return 'ok ' + core.enc_str(formatter.format(list(vals)))
    except Exception as e:  # noqa: BLE001
        return 'host ' + type(e).__name__


PLAIN = re.compile(r'^([+-]?)(#[#,]*|(?=\.#))(?:\.(#*))?([+-]?)$')


def spec_field(fmt, v):
    """the property for one plain numeric field `[+-]#…[.#…]`: rounded to the field's decimals, right-aligned in the
    field width; too wide -> '%' + unpadded text.  Returns None outside the judged region."""
    m = PLAIN.match(fmt)
    if not m:
        return None
    sign, ip, fp, tsign = m.group(1), m.group(2), m.group(3), m.group(4)
    if sign and tsign:
        return None     # two signs: the second one is another field
    dec = len(fp) if fp is not None else 0
    width = len(fmt)
    comma = ',' in ip
    d = Decimal(repr(v)) if isinstance(v, float) else Decimal(v)
    q = abs(d).quantize(Decimal(1).scaleb(-dec), rounding=ROUND_HALF_EVEN)
    half = (abs(d) * (10 ** dec)) % 1 == Decimal('0.5')
    if half:
        return ('tie',)          # the rounding direction of an exact tie is not judged
    body = ('{:,.%df}' % dec).format(q) if comma else ('{:.%df}' % dec).format(q)
    if fp is not None and dec == 0:
        body += '.'                      # "##.": the point is a position of the field
    if ip == '' and body.startswith('0.'):
        body = body[1:]                  # ".##": no digit position in front of the point
    neg = v < 0
    if tsign:
        # a trailing sign: the sign position is the last one ('-' shows only a minus, '+' shows both)
        mark = '-' if neg else ('+' if tsign == '+' else ' ')
        s = body + mark
        if len(s) <= width:
            return ('text', s.rjust(width))
        if mark == ' ' and len(body) <= width:
            return ('text', body.rjust(width))      # a non-negative value may use the sign position
        return ('text', '%' + (body if mark == ' ' else s))
    s = ('-' if neg else ('+' if sign == '+' else '')) + body
    if len(s) <= width:
        return ('text', s.rjust(width))
    return ('text', '%' + s)


def run(chk):
    rng = chk.rng
    chk.regen_and_build(LEAN_MODULE)
    chk.audit(LEAN_MODULE, REQUIRED)
    dist = {}

    # ---- A: scanner, exhaustive
    maxlen = chk.n(4, 5)
    fmts = [''.join(t) for L in range(maxlen + 1) for t in itertools.product(ALPHA, repeat=L)]
    extra = ['###.##', '##,###.##', '+##.#', '##.#-', '##.#+', '#,###', '$$##', '**#', '&_&!', 'a_', '#.#.#', '+-#', '-+#',
             '#####,.##', '_', '__', 'ab_cd &', '! !', '###.', '.##', '+.#', '#-#', '#+#']
    for _ in range(chk.n(500, 20000)):
        extra.append(''.join(rng.choice(ALPHA) for _ in range(rng.randint(maxlen + 1, 14))))
    fmts += extra
    reqs, exp, forms = [], [], []
    for f in fmts:
        a, fo = real_scan(f)
        reqs.append('uscan ' + core.enc_str(f))
        exp.append(a.rstrip())
        forms.append(fo)
    chk.corr('using-scan', reqs, exp)
    dist['formats'] = len(fmts)
    dist['formats_exhaustive_to_length'] = maxlen
    dist['scan_index_errors'] = sum(1 for e in exp if e.startswith('host'))

    # ---- B: renderer
    idxs = list(range(len(fmts)))
    if not chk.thorough():
        idxs = [i for i in idxs if i % 4 == chk.seed % 4 or i >= len(fmts) - len(extra)]
    reqs2, exp2, meta = [], [], []
    kinds = {'ok': 0, 'host': 0}
    nontrivial = set()
    for i in idxs:
        if forms[i] is None:
            continue
        fs = fields_of(exp[i])
        nv = 3 if chk.thorough() else 1
        for rep in range(nv):
            r = rng.random()
            k = len(fs) if r < 0.8 else max(0, len(fs) + rng.choice([-1, 1, 2]))
            vals = []
            for j in range(k):
                want_str = j < len(fs) and fs[j][0] == 'str'
                if rng.random() < 0.08:
                    want_str = not want_str
                vals.append(rng.choice(STRS) if want_str else rng.choice(VALUES))
            a = real_format(forms[i], vals)
            reqs2.append('using ' + core.enc_str(fmts[i]) + ' ' + ' '.join(val_tokens(fs, vals)))
            exp2.append(a)
            meta.append((fmts[i], vals))
            kinds[a.split()[0]] += 1
            if a.startswith('ok') and any(f[0] == 'num' for f in fs):
                nontrivial.add((fmts[i], tuple(vals)))
    chk.corr('using-format', [r.strip() for r in reqs2], exp2, describe=lambda i: {'fmt': meta[i][0], 'values': meta[i][1]})
    dist['format_cases'] = len(reqs2)
    dist['format_outcomes'] = kinds

    # ---- C: the property's sentences on plain numeric fields (real code)
    plain = ['#', '##', '###', '####', '###.#', '###.##', '#.###', '##.', '+###', '+##.##', '-##.#', '#,###', '##,###.##',
             '#####', '########', '#######.###',
             # trailing signs and a decimal point at the edge of the field
             '###-', '##+', '#.##-', '#.#-', '##.##+', '###.-', '.##', '.#', '.###-', '+.##', '#.', '####.', '#,###.##-']
    hits = {}
    njudged = 0
    for f in plain:
        fo = PrintUsingFormatter(f)
        for v in VALUES:
            sp = spec_field(f, v)
            if sp is None or sp[0] == 'tie':
                continue
            njudged += 1
            got = fo.format([v])
            if got != sp[1]:
                sig = 'C19 numeric field deviates from width/rounding/overflow rule'
                hits[sig] = hits.get(sig, 0) + 1
                chk.finding(sig, f'PRINT USING "{f}"; {v!r} -> {got!r}, rule gives {sp[1]!r}', {'kind': 'field', 'fmt': f, 'value': v})
    dist['plain_field_cases_judged'] = njudged
    dist['plain_field_hits'] = hits

    # ---- D: compiled PRINT USING statements
    nprog = chk.n(40, 600)
    cfgs = real.CONFIGS
    nbadp = 0
    # values that coincide with the codes of the argument protocol (1 and 2 are the separator codes, 0 / -1 the flags) in
    # every position, with and without a trailing separator: the line break must not depend on the values
    fixed = []
    for f0 in ('###', '### ###', '&', '## & ##'):
        nf = len(fields_of(real_scan(f0)[0]))
        for code in (1, 2, 0, -1):
            for tr in ('', ';'):
                fixed.append((f0, [code] * nf, tr))
                if nf > 1:
                    fixed.append((f0, [7] * (nf - 1) + [code], tr))
    nprog += len(fixed)
    for pi in range(nprog):
        if pi < len(fixed):
            f, forced, forced_tr = fixed[pi]
        else:
            f, forced, forced_tr = rng.choice(plain + ['a ### b', '& = ###.##', '!##_#', '###.## ###.##', '&&', 'x_&y']), None, None
        a, fo = real_scan(f)
        fs = fields_of(a)
        vals = [rng.choice(['s', 'hello']) if x[0] == 'str' else rng.choice(VALUES) for x in fs]
        if forced is not None:
            vals = [str(v) if x[0] == 'str' else v for x, v in zip(fs, forced)]
        want = real_format(fo, vals)
        if not want.startswith('ok') or not vals:
            continue        # PRINT USING without values is a C07 matter (host IndexError in _exec_print)
        items = []
        for v in vals:
            if isinstance(v, str):
                items.append('"' + v + '"')
            elif isinstance(v, int):
                items.append(f'({v})' if v < 0 else str(v) + ('&' if v > 32767 else ''))
            else:
                lit = values.qb_float_literal(abs(v), 'DOUBLE')
                items.append(f'(0# - {lit})' if v < 0 else lit)
        trailing = rng.choice(['', ';']) if forced_tr is None else forced_tr
        src = f'PRINT USING "{f}"; ' + '; '.join(items) + trailing + '\nPRINT "|"\n'
        o, g = cfgs[pi % 6]
        st = real.try_compile(src, o, g)
        if st[0] != 'ok':
            chk.finding('C19 PRINT USING program not accepted', f'{st[0]} {type(st[1]).__name__}: {st[1]}', {'kind': 'program', 'src': src, 'O': o, 'g': g})
            continue
        r = real.run_bytes(st[2])
        out = real.text_of(r.trace)
        expect = core.dec_str(want[3:]) + ('' if trailing else '\r\n') + '|\r\n'
        if out != expect or r.outcome[0] != 'end':
            nbadp += 1
            chk.finding('C19 compiled PRINT USING differs from the formatter / line-break rule',
                        f'{src!r} -> {out!r} {r.outcome}, expected {expect!r}', {'kind': 'program', 'src': src, 'O': o, 'g': g})
        if pi == 0:
            chk.samples.append({'program': src, 'printed': out})
    dist['programs'] = nprog
    chk.samples += [{'fmt': m[0], 'values': m[1], 'real': e} for m, e in list(zip(meta, exp2))[:5]]
    chk.cov['input_distribution'] = dist
    return chk.finish(
        level='proof', level_text='',
        trusted_base=['Lean 4.33.0 kernel', 'axioms: ' + ', '.join(sorted({a for v in chk.theorems.values() for a in v})),
                      "Python format(abs(value), ',.Nf'): external contract (body supplied as data)",
                      'correspondence harness harness/checks/c19.py'],
        checker_cmd='lake build QbeeModel.Props.C19 && lake env lean .lake/audit/Audit_C19.lean',
        rule=f'all format strings over {{# . , + - & ! _ a blank}} up to length {maxlen} (exhaustive) + random longer, '
             'each rendered with values at rounding boundaries, carries, negatives, zero, too-wide, and with wrong '
             'counts/types; non-trivial = a successful rendering through at least one numeric field; distinct by (format, values)',
        extra={'evaluations': len(reqs) + len(reqs2) + njudged + nprog, 'distinct_nontrivial': len(nontrivial), 'exhaustive': True})


def replay(data):
    r = data['replay']
    if r['kind'] == 'field':
        print(repr(PrintUsingFormatter(r['fmt']).format([r['value']])), spec_field(r['fmt'], r['value']))
    else:
        st = real.try_compile(r['src'], r['O'], r['g'])
        if st[0] == 'ok':
            run_ = real.run_bytes(st[2])
            print(repr(real.text_of(run_.trace)), run_.outcome)
    return 0
