"""Boundary-biased value generators for the QBASIC types."""
import ctypes
import math
import struct

INT_LANDMARKS = [0, 1, -1, 2, -2, 9, 10, 99, 100, 255, 256, 999, 1000, 9999, 10000, 12345, -12345,
                 32766, 32767, -32767, -32768]
LONG_LANDMARKS = INT_LANDMARKS + [32768, -32769, 65535, 65536, 99999, 100000, 999999, 1000000, 16777216,
                                  16777217, 99999999, 100000000, 999999999, 1000000000, 2147483646, 2147483647,
                                  -2147483647, -2147483648]


def f32(x):
    return ctypes.c_float(x).value


SINGLE_LANDMARKS = [0.0, 1.0, -1.0, 0.5, 1.5, 2.5, -2.5, 0.1, 0.2, 0.3, 1 / 3, 2 / 3, 3.14159274, 100.0, 1234.5,
                    123456.7, 1234567.0, 9999999.0, 16777216.0, 1e7, 1.5e7, 1e10, 1e38, 3.4028234663852886e38,
                    1e-5, 1.5e-7, 1e-38, 1.401298464324817e-45, 0.001, 0.015625, 99.99, 9.995, 0.045, 7.0e-3]
DOUBLE_LANDMARKS = SINGLE_LANDMARKS + [1e15, 1e16, 1e17, 123456789012345678.0, 1e22, 1e100, 1.7976931348623157e308,
                                       5e-324, 2.2250738585072014e-308, 1e-7, 0.1 + 0.2, 1 / 7, 1e-4, 1.5e-5,
                                       4503599627370496.5, 9007199254740993.0]


def gen_int(rng, ty):
    lm = INT_LANDMARKS if ty == 'INTEGER' else LONG_LANDMARKS
    r = rng.random()
    if r < 0.5:
        return rng.choice(lm)
    lo, hi = (-32768, 32767) if ty == 'INTEGER' else (-2 ** 31, 2 ** 31 - 1)
    if r < 0.75:
        return rng.randint(-100, 100)
    return rng.randint(lo, hi)


def gen_float(rng, ty):
    lm = SINGLE_LANDMARKS if ty == 'SINGLE' else DOUBLE_LANDMARKS
    r = rng.random()
    if r < 0.45:
        v = rng.choice(lm) * rng.choice([1, -1])
    elif r < 0.7:
        v = round(rng.uniform(-1000, 1000), rng.randint(0, 4))
    elif r < 0.85:
        v = rng.choice([1, -1]) * (10.0 ** rng.randint(-30, 30)) * rng.choice([1, 1.5, 2.5, 9.995, 1.2345678])
    else:
        while True:
            if ty == 'SINGLE':
                v = struct.unpack('>f', struct.pack('>I', rng.getrandbits(32)))[0]
            else:
                v = struct.unpack('>d', struct.pack('>Q', rng.getrandbits(64)))[0]
            if math.isfinite(v):
                break
    if ty == 'SINGLE':
        v = f32(v)
        if not math.isfinite(v):
            v = 1.0
    return v


TYPES = ['INTEGER', 'LONG', 'SINGLE', 'DOUBLE', 'STRING']
TYPE_CHAR = {'INTEGER': '%', 'LONG': '&', 'SINGLE': '!', 'DOUBLE': '#', 'STRING': '$'}

STR_ALPHABET = 'abcXYZ 019,;:.-+#&!_%$\'()*/<=>?@[]^{|}~'


def gen_str(rng, maxlen=20):
    r = rng.random()
    if r < 0.15:
        return ''
    n = rng.choice([1, 2, 3, 5, 13, 14, 15, 27, 28, 29, maxlen]) if r < 0.6 else rng.randint(0, maxlen)
    return ''.join(rng.choice(STR_ALPHABET) for _ in range(n))


def gen_value(rng, ty):
    if ty in ('INTEGER', 'LONG'):
        return gen_int(rng, ty)
    if ty in ('SINGLE', 'DOUBLE'):
        return gen_float(rng, ty)
    return gen_str(rng)


def qb_float_literal(v, ty):
    """a QBASIC literal text whose value is exactly v (finite)"""
    r = repr(float(v))
    if ty == 'DOUBLE':
        if 'e' in r:
            return r.replace('e', 'D')
        return r + '#'
    if 'e' in r:
        return r.replace('e', 'E')
    return r + '!'
