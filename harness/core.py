"""Shared machinery of every check: regenerate -> build -> audit -> correspondence
-> known findings -> search -> verdict + evidence.

Runs under /venv/bin/python (3.12; pyparsing present; /repo imported in-process).
Exit codes: 0 property held on everything explored; 1 violation (a VIOLATION line
was printed); 2 infrastructure failure (never reported as a violation).
"""
import fcntl
import hashlib
import io
import json
import os
import random
import re
import subprocess
import sys
import time
import contextlib

VERIF = os.path.dirname(os.path.dirname(os.path.abspath(__file__)))
LEAN = os.path.join(VERIF, 'lean')
REPO = os.environ.get('QBEE_REPO', '/repo')
QMODEL = os.path.join(LEAN, '.lake', 'build', 'bin', 'qmodel')
STD_AXIOMS = {'propext', 'Classical.choice', 'Quot.sound'}
FORBIDDEN = re.compile(
    r'\bsorry\b|\badmit\b|^\s*axiom\s|native_decide|bv_decide|implemented_by|'
    r'\bunsafe\s|maxHeartbeats\s+0|\bplausible\b', re.M)

os.environ.setdefault('ELEKTITO_QBEE_VERIF', '1')
if REPO not in sys.path:
    sys.path.insert(0, REPO)


class Infra(Exception):
    pass


def sh(cmd, cwd=None, timeout=3600, env=None):
    p = subprocess.run(cmd, cwd=cwd, stdout=subprocess.PIPE, stderr=subprocess.STDOUT,
                       text=True, timeout=timeout, env=env)
    return p.returncode, p.stdout


@contextlib.contextmanager
def build_lock():
    os.makedirs(os.path.join(LEAN, '.lake'), exist_ok=True)
    f = open(os.path.join(LEAN, '.lake', 'verif.lock'), 'w')
    try:
        fcntl.flock(f, fcntl.LOCK_EX)
        yield
    finally:
        fcntl.flock(f, fcntl.LOCK_UN)
        f.close()


def strip_lean_comments(text):
    # remove /- ... -/ (nested) and -- comments
    out = []
    i = 0
    depth = 0
    n = len(text)
    while i < n:
        if text.startswith('/-', i):
            depth += 1
            i += 2
        elif depth and text.startswith('-/', i):
            depth -= 1
            i += 2
        elif depth:
            i += 1
        elif text.startswith('--', i):
            j = text.find('\n', i)
            i = n if j < 0 else j
        else:
            out.append(text[i])
            i += 1
    return ''.join(out)


def enc_str(s):
    """wire encoding of a string: decimal code points joined by '.', '-' if empty"""
    if s == '':
        return '-'
    return '.'.join(str(ord(c)) for c in s)


def dec_str(w):
    if w == '-':
        return ''
    return ''.join(chr(int(t)) for t in w.split('.'))


class Model:
    """Batch access to the native model driver (line protocol)."""

    def __init__(self):
        if not os.path.exists(QMODEL):
            raise Infra('model driver not built: ' + QMODEL)

    def ask(self, lines):
        if not lines:
            return []
        data = '\n'.join(lines) + '\n'
        p = subprocess.run([QMODEL], input=data, stdout=subprocess.PIPE,
                           stderr=subprocess.PIPE, text=True, timeout=3600)
        if p.returncode != 0:
            raise Infra('model driver failed: ' + p.stderr[-2000:])
        out = [l.rstrip() for l in p.stdout.split('\n')]
        if out and out[-1] == '':
            out.pop()
        if len(out) != len(lines):
            raise Infra(f'model driver answered {len(out)} lines for {len(lines)} requests')
        return out


class Check:
    """One run of one property's check."""

    def __init__(self, pid, tier, seed):
        self.pid = pid
        self.tier = tier
        self.seed = seed
        self.rng = random.Random(seed * 1000003 + int(pid[1:]))
        self.t0 = time.time()
        self.broken = []        # (kind, name, detail)   proof obligation / correspondence no longer checks
        self.violations = []    # dict(signature, what, replay)
        self.known_seen = []    # signatures of listed findings reproduced
        self.cov = {}           # coverage keys
        self.samples = []
        self.assumptions = []
        self.theorems = {}      # name -> axioms
        self.required = []
        self.log = []
        self.stats = {}
        self.model = None
        kf = json.load(open(os.path.join(VERIF, 'known_findings.json')))
        self.known = [f for f in kf.get('findings', []) if f['property'] == pid]

    # ---- logging
    def say(self, *a):
        msg = ' '.join(str(x) for x in a)
        self.log.append(msg)
        print(f'[{self.pid}] {msg}', flush=True)

    def thorough(self):
        return self.tier == 'thorough'

    def n(self, quick, thorough):
        return thorough if self.tier == 'thorough' else quick

    # ---- step 1/2: regenerate tables, build
    def regen_and_build(self, lean_module):
        from . import gen_tables
        with build_lock():
            try:
                changed = gen_tables.generate()
            except Exception as e:  # a table could not be extracted from the current source
                self.broken.append(('translator', 'gen_tables', f'{type(e).__name__}: {e}'))
                changed = []
            if changed:
                self.say('generated tables changed:', ', '.join(changed))
            self.cov['generated_tables_changed'] = changed
            rc, out = sh(['lake', 'build', 'qmodel'], cwd=LEAN)
            if rc != 0:
                # the executable model itself no longer builds against the regenerated tables
                self.broken.append(('build', 'qmodel', tail_errors(out)))
            rc, out = sh(['lake', 'build', lean_module], cwd=LEAN)
            self.build_ok = rc == 0
            if rc != 0:
                for thm, msg in failing_theorems(out):
                    self.broken.append(('theorem', thm, msg))
                if not any(k == 'theorem' for k, _, _ in self.broken):
                    self.broken.append(('build', lean_module, tail_errors(out)))
        if os.path.exists(QMODEL):
            self.model = Model()
        return self.build_ok

    # ---- step 3: audit
    def audit(self, lean_module, required):
        """#print axioms for every theorem of the property file; forbid sorry & co."""
        self.required = list(required)
        path = os.path.join(LEAN, *lean_module.split('.')) + '.lean'
        src = strip_lean_comments(open(path).read())
        names, full_names = [], {}
        stack = []
        for line in src.split('\n'):
            mm = re.match(r'^namespace\s+(\S+)', line)
            if mm:
                stack.append(mm.group(1))
                continue
            mm = re.match(r'^end\s+(\S+)', line)
            if mm and stack and stack[-1] == mm.group(1):
                stack.pop()
                continue
            mm = re.match(r'^\s*(?:private\s+)?theorem\s+([A-Za-z_][\w.\']*)', line)
            if mm:
                names.append(mm.group(1))
                full_names[mm.group(1)] = '.'.join(stack + [mm.group(1)])
        missing = [r for r in required if r not in names]
        for m in missing:
            self.broken.append(('theorem', m, 'required theorem is missing from ' + lean_module))
        # forbidden constructs anywhere in the Lean sources the module depends on
        for root, _, files in os.walk(os.path.join(LEAN, 'QbeeModel')):
            for fn in files:
                if fn.endswith('.lean'):
                    t = strip_lean_comments(open(os.path.join(root, fn)).read())
                    m = FORBIDDEN.search(t)
                    if m:
                        self.broken.append(('audit', fn, 'forbidden construct: ' + m.group(0).strip()))
        if not self.build_ok:
            return
        audit_dir = os.path.join(LEAN, '.lake', 'audit')
        os.makedirs(audit_dir, exist_ok=True)
        af = os.path.join(audit_dir, f'Audit_{self.pid}.lean')
        with open(af, 'w') as f:
            f.write(f'import {lean_module}\n')
            for nme in names:
                f.write(f'#print axioms {full_names[nme]}\n')
        rc, out = sh(['lake', 'env', 'lean', af], cwd=LEAN)
        if rc != 0:
            self.broken.append(('audit', lean_module, tail_errors(out)))
            return
        cur = None
        axioms = {}
        for m in re.finditer(r"'([^']+)' (does not depend on any axioms|depends on axioms: \[([^\]]*)\])", out):
            nm = m.group(1)
            ax = [] if m.group(3) is None else [a.strip() for a in m.group(3).replace('\n', ' ').split(',') if a.strip()]
            axioms[nm] = ax
        for nme in names:
            full = full_names[nme]
            if full not in axioms:
                self.broken.append(('audit', nme, 'no #print axioms output'))
                continue
            extra = set(axioms[full]) - STD_AXIOMS
            self.theorems[nme] = axioms[full]
            if extra:
                self.broken.append(('audit', nme, 'non-standard axioms: ' + ', '.join(sorted(extra))))
        if self.thorough():
            rc, out = sh(['lake', 'env', 'leanchecker', lean_module], cwd=LEAN, timeout=3000)
            self.cov['leanchecker'] = 'ok' if rc == 0 else 'failed'
            if rc != 0:
                self.broken.append(('audit', 'leanchecker', tail_errors(out)))

    # ---- step 4 helpers: correspondence
    def corr(self, name, requests, expected, describe=None, max_report=5):
        """Run `requests` through the model and compare with `expected` (answers from the real code).
        Returns list of indices that disagree."""
        if self.model is None:
            return []
        got = self.model.ask(requests)
        bad = [i for i, (g, e) in enumerate(zip(got, expected)) if g != e]
        st = self.stats.setdefault(name, {'cases': 0, 'disagree': 0})
        st['cases'] += len(requests)
        st['disagree'] += len(bad)
        for i in bad[:max_report]:
            d = describe(i) if describe else requests[i]
            self.broken.append(('correspondence', name,
                                {'request': requests[i], 'model': got[i], 'real': expected[i], 'case': d}))
        if bad:
            self.say(f'correspondence {name}: {len(bad)} of {len(requests)} disagree; first: '
                     f'{requests[bad[0]][:200]} model={got[bad[0]][:200]} real={expected[bad[0]][:200]}')
        return bad

    # ---- findings
    def finding(self, signature, what, replay):
        """A concrete failing input on the real code."""
        for k in self.known:
            if k['signature'] == signature:
                if signature not in self.known_seen:
                    self.known_seen.append(signature)
                return 'known'
        for v in self.violations:
            if v['signature'] == signature:
                v['count'] = v.get('count', 1) + 1
                return 'dup'
        self.violations.append({'signature': signature, 'what': what, 'replay': replay})
        return 'new'

    # ---- verdict
    def finish(self, level, level_text, trusted_base, checker_cmd, rule, extra=None):
        os.makedirs(os.path.join(VERIF, 'evidence'), exist_ok=True)
        rdir = os.path.join(VERIF, 'replays', self.pid)
        if os.path.isdir(rdir):           # replay files describe THIS run only
            for f in os.listdir(rdir):
                if f.endswith('.json'):
                    os.remove(os.path.join(rdir, f))
        lines = []
        for k in self.known:
            if k['signature'] in self.known_seen:
                lines.append(f"KNOWN-FINDING: property={self.pid} {k['signature']}: {k['what']}")
        nviol = 0
        for v in self.violations:
            os.makedirs(rdir, exist_ok=True)
            h = hashlib.sha1(json.dumps(v['signature']).encode()).hexdigest()[:10]
            p = os.path.join(rdir, f'{h}.json')
            json.dump({'property': self.pid, 'signature': v['signature'], 'what': v['what'],
                       'replay': v['replay'], 'broken': [b[:2] for b in self.broken][:10]},
                      open(p, 'w'), indent=1, default=str)
            lines.append(f'VIOLATION property={self.pid} replay={os.path.relpath(p, VERIF)}')
            nviol += 1
        if self.broken and not self.violations:
            # a proof obligation / the correspondence no longer checks and the search found no failing input
            os.makedirs(rdir, exist_ok=True)
            p = os.path.join(rdir, 'unproved.json')
            json.dump({'property': self.pid,
                       'no_longer_checks': [{'kind': k, 'name': n, 'detail': d} for k, n, d in self.broken[:20]],
                       'note': 'no failing input found on the real code within the search budget'},
                      open(p, 'w'), indent=1, default=str)
            lines.append(f'VIOLATION property={self.pid} replay={os.path.relpath(p, VERIF)} no-failing-input-found')
            nviol += 1
        nthm = len(self.theorems)
        nreq_missing = len([b for b in self.broken if b[0] in ('theorem', 'audit', 'build', 'translator')])
        cov = {
            'obligations': max(1, nthm + nreq_missing),
            'discharged': nthm if nreq_missing == 0 else max(0, nthm - 0),
            'checker_cmd': checker_cmd,
            'trusted_base': trusted_base,
            'theorems': {k: v for k, v in sorted(self.theorems.items())},
            'rule': rule,
            'samples': self.samples[:12] or ['(no case generated: build failed)'],
            'correspondence': self.stats,
            'known_findings_reproduced': self.known_seen,
            'no_longer_checks': [[k, n] for k, n, _ in self.broken[:20]],
        }
        cov.update(self.cov)
        if extra:
            cov.update(extra)
        cov.setdefault('evaluations', sum(s['cases'] for s in self.stats.values()))
        cov.setdefault('distinct_nontrivial', 0)
        ev = {
            'property_id': self.pid, 'tier': self.tier, 'seed': self.seed, 'level': level,
            'coverage': cov, 'assumptions': self.assumptions, 'wall_s': round(time.time() - self.t0, 2),
            'violations': nviol,
        }
        json.dump(ev, open(os.path.join(VERIF, 'evidence', f'{self.pid}.json'), 'w'), indent=1, default=str)
        for l in lines:
            print(l, flush=True)
        self.say(f'done in {ev["wall_s"]}s: theorems={nthm} broken={len(self.broken)} '
                 f'violations={nviol} known={len(self.known_seen)}')
        return 1 if nviol else 0


def tail_errors(out, n=12):
    errs = [l for l in out.split('\n') if 'error' in l.lower()]
    return '\n'.join((errs or out.split('\n'))[-n:])


def failing_theorems(out):
    """(theorem name or file:line, message) for each Lean error in lake output."""
    res = []
    for m in re.finditer(r'error: ([^\s:]+\.lean):(\d+):(\d+):\s*(.*)', out):
        fn, line, col, msg = m.group(1), int(m.group(2)), int(m.group(3)), m.group(4)
        name = f'{fn}:{line}'
        try:
            src = open(os.path.join(LEAN, fn)).read().split('\n')
            for j in range(line - 1, -1, -1):
                mm = re.match(r'\s*(?:private\s+)?(?:theorem|lemma|example|def|instance)\s+([A-Za-z_][\w.\']*)?', src[j])
                if mm:
                    name = (mm.group(1) or 'example') + f' ({fn}:{line})'
                    break
        except OSError:
            pass
        res.append((name, msg[:300]))
    return res


def run_main(fn):
    """Wrap a check's main(): infra failures -> exit 2."""
    try:
        sys.exit(fn())
    except Infra as e:
        print(f'INFRA-FAILURE: {e}', flush=True)
        sys.exit(2)
    except subprocess.TimeoutExpired as e:
        print(f'INFRA-FAILURE: timeout {e}', flush=True)
        sys.exit(2)
