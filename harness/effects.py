"""Translator for C20: an effect summary of /repo's compile and run paths, extracted from the Python AST.

For every function of the anchored files it reports
  W  a write to a module-level or class-level location (assignment, subscript assignment, mutating method call, setattr)
  S  an iteration over a set (for / comprehension / list() / tuple() / join / enumerate / iter / .pop()) - hash-order dependent
  A  a call that reads the environment of the process (clock, RNG, id/hash, cwd, environment, pid, file metadata)
Each effect is either on the allow list below (with the reason it cannot influence the observable output) or not.
The extraction is syntactic (no alias analysis, no call graph): that is part of the trusted base of C20.
"""
import ast
import os

REPO = os.environ.get('QBEE_REPO', '/repo')
FILES = ['qbee/compiler.py', 'qbee/qvm_codegen.py', 'qbee/stmt.py', 'qbee/codegen.py', 'qbee/grammar.py', 'qbee/expr.py',
         'qbee/parser.py', 'qbee/program.py', 'qbee/node.py', 'qbee/evalctx.py', 'qbee/utils.py', 'qbee/exceptions.py',
         'qvm/cpu.py', 'qvm/machine.py', 'qvm/debug_info.py', 'qvm/module.py', 'qvm/cell.py', 'qvm/instrs.py', 'qvm/memlayout.py',
         'qvm/utils.py', 'qvm/using.py', 'qvm/trap.py']
MUTATORS = {'append', 'add', 'update', 'extend', 'insert', 'pop', 'remove', 'clear', 'setdefault', 'popitem', 'discard', 'sort',
            'reverse', 'appendleft'}
AMBIENT_MODULES = {'time', 'datetime', 'random', 'uuid', 'secrets', 'tempfile', 'getpass', 'platform', 'socket'}
AMBIENT_OS = {'getcwd', 'environ', 'getpid', 'urandom', 'getenv', 'times', 'uname', 'getlogin', 'stat', 'listdir', 'scandir'}
AMBIENT_OSPATH = {'abspath', 'realpath', 'expanduser', 'exists', 'getmtime', 'getctime', 'getatime', 'getsize', 'isfile', 'isdir'}
AMBIENT_BUILTINS = {'id', 'hash', 'input', 'open'}

# (kind, file, function, detail) -> reason.  '*' matches any function of the file.
ALLOW = {
    ('W', 'qbee/stmt.py', 'BlockNodeMetaclass.__new__', 'Block.known_blocks'): 'block registry filled while the class statements of stmt.py execute (import time)',
    ('W', 'qbee/codegen.py', 'CodeGenMetaclass.__new__', 'CodeGen.codegens'): 'code generator registry filled at class creation (import time)',
    ('W', 'qbee/codegen.py', 'BaseCodeGen.generator_for.decorator', 'cls.generator_funcs'): 'generator table filled by decorators while qvm_codegen.py is imported',
    ('W', 'qvm/instrs.py', 'def_instr', '*'): 'instruction tables filled by the def_instr calls at the top level of instrs.py (import time)',
    ('A', 'qbee/qvm_codegen.py', 'CanonicalOp.__hash__', 'hash'): '__hash__ of a value class: used for dict / set membership only',
    ('A', 'qbee/expr.py', 'Type.__hash__', 'hash'): '__hash__ of a value class: used for dict / set membership only',
    ('A', 'qbee/grammar.py', 'main', 'open'): 'command-line entry point of the grammar module, not on the compile path',
    ('S', 'qbee/stmt.py', 'DefTypeStmt.__init__', 'letters'): 'the DEFtype letters become the keys of def_letter_types, which is only indexed by letter',
    ('S', 'qbee/compiler.py', '*', 'letters'): 'the DEFtype letters become the keys of def_letter_types, which is only indexed by letter',
    ('A', 'qvm/machine.py', '*', '*'): 'device implementations (clock, RNG, files, terminal): inputs of the machine, scripted in every check; '
                                       'the property excludes them ("random numbers come from the peripherals object")',
    ('A', 'qvm/cpu.py', 'QvmCpu.__init__', 'signal.signal'): 'installs the SIGINT handler; no read',
    ('A', 'qvm/debug_info.py', '*', 'gzip'): 'the debug section is excluded from the byte-identity claim',
}


def allowed(kind, rel, fn, detail):
    for (k, f, g, d), why in ALLOW.items():
        if k == kind and f == rel and (g == '*' or g == fn) and (d == '*' or d == detail or detail.startswith(d)):
            return why
    return None


class Scan(ast.NodeVisitor):
    def __init__(self, rel, tree):
        self.rel = rel
        self.effects = []
        self.stack = []
        self.module_names = set()
        self.class_names = set()
        self.set_names = set()          # names / attributes assigned from set() somewhere in the file
        self.imports = {}
        for node in tree.body:
            for t in targets_of(node):
                self.module_names.add(t)
            if isinstance(node, ast.ClassDef):
                self.class_names.add(node.name)
            if isinstance(node, ast.Import):
                for a in node.names:
                    self.imports[(a.asname or a.name).split('.')[0]] = a.name
            if isinstance(node, ast.ImportFrom):
                for a in node.names:
                    self.imports[a.asname or a.name] = (node.module or '') + '.' + a.name
        for node in ast.walk(tree):
            if isinstance(node, (ast.Assign, ast.AnnAssign)):
                val = node.value
                if is_set_expr(val, set()):
                    tg = node.targets if isinstance(node, ast.Assign) else [node.target]
                    for t in tg:
                        self.set_names.add(name_of(t))

    def fn(self):
        return '.'.join(self.stack) if self.stack else '<module>'

    def add(self, kind, detail, node):
        self.effects.append({'kind': kind, 'file': self.rel, 'function': self.fn(), 'detail': detail, 'line': node.lineno,
                             'allowed': allowed(kind, self.rel, self.fn(), detail)})

    def visit_ClassDef(self, node):
        self.stack.append(node.name)
        self.generic_visit(node)
        self.stack.pop()

    def visit_FunctionDef(self, node):
        self.stack.append(node.name)
        declared_global = set()
        for n in ast.walk(node):
            if isinstance(n, ast.Global):
                declared_global.update(n.names)
        self._globals = declared_global
        self.generic_visit(node)
        self.stack.pop()

    visit_AsyncFunctionDef = visit_FunctionDef

    def in_function(self):
        return any(True for s in self.stack if s not in self.class_names) or (self.stack and self.stack[-1] not in self.class_names)

    def shared_target(self, t):
        """is the assignment target a module-level / class-level location?  -> description or None"""
        base = t
        while isinstance(base, ast.Subscript):
            base = base.value
        if isinstance(base, ast.Name):
            if base.id in getattr(self, '_globals', set()):
                return base.id
            if isinstance(t, ast.Subscript) and base.id in self.module_names and base.id not in self.local_names():
                return base.id
            return None
        if isinstance(base, ast.Attribute):
            v = base.value
            if isinstance(v, ast.Name) and (v.id in self.class_names or v.id == 'cls' or v.id in self.imports and v.id[0].isupper()):
                return f'{v.id}.{base.attr}'
            if isinstance(v, ast.Attribute) and v.attr == '__class__':
                return f'__class__.{base.attr}'
            if isinstance(v, ast.Call) and isinstance(v.func, ast.Name) and v.func.id == 'type':
                return f'type().{base.attr}'
        return None

    def local_names(self):
        return set()

    def visit_Assign(self, node):
        if self.in_function():
            for t in node.targets:
                d = self.shared_target(t)
                if d:
                    self.add('W', d, node)
        self.generic_visit(node)

    def visit_AugAssign(self, node):
        if self.in_function():
            d = self.shared_target(node.target)
            if d:
                self.add('W', d, node)
        self.generic_visit(node)

    def visit_Delete(self, node):
        if self.in_function():
            for t in node.targets:
                d = self.shared_target(t)
                if d:
                    self.add('W', d, node)
        self.generic_visit(node)

    def visit_Call(self, node):
        f = node.func
        if self.in_function():
            if isinstance(f, ast.Attribute) and f.attr in MUTATORS:
                d = self.shared_target(ast.Subscript(value=f.value, slice=ast.Constant(0), ctx=ast.Store()))
                if d:
                    self.add('W', d, node)
                if f.attr == 'pop' and name_of(f.value) in self.set_names and not node.args:
                    self.add('S', name_of(f.value), node)
            if isinstance(f, ast.Name) and f.id == 'setattr' and node.args and isinstance(node.args[0], ast.Name) \
                    and (node.args[0].id in self.class_names or node.args[0].id == 'cls'):
                self.add('W', f'setattr({node.args[0].id})', node)
        # order-sensitive consumption of a set
        if isinstance(f, ast.Name) and f.id in ('list', 'tuple', 'enumerate', 'iter', 'next', 'zip', 'map', 'filter') and node.args:
            for a in node.args:
                if is_set_expr(a, self.set_names):
                    self.add('S', name_of(a) or 'set-expression', node)
        if isinstance(f, ast.Attribute) and f.attr == 'join' and node.args and is_set_expr(node.args[0], self.set_names):
            self.add('S', name_of(node.args[0]) or 'set-expression', node)
        # ambient reads
        if isinstance(f, ast.Attribute):
            root = f
            chain = []
            while isinstance(root, ast.Attribute):
                chain.append(root.attr)
                root = root.value
            if isinstance(root, ast.Name):
                mod = self.imports.get(root.id, root.id if root.id in ('os', 'time', 'random', 'datetime', 'signal', 'gzip') else None)
                chain = list(reversed(chain))
                if mod:
                    top = mod.split('.')[0]
                    if top in AMBIENT_MODULES:
                        self.add('A', f'{top}.{".".join(chain)}', node)
                    elif top == 'os' and chain and (chain[0] in AMBIENT_OS or (chain[0] == 'path' and len(chain) > 1 and chain[1] in AMBIENT_OSPATH)):
                        self.add('A', 'os.' + '.'.join(chain), node)
                    elif top == 'signal':
                        self.add('A', 'signal.' + '.'.join(chain), node)
                    elif top == 'gzip':
                        self.add('A', 'gzip.' + '.'.join(chain), node)
        if isinstance(f, ast.Name) and f.id in AMBIENT_BUILTINS:
            self.add('A', f.id, node)
        if isinstance(f, ast.Name) and self.imports.get(f.id, '').split('.')[0] in AMBIENT_MODULES:
            self.add('A', self.imports[f.id], node)
        self.generic_visit(node)

    def visit_For(self, node):
        if is_set_expr(node.iter, self.set_names):
            self.add('S', name_of(node.iter) or 'set-expression', node)
        self.generic_visit(node)

    def visit_comprehension(self, node):
        if is_set_expr(node.iter, self.set_names):
            self.add('S', name_of(node.iter) or 'set-expression', node.iter)
        self.generic_visit(node)

    def visit_Subscript(self, node):
        # os.environ[...]
        if isinstance(node.value, ast.Attribute) and node.value.attr == 'environ':
            self.add('A', 'os.environ', node)
        self.generic_visit(node)


def targets_of(node):
    if isinstance(node, ast.Assign):
        return [name_of(t) for t in node.targets if name_of(t)]
    if isinstance(node, ast.AnnAssign):
        return [name_of(node.target)] if name_of(node.target) else []
    return []


def name_of(t):
    if isinstance(t, ast.Name):
        return t.id
    if isinstance(t, ast.Attribute):
        return t.attr
    return None


def is_set_expr(e, set_names):
    if e is None:
        return False
    if isinstance(e, (ast.Set, ast.SetComp)):
        return True
    if isinstance(e, ast.Call) and isinstance(e.func, ast.Name) and e.func.id in ('set', 'frozenset'):
        return True
    if isinstance(e, ast.Call) and isinstance(e.func, ast.Attribute) and e.func.attr in ('union', 'intersection', 'difference', 'symmetric_difference') \
            and is_set_expr(e.func.value, set_names):
        return True
    if isinstance(e, ast.BinOp) and isinstance(e.op, (ast.BitOr, ast.BitAnd, ast.Sub, ast.BitXor)) and \
            (is_set_expr(e.left, set_names) or is_set_expr(e.right, set_names)):
        return True
    n = name_of(e)
    if n and n in set_names and isinstance(e, (ast.Name, ast.Attribute)):
        return True
    return False


def extract(repo=None):
    repo = repo or REPO
    out = []
    scans = []
    names = set()
    for rel in FILES:
        p = os.path.join(repo, rel)
        if not os.path.exists(p):
            continue
        tree = ast.parse(open(p).read())
        sc = Scan(rel, tree)
        scans.append((sc, tree))
        names |= sc.set_names
    for sc, tree in scans:
        sc.set_names = set(names)       # a set built in one file may be consumed in another (same attribute / parameter name)
        sc.visit(tree)
        out += sc.effects
    return out


if __name__ == '__main__':
    for e in extract():
        print(('ok   ' if e['allowed'] else 'FLAG ') + f"{e['kind']} {e['file']}:{e['line']} {e['function']} {e['detail']}")
