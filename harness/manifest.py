"""Writes /verif/MANIFEST.json from the table below (keeps it valid at all times)."""
import json
import os

V = os.path.dirname(os.path.dirname(os.path.abspath(__file__)))

BASE_NOTE = ('Trusted: Lean 4.33.0 kernel; axioms propext / Classical.choice / Quot.sound only (audited by '
             '#print axioms on every run; no sorry, native_decide, bv_decide or own axioms); the translator '
             'harness/gen_tables.py; the correspondence harness; CPython as substrate. ')

CHECKS = {
    'C17': dict(
        category='proof',
        text='Theorems over Model/Print.lean for ALL item sequences (argument protocol round trip, each item kind, '
             'zone padding 1..14 to the next multiple of 14, line end rule, PRINT alone). The model is tied to '
             'TerminalDevice._exec_print and gen_print_stmt by a differential run on generated item sequences, '
             'directly on the device and through compiled programs at all six configurations.',
        design_ref='DESIGN.md section 9 C17',
        note=BASE_NOTE + 'Number text of SINGLE/DOUBLE items is taken from the real format_number (C16).',
        technique='Lean 4 theorems over an executable model + model/implementation correspondence'),
    'C16': dict(
        category='proof',
        text='INTEGER/LONG: proved for every Int (format_number text = sign/blank + plain decimal; Python int(), '
             'VAL scanner give the value back; a number and its negation show the same digits). SINGLE/DOUBLE: '
             'theorems about the string surgery of format_number on every repr-shaped text, relative to the CPython '
             'repr/round contract; the digit-count and half-unit claims are checked on the landmark and random values.',
        design_ref='DESIGN.md section 9 C16',
        note=BASE_NOTE + 'CPython repr(float), float(str), round(x, n) are external contracts, not modelled.',
        technique='Lean 4 theorems over an executable model + model/implementation correspondence'),
    'C15': dict(
        category='proof',
        text='Theorems over Model/Data.lean for ALL texts, layouts and READ/RESTORE sequences: tokeniser laws (comma '
             'splitting, trimming, quoted verbatim via a render/parse round trip), source order of the data section for '
             'any placement of DATA and distinct labels, the READ cursor delivers flatten(parts) and fails past the end, '
             'RESTORE <label> targets the first DATA at or after the label; RESTORE without label: full statement, '
             'machine-checked counterexample (part index -1) and the partial theorem. Model tied to parse_data '
             '(exhaustive to length 6/8), the grammar rule, the grouping, get_data_label_index and DataDevice.',
        design_ref='DESIGN.md section 9 C15',
        note=BASE_NOTE + 'pyparsing tokenisation of the DATA statement and Python float() are not modelled.',
        technique='Lean 4 theorems over an executable model + model/implementation correspondence'),
    'C18': dict(
        category='proof',
        text='Theorems over Model/Input.lean for ALL requests and response histories: prompt/question rule, a refused line '
             'leaves nothing on the stack, acceptance gives one well-formed in-range field per variable pushed so that '
             'field i reaches variable i, any number of refused lines followed by an accepted one ends with exactly that '
             'line\'s cells, argument protocol round trip; the unrepaired behaviour is kept as a machine-checked '
             'counterexample. Model tied to TerminalDevice._exec_input by scripted histories, and compiled INPUT statements '
             '(scalar/element/field targets, in SUBs) are compared with the property\'s rules.',
        design_ref='DESIGN.md section 9 C18',
        note=BASE_NOTE + 'Python int()/float() outside the ASCII fragment are gray (corresponded where decided, not judged).',
        technique='Lean 4 theorems over an executable model + model/implementation correspondence'),
    'C19': dict(
        category='proof',
        text='Theorems over Model/Using.lean for ALL fields, bodies and value lists: a value that fits is rendered in exactly '
             'the field width, right-aligned with its sign before the digits; a non-negative value may use the sign position; '
             'a value that cannot fit is shown unpadded behind a leading %; & and ! fields; literal and escaped characters are '
             'copied; values are consumed left to right, one per field. Python format() is an external contract (the text '
             'body). Scanner tied to PrintUsingFormatter exhaustively over the property alphabet to length 4/5, renderer on '
             'boundary values, compiled statements at six configurations; the property\'s rounding/width rule is checked on '
             'the real code for plain fields.',
        design_ref='DESIGN.md section 9 C19',
        note=BASE_NOTE + "Python format(abs(v), ',.Nf') and '{}'.format are external contracts, not modelled.",
        technique='Lean 4 theorems over an executable model + model/implementation correspondence'),
    'C09': dict(
        category='proof',
        text='Theorems: the machine decoder inverts the assembler encoder for every well-formed instruction and every '
             'instruction sequence (over the instruction table REGENERATED from qvm/instrs.py on each run); opcodes and '
             'mnemonics are distinct; the disassembler consumes exactly the table\'s operand sizes for every opcode '
             '(table obtained by executing QModule.disassemble); literals and DATA sections round-trip for all contents '
             'within the stated size limits; cp437 is injective. The real bytes of generated modules are parsed by the '
             'Lean model and compared with QModule.parse, get_instruction_at, disassemble() and str(code); jump/call/'
             'errhand targets, variable operands and frame declarations are checked on every real module.',
        design_ref='DESIGN.md section 9 C09',
        note=BASE_NOTE + 'struct and the cp437 codec are CPython; the debug section is an opaque blob.',
        technique='Lean 4 round-trip theorems over generated tables + parsing the real module bytes with the model'),
    'C04': dict(
        category='proof',
        text='Theorems over Model/Layout.lean, unbounded in rank, bounds, nesting and number of declarations: two variables of '
             'a frame occupy disjoint ranges inside the frame; every field (any nesting depth) lies inside its record and '
             'diverging field paths are disjoint; the row-major element offset is injective on in-bounds subscripts and '
             'inside the array; store/read frame laws; unset reads default; reading is pure (the unrepaired readidx is a '
             'machine-checked counterexample); by-reference parameters alias exactly, by-value parameters get fresh distinct '
             'temporaries; fresh locals. Model tied to memlayout / get_dotted_index / _exec_arridx on random shapes; the '
             'real VM is checked with sentinel programs (write all, read back in another order) and aliasing/recursion/STATIC '
             'programs.',
        design_ref='DESIGN.md section 9 C04',
        note=BASE_NOTE + 'The VM memory model is the abstract Mem/bindParams of Model/Layout.lean (tied to the code by the sentinel runs).',
        technique='Lean 4 theorems over an executable layout model + model/implementation correspondence'),
    'C03': dict(
        category='proof',
        text='Proof obligations over tables REGENERATED from the source on every run (static result type of every operator on '
             'every operand-type pair, the pass\'s acceptance, the conversions and instructions gen_binary_op/gen_unary_op emit, '
             'the dynamic type rule of every arithmetic/logic/comparison/conversion instruction): every accepted pair is '
             'compiled to code whose operands reach the instruction with one type and whose result cell has the static type '
             '(kernel-evaluated over the whole table), lifted by induction to ALL expressions: the generated code, run on any '
             'stack, leaves exactly one more entry of the expression\'s static type. The scheme is tied to the real code '
             'generator on generated expressions; whole programs are covered by a run-time monitor (fault traps, declared '
             'type of every stored cell, stack depth at statement starts), not by a theorem.',
        design_ref='DESIGN.md section 9 C03',
        note=BASE_NOTE + 'The verifier-with-soundness-proof of the design is not built: statements, calls and control flow are '
             'covered by the monitor only. _exec_* type behaviour is extracted by execution on one representative per type.',
        technique='Lean 4 kernel-evaluated obligations over regenerated tables + induction; run-time monitor as search oracle'),
    'C01': dict(
        category='proof',
        text='Proved subset: EXPRESSIONS. compileC_correct: for every operator tree over all operators and operand types the '
             'static check accepts, all leaf values, any depth, any stack beneath and all float operation records, running '
             'the generated code gives exactly the reference value (typed) or the same error. The reference semantics uses '
             'the language\'s operand-type rule written independently of the generator; that the generator emits exactly the '
             'prescribed conversions/instructions is a kernel-evaluated obligation over tables REGENERATED from the source. '
             'The machine arithmetic model is tied to the real instructions on boundary values, and the reference value of '
             'generated trees is compared with the value real compiled programs compute (2/6 configurations). Statements, '
             'control flow, procedures, arrays, records: NOT proved; validated by six-configuration differential runs only '
             '(and by C03/C04/C15/C17/C18 for their parts). Deviations of the integer arithmetic from QBASIC are stated as '
             'machine-checked witnesses.',
        design_ref='DESIGN.md section 9 C01',
        note=BASE_NOTE + 'Partial: see text. float ** float is external. Lean Float is the executable float instance.',
        technique='Lean 4 compile-correctness theorem for expressions over regenerated tables + differential validation'),
    'C02': dict(
        category='proof',
        text='Theorems: compile-time evaluation of INTEGER/LONG constant expressions (every arithmetic, logic and comparison '
             'operator, unary minus and NOT) yields exactly the cell the machine computes, and gives up exactly when the '
             'machine traps (overflow, division by zero) -- for all operand values; the value-level peephole rules push+conv, '
             'push+unary and push+push+binary-op on integral operands preserve the stack for every continuation. The folder '
             'model and the rules are tied to BinaryOp/UnaryOp.fold and QvmCode.optimize on boundary values and windows. Float '
             'folding, the jump/halt rules and whole-program lifting are NOT proved: constant expressions over all types and '
             'whole programs are compiled at levels 0-3 and compared (acceptance, value, type, trace, outcome).',
        design_ref='DESIGN.md section 9 C02',
        note=BASE_NOTE + 'Partial: see text.',
        technique='Lean 4 theorems over an executable folder model + model/implementation correspondence + level-differential runs'),
    'C08': dict(
        category='proof',
        text='Theorem: for EVERY symbolic instruction stream the assembler produces byte-identical code whether or not the '
             'debug markers are present (same label addresses, same patched operands), and every marker is recorded on an '
             'instruction boundary. The model assembles the REAL marker-carrying stream of every generated module and must '
             'reproduce the real -g code bytes, and with markers erased the bytes of the module compiled without -g (levels 0/1); '
             'that the generator only ADDS markers is checked on the real streams. Whole behaviour (-g vs no -g at every level: '
             'acceptance, sections 1-3, trace, outcome) is compared per program, not proved (the peephole pass sees markers).',
        design_ref='DESIGN.md section 9 C08',
        note=BASE_NOTE + 'Partial: whole-program behaviour at -O2 is validated by differential runs.',
        technique='Lean 4 erasure theorem over an assembler model fed with the real instruction streams + differential runs'),
    'C11': dict(
        category='proof',
        text='Theorems: the collector accepts every well-bracketed marker stream with non-decreasing offsets and produces '
             'records that are pairwise nested or disjoint and lie inside the stream\'s span (induction over bracket '
             'structure, any nesting depth); the lookup returns a record that contains the address and lies inside every '
             'other record containing it (innermost), and never answers none for a covered address; markers (hence record '
             'boundaries) sit on instruction boundaries. The collector model runs on the REAL marker events of every module; '
             'the lookup model is compared with DebugInfo.find_stmt at every instruction start; boundaries, laminarity, routine '
             'records, recorded lines and the attribution of every body instruction to the statement whose markers enclose it '
             'are evaluated on the real modules (levels 0-2).',
        design_ref='DESIGN.md section 9 C11',
        note=BASE_NOTE + 'That the code generator emits a well-bracketed stream is checked per module, not proved for the generator; '
             'the synthesised block start/end records of finalize are corresponded, not modelled.',
        technique='Lean 4 theorems over a marker/record model + correspondence on real modules'),
    'C07': dict(
        category='proof',
        text='Theorems over Model/Tick.lean (QvmCpu.tick, _trap, errhand/errres/errresn, interrupt check, halting) for ANY '
             'instruction semantics: a pending interrupt stops the run with KEYBOARD_INTERRUPT before any further instruction and is '
             'consumed; nothing escapes tick() except an instruction\'s own host exception (Trapped and ZeroDivisionError always end '
             'in a dispatched or reported trap); with no handler armed every trap halts in the TRAP state. Over Model/Arith.lean: '
             'division and MOD by zero, integral overflow and float division by zero yield the prescribed trap class; integral '
             'arithmetic never raises a host exception. The tick model is replayed against every tick of the real machine in '
             'lock-step; instructions outside the models are searched for host exceptions.',
        design_ref='DESIGN.md section 9 C07',
        note=BASE_NOTE + 'String, array, device and float-power instructions are parameters of the tick model (searched, not proved); '
             'SIGINT delivery by the OS is not modelled.',
        technique='Lean 4 theorems over a tick/trap model + lock-step correspondence with the real machine'),
    'C10': dict(
        category='proof',
        text='Theorems over Model/Tick.lean for any program and any failing instruction: armed ON ERROR GOTO dispatches every trap to '
             'the handler recording kind and address; RESUME re-enters the failed statement, RESUME NEXT its end, both leave the '
             'handler; ON ERROR RESUME NEXT skips; ON ERROR GOTO 0 restores fatal reporting. Lock-step correspondence on every '
             'tick of generated handler programs; the "as if not started" clause is decided by comparing each handler program with '
             'its straight-line reference program (trace, outcome, final stack depth); its stack part - none of the failed '
             'statement\'s partial results remain - is proved over Model/StmtDepth.lean (GOSUB return addresses marked; a handled '
             'error cuts the stack back to the innermost one: the depth C03 prescribes at a statement boundary; a failed statement '
             'leaves the state exactly as it found it; the module-level handler starts at the boundary its statement started at) '
             'and tied to every tick of those runs by the sdepth stream (the former known finding, repaired in /repo).',
        design_ref='DESIGN.md section 9 C10',
        note=BASE_NOTE + 'Statement ranges come from find_stmt (C11) as a parameter of the tick model.',
        technique='Lean 4 theorems over a tick/trap model + lock-step correspondence + reference-program oracle'),
    'C12': dict(
        category='proof',
        text='Theorems over Model/Dbg.lean for ANY machine (tick, pc, halted, frame, call size, statement lookup are parameters), any '
             'program and any command history: every command only advances the machine along its own free run, never on a halted '
             'machine (session_transparent); step and next return in a different statement or finished; step passes over no state '
             'in which control was in another statement; next / nexti over a call return to the calling frame at the return address '
             '(NextPath: whole-call moves only); continue stops at the first breakpoint hit after at least one instruction and '
             'nowhere else; the breakpoint list stays duplicate-free so a deleted breakpoint never stops a run; `break <line>` '
             'resolves to the first statement in source order at or after the line that has instructions. Real debugger sessions '
             'are replayed through the model instantiated with the recorded free run; an independent statement of the property\'s '
             'claims is evaluated on every session to produce failing inputs.',
        design_ref='DESIGN.md section 9 C12',
        note=BASE_NOTE + 'Model = the debugger AS REPAIRED (five fix commits); the text the debugger prints is not compared; '
             'termination of a command is that of the program (fuel in the model).',
        technique='Lean 4 theorems over a parametric debugger/machine model + session correspondence with the real debugger'),
    'C13': dict(
        category='proof',
        text='Theorem (induction over expression trees of any depth, any leaf values): on INTEGER / LONG trees - + - * \\ MOD, AND OR '
             'XOR EQV IMP NOT, the six comparisons, unary minus/plus - whenever the debugger\'s evaluator prints a value the '
             'compiled expression computes exactly that typed value (refEval, tied to the generated code by C01\'s compileC_correct), '
             'and whenever it reports overflow / division by zero the program traps. The evaluator model is corresponded with the '
             'real `print` on generated integral expressions over live variables; reading of variables (main, SUB, FUNCTION frames; '
             'parameters, locals, STATIC, SHARED, arrays, records, constants), float and string expressions, error reporting, '
             'state preservation and robustness after the program has finished are decided by the probe oracle.',
        design_ref='DESIGN.md section 9 C13',
        note=BASE_NOTE + 'Storage lookup is not re-proved here (memlayout is shared with code generation: C04). Float / string '
             'evaluation is outside the theorem. Model = the debugger AS REPAIRED (five fix commits).',
        technique='Lean 4 theorem over an evaluator model + correspondence with the real debugger + probe oracle on stepped programs'),
    'C20': dict(
        category='proof',
        text='`current_tree_deterministic`: kernel-decided on every run over the effect summary regenerated from the Python AST of '
             'the anchored files (writes to module-/class-level state inside functions, order-sensitive uses of sets, reads of the '
             'process environment): every such effect is on the allow list. `summary_sound`: in an abstract semantics of process '
             'computations (interaction trees over a shared store, an ambient oracle and a set-order oracle) a computation whose '
             'non-read actions would all have been reported gives the same output in a fresh process and after any history, under '
             'any hash seed / clock / set order. Multi-process differential runs (PYTHONHASHSEED, cwd, compilation order, '
             'histories with failing compilations; sections 1-4, listing, trace, outcome, tick count) search for a failing input.',
        design_ref='DESIGN.md section 9 C20',
        note=BASE_NOTE + 'PARTIAL: the extraction is syntactic (no alias analysis / call graph; pyparsing not scanned) and the allow '
             'list is trusted; OS-level nondeterminism and third-party hash-order effects cannot be exhibited by the model.',
        technique='Lean 4 theorem over a regenerated effect summary (translator) + abstract non-interference theorem + multi-process differential search'),
    'C06': dict(
        category='proof',
        text='PARTIAL. Proved: every expression tree the static check accepts has code, and expression compilation fails only where '
             'the static check does (over tables regenerated from the real passes and generator); the assembler is total on every '
             'stream whose label operands are defined and fails only on an undefined label (any stream). Not modelled: the pyparsing '
             'grammar, the statement passes and statement generators - there totality is searched: 238 statement templates with '
             'well-typed / wrongly-typed / missing / malformed operands in three positions, and token-level mutations of generated '
             'and repository programs, at 3 levels x 2 debug settings, through compile, bytes() and str(); any exception other than '
             'SyntaxError / CompileError, or a diagnostic without a position inside the text, is a finding.',
        design_ref='DESIGN.md section 9 C06',
        note=BASE_NOTE + 'The proved share covers expressions and the assembler only; the rest of the claim is exploration and says so. '
             'RecursionError is retried with a larger interpreter limit (the property bounds nesting).',
        technique='Lean 4 theorems over the expression-compiler and assembler models + correspondence + fuzzing search of the unmodelled stages'),
    'C05': dict(
        category='proof',
        text='PARTIAL. Proved over Model/Blocks.lean (parser.parse_string, Block.create, the create_block rules; any program): an '
             'accepting run has as many openers as terminators of every kind, so an unclosed block or a surplus terminator is never '
             'accepted wherever it stands; every reported position is the position of a statement of the program; properly nested '
             'statements are consumed wherever they stand (a valid construct is not rejected because of its surroundings). Proved '
             'over the regenerated operator tables: an accepted operator application has accepted operands, an ill-typed operand '
             'rejects the whole expression. The block model is corresponded with the real parser on random statement sequences '
             '(verdict, error class, line). Names, labels, argument lists, array rank, CONST, literals and their positions: '
             '55-entry fault catalogue injected one at a time into valid programs at main / nested / SUB / single-line-IF sites, '
             'all levels and debug settings; neutral insertions must stay accepted.',
        design_ref='DESIGN.md section 9 C05',
        note=BASE_NOTE + 'The expected category and line per catalogue entry are the property wording applied by hand.',
        technique='Lean 4 theorems over a block-assembly model and the operator tables + correspondence with the real parser + fault-injection oracle'),
    'C14': dict(
        category='proof',
        text='PARTIAL. `lex_render` (Model/Lex.lean, a one-character-at-a-time lexer with four modes): however a token stream is '
             'written - letter case of every keyword and identifier, any number of blanks or tabs before every token, trailing '
             'comments, empty and comment-only lines - the lexical layer reads back exactly that stream (string literals, DATA and '
             'REM tails verbatim; two-character comparison operators are one token; numerals with a signed exponent are out of '
             'scope); `same_tokens`: two such writings have the same tokens. Tie: for random single edits the model decides '
             'whether the tokens changed; whenever they did not, the real compiler must produce identical sections 1-4. Above the '
             'lexical layer (colon / newline, LET, CALL forms, NEXT variable, ><, label renaming): metamorphic oracle on random '
             'compositions of nine rewritings - identical sections, else identical behaviour.',
        design_ref='DESIGN.md section 9 C14',
        note=BASE_NOTE + 'That the pyparsing grammar depends on nothing but the model\'s tokens is sampled, not proved.',
        technique='Lean 4 round-trip theorem over a lexer model + token-equality correspondence with the real compiler + metamorphic oracle'),
}

PENDING = ('not yet decided by the Lean framework in this commit; design in DESIGN.md section 9, implementation order in '
           'section 12')


def main():
    ids = [json.loads(l)['id'] for l in open(os.path.join(V, 'properties.jsonl'))]
    impl = {i for i in CHECKS if os.path.exists(os.path.join(V, 'harness', 'checks', i.lower() + '.py'))}
    checks = []
    for pid in ids:
        if pid not in impl:
            continue
        c = CHECKS[pid]
        checks.append({
            'property_id': pid,
            'quick_cmd': f'./vcheck {pid} quick',
            'thorough_cmd': f'./vcheck {pid} thorough',
            'evidence_file': f'evidence/{pid}.json',
            'replay_cmd_template': f'./vcheck {pid} --replay {{path}}',
            'engine': 'lean4-model',
            'level_claimed': {'category': c['category'], 'text': c['text'], 'design_ref': c['design_ref']},
            'level_note': c['note'],
            'technique': c['technique'],
        })
    m = {
        'version': 1,
        'setup_cmd': './vcheck --setup',
        'hooks': {
            'guard': 'ELEKTITO_QBEE_VERIF',
            'enable': 'no source hooks: every observation point is reachable from outside; checks set '
                      'ELEKTITO_QBEE_VERIF=1 and import /repo in-process',
            'baseline_off_cmd': 'cd /repo && env -u ELEKTITO_QBEE_VERIF /venv/bin/python -m pytest -ra -q -p no:cacheprovider '
                                '--timeout=900 --continue-on-collection-errors',
            'source_commits': [],
            'add_only': True,
        },
        'engines': [{
            'name': 'lean4-model',
            'path': 'lean/ + harness/',
            'serves_properties': sorted(impl),
            'kind_free_text': 'Lean 4 executable models with machine-checked theorems; tables regenerated from /repo; '
                              'line-protocol correspondence against the real Python code',
        }],
        'checks': checks,
        'notes': 'See DESIGN.md. Exit 2 = infrastructure failure (never a violation).',
        'not_applicable': [{'property_id': p, 'reason': PENDING} for p in ids if p not in impl],
    }
    json.dump(m, open(os.path.join(V, 'MANIFEST.json'), 'w'), indent=1)
    print('wrote MANIFEST.json:', len(checks), 'checks')


if __name__ == '__main__':
    main()
