"""Access to the real implementation in /repo (imported in-process)."""
import contextlib
import io
import struct
import sys

from . import core  # noqa: F401  (puts /repo on sys.path)

from qbee import qvm_codegen  # noqa: F401,E402  registers the code generator
from qbee.compiler import Compiler  # noqa: E402
from qbee.exceptions import SyntaxError as QSyntaxError, CompileError  # noqa: E402
from qvm.module import QModule  # noqa: E402
from qvm.machine import QvmMachine  # noqa: E402
from qvm.cpu import HaltReason, QvmCpu  # noqa: E402
from qvm.cell import CellType, CellValue  # noqa: E402
from qvm.trap import TrapCode, Trapped  # noqa: E402
from qvm.exceptions import DeviceError  # noqa: E402

CONFIGS = [(o, g) for o in (0, 1, 2) for g in (False, True)]


def fbits(x):
    return struct.pack('>d', float(x)).hex()


def canon(v):
    if isinstance(v, float):
        return 'f' + fbits(v)
    if isinstance(v, bool):
        return int(v)
    if isinstance(v, (list, tuple)):
        return [canon(x) for x in v]
    return v


class OutOfScript(Exception):
    pass


class RecImpl:
    """Scripted peripherals: records every call; keyboard, clock and RNG come from a script."""

    def __init__(self, inputs=(), inkeys=(), rnd=(), times=()):
        self.calls = []
        self.inputs = list(inputs)
        self.inkeys = list(inkeys)
        self.rnd = list(rnd)
        self.times = list(times)
        self.n_in = self.n_key = self.n_rnd = self.n_time = 0

    def __getattr__(self, name):
        if name.startswith(('terminal_', 'pcspkr_', 'memory_', 'rng_', 'time_', 'fs_', 'data_', 'misc_')):
            def rec(*args, **kw):
                self.calls.append((name,) + tuple(canon(a) for a in args))
                return None
            return rec
        raise AttributeError(name, obj=self) if sys.version_info >= (3, 10) else AttributeError(name)

    def terminal_input(self, same_line):
        self.calls.append(('terminal_input', canon(same_line)))
        if self.n_in >= len(self.inputs):
            raise OutOfScript()
        s = self.inputs[self.n_in]
        self.n_in += 1
        return s

    def terminal_inkey(self):
        self.calls.append(('terminal_inkey',))
        if self.n_key >= len(self.inkeys):
            return ''
        s = self.inkeys[self.n_key]
        self.n_key += 1
        return s

    def rng_get_next(self):
        self.calls.append(('rng_get_next',))
        v = self.rnd[self.n_rnd % len(self.rnd)] if self.rnd else 0.5
        self.n_rnd += 1
        return v

    def rng_get_with_seed(self, seed):
        self.calls.append(('rng_get_with_seed', canon(seed)))
        return 0.25

    def time_get_time(self):
        self.calls.append(('time_get_time',))
        v = self.times[self.n_time % len(self.times)] if self.times else 1000.0
        self.n_time += 1
        return v

    def memory_peek(self, offset):
        self.calls.append(('memory_peek', canon(offset)))
        return 0


def compile_src(src, opt=0, dbg=False):
    return Compiler('qvm', optimization_level=opt, debug_info=dbg).compile(src)


def try_compile(src, opt=0, dbg=False, want_bytes=True, want_listing=False, _retry=True):
    """-> ('ok', code, bytes) | ('syntax'|'compile', exc) | ('internal', exc)
    A RecursionError is the interpreter's limit on the depth of pyparsing's recursion, not an answer of the compiler (the
    properties bound nesting): the compilation is repeated once with room to spare."""
    try:
        code = compile_src(src, opt, dbg)
        b = bytes(code) if want_bytes else None
        if want_listing:
            str(code)
        return ('ok', code, b)
    except QSyntaxError as e:
        return ('syntax', e, None)
    except CompileError as e:
        return ('compile', e, None)
    except RecursionError as e:
        if _retry:
            import sys
            lim = sys.getrecursionlimit()
            sys.setrecursionlimit(max(lim, 40000))
            try:
                return try_compile(src, opt, dbg, want_bytes, want_listing, _retry=False)
            finally:
                sys.setrecursionlimit(lim)
        return ('internal', e, None)
    except Exception as e:  # noqa: BLE001  (this is exactly what C06 looks for)
        return ('internal', e, None)


class Run:
    pass


def run_bytes(bcode, inputs=(), max_ticks=20000, impl=None, interrupt_at=None, module=None, **script):
    """Run a module on the real VM with a recording impl. Never raises; host exceptions are reported."""
    r = Run()
    r.impl = impl or RecImpl(inputs=inputs, **script)
    r.host = None
    r.ticks = 0
    buf = io.StringIO()
    with contextlib.redirect_stdout(buf):
        try:
            module = module or QModule.parse(bcode)
            m = QvmMachine(module, impl=r.impl)
            cpu = m.cpu
            r.cpu = cpu
            while not cpu.halted and r.ticks < max_ticks:
                if cpu.pc >= len(module.code):
                    cpu.halt_reason = HaltReason.END_OF_CODE
                    break
                if interrupt_at is not None and r.ticks == interrupt_at:
                    cpu.received_keyboard_interrupt = True
                cpu.tick()
                r.ticks += 1
        except OutOfScript:
            r.host = ('OutOfScript', '')
        except RecursionError as e:
            r.host = ('RecursionError', '')
        except Exception as e:  # noqa: BLE001
            import traceback
            tb = traceback.extract_tb(e.__traceback__)
            r.host = (type(e).__name__, f'{tb[-1].name}:{tb[-1].lineno}' if tb else '')
    r.stdout = buf.getvalue()
    cpu = getattr(r, 'cpu', None)
    if cpu is None:
        r.outcome = ('host',) + tuple(r.host or ('?', ''))
    elif r.host:
        r.outcome = ('host', r.host[0], r.host[1])
    elif cpu.halted and cpu.halt_reason == HaltReason.TRAP:
        r.outcome = ('trap', cpu.last_trap.name)
    elif cpu.halted or cpu.halt_reason == HaltReason.END_OF_CODE:
        r.outcome = ('end', cpu.halt_reason.name)
    else:
        r.outcome = ('timeout',)
    r.trace = r.impl.calls
    r.stack_depth = len(cpu.stack) if cpu is not None else None
    return r


def text_of(trace):
    """concatenated terminal_print text"""
    return ''.join(c[1] for c in trace if c[0] == 'terminal_print')


# ---------------------------------------------------------------- parallel helpers

def _tramp(fn):
    return fn()


# CPython >= 3.11 keeps interpreter frames in 16 KiB "data stack" chunks that are mmap'ed and munmap'ed every time the
# recursion depth crosses a chunk boundary; pyparsing's deep recursion makes that ~4000 system calls per compilation,
# which are extremely slow (and do not scale over processes) in this sandbox.  Running the work below a frame whose
# code object declares a huge evaluation stack makes the interpreter allocate ONE big chunk that all nested frames share.
_tramp.__code__ = _tramp.__code__.replace(co_stacksize=1_100_000)


def big_frame(fn):
    return _tramp(fn)


def run_task(task):
    return _tramp(lambda: _run_task(task))


def _run_task(task):
    """worker: compile `src` at the given configurations and run each module with the scripted inputs.
    -> list of dicts (picklable): cfg, status, err, outcome, trace, ticks, depth, sections (1-4 bytes hex), listing"""
    src, inputs, configs, max_ticks, want = task
    out = []
    for (o, g) in configs:
        rec = {'cfg': (o, g)}
        st = try_compile(src, o, g, want_bytes=True, want_listing=('listing' in want))
        rec['status'] = st[0]
        if st[0] != 'ok':
            e = st[1]
            rec['err'] = (type(e).__name__, str(getattr(e, 'code', '')) , getattr(e, 'loc_start', None), str(e)[:200])
            if st[0] == 'internal':
                import traceback
                tb = traceback.extract_tb(e.__traceback__)
                rec['where'] = f'{tb[-1].name}:{tb[-1].lineno}' if tb else ''
            out.append(rec)
            continue
        b = st[2]
        if 'sections' in want:
            rec['sections'] = split_sections(b)
        if 'listing' in want:
            rec['listing'] = str(st[1])
        if 'instrs' in want:
            rec['instrs'] = [repr(i) for i in st[1]._instrs]
        if 'norun' not in want:
            r = run_bytes(b, inputs=inputs, max_ticks=max_ticks)
            rec['outcome'] = r.outcome
            rec['trace'] = r.trace
            rec['ticks'] = r.ticks
            rec['depth'] = r.stack_depth
            rec['stdout'] = r.stdout[-300:]
        out.append(rec)
    return out


def split_sections(b):
    """{section id: bytes} of a module image (debug section 5 included as is)"""
    secs = {}
    i = 0
    while i < len(b):
        sid = b[i]
        ln = struct.unpack('>I', b[i + 1:i + 5])[0]
        secs[sid] = b[i + 5:i + 5 + ln]
        i += 5 + ln
    return secs


def pmap(fn, tasks, procs=None):
    """ordered parallel map over forked workers (the real code is imported in the parent)"""
    import multiprocessing as mp
    import os
    if procs is None:
        procs = min(8, os.cpu_count() or 1)
    if procs <= 1 or len(tasks) < 4:
        return [fn(t) for t in tasks]
    ctx = mp.get_context('fork')
    with ctx.Pool(procs) as pool:
        return pool.map(fn, tasks, chunksize=max(1, len(tasks) // (procs * 4)))
