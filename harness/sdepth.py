"""Recording of a real run as the events of Model/StmtDepth.lean (the operand stack across handled errors).

request:  sdepth <initial depth> <event>...
          events: i:<pops>:<pushes> (an ordinary instruction)   s (a call that is a GOSUB: pushes and marks its return address)
                  e:<pops> (FRAME)   l:<pops>:<pushes> (ret / retv)   n (trap handled in place)   g (trap sent to the
                  module-level handler)
answer:   the depths after every n / g event, the number of frames and the depth at the end:  <d>,<d>,... <frames> <depth>

What an instruction pops and pushes is observed by identity: the entries of the stack before the tick that are still in
place afterwards are kept, the rest of the old stack was popped, the rest of the new one pushed.
"""
import contextlib
import io

from . import real
from qvm.instrs import op_code_to_instr


def _delta(before, after):
    k = 0
    n = min(len(before), len(after))
    while k < n and before[k] is after[k]:
        k += 1
    return len(before) - k, len(after) - k


def record(bcode, inputs=(), max_ticks=6000):
    """-> (request, expected answer, number of handled traps, events) or None when the run cannot be recorded"""
    mod = real.QModule.parse(bcode)
    impl = real.RecImpl(inputs=inputs)
    evs = []
    depths = []
    buf = io.StringIO()
    with contextlib.redirect_stdout(buf):
        m = real.QvmMachine(mod, impl=impl)
        cpu = m.cpu
        seen = []
        orig = cpu._trap

        def spy(code, **kw):
            # what the stack looks like when the error is raised, and how the error will be dealt with
            mode = None
            if not cpu.error_handler_active and cpu.trap_target is not None:
                mode = 'n' if cpu.trap_target == 'next' else 'g'
            seen.append((list(cpu.stack), mode))
            return orig(code, **kw)
        cpu._trap = spy
        d0 = len(cpu.stack)
        n = 0
        try:
            while not cpu.halted and n < max_ticks and cpu.pc < len(mod.code):
                pc = cpu.pc
                ins = op_code_to_instr.get(mod.code[pc])
                opn = ins.op if ins else None
                before = list(cpu.stack)
                had_frame = cpu.cur_frame is not None
                del seen[:]
                cpu.tick()
                n += 1
                if seen:
                    at_trap, mode = seen[0]
                    if opn in ('frame', 'ret', 'retv', 'call'):
                        return None           # (an error raised by the frame bookkeeping itself: outside the model)
                    p, q = _delta(before, at_trap)
                    evs.append(f'i:{p}:{q}')
                    if cpu.halted or mode is None:
                        break                 # fatal: nothing is resumed
                    if len(seen) > 1:
                        break                 # RESUME NEXT could not find the statement: reported as fatal
                    evs.append(mode)
                    depths.append(len(cpu.stack))
                    continue
                p, q = _delta(before, cpu.stack)
                if opn == 'frame':
                    evs.append(f'e:{p}')
                elif opn in ('ret', 'retv'):
                    evs.append(f'l:{p}:{q}')
                elif opn == 'call' and had_frame and cpu.pc < len(mod.code) and \
                        op_code_to_instr.get(mod.code[cpu.pc]) is not None and op_code_to_instr[mod.code[cpu.pc]].op != 'frame':
                    evs.append('s')
                else:
                    evs.append(f'i:{p}:{q}')
        except real.OutOfScript:
            pass
        except Exception:  # noqa: BLE001
            return None
        nframes = 0
        f = cpu.cur_frame
        while f is not None:
            nframes += 1
            f = f.prev_frame
        final = len(cpu.stack)
    req = f'sdepth {d0} ' + ' '.join(evs)
    exp = ','.join(str(d) for d in depths) + f' {nframes} {final}'
    return req, exp, len(depths), evs
