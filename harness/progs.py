"""Typed, mostly-valid QBASIC program generator (one PRNG, reproducible).

Programs terminate (loops are counter-bounded), print a lot (so behaviour is observable), and combine features:
scalars of the five types, static/dynamic arrays (rank 1-2, arbitrary lower bounds), records and arrays of records,
SUB/FUNCTION with by-reference and by-value arguments and recursion, IF/ELSEIF/ELSE, single-line IF, WHILE, DO variants,
FOR with STEP, SELECT CASE, GOTO/GOSUB/RETURN, CONST, DIM SHARED, STATIC, DATA/READ/RESTORE, INPUT, ON ERROR.
"""
TYPES = ['INTEGER', 'LONG', 'SINGLE', 'DOUBLE', 'STRING']
TC = {'INTEGER': '%', 'LONG': '&', 'SINGLE': '!', 'DOUBLE': '#', 'STRING': '$'}
NUM = ['INTEGER', 'LONG', 'SINGLE', 'DOUBLE']

ALL_FEATURES = {'arrays', 'records', 'subs', 'funcs', 'goto', 'gosub', 'select', 'for', 'while', 'do', 'input', 'data',
                'const', 'strings', 'floats', 'static', 'shared', 'ifline', 'recursion', 'dynarrays', 'emptyblocks', 'onerror'}


class Scope:
    def __init__(self, name, is_main):
        self.name = name
        self.is_main = is_main
        self.scalars = {}     # name -> type
        self.arrays = {}      # name -> (type, [(lo, hi)...])
        self.records = []     # variable names of TYPE rec
        self.recarrays = {}   # name -> (lo, hi)
        self.loopvars = set()


class ProgGen:
    def __init__(self, rng, size=10, depth=2, features=None):
        self.rng = rng
        self.size = size
        self.depth = depth
        self.f = set(ALL_FEATURES if features is None else features)
        self.label_n = 0
        self.var_n = 0
        self.subs = []        # (name, [(pname, type)], body_lines, is_func, rettype)
        self.consts = {}      # name -> type
        self.inputs = []
        self.data_items = []
        self.shared_arrays = {}
        self.gosubs = []
        self.have_type = False
        self.sub_defs = []
        self.in_select = 0

    # ------------------------------------------------------------ names
    def newvar(self, scope, ty):
        self.var_n += 1
        name = f'{"vwxyzk"[self.var_n % 6]}{self.var_n}{TC[ty]}'
        scope.scalars[name] = ty
        return name

    def pick_scalar(self, scope, ty_pred, create=True):
        c = [n for n, t in scope.scalars.items() if ty_pred(t) and n not in scope.loopvars]
        if c and (self.rng.random() < 0.8 or not create):
            return self.rng.choice(c)
        if not create:
            return None
        tys = [t for t in self.types() if ty_pred(t)]
        return self.newvar(scope, self.rng.choice(tys))

    def types(self):
        t = ['INTEGER', 'LONG']
        if 'floats' in self.f:
            t += ['SINGLE', 'DOUBLE']
        if 'strings' in self.f:
            t.append('STRING')
        return t

    # ------------------------------------------------------------ expressions
    def int_lit(self):
        r = self.rng.random()
        if r < 0.7:
            return str(self.rng.randint(0, 9))
        if r < 0.9:
            return str(self.rng.randint(10, 200))
        return self.rng.choice(['1000', '32767', '40000', '100000'])

    def num_lit(self, ty=None):
        if ty in ('SINGLE', 'DOUBLE') or (ty is None and 'floats' in self.f and self.rng.random() < 0.3):
            return self.rng.choice(['0.5', '1.5', '2.25', '3.75', '0.1', '10.5', '2.5#', '1.25!', '100.125'])
        return self.int_lit()

    def lvalue(self, scope, ty_pred, create=True):
        """an assignable location of a type satisfying ty_pred: (text, type)"""
        opts = []
        for n, (t, dims) in list(scope.arrays.items()) + list(self.shared_arrays.items()):
            if ty_pred(t):
                opts.append(('arr', n, t, dims))
        for r in scope.records:
            opts.append(('rec', r))
        for n, (lo, hi) in scope.recarrays.items():
            opts.append(('recarr', n, lo, hi))
        if opts and self.rng.random() < 0.4:
            o = self.rng.choice(opts)
            if o[0] == 'arr':
                idx = ', '.join(self.index_expr(scope, lo, hi) for lo, hi in o[3])
                return f'{o[1]}({idx})', o[2]
            flds = [(f, t) for f, t in REC_FIELDS if ty_pred(t)]
            if flds:
                f, t = self.rng.choice(flds)
                if o[0] == 'rec':
                    return f'{o[1]}.{f}', t
                return f'{o[1]}({self.index_expr(scope, o[2], o[3])}).{f}', t
        n = self.pick_scalar(scope, ty_pred, create)
        if n is None:
            return None, None
        return n, scope.scalars[n]

    def index_expr(self, scope, lo, hi):
        r = self.rng.random()
        if r < 0.7 or not scope.loopvars:
            return str(self.rng.randint(lo, hi))
        v = self.rng.choice(sorted(scope.loopvars))
        span = hi - lo + 1
        return f'{lo} + ({v} MOD {span} + {span}) MOD {span}'

    def num_expr(self, scope, depth=2, intonly=False):
        r = self.rng.random()
        pred = (lambda t: t in ('INTEGER', 'LONG')) if intonly else (lambda t: t in NUM)
        if depth <= 0 or r < 0.3:
            if self.rng.random() < 0.5:
                lv, _ = self.lvalue(scope, pred, create=False)
                if lv:
                    return lv
            c = [n for n, t in self.consts.items() if pred(t)]
            if c and self.rng.random() < 0.2:
                return self.rng.choice(c)
            return self.int_lit() if intonly else self.num_lit()
        if r < 0.65:
            op = self.rng.choice(['+', '-', '*', '+', '-'] + ([] if intonly else ['/']))
            a = self.num_expr(scope, depth - 1, intonly)
            b = self.num_expr(scope, depth - 1, intonly)
            if op == '/':
                b = self.rng.choice(['2', '4', '0.5', '8'])
            return f'({a} {op} {b})'
        if r < 0.75:
            op = self.rng.choice(['\\', 'MOD'])
            a = self.num_expr(scope, depth - 1, True)
            return f'(ABS({a}) {op} {self.rng.choice(["2", "3", "5", "7"])})'
        if r < 0.8:
            return f'(-{self.num_expr(scope, depth - 1, intonly)})'
        if r < 0.88:
            fn = self.rng.choice(['ABS', 'INT', 'CINT', 'CLNG'] if not intonly else ['ABS', 'CLNG'])
            return f'{fn}({self.num_expr(scope, depth - 1, intonly)})'
        if r < 0.93 and 'strings' in self.f:
            return self.rng.choice([f'LEN({self.str_expr(scope, depth - 1)})',
                                    f'ASC({self.str_expr(scope, 0)} + "A")',
                                    f'INSTR({self.str_expr(scope, depth - 1)}, "a")'])
        if r < 0.97 and self.sub_defs:
            fs = [s for s in self.sub_defs if s['func'] and s['ret'] in NUM and s['callable']]
            if fs:
                return self.call_text(scope, self.rng.choice(fs))
        return f'({self.cond_expr(scope, depth - 1)})'

    def str_expr(self, scope, depth=2):
        r = self.rng.random()
        if depth <= 0 or r < 0.4:
            if self.rng.random() < 0.5:
                lv, _ = self.lvalue(scope, lambda t: t == 'STRING', create=False)
                if lv:
                    return lv
            return '"' + self.rng.choice(['', 'a', 'abc', 'Hello', 'x y', 'QB', '12']) + '"'
        if r < 0.65:
            return f'({self.str_expr(scope, depth - 1)} + {self.str_expr(scope, depth - 1)})'
        fn = self.rng.choice(['LEFT$', 'RIGHT$', 'MID$', 'UCASE$', 'LCASE$', 'LTRIM$', 'RTRIM$', 'STR$', 'CHR$', 'SPACE$', 'STRING$'])
        if fn in ('LEFT$', 'RIGHT$'):
            return f'{fn}({self.str_expr(scope, depth - 1)}, {self.rng.randint(0, 4)})'
        if fn == 'MID$':
            return f'MID$({self.str_expr(scope, depth - 1)}, {self.rng.randint(1, 3)}, {self.rng.randint(0, 3)})'
        if fn == 'STR$':
            return f'STR$({self.num_expr(scope, depth - 1, True)})'
        if fn == 'CHR$':
            return f'CHR$({self.rng.randint(65, 90)})'
        if fn == 'SPACE$':
            return f'SPACE$({self.rng.randint(0, 3)})'
        if fn == 'STRING$':
            return f'STRING$({self.rng.randint(0, 3)}, {self.rng.randint(65, 70)})'
        return f'{fn}({self.str_expr(scope, depth - 1)})'

    def cond_expr(self, scope, depth=1):
        r = self.rng.random()
        if r > 0.9:
            # a number used as a condition (true iff non-zero): integral values keep levels comparable
            lv, t = self.lvalue(scope, lambda x: x in NUM, create=False)
            if lv:
                return self.rng.choice([lv, f'({lv} * 2)', f'ABS({lv})'])
        if r < 0.15 and 'strings' in self.f:
            return f'{self.str_expr(scope, depth)} {self.rng.choice(["=", "<>", "<", ">"])} {self.str_expr(scope, depth)}'
        a = self.num_expr(scope, depth)
        b = self.num_expr(scope, depth)
        c = f'{a} {self.rng.choice(["=", "<>", "<", ">", "<=", ">="])} {b}'
        if r < 0.35:
            c2 = f'{self.num_expr(scope, 0)} {self.rng.choice(["=", "<", ">"])} {self.num_expr(scope, 0)}'
            return f'{c} {self.rng.choice(["AND", "OR"])} {c2}'
        if r < 0.42:
            return f'NOT ({c})'
        return c

    def expr_of(self, scope, ty, depth=2):
        if ty == 'STRING':
            return self.str_expr(scope, depth)
        return self.num_expr(scope, depth, intonly=(ty in ('INTEGER', 'LONG') and self.rng.random() < 0.6))

    # ------------------------------------------------------------ statements
    def print_stmt(self, scope):
        n = self.rng.randint(1, 3)
        parts = []
        for i in range(n):
            if 'strings' in self.f and self.rng.random() < 0.3:
                parts.append(self.str_expr(scope, 1))
            else:
                parts.append(self.num_expr(scope, 2))
        sep = self.rng.choice(['; ', '; ', ', '])
        s = 'PRINT ' + sep.join(parts)
        if self.rng.random() < 0.15:
            s += ';'
        return s

    def assign_stmt(self, scope):
        ty = self.rng.choice(self.types())
        lv, t = self.lvalue(scope, lambda x: x == ty)
        e = self.expr_of(scope, t)
        return f'{self.rng.choice(["", "", "LET "])}{lv} = {e}'

    def call_text(self, scope, sd):
        args = []
        for (pn, pt) in sd['params']:
            if pt == 'REC':
                c = list(scope.records) + [f'{n}({self.index_expr(scope, lo, hi)})' for n, (lo, hi) in scope.recarrays.items()]
                args.append(self.rng.choice(c) if c and self.rng.random() < 0.8 else 'shrc')
                continue
            r = self.rng.random()
            narrower = {'LONG': ['INTEGER'], 'SINGLE': ['INTEGER'], 'DOUBLE': ['INTEGER', 'LONG', 'SINGLE']}.get(pt, [])
            if r < 0.5:
                lv, _ = self.lvalue(scope, lambda x: x == pt, create=True)
                args.append(lv if self.rng.random() < 0.8 else f'({lv})')
            elif r < 0.65 and narrower:
                # an expression that is nearly an lvalue, of another numeric type: it is passed by value and converted
                # (whatever a folder or a code generator may reduce it to)
                at = self.rng.choice(narrower)
                lv, _ = self.lvalue(scope, lambda x: x == at, create=True)
                args.append(self.rng.choice(['+{}', '({})', '{} + 0', '+({})', '0 + {}', '{} * 1', '+ +{}']).format(lv))
            elif r < 0.72:
                lv, _ = self.lvalue(scope, lambda x: x == pt, create=True)
                args.append(self.rng.choice(['+{}', '+({})', '{} + 0' if pt != 'STRING' else '{} + ""']).format(lv)
                            if pt != 'STRING' else f'{lv} + ""')
            else:
                args.append('(' + self.expr_of(scope, pt, 1) + ')')
        if sd['func']:
            return f'{sd["name"]}({", ".join(args)})' if args else sd['name']
        return args

    def block(self, scope, n, depth):
        out = []
        for _ in range(n):
            out += self.stmt(scope, depth)
        return out

    def stmt(self, scope, depth, top=False):
        r = self.rng.random()
        f = self.f
        ind = lambda ls: ['  ' + l for l in ls]  # noqa: E731
        if depth <= 0 or r < 0.42:
            k = self.rng.random()
            if k < 0.45:
                return [self.assign_stmt(scope)]
            if k < 0.85:
                return [self.print_stmt(scope)]
            if k < 0.9 and 'input' in f and top:
                return self.input_stmt(scope)
            if k < 0.95 and 'data' in f and scope.is_main and top:
                return self.read_stmt(scope)
            cs = [s for s in self.sub_defs if not s['func'] and s['callable']]
            if cs:
                sd = self.rng.choice(cs)
                args = self.call_text(scope, sd)
                if self.rng.random() < 0.5 or (args and args[0].startswith('+')):
                    # (a bare call whose first argument begins with a sign would read as an expression)
                    return [f'CALL {sd["name"]}' + (f'({", ".join(args)})' if args else '')]
                return [(f'{sd["name"]} ' + ', '.join(args)).strip()]
            return [self.print_stmt(scope)]
        nb = lambda: self.rng.randint(0 if 'emptyblocks' in f else 1, 2)  # noqa: E731
        if r < 0.55:
            # IF block
            lines = [f'IF {self.cond_expr(scope)} THEN'] + ind(self.block(scope, nb(), depth - 1))
            for _ in range(self.rng.choice([0, 0, 1, 2])):
                lines += [f'ELSEIF {self.cond_expr(scope)} THEN'] + ind(self.block(scope, nb(), depth - 1))
            if self.rng.random() < 0.5:
                lines += ['ELSE'] + ind(self.block(scope, nb(), depth - 1))
            return lines + ['END IF']
        if r < 0.6 and 'ifline' in f:
            a = self.rng.choice([self.assign_stmt(scope), self.print_stmt(scope).rstrip(';')])
            s = f'IF {self.cond_expr(scope)} THEN {a}'
            if self.rng.random() < 0.5:
                s += f' ELSE {self.rng.choice([self.assign_stmt(scope), self.print_stmt(scope)])}'
            return [s]
        if r < 0.7 and 'for' in f:
            v = self.newvar(scope, self.rng.choice(['INTEGER', 'INTEGER', 'LONG', 'SINGLE'] if 'floats' in f else ['INTEGER', 'LONG']))
            lo, hi = self.rng.randint(-2, 3), self.rng.randint(0, 5)
            step = self.rng.choice(['', '', ' STEP 2', ' STEP -1', ' STEP 1'] + ([' STEP 0.5'] if v.endswith('!') else []))
            if 'STEP -' in step:
                lo, hi = hi, lo
            scope.loopvars.add(v)
            body = self.block(scope, self.rng.randint(1, 2), depth - 1)
            if self.rng.random() < 0.15:
                body.append(f'IF {v} = {hi} THEN EXIT FOR')
            scope.loopvars.discard(v)
            return [f'FOR {v} = {lo} TO {hi}{step}'] + ind(body) + [self.rng.choice(['NEXT', f'NEXT {v}'])]
        if r < 0.77 and 'while' in f:
            v = self.newvar(scope, 'INTEGER')
            n = self.rng.randint(0, 3)
            scope.loopvars.add(v)
            body = self.block(scope, self.rng.randint(1, 2), depth - 1)
            scope.loopvars.discard(v)
            return [f'{v} = 0', f'WHILE {v} < {n}'] + ind(body + [f'{v} = {v} + 1']) + ['WEND']
        if r < 0.84 and 'do' in f:
            v = self.newvar(scope, 'INTEGER')
            n = self.rng.randint(1, 3)
            scope.loopvars.add(v)
            body = self.block(scope, self.rng.randint(1, 2), depth - 1)
            scope.loopvars.discard(v)
            body = body + [f'{v} = {v} + 1']
            if self.rng.random() < 0.15:
                body.append(f'IF {v} = 2 THEN EXIT DO')
            k = self.rng.choice(['while_top', 'until_top', 'while_bot', 'until_bot'])
            if k == 'while_top':
                return [f'{v} = 0', f'DO WHILE {v} < {n}'] + ind(body) + ['LOOP']
            if k == 'until_top':
                return [f'{v} = 0', f'DO UNTIL {v} >= {n}'] + ind(body) + ['LOOP']
            if k == 'while_bot':
                return [f'{v} = 0', 'DO'] + ind(body) + [f'LOOP WHILE {v} < {n}']
            return [f'{v} = 0', 'DO'] + ind(body) + [f'LOOP UNTIL {v} >= {n}']
        if r < 0.91 and 'select' in f:
            self.in_select += 1
            if 'strings' in f and self.rng.random() < 0.2:
                lines = [f'SELECT CASE {self.str_expr(scope, 1)}']
                for _ in range(self.rng.randint(1, 2)):
                    lines += [f'CASE "{self.rng.choice(["a", "abc", "", "QB"])}"'] + ind(self.block(scope, nb(), depth - 1))
            else:
                lines = [f'SELECT CASE {self.num_expr(scope, 1)}']
                for _ in range(self.rng.randint(1, 3)):
                    k = self.rng.random()
                    lit = lambda: self.num_lit() if 'floats' in f else self.int_lit()  # noqa: E731
                    if k < 0.4:
                        cl = ', '.join(lit() for _ in range(self.rng.randint(1, 2)))
                    elif k < 0.7:
                        a = self.rng.randint(-2, 5)
                        lo = self.rng.choice([str(a), f'{a}.5', f'{a}&', f'{a}#']) if 'floats' in f else str(a)
                        b = a + self.rng.randint(1, 4)
                        hi = self.rng.choice([str(b), f'{b}.25', f'{b}!', str(b * 10000)]) if 'floats' in f else str(b)
                        cl = f'{lo} TO {hi}'
                    else:
                        cl = f'IS {self.rng.choice(["<", ">", ">=", "<=", "<>"])} {lit()}'
                    lines += [f'CASE {cl}'] + ind(self.block(scope, nb(), depth - 1))
            if self.rng.random() < 0.5:
                lines += ['CASE ELSE'] + ind(self.block(scope, nb(), depth - 1))
            self.in_select -= 1
            return lines + ['END SELECT']
        if r < 0.95 and 'goto' in f and not self.in_select:
            self.label_n += 1
            l = f'lab{self.label_n}' if self.rng.random() < 0.7 else str(1000 + self.label_n * 10)
            skipped = self.block(scope, 1, 0)
            tgt = l + ':' if not l.isdigit() else l + ' REM'
            return [f'GOTO {l}'] + skipped + [tgt]
        if 'gosub' in f and scope.is_main:
            self.label_n += 1
            l = f'gs{self.label_n}'
            self.gosubs.append((l, self.block(scope, self.rng.randint(1, 2), 0)))
            return [f'GOSUB {l}']
        return [self.print_stmt(scope)]

    def input_stmt(self, scope):
        k = self.rng.randint(1, 2)
        tgts, ans = [], []
        for _ in range(k):
            ty = self.rng.choice(self.types())
            lv, t = self.lvalue(scope, lambda x: x == ty)
            tgts.append(lv)
            ans.append({'INTEGER': '7', 'LONG': '-123456', 'SINGLE': '2.5', 'DOUBLE': '0.125', 'STRING': 'word'}[t])
        self.inputs.append(', '.join(ans))
        p = self.rng.choice(['', '"n"; ', '"n", '])
        return [f'INPUT {p}' + ', '.join(tgts)]

    def read_stmt(self, scope):
        ty = self.rng.choice(self.types())
        lv, t = self.lvalue(scope, lambda x: x == ty)
        self.data_items.append({'INTEGER': '7', 'LONG': '123456', 'SINGLE': '2.5', 'DOUBLE': '0.125', 'STRING': '"w x"'}[t])
        return [f'READ {lv}']

    # ------------------------------------------------------------ declarations
    def declare_arrays(self, scope, lines):
        if 'arrays' not in self.f:
            return
        for _ in range(self.rng.randint(0, 2)):
            ty = self.rng.choice(self.types())
            self.var_n += 1
            name = f'ar{self.var_n}{TC[ty]}'
            rank = self.rng.choice([1, 1, 2])
            dims = []
            for _ in range(rank):
                lo = self.rng.choice([0, 0, 1, -2, 5])
                dims.append((lo, lo + self.rng.randint(0, 3)))
            dyn = 'dynarrays' in self.f and self.rng.random() < 0.25
            shared = 'shared' in self.f and scope.is_main and self.rng.random() < 0.3
            if dyn:
                self.var_n += 1
                nv = f'n{self.var_n}%'
                lines.append(f'{nv} = {dims[0][1]}')
                dtxt = ', '.join([f'{dims[0][0]} TO {nv}'] + [f'{lo} TO {hi}' for lo, hi in dims[1:]])
            else:
                dtxt = ', '.join((f'{lo} TO {hi}' if lo != 0 or self.rng.random() < 0.5 else f'{hi}') for lo, hi in dims)
            lines.append(f'DIM {"SHARED " if shared else ""}{name}({dtxt})')
            if shared:
                self.shared_arrays[name] = (ty, dims)
            else:
                scope.arrays[name] = (ty, dims)
        if 'records' in self.f and self.have_type:
            for _ in range(self.rng.randint(0, 2)):
                self.var_n += 1
                if self.rng.random() < 0.6:
                    name = f'rc{self.var_n}'
                    lines.append(f'DIM {name} AS rec')
                    scope.records.append(name)
                else:
                    name = f'ra{self.var_n}'
                    lo = self.rng.choice([0, 1, -1])
                    hi = lo + self.rng.randint(0, 2)
                    lines.append(f'DIM {name}({lo} TO {hi}) AS rec')
                    scope.recarrays[name] = (lo, hi)

    def make_sub(self, idx, allow_call):
        is_func = 'funcs' in self.f and self.rng.random() < 0.4
        name = f'{"fn" if is_func else "pr"}{idx}'
        scope = Scope(name, False)
        params = []
        for i in range(self.rng.randint(0, 3)):
            if self.have_type and 'records' in self.f and self.rng.random() < 0.25:
                # a whole record handed over by reference
                params.append((f'p{i}', 'REC'))
                scope.records.append(f'p{i}')
                continue
            ty = self.rng.choice(self.types())
            pn = f'p{i}{TC[ty]}'
            params.append((pn, ty))
            scope.scalars[pn] = ty
            if i == 0 and ty in ('INTEGER', 'LONG'):
                scope.loopvars.add(pn)      # recursion guard: never assigned, never passed by reference
        ret = self.rng.choice(NUM if 'floats' in self.f else ['INTEGER', 'LONG']) if is_func else None
        sd = {'name': name + (TC[ret] if ret else ''), 'params': params, 'func': is_func, 'ret': ret, 'callable': False}
        static = 'static' in self.f and self.rng.random() < 0.25
        lines = []
        self.declare_arrays(scope, lines)
        ndecl = len(lines)
        if static and not lines:
            sv = self.newvar(scope, 'INTEGER')
            lines += [f'{sv} = {sv} + 1', f'PRINT {sv}']
        saved = [s['callable'] for s in self.sub_defs]
        if not allow_call:
            for s in self.sub_defs:
                s['callable'] = False
        bchunks = [self.stmt(scope, max(0, self.depth - 1)) for _ in range(self.rng.randint(1, max(2, self.size // 3)))]
        for s, c in zip(self.sub_defs, saved):
            s['callable'] = c
        if self.rng.random() < 0.15:
            bchunks.insert(self.rng.randint(0, len(bchunks)),
                           [f'IF {self.cond_expr(scope, 0)} THEN EXIT {"FUNCTION" if is_func else "SUB"}'])
        lines += [l for c in bchunks for l in c]
        if 'recursion' in self.f and params and params[0][1] in ('INTEGER', 'LONG') and self.rng.random() < 0.4:
            p0 = params[0][0]
            args = ', '.join([f'{p0} - 1'] + [pn_ if t == 'REC' else '(' + self.expr_of(scope, t, 0) + ')' for pn_, t in params[1:]])
            if is_func:
                lines.append(f'IF {p0} > 0 AND {p0} < 4 THEN {sd["name"]} = {sd["name"]}({args}) + 1')
            else:
                lines.append(f'IF {p0} > 0 AND {p0} < 4 THEN CALL {name}({args})')
        elif is_func:
            lines.append(f'{sd["name"]} = {self.expr_of(scope, ret, 1)}')
        ptxt = ', '.join(f'{pn} AS rec' if pt == 'REC' else f'{pn}' for pn, pt in params)
        head = f'{"FUNCTION" if is_func else "SUB"} {sd["name"]}' + (f'({ptxt})' if params else '') + (' STATIC' if static else '')
        text = [head] + ['  ' + l for l in lines] + [f'END {"FUNCTION" if is_func else "SUB"}']
        sd['text'] = text
        return sd

    def gen(self):
        rng = self.rng
        main = Scope('main', True)
        head = []
        if 'records' in self.f and rng.random() < 0.7:
            self.have_type = True
            head += ['TYPE inner', '  p AS INTEGER', '  q AS STRING', 'END TYPE'] if False else []
            head += ['TYPE rec'] + [f'  {f} AS {t}' for f, t in REC_FIELDS] + ['END TYPE']
            if 'subs' in self.f:
                head += ['DIM SHARED shrc AS rec']
        if 'const' in self.f:
            for i in range(rng.randint(0, 2)):
                ty = rng.choice(['INTEGER', 'LONG'] + (['SINGLE'] if 'floats' in self.f else []))
                nm = f'cn{i}{TC[ty]}'
                head.append(f'CONST {nm} = {self.num_lit(ty) if ty == "SINGLE" else self.int_lit()}')
                self.consts[nm] = ty
        self.declare_arrays(main, head)
        nsubs = rng.randint(0, 3) if 'subs' in self.f else 0
        for i in range(nsubs):
            sd = self.make_sub(i + 1, allow_call=True)
            sd['callable'] = True
            self.sub_defs.append(sd)
        chunks = [self.stmt(main, self.depth, top=True) for _ in range(self.size)]
        if self.data_items:
            # DATA may sit anywhere between the top-level statements of the main program
            pos = rng.randint(0, len(chunks))
            chunks.insert(pos, ['DATA ' + ', '.join(self.data_items)])
        handler = None
        if 'onerror' in self.f and rng.random() < 0.35:
            # an error handler is armed somewhere in the main program; nothing is made to fail on purpose here
            handler = f'eh{rng.randint(1, 9)}'
            chunks.insert(rng.randint(0, len(chunks)), [f'ON ERROR GOTO {handler}'])
            if rng.random() < 0.3:
                chunks.insert(rng.randint(0, len(chunks)), [rng.choice(['ON ERROR GOTO 0', 'ON ERROR RESUME NEXT', f'ON ERROR GOTO {handler}'])])
        body = [l for c in chunks for l in c]
        lines = head + body
        tail = []
        if handler:
            self.gosubs = self.gosubs  # handler goes after END, like GOSUB targets
            tail_handler = [f'{handler}:', 'PRINT "error"; ERR', rng.choice(['RESUME NEXT', 'RESUME NEXT', 'END'])]
        else:
            tail_handler = []
        if self.gosubs or tail_handler:
            lines.append('END')
            for l, b in self.gosubs:
                tail += [f'{l}:'] + b + ['RETURN']
            tail += tail_handler
        lines += tail
        for sd in self.sub_defs:
            lines += [''] + sd['text']
        return '\n'.join(lines) + '\n', list(self.inputs)


REC_FIELDS = [('fa', 'INTEGER'), ('fb', 'STRING'), ('fc', 'DOUBLE'), ('fd', 'LONG'), ('fe', 'SINGLE')]


def gen_program(rng, size=None, depth=None, features=None):
    size = size if size is not None else rng.choice([3, 5, 8, 12])
    depth = depth if depth is not None else rng.choice([1, 2, 2, 3])
    if features is None:
        features = {f for f in ALL_FEATURES if rng.random() < 0.7}
    g = ProgGen(rng, size, depth, features)
    src, inputs = g.gen()
    return src, inputs


def load_repo_programs(repo='/repo'):
    """the success-case programs of the repository's own test suite"""
    import glob
    import os
    out = []
    for fn in sorted(glob.glob(os.path.join(repo, 'tests', 'test_cases', '*.test'))):
        text = open(fn).read()
        section = 'success'
        for case in text.split('\n===\n'):
            lines = case.split('\n')
            while lines and lines[0].startswith('#'):
                section = lines[0][1:].strip().split()[0] if lines[0][1:].strip() else section
                lines = lines[1:]
            body = '\n'.join(lines)
            if '\n---' in body:
                src, exp = body.split('\n---', 1)
            else:
                src, exp = body, ''
            if any(k in exp for k in ('compileerror', 'syntaxerror')):
                continue
            if src.strip():
                out.append(src.strip('\n') + '\n')
    return out
