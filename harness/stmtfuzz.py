"""Statement-level and token-level fuzzing material for the compiler (C06, C05).

TEMPLATES: every statement form with operand slots {e} (expression), {lv} (assignment target), {l} (label); the slots are
filled from EXPRS / LVS / LABELS, which mix well-typed, wrongly-typed, missing and malformed operands.  HEAD / TAIL declare
the names the operands refer to.  mutate(): token-level mutation of a valid program."""
import re

HEAD = '''TYPE rt
  a AS INTEGER
  b AS STRING
END TYPE
DIM r AS rt, r2 AS rt, arr(3) AS INTEGER, sarr$(2), m2(1, 1) AS LONG, ra(2) AS rt
i% = 1: l& = 2: s! = 1.5: d# = 2.5: t$ = "x"
'''
TAIL = '''
END
lbl:
DATA 1, "a"
nodata:
PRINT "x"
SUB p0
END SUB
SUB p1 (a%)
END SUB
SUB p2 (a%, b$)
END SUB
SUB pa (q() AS INTEGER)
END SUB
SUB pr (q AS rt)
END SUB
FUNCTION f1% (a%)
  f1% = a%
END FUNCTION
FUNCTION fs$ (a$)
  fs$ = a$
END FUNCTION
'''
EXPRS = ['1', '0', '-1', '2.5', '1E30', '"s"', '""', 'i%', 'l&', 's!', 'd#', 't$', 'r', 'r.a', 'r.b', 'arr', 'arr(1)', 'arr()', 'sarr$(1)', 'm2(1, 1)', 'm2(1)', 'ra(1)', 'ra(1).a',
         'ra', 'r.zz', 'undef', 'undef$', 'undef(1)', 'f1%(1)', 'f1%', 'f1%("a")', 'fs$("a")', 'fs$(1)', 'p0', 'lbl', '(1)', '(t$)', 'NOT t$', '-t$', 'i% + t$', 't$ + t$', 't$ * 2',
         'i% AND t$', 'i% = t$', 't$ = t$', 'r = r2', 'arr = arr', '1 / 0', '1 \\ 0', '2 ^ -1', '2 ^ 0.5', '32767 + 1', '99999 * 99999', '1E38 * 1E38', 'LEN(t$)', 'LEN(1)', 'LEN()', 'LEN(t$, 1)', 'ASC(1)', 'CHR$("a")', 'CHR$(300)',
         'MID$(t$, 1)', 'MID$(t$)', 'MID$(1, 1, 1)', 'LEFT$(t$, "a")', 'INSTR(t$, t$)', 'INSTR(1, t$, t$)', 'INSTR(t$)', 'UBOUND(arr)', 'UBOUND(i%)', 'UBOUND(arr, 5)', 'LBOUND(r)', 'VAL(1)', 'VAL(t$)', 'STR$("a")', 'STR$(1)',
         'INT("a")', 'ABS(t$)', 'SGN(r)', 'CINT(t$)', 'CLNG(1E30)', 'RND', 'RND(1)', 'RND("a")', 'TIMER', 'TIMER(1)', 'INKEY$', 'PEEK(1)', 'PEEK(t$)', 'SPACE$(t$)', 'STRING$(1)', 'STRING$(2, t$)', 'STRING$(2, 65)',
         'LCASE$(1)', 'UCASE$(t$)', 'LTRIM$(1)', 'ERR', 'ERL', 'ERR(1)', 'i%%', 'i%.a', 't$(1)', '1 2', '', ')', '(', ',', 'THEN', 'TO', 'i% +', '+', '"unterminated', '"caf\u00e9"', '1E38 * 1E38 - 1E38 * 1E38', '0 * (1E38 * 1E38)', '1 / 0', '1D308 * 10#',
         '"s" + 1', '1 + "s"', '-"s"', 'NOT "s"', '"a" < 1', '"a" AND 1', '((1D308 * 10) - (1D308 * 10)) MOD 2', 'NOT ((1D308 * 10) - (1D308 * 10))', '((1D308 * 10) - (1D308 * 10)) \\ 2', '1 AND ((1D308 * 10) - (1D308 * 10))',
         # constant operators at the boundaries of the integral types (what a folder computes must fit what it emits)
         'NOT 1E10', 'NOT 3000000000#', 'NOT 2147483647.6#', 'NOT -1E10', 'NOT 32767.6', '-(-2147483648)', '- -32768', '-(32768)', '1E10 AND 1', '1E10 OR 1',
         '3000000000# XOR 1', '1E10 MOD 7', '1E10 \\ 3', 'ABS(-2147483648)', 'CINT(1E10)', 'CLNG(1E10)', 'INT(1E10)', '2147483647 + 1', '-2147483648 - 1', '2147483647& * 2', '65536 * 65536',
         '+i%', '+l&', '+arr(1)', '+r.a', '+t$', 'f1%(l&)', 'f1%(+l&)', 'f1%(arr(1))', 'f1%(ra(1).a)', 'f1%(m2(1, 1))', 'f1%(f1%(1))',
         '-32768', '-32768%', '32768', '2147483648', '-2147483648', '&H8000', '&HFFFFFFFF', '&H100000000', '&O777777', '.', '1.', '.5E', '1E', '5#!']
LVS = ['i%', 'l&', 's!', 'd#', 't$', 'r', 'r.a', 'r.b', 'r.zz', 'arr', 'arr(1)', 'arr(1, 2)', 'arr(t$)', 'sarr$(1)', 'm2(1, 1)', 'ra(1)', 'ra(1).a', 'ra(1).b', 'ra.a', 'undef', 'undef(1)', 'f1%', 'p0', 'lbl', '1', '"s"', 'i% + 1', '', 'RND', 'TIMER', 'ERR', 'LEN(t$)']
LABELS = ['lbl', 'nodata', 'nosuch', '10', '99999', '0', '1', '-1', 'p0', 'i%', '', '"l"']
TEMPLATES = [
 'PRINT {e}', 'PRINT {e}; {e}, {e}', 'PRINT USING {e}; {e}', 'PRINT USING {e}; {e}; {e}', 'PRINT USING {e}', 'PRINT ;', 'PRINT ,,{e}', '? {e}',
 'IF {e} THEN PRINT 1', 'IF {e} THEN\nPRINT 1\nEND IF', 'IF {e} THEN\nELSEIF {e} THEN\nELSE\nEND IF', 'IF 1 THEN\nELSE\nELSE\nEND IF', 'IF 1 THEN\nELSE\nELSEIF 1 THEN\nEND IF', 'IF {e} THEN {l}', 'IF {e} THEN PRINT 1 ELSE {l}', 'IF {e} GOTO {l}',
 'WHILE {e}\nWEND', 'DO WHILE {e}\nLOOP', 'DO UNTIL {e}\nLOOP', 'DO\nLOOP WHILE {e}', 'DO\nLOOP UNTIL {e}', 'DO WHILE {e}\nLOOP UNTIL {e}', 'DO\nEXIT FOR\nLOOP', 'WHILE 1\nEXIT DO\nWEND', 'EXIT DO', 'EXIT SUB', 'EXIT FUNCTION', 'EXIT',
 'FOR {lv} = {e} TO {e}\nNEXT', 'FOR {lv} = {e} TO {e} STEP {e}\nNEXT {lv}', 'FOR i% = 1 TO 2\nNEXT l&', 'FOR i% = 1 TO 2: FOR l& = 1 TO 2\nNEXT i%, l&', 'FOR i% = 1 TO 2: FOR l& = 1 TO 2\nNEXT l&, i%', 'NEXT', 'WEND', 'LOOP', 'END IF', 'END SELECT', 'END SUB', 'END TYPE', 'CASE 1', 'ELSE', 'ELSEIF 1 THEN',
 'SELECT CASE {e}\nCASE {e}\nEND SELECT', 'SELECT CASE {e}\nCASE {e} TO {e}\nCASE IS > {e}\nCASE {e}, {e}\nCASE ELSE\nEND SELECT', 'SELECT CASE 1\nCASE ELSE\nCASE ELSE\nEND SELECT', 'SELECT CASE 1\nCASE ELSE\nCASE 1\nEND SELECT', 'SELECT CASE 1\nPRINT 1\nCASE 1\nEND SELECT', 'SELECT CASE 1\nEND SELECT', 'SELECT CASE\nEND SELECT',
 '{lv} = {e}', 'LET {lv} = {e}', '{lv} = {lv}', 'r = r2', 'ra(1) = r', 'arr = arr', 'SWAP {lv}, {lv}',
 'CALL p0', 'CALL p0({e})', 'CALL p1', 'CALL p1({e})', 'CALL p1({e}, {e})', 'CALL p2({e}, {e})', 'CALL pa({e})', 'CALL pa(arr())', 'CALL pa(sarr$())', 'CALL pa(m2())', 'CALL pa(ra())', 'CALL pr({e})', 'CALL pr(r)', 'CALL pr(ra(1))', 'p1 {e}', 'p2 {e}, {e}', 'p0 {e}', 'CALL nosuch', 'CALL nosuch({e})', 'CALL f1%(1)', 'CALL lbl', 'CALL i%',
 'LOCATE {e}', 'LOCATE {e}, {e}', 'LOCATE , {e}', 'LOCATE {e}, {e}, {e}', 'LOCATE {e}, {e}, {e}, {e}, {e}', 'LOCATE , , {e}', 'LOCATE', 'LOCATE ,', 'LOCATE {e}, {e}, {e}, {e}, {e}, {e}', 'COLOR {e}', 'COLOR {e}, {e}', 'COLOR , {e}', 'COLOR {e}, {e}, {e}', 'COLOR', 'COLOR ,',
 'BLOAD {e}', 'BLOAD {e}, {e}', 'BLOAD', 'BSAVE {e}, {e}, {e}', 'BSAVE {e}', 'KILL {e}', 'KILL', 'PRINT LBOUND((arr))', 'PRINT UBOUND((arr), 1)', 'PRINT UBOUND((r))', 'PRINT LBOUND(arr())',
 'SOUND {e}, {e}', 'SOUND {e}', 'BEEP {e}', 'CLS {e}', 'CLS', 'SCREEN {e}', 'SCREEN {e}, {e}', 'SCREEN', 'WIDTH {e}, {e}', 'WIDTH {e}', 'WIDTH', 'VIEW PRINT {e} TO {e}', 'VIEW PRINT', 'VIEW PRINT {e}', 'PLAY {e}', 'POKE {e}, {e}', 'POKE {e}', 'DEF SEG = {e}', 'DEF SEG', 'RANDOMIZE {e}', 'RANDOMIZE',
 'DIM n1({e})', 'DIM n2({e} TO {e})', 'DIM n3({e}, {e}) AS STRING', 'DIM n4 AS {e}', 'DIM n5 AS nosuchtype', 'DIM n6(1) AS rt', 'DIM arr(5)', 'DIM i%', 'DIM i% AS LONG', 'DIM n7%(1) AS LONG', 'DIM SHARED n8', 'DIM n9, n9', 'DIM', 'DIM n10(1 TO)', 'DIM n11(-1)', 'DIM n12(5 TO 1)', 'DIM n13(i%)', 'DIM n14(i% TO 3)', 'DIM n15(1, 2, 3, 4, 5, 6, 7, 8, 9)', 'REDIM n16(3)', 'ERASE arr', 'DIM big1(70000)', 'DIM SHARED big2(70000)', 'DIM big3(300, 300) AS DOUBLE', 'DIM big4(70000) AS rt', 'DIM big5(2147483647)',
 'CONST c1 = {e}', 'CONST c9 = "s" + 1', 'CONST c10 = -"s"', 'CONST c11 = NOT "s"', 'CONST c12 = ((1D308 * 10) - (1D308 * 10)) MOD 2', 'CONST c13 = 1E38 * 1E38', 'CONST c14$ = 1', 'CONST c15% = "s"',
 'd# = ((1D308 * 10) - (1D308 * 10)) MOD 2', 'i% = NOT ((1D308 * 10) - (1D308 * 10))', 'PRINT ((1D308 * 10) - (1D308 * 10)) AND 1', 'PRINT 1 \\ ((1D308 * 10) - (1D308 * 10))', 'CONST c2% = {e}', 'CONST i% = 1', 'CONST c3 = c3', 'CONST c4 = 1, c5 = 2', 'CONST', 'CONST c6', 'CONST c7 = 1\nc7 = 2', 'CONST c8 = 1\nDIM c8',
 'READ {lv}', 'READ {lv}, {lv}', 'READ', 'RESTORE {l}', 'RESTORE', 'DATA {e}', 'DATA', 'DATA ,,,', 'DATA "a', 'INPUT {lv}', 'INPUT {e}; {lv}', 'INPUT {e}, {lv}, {lv}', 'INPUT ; {e}; {lv}', 'INPUT', 'INPUT , {lv}', 'INPUT ; ; {lv}', 'INPUT ; , {lv}', 'INPUT {e} {lv}', 'INPUT {e};', 'INPUT ;', 'LINE INPUT {lv}', 'LINE INPUT {e}; {lv}', 'LINE INPUT',
 'GOTO {l}', 'GOSUB {l}', 'RETURN', 'RETURN {l}', 'ON ERROR GOTO {l}', 'ON ERROR RESUME NEXT', 'ON ERROR', 'ON ERROR GOTO', 'RESUME', 'RESUME NEXT', 'RESUME {l}', 'ERROR {e}', 'ON {e} GOTO lbl, lbl', 'ON {e} GOSUB lbl',
 'lbl:', 'lbl: PRINT 1', '10 PRINT 1\n10 PRINT 2', 'nodata: PRINT 1', '5 5 PRINT', 'END', 'STOP', 'SYSTEM', 'END {e}', 'DEFINT {e}', 'DEFINT A', 'DEFINT A-', 'DEFINT Z-A', 'DEFSTR A-Z\nx = 1', 'DEFINT A-Z\nx = "s"', 'OPTION BASE 1', 'DECLARE SUB p0 ()', 'DECLARE FUNCTION f1% (a%)', 'DECLARE SUB nosuch2 ()',
 'TYPE t2\nEND TYPE', 'TYPE t3\n x AS INTEGER\n x AS LONG\nEND TYPE', 'TYPE t4\n x AS nosuch\nEND TYPE', 'TYPE t5\n x AS t5\nEND TYPE', 'TYPE t9\n x AS t9\nEND TYPE\nDIM v9 AS t9', 'TYPE t10\n y AS INTEGER\n x AS t10\nEND TYPE\nDIM v10(2) AS t10\nv10(1).y = 1', 'TYPE t11\n x AS t12\nEND TYPE\nTYPE t12\n x AS t11\nEND TYPE\nDIM v11 AS t11', 'TYPE rt\n a AS INTEGER\nEND TYPE', 'TYPE t6\n PRINT 1\nEND TYPE', 'TYPE t7\n x(3) AS INTEGER\nEND TYPE', 'TYPE t8\n x AS STRING * 5\nEND TYPE', 'TYPE\nEND TYPE',
 'SUB p0\nEND SUB', 'SUB q1\nSUB q2\nEND SUB\nEND SUB', 'SUB q3 (a%, a%)\nEND SUB', 'SUB q4 (a AS nosuch)\nEND SUB', 'SUB q5\nlbl: PRINT 1\nEND SUB', 'SUB q6 STATIC\nx = 1\nEND SUB', 'SUB q7\nSHARED i%\nEND SUB', 'SUB q8\nSTATIC\nEND SUB', 'SUB q9\nDIM SHARED z\nEND SUB',
 'FUNCTION q10\nq10 = "s"\nEND FUNCTION', 'FUNCTION q11$\nq11$ = 1\nEND FUNCTION', 'FUNCTION q12% (a%)\nEND FUNCTION\nPRINT q12%', 'FUNCTION q13\nEXIT SUB\nEND FUNCTION', 'FUNCTION q14\nq14 = q14(1)\nEND FUNCTION', 'FUNCTION i%\nEND FUNCTION', 'FUNCTION q15%\nFOR q15% = 1 TO 2\nNEXT\nEND FUNCTION', 'FUNCTION q16%\nINPUT q16%\nEND FUNCTION', 'FUNCTION q17%\nREAD q17%\nEND FUNCTION', 'FOR f1% = 1 TO 2\nNEXT', 'FOR p0 = 1 TO 2\nNEXT', 'SUB f1%\nEND SUB',
 "REM {e}", "' {e}", 'PRINT 1 \' c', 'PRINT 1: : PRINT 2', ':', ': :', '::PRINT 1', 'PRINT 1 :', 'LET', 'LET = 1', '= 1', '1 = 1', '{e}', '{e} {e}', '{lv}', '{lv}({e}) = {e}', '{lv}.a = {e}', '{lv}.a.b = {e}',
]
# whole programs whose shape no template placement produces (use before definition, definitions after procedures, limits)
WHOLE = [
 # reported by the sub-agents that seeded C05-4 / C06-4 (all repaired)
 'IF i% THEN\nELSEIF i% THEN NEXT\nEND IF\n', 'IF i% THEN\nELSEIF i% THEN FOR k = 1 TO 2\nEND IF\n', 'IF i% THEN\nELSEIF i% THEN IF i% THEN WEND\nEND IF\n',
 'IF i% THEN\nELSEIF i% THEN DIM zz\nEND IF\n', 'IF i% THEN\nELSEIF i% THEN ELSE\nEND IF\n', 'IF i% THEN\nELSEIF i% THEN END IF\n',
 'CONST n = "x"\nx = n\n', 'CONST n = "x"\nDIM a(n)\n', 'CONST n = "x"\nPRINT n; LEN(n)\n', 'CONST n = "x"\nCALL s(n)\nEND\nSUB s(t$)\nPRINT t$\nEND SUB\n',
 'SUB s\nDIM a(n)\nEND SUB\nCONST n = "x"\n', 'CONST n% = "x"\n', 'CONST n$ = 1\nPRINT n$\n', 'CONST a = 1\nDIM a\n', 'CONST a = 1\nDIM a AS STRING\n', 'DIM a\nCONST a = 1\n',
 'DIM a(' + ', '.join(['0 TO 0'] * 256) + ')\n', 'DIM a(' + ', '.join(['0 TO 0'] * 255) + ')\n', 'n = 0\nDIM a(' + ', '.join(['n'] * 256) + ')\n', 'DIM a(1)\nPRINT a(' + ', '.join(['1'] * 256) + ')\n',
 'CALL s(f&(1))\nEND\nSUB s(a AS INTEGER)\nPRINT a\nEND SUB\nFUNCTION f&(x)\nf& = 7\nEND FUNCTION\n', 'CALL s(f&)\nEND\nSUB s(a AS INTEGER)\nPRINT a\nEND SUB\nFUNCTION f&\nf& = 7\nEND FUNCTION\n',
 'x = INSTR("abc", 5)\n', 'x = ((((((((((1))))))))))\n',
 'CALL s\nEND\nSUB s\nPRINT c$\nEND SUB\nCONST c$ = "abc"\n',
 'CALL s\nEND\nSUB s\nPRINT c%\nx = c% + 1\nEND SUB\nCONST c% = 7\n',
 'PRINT f$\nEND\nFUNCTION f$\nf$ = k$ + k$\nEND FUNCTION\nCONST k$ = "q"\n',
 'PRINT c$\nCONST c$ = "abc"\nPRINT c$\n',
 'CALL s\nEND\nSUB s\nPRINT t.a\nEND SUB\nTYPE tt\n a AS INTEGER\nEND TYPE\nDIM SHARED t AS tt\n',
 'CALL s\nEND\nSUB s\nPRINT sh(1)\nEND SUB\nDIM SHARED sh(3)\n',
 'CALL s\nSUB s\nDIM q(300, 300) AS DOUBLE\nEND SUB\n',
 'CALL s\nSUB s STATIC\nDIM q(300, 300) AS DOUBLE\nEND SUB\n',
 'DATA ' + ','.join(['1'] * 33000) + '\n',
 'PRINT "' + 'x' * 70000 + '"\n',
 '\n'.join(f'PRINT "s{i}"' for i in range(300)) + '\n',
 'x = 1\n' * 3000,
 'GOTO l2999\n' + '\n'.join(f'l{i}: x = {i}' for i in range(3000)) + '\n',
]


def single_line_if_forms(t):
    """a template written inside a single-line IF: its first line after THEN, its last line after ELSE"""
    lines = t.split('\n')
    return ['IF i% THEN ' + lines[0], 'IF i% THEN PRINT 1 ELSE ' + lines[-1], 'IF i% THEN PRINT 1: ' + lines[0] + ' ELSE ' + lines[-1],
            'IF i% THEN IF l& THEN ' + lines[-1]]


def fill(rng, t):
    out = t
    while '{e}' in out: out = out.replace('{e}', rng.choice(EXPRS), 1)
    while '{lv}' in out: out = out.replace('{lv}', rng.choice(LVS), 1)
    while '{l}' in out: out = out.replace('{l}', rng.choice(LABELS), 1)
    return out

KEYWORDS = ['PRINT','IF','THEN','ELSE','ELSEIF','END IF','FOR','TO','STEP','NEXT','WHILE','WEND','DO','LOOP','UNTIL','SELECT CASE','CASE','CASE ELSE','END SELECT',
 'DIM','SHARED','AS','INTEGER','LONG','SINGLE','DOUBLE','STRING','TYPE','END TYPE','SUB','END SUB','FUNCTION','END FUNCTION','CALL','GOTO','GOSUB','RETURN',
 'EXIT','EXIT DO','EXIT FOR','EXIT SUB','CONST','DATA','READ','RESTORE','INPUT','LINE INPUT','LOCATE','COLOR','CLS','BEEP','SOUND','ON ERROR GOTO','RESUME','RESUME NEXT',
 'DEFINT','STATIC','LET','REM','AND','OR','NOT','MOD','XOR','EQV','IMP','USING','POKE','PEEK','DEF SEG','RANDOMIZE','SCREEN','WIDTH','VIEW PRINT','PLAY','END','STOP','SWAP','ERASE','REDIM','OPTION BASE','DECLARE']
TOKS = ['(',')',',',';',':','=','<','>','<>','+','-','*','/','\\','^','"','"x"','1','0','2.5','1E400','99999999999','&HFF','x','x%','x$','a(1)','r.f','.','#','%','$','!','&',"'",'\n','  ']
def mutate(rng, src):
    toks = re.findall(r'"[^"\n]*"|[A-Za-z_][A-Za-z0-9_.]*[%&!#$]?|\d+\.?\d*|\n|[^\sA-Za-z0-9]|[ \t]+', src)
    if not toks: return src
    n = rng.choice([1,1,1,2,3])
    for _ in range(n):
        k = rng.random(); i = rng.randrange(len(toks))
        if k < 0.3: del toks[i]
        elif k < 0.6: toks.insert(i, rng.choice(KEYWORDS+TOKS) + ' ')
        elif k < 0.8: toks[i] = rng.choice(KEYWORDS+TOKS)
        elif k < 0.9 and len(toks) > 1:
            j = rng.randrange(len(toks)); toks[i], toks[j] = toks[j], toks[i]
        else: toks.insert(i, toks[i])
        if not toks: break
    return ''.join(toks)
