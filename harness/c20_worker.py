"""C20 worker: one process = one ambient condition (hash seed, cwd, history).  stdin: JSON job; stdout: JSON result.
Compiles the history programs (results discarded), then every target; for each target: hashes of sections 1-4, of the
listing, and of two runs of the module (trace, outcome, ticks)."""
import hashlib
import json
import os
import sys

sys.path.insert(0, os.environ.get('VERIF_DIR', '/verif'))
from harness import real       # noqa: E402


def h(b):
    return hashlib.sha1(b if isinstance(b, bytes) else repr(b).encode()).hexdigest()[:16]


def one(src, o, g, inputs):
    st = real.try_compile(src, o, g, want_listing=True)
    if st[0] != 'ok':
        return {'status': st[0], 'err': type(st[1]).__name__ + ':' + str(getattr(st[1], 'loc_start', None))}
    b = st[2]
    secs = real.split_sections(b)
    out = {'status': 'ok', 'sections': [h(secs.get(i) or b'') for i in (1, 2, 3, 4)], 'listing': h(str(st[1]).encode())}
    runs = []
    for _ in range(2):
        r = real.run_bytes(b, inputs=inputs, max_ticks=20000)
        runs.append((h(r.trace), r.outcome, r.ticks))
    out['run'] = runs[0]
    out['rerun_same'] = runs[0] == runs[1]
    return out


def main():
    job = json.load(sys.stdin)
    for src in job.get('history', []):
        try:
            real.try_compile(src, job.get('hist_opt', 0), False)
        except Exception:  # noqa: BLE001
            pass
    res = [one(t['src'], t['O'], t['g'], t.get('inputs', [])) for t in job['targets']]
    json.dump({'results': res, 'hashseed': os.environ.get('PYTHONHASHSEED'), 'cwd': os.getcwd()}, sys.stdout)


if __name__ == '__main__':
    real.big_frame(main)
