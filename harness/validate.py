"""validate MANIFEST.json and evidence files against the schemas (run with python3-vt)"""
import json, sys, glob, os
import jsonschema
V = os.path.dirname(os.path.dirname(os.path.abspath(__file__)))
ms = json.load(open('/root/.vp/MANIFEST.schema.json'))
es = json.load(open('/root/.vp/EVIDENCE.schema.json'))
m = json.load(open(os.path.join(V, 'MANIFEST.json')))
jsonschema.validate(m, ms)
print('MANIFEST ok:', len(m['checks']), 'checks;', len(m.get('not_applicable', [])), 'not applicable')
ids = {json.loads(l)['id'] for l in open(os.path.join(V, 'properties.jsonl'))}
claimed = {c['property_id'] for c in m['checks']} | {c['property_id'] for c in m.get('not_applicable', [])}
print('unlisted properties:', sorted(ids - claimed))
for f in sorted(glob.glob(os.path.join(V, 'evidence', '*.json'))):
    e = json.load(open(f))
    try:
        jsonschema.validate(e, es)
        c = e['coverage']
        print(os.path.basename(f), 'ok', e['level'], e['tier'], 'obl', c.get('obligations'), 'dis', c.get('discharged'),
              'eval', c.get('evaluations'), 'dn', c.get('distinct_nontrivial'), 'viol', e.get('violations'), 'wall', e['wall_s'])
    except jsonschema.ValidationError as ex:
        print(os.path.basename(f), 'INVALID', ex.message[:300])
