"""Regenerate the two list sections of DESIGN.md from their sources of truth:
   0.4 from `git -C /repo log --grep '^fix:'`, 0.5 from known_findings.json.   python -m harness.gen_design"""
import json
import re
import subprocess


def main():
    text = open('DESIGN.md').read()
    log = subprocess.run(['git', '-C', '/repo', 'log', '--reverse', '--format=%h %s', '--grep', '^fix:'],
                         capture_output=True, text=True).stdout.strip().split('\n')
    fixes = [l.split(' ', 1) for l in log if l]
    kf = json.load(open('known_findings.json'))
    s4 = ['### 0.4 Defects repaired in /repo (one unguarded `fix:` commit each; the 2008-test suite passed after each)', '',
          f'{len(fixes)} commits, oldest first (`git -C /repo log --grep \'^fix:\'`). Each is recorded as `fixed: property=<id> <commit> <what failed>` in',
          'known_findings.json; the Lean models describe the code as repaired.', '']
    for h, m in fixes:
        s4.append(f'* `{h}` {m[len("fix:"):].strip()}')
    s4 += ['', 'One of them (`f5fabe6`) repairs a regression introduced by an earlier repair (`8f83cd2` rejected arrays of records as arguments):',
           'the repository\'s suite did not notice, the C13 check did.', '']
    s5 = ['### 0.5 Findings recorded, not repaired (known_findings.json "findings")', '',
          'Each needs a design decision or a new mechanism, not a patch; the check prints a KNOWN-FINDING line for it and still reports',
          'any other violation of the same property.', '']
    for f in kf['findings']:
        s5.append(f'* **{f["property"]}** `{f["signature"]}` - {f["what"]}')
    if not kf['findings']:
        s5 = ['### 0.5 Findings recorded, not repaired (known_findings.json "findings")', '',
              'None. The last two (C03 / C10: the partial results of a failed statement stayed on the operand stack when its error',
              'was handled) needed a new mechanism and were repaired once a sub-agent showed that a RETURN could take a partial',
              'result for its address. The repair took three forms (`b90bde6` + `bd03c23`: depth noted at statement starts;',
              '`c4671c2`: dropped at RESUME; `20d68b9`: the GOSUB return addresses are marked and the stack is cut back to the innermost',
              'one when the handler is entered - no debug info involved): the first broke C08, the second C03, and the checks said',
              'so each time. `413459d` repairs what the finding had masked. The mechanism is Model/StmtDepth.lean, its theorems',
              'are in Props/C10.lean. A listed finding prints a',
              '`KNOWN-FINDING:` line and any other violation of the same property is still reported; that machinery stays.']
    s5.append('')
    m = re.search(r'### 0\.4 .*?(?=### 0\.6 )', text, re.S)
    text = text[:m.start()] + '\n'.join(s4) + '\n' + '\n'.join(s5) + '\n' + text[m.end():]
    open('DESIGN.md', 'w').write(text)
    recorded = {x.split()[2] for x in kf['fixed']}
    missing = [h for h, _ in fixes if h not in recorded]
    print(f'{len(fixes)} fixes, {len(kf["findings"])} findings; fix commits without a fixed: entry: {missing}')


if __name__ == '__main__':
    main()
