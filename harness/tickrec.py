"""Lock-step recording of the real QvmCpu.tick for the control-skeleton model (Model/Tick.lean)."""
import contextlib
import io
import traceback

from . import real
from qvm.instrs import op_code_to_instr

REASON = {'NONE': 'none', 'INSTRUCTION': 'instr', 'TRAP': 'trap', 'END_OF_CODE': 'end', 'BREAKPOINT': 'none'}


def st_of(cpu):
    tg = cpu.trap_target
    tgt = 'off' if tg is None else ('next' if tg == 'next' else f'a{tg}')
    lt = '-' if cpu.last_trap is None else str(cpu.last_trap.value)
    return (f'{cpu.pc} {1 if cpu.halted else 0} {REASON[cpu.halt_reason.name]} {tgt} {1 if cpu.error_handler_active else 0} '
            f'{cpu.trapped_addr} {lt} {1 if cpu.received_keyboard_interrupt else 0} {cpu.prev_pc}')


def record(bcode, inputs=(), max_ticks=4000, interrupt_at=None):
    """-> dict(steps=[(request, expected answer)], host=[(cls, where, pc, op)], outcome, ticks, trace)"""
    mod = real.QModule.parse(bcode)
    impl = real.RecImpl(inputs=inputs)
    steps = []
    hosts = []
    buf = io.StringIO()
    with contextlib.redirect_stdout(buf):
        m = real.QvmMachine(mod, impl=impl)
        cpu = m.cpu
        traps = []
        orig_trap = cpu._trap

        def spy(code, **kw):
            traps.append(code.value)
            return orig_trap(code, **kw)
        cpu._trap = spy
        dbg = mod.debug_info
        n = 0
        code_len = len(mod.code)

        def stmt_at(addr):
            if dbg is None:
                return None
            try:
                s = dbg.find_stmt(addr, cpu)
            except Exception:  # noqa: BLE001
                return None
            return None if s is None else (s.start_offset, s.end_offset)
        while not cpu.halted and n < max_ticks and cpu.pc < code_len:
            if interrupt_at is not None and n == interrupt_at:
                cpu.received_keyboard_interrupt = True
            before = st_of(cpu)
            pc = cpu.pc
            # where a module-level handler would count the error: inside the module-level statement whose CALL led here
            unwind = None
            f_ = cpu.cur_frame
            while f_ is not None and f_.prev_frame is not None:
                unwind = f_.ret_addr - 1
                f_ = f_.prev_frame
            irq = cpu.received_keyboard_interrupt
            old_ta = cpu.trapped_addr
            ins = op_code_to_instr.get(mod.code[pc])
            opn = ins.op if ins else None
            size = (1 + sum(o.size for o in ins.operands)) if ins else 1
            operand = None
            if opn == 'errhand':
                operand = int.from_bytes(mod.code[pc + 1:pc + 5], 'big')
            del traps[:]
            host = None
            try:
                cpu.tick()
            except real.OutOfScript:
                break
            except Exception as e:  # noqa: BLE001
                tb = traceback.extract_tb(e.__traceback__)
                host = (type(e).__name__, f'{tb[-1].name}:{tb[-1].lineno}' if tb else '')
            n += 1
            stmt = None
            if irq:
                ik = 'plain 0'
                stmt = stmt_at(old_ta)
            elif ins is None:
                ik = 'invalid'
                stmt = stmt_at(old_ta)
            elif opn == 'errhand':
                ik = f'errhand {operand} {size}'
                stmt = stmt_at(pc)
            elif opn in ('errres', 'errresn'):
                ik = f'{opn} {size}'
                stmt = stmt_at(old_ta)
            elif opn == 'halt':
                ik = 'halt'
            elif host is not None and not traps:
                ik = f'host {host[0]} {size}'
            elif traps:
                ik = f'traps {traps[0]} {size}'
                stmt = stmt_at(pc)
            else:
                ik = f'plain {cpu.pc}'
            stmt_txt = '-' if stmt is None else f'{stmt[0]} {stmt[1]}'
            req = f'tick {code_len} {before} {ik} u{"-" if unwind is None else unwind} {stmt_txt}'
            if host is not None:
                exp = f'host {host[0]} ' + st_of(cpu)
                hosts.append((host[0], host[1], pc, opn))
            else:
                exp = 'st ' + st_of(cpu)
            steps.append((req, exp))
            if host is not None:
                break
    out = {'steps': steps, 'hosts': hosts, 'ticks': n, 'trace': impl.calls, 'stdout': buf.getvalue()[-200:]}
    if hosts:
        out['outcome'] = ('host', hosts[0][0], hosts[0][1])
    elif cpu.halted and cpu.halt_reason.name == 'TRAP':
        out['outcome'] = ('trap', cpu.last_trap.name)
    elif cpu.halted or cpu.pc >= code_len:
        out['outcome'] = ('end', cpu.halt_reason.name)
    else:
        out['outcome'] = ('timeout',)
    out['depth'] = len(cpu.stack)
    return out
